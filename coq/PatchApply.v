(** PatchApply.v — apply_patch on one well-formed operation object against RFC 6902's [eval1]:
    add, remove, replace, copy. *)
From Coq Require Import Lia ZArith List Bool Permutation.
From CJ Require Import Base Dbl Tree PointerDefs PointerProofs CompareDefs PatchDefs PatchProofs PatchRobust Rfc6902 PatchConform PatchOps.
Import ListNotations.
Local Open Scope Z_scope.

(** an operation object as a JSON parser builds it: every member named (a C string), every string a C string *)
Definition op_wf (p : node) : Prop :=
  keyed_children (n_children p) /\
  Forall (fun m => forall s, n_vstr m = Some s -> nz s) (n_children p).

Definition shallow (v : node) : Prop := Z.of_nat (node_depth v) <= c_CJSON_CIRCULAR_LIMIT.

Lemma nz_consts : nz s_op /\ nz s_path /\ nz s_value /\ nz s_from /\ nz s_add /\ nz s_remove /\ nz s_replace /\ nz s_move /\ nz s_copy /\ nz s_test.
Proof. unfold nz. repeat split; repeat constructor; discriminate. Qed.

Lemma member_lookup p name : op_wf p -> nz name ->
  get_object_item p (Some name) true = find_key (n_children p) name 0%nat.
Proof. intros [Hk _] Hn. apply get_object_item_member; assumption. Qed.

Lemma member_find p k m : member p k = Some m -> exists j, find_key (n_children p) k 0%nat = Some (j, m).
Proof. unfold member. destruct (find_key (n_children p) k 0%nat) as [[j x]|]; [|discriminate]. intro E. inversion E; subst. exists j. reflexivity. Qed.

Lemma member_nz p k m s : op_wf p -> member p k = Some m -> n_vstr m = Some s -> nz s.
Proof.
  intros [_ Hs] Hm E. destruct (member_find _ _ _ Hm) as (j & F). apply find_key_nth in F.
  rewrite Forall_forall in Hs. eapply Hs; [eapply nth_error_In; exact F | exact E].
Qed.

Lemma str_member_inv p k s : str_member p k = Some s ->
  exists m, member p k = Some m /\ is_string m = true /\ n_vstr m = Some s.
Proof.
  unfold str_member. destruct (member p k) as [m|]; [|discriminate]. destruct (is_string m) eqn:E; [|discriminate].
  intro H. exists m. repeat split; assumption.
Qed.

Definition opcode_of (o : bytes) : opcode :=
  if bytes_eqb o v_add then ADD else if bytes_eqb o v_remove then REMOVE else if bytes_eqb o v_replace then REPLACE
  else if bytes_eqb o v_move then MOVE else if bytes_eqb o v_copy then COPY else if bytes_eqb o v_test then TEST else INVALID.

Lemma decode_op p o : op_wf p -> str_member p k_op = Some o -> decode_patch_operation p true = Ok (opcode_of o).
Proof.
  intros Hw Ho. destruct (str_member_inv _ _ _ Ho) as (m & Hm & Hs & Hv).
  destruct (member_find _ _ _ Hm) as (j & F).
  unfold decode_patch_operation. rewrite member_lookup by (try exact Hw; apply nz_consts).
  change s_op with k_op. rewrite F. rewrite Hs. cbn [negb]. rewrite Hv.
  assert (Hnz : nz o) by (eapply member_nz; eassumption).
  destruct nz_consts as (_ & _ & _ & _ & N1 & N2 & N3 & N4 & N5 & N6).
  rewrite !strcmp_eqb by assumption. unfold opcode_of.
  change s_add with v_add. change s_remove with v_remove. change s_replace with v_replace.
  change s_move with v_move. change s_copy with v_copy. change s_test with v_test.
  destruct (bytes_eqb o v_add); [reflexivity|]. destruct (bytes_eqb o v_remove); [reflexivity|].
  destruct (bytes_eqb o v_replace); [reflexivity|]. destruct (bytes_eqb o v_move); [reflexivity|].
  destruct (bytes_eqb o v_copy); [reflexivity|]. destruct (bytes_eqb o v_test); reflexivity.
Qed.

(* what [op_of p = Some o] says about the members of p *)
Lemma op_of_inv p o : op_of p = Some o ->
  exists opname toks, str_member p k_op = Some opname /\ ptr_member p k_path = Some toks /\
    match o with
    | Add q v => opcode_of opname = ADD /\ q = toks /\ member p k_value = Some v
    | Remove q => opcode_of opname = REMOVE /\ q = toks
    | Replace q v => opcode_of opname = REPLACE /\ q = toks /\ member p k_value = Some v
    | Move f q => opcode_of opname = MOVE /\ q = toks /\ ptr_member p k_from = Some f
    | Copy f q => opcode_of opname = COPY /\ q = toks /\ ptr_member p k_from = Some f
    | Test q v => opcode_of opname = TEST /\ q = toks /\ member p k_value = Some v
    end.
Proof.
  unfold op_of. destruct (negb (is_object p)); [discriminate|].
  destruct (str_member p k_op) as [opname|]; [|discriminate].
  destruct (ptr_member p k_path) as [toks|]; [|discriminate].
  intro H. exists opname, toks. split; [reflexivity|]. split; [reflexivity|]. unfold opcode_of.
  destruct (bytes_eqb opname v_add).
  { destruct (member p k_value); [|discriminate]. inversion H; subst. repeat split; reflexivity. }
  destruct (bytes_eqb opname v_remove).
  { inversion H; subst. repeat split; reflexivity. }
  destruct (bytes_eqb opname v_replace).
  { destruct (member p k_value); [|discriminate]. inversion H; subst. repeat split; reflexivity. }
  destruct (bytes_eqb opname v_move).
  { destruct (ptr_member p k_from); [|discriminate]. inversion H; subst. repeat split; reflexivity. }
  destruct (bytes_eqb opname v_copy).
  { destruct (ptr_member p k_from); [|discriminate]. inversion H; subst. repeat split; reflexivity. }
  destruct (bytes_eqb opname v_test); [|discriminate].
  destruct (member p k_value); [|discriminate]. inversion H; subst. repeat split; reflexivity.
Qed.

(* the "path" member as apply_patch reads it *)
Lemma path_lookup p toks : op_wf p -> ptr_member p k_path = Some toks ->
  exists j pathn pstr, get_object_item p (Some s_path) true = Some (j, pathn) /\ is_string pathn = true /\
                       n_vstr pathn = Some pstr /\ nz pstr /\ rfc_parse_pointer pstr = Some toks.
Proof.
  intros Hw Hp. unfold ptr_member in Hp. destruct (str_member p k_path) as [pstr|] eqn:Es; [|discriminate].
  destruct (str_member_inv _ _ _ Es) as (m & Hm & Hs & Hv). destruct (member_find _ _ _ Hm) as (j & F).
  exists j, m, pstr. rewrite member_lookup by (try exact Hw; apply nz_consts). change s_path with k_path.
  repeat split; try assumption. eapply member_nz; eassumption.
Qed.

Lemma value_lookup p v : op_wf p -> member p k_value = Some v ->
  exists j, get_object_item p (Some s_value) true = Some (j, v).
Proof.
  intros Hw Hm. destruct (member_find _ _ _ Hm) as (j & F). exists j.
  rewrite member_lookup by (try exact Hw; apply nz_consts). exact F.
Qed.

Lemma parse_nil_iff pstr toks : rfc_parse_pointer pstr = Some toks -> (pstr = [] <-> toks = []).
Proof.
  intro H. split; intro E.
  - subst. cbn in H. inversion H. reflexivity.
  - destruct pstr as [|c r]; [reflexivity|]. exfalso.
    destruct (pointer_split (c :: r) toks ltac:(discriminate) H) as (i & ptoks & t & _ & _ & _ & Ht & _).
    subst toks. destruct ptoks; discriminate.
Qed.

Lemma dup_value v : dwf v -> shallow v -> exists d, cJSON_Duplicate v = Some d /\ doc_eq d v.
Proof.
  intros Hd Hs. unfold cJSON_Duplicate. destruct (dup_some v 0) as (d & E); [unfold shallow in Hs; lia|].
  exists d. split; [exact E|]. eapply doc_eq_dup; eassumption.
Qed.

(* the result of RFC "remove" is again a well-formed document *)
Lemma remove_dwf doc toks d' : dwf doc -> Rfc6902.remove doc toks = Some d' -> dwf d'.
Proof.
  intros Hd. unfold Rfc6902.remove. destruct (split_last toks) as [[pp0 t]|]; [|discriminate].
  rewrite at_location_resolve. destruct (rfc_resolve doc pp0) as [pp|]; [|discriminate].
  destruct (subtree doc pp) as [par|] eqn:S; [|discriminate].
  destruct (remove_member t par) as [par'|] eqn:R; [|discriminate]. intro E. inversion E; subst d'.
  assert (Hpar : dwf par) by (eapply dwf_subtree; eassumption).
  eapply dwf_put; [exact Hd | exact S | | ].
  - unfold remove_member in R. destruct (is_array par).
    + destruct (rfc_array_index t) as [i|]; [|discriminate].
      destruct (i <? Z.of_nat (length (n_children par))); [|discriminate]. inversion R; subst par'.
      rewrite with_children_set, <- remove_nth_del. apply dwf_remove_child. exact Hpar.
    + destruct (is_object par); [|discriminate]. destruct (find_key (n_children par) t 0%nat) as [[j x]|]; [|discriminate].
      inversion R; subst par'. rewrite with_children_set, <- remove_nth_del. apply dwf_remove_child. exact Hpar.
  - unfold remove_member in R. destruct (is_array par).
    + destruct (rfc_array_index t) as [i|]; [|discriminate].
      destruct (i <? Z.of_nat (length (n_children par))); [|discriminate]. inversion R; subst par'. destruct par; reflexivity.
    + destruct (is_object par); [|discriminate]. destruct (find_key (n_children par) t 0%nat) as [[j x]|]; [|discriminate].
      inversion R; subst par'. destruct par; reflexivity.
Qed.

(** the conclusion shared by all operations: status 0 exactly when RFC 6902 evaluation succeeds, and then
    the document is equal to the RFC's result *)
Definition conforms (doc : node) (o : op) (r : res (Z * node * node)) (p : node) : Prop :=
  exists st doc', r = Ok (st, doc', p) /\
    match eval1 doc o with
    | Some d' => st = 0 /\ doc_eq doc' d'
    | None => st <> 0
    end.

(* add / replace with a value that was duplicated, target not the root *)
Lemma add_tail (e : Z) (doc p v0 : node) pstr toks : dwf doc -> nz pstr -> pstr <> [] -> rfc_parse_pointer pstr = Some toks ->
  dwf v0 -> shallow v0 ->
  exists st doc',
    match cJSON_Duplicate v0 with
    | Some v => x <- finish_add doc v pstr true ;; (let (st, o) := x in Ok (st, o, p))
    | None => Ok (e, doc, p)
    end = Ok (st, doc', p) /\
    match Rfc6902.add doc toks v0 with Some d' => st = 0 /\ doc_eq doc' d' | None => st <> 0 end.
Proof.
  intros Hd Hnz Hne Hp Hv Hs. destruct (dup_value v0 Hv Hs) as (d & Ed & Eq). rewrite Ed.
  destruct (finish_add_conform doc d v0 pstr toks Hd Hnz Hne Hp Eq) as (st & doc' & Ef & Hr).
  rewrite Ef. cbn [bind]. exists st, doc'. split; [reflexivity|].
  destruct (Rfc6902.add doc toks v0); [exact Hr | apply Hr].
Qed.

Theorem apply_patch_add doc p toks v0 : dwf doc -> op_wf p -> op_of p = Some (Add toks v0) -> dwf v0 -> shallow v0 ->
  conforms doc (Add toks v0) (apply_patch doc p true) p.
Proof.
  intros Hd Hw Ho Hv Hs. destruct (op_of_inv _ _ Ho) as (opname & toks' & Eop & Ept & (Eo & Et & Ev)). subst toks'.
  destruct (path_lookup _ _ Hw Ept) as (j & pathn & pstr & Gp & Sp & Vp & Np & Pp).
  destruct (value_lookup _ _ Hw Ev) as (jv & Gv).
  unfold conforms, apply_patch. rewrite Gp, Sp. cbn [negb]. rewrite (decode_op _ _ Hw Eop), Eo. cbn [bind]. rewrite Vp, Gv.
  cbn [eval1]. destruct pstr as [|c0 p0].
  - (* the whole document *)
    assert (toks = []) by (apply (parse_nil_iff [] toks Pp); reflexivity). subst toks.
    cbn [is_nil andb orb]. destruct (dup_value v0 Hv Hs) as (d & Ed & Eq). rewrite Ed.
    do 2 eexists. split; [reflexivity|]. cbn. split; [reflexivity|]. apply doc_eq_unnamed. exact Eq.
  - cbn [is_nil andb orb bind].
    apply (add_tail 8 doc p v0 (c0 :: p0) toks); try assumption. discriminate.
Qed.

Theorem apply_patch_remove doc p toks : dwf doc -> op_wf p -> op_of p = Some (Remove toks) -> toks <> [] ->
  conforms doc (Remove toks) (apply_patch doc p true) p.
Proof.
  intros Hd Hw Ho Hne. destruct (op_of_inv _ _ Ho) as (opname & toks' & Eop & Ept & (Eo & Et)). subst toks'.
  destruct (path_lookup _ _ Hw Ept) as (j & pathn & pstr & Gp & Sp & Vp & Np & Pp).
  unfold conforms, apply_patch. rewrite Gp, Sp. cbn [negb]. rewrite (decode_op _ _ Hw Eop), Eo. cbn [bind]. rewrite Vp.
  destruct pstr as [|c0 p0].
  { exfalso. apply Hne. apply (parse_nil_iff [] toks Pp). reflexivity. }
  cbn [is_nil andb orb]. cbn [eval1].
  pose proof (detach_conform doc (c0 :: p0) toks Hd Np Pp) as D.
  destruct (Rfc6902.remove doc toks) as [d'|] eqn:R.
  - destruct D as (it & Ed & _). rewrite Ed. cbn [bind]. do 2 eexists. split; [reflexivity|]. split; [reflexivity|].
    apply doc_eq_refl. exact (remove_dwf _ _ _ Hd R).
  - rewrite D. cbn [bind]. do 2 eexists. split; [reflexivity|]. discriminate.
Qed.

Theorem apply_patch_replace doc p toks v0 : dwf doc -> op_wf p -> op_of p = Some (Replace toks v0) -> dwf v0 -> shallow v0 ->
  conforms doc (Replace toks v0) (apply_patch doc p true) p.
Proof.
  intros Hd Hw Ho Hv Hs. destruct (op_of_inv _ _ Ho) as (opname & toks' & Eop & Ept & (Eo & Et & Ev)). subst toks'.
  destruct (path_lookup _ _ Hw Ept) as (j & pathn & pstr & Gp & Sp & Vp & Np & Pp).
  destruct (value_lookup _ _ Hw Ev) as (jv & Gv).
  unfold conforms, apply_patch. rewrite Gp, Sp. cbn [negb]. rewrite (decode_op _ _ Hw Eop), Eo. cbn [bind]. rewrite Vp, Gv.
  cbn [eval1]. destruct pstr as [|c0 p0].
  - assert (toks = []) by (apply (parse_nil_iff [] toks Pp); reflexivity). subst toks.
    cbn [is_nil andb orb]. destruct (dup_value v0 Hv Hs) as (d & Ed & Eq). rewrite Ed.
    do 2 eexists. split; [reflexivity|]. cbn. split; [reflexivity|]. apply doc_eq_unnamed. exact Eq.
  - cbn [is_nil andb orb].
    assert (Hne : toks <> []).
    { intro E. apply (parse_nil_iff (c0 :: p0) toks Pp) in E. discriminate. }
    unfold replace. destruct toks as [|t0 ts]; [contradiction|].
    pose proof (detach_conform doc (c0 :: p0) (t0 :: ts) Hd Np Pp) as D.
    destruct (Rfc6902.remove doc (t0 :: ts)) as [d1|] eqn:R.
    + destruct D as (it & Ed & _). rewrite Ed. cbn [bind].
      apply (add_tail 8 d1 p v0 (c0 :: p0) (t0 :: ts)); try assumption; [exact (remove_dwf _ _ _ Hd R) | discriminate].
    + rewrite D. cbn [bind]. do 2 eexists. split; [reflexivity|]. discriminate.
Qed.

(** copy *)
Lemma from_lookup p ftoks : op_wf p -> ptr_member p k_from = Some ftoks ->
  exists j fromn fstr, get_object_item p (Some s_from) true = Some (j, fromn) /\ is_string fromn = true /\
                       n_vstr fromn = Some fstr /\ nz fstr /\ rfc_parse_pointer fstr = Some ftoks.
Proof.
  intros Hw Hp. unfold ptr_member in Hp. destruct (str_member p k_from) as [fstr|] eqn:Es; [|discriminate].
  destruct (str_member_inv _ _ _ Es) as (m & Hm & Hs & Hv). destruct (member_find _ _ _ Hm) as (j & F).
  exists j, m, fstr. rewrite member_lookup by (try exact Hw; apply nz_consts). change s_from with k_from.
  repeat split; try assumption. eapply member_nz; eassumption.
Qed.

Lemma subtree_depth : forall pp d x, subtree d pp = Some x -> (node_depth x <= node_depth d)%nat.
Proof.
  induction pp as [|i p IH]; intros d x S; cbn [subtree] in S.
  - inversion S; subst. lia.
  - destruct (nth_error (n_children d) i) as [c|] eqn:N; [|discriminate].
    specialize (IH _ _ S). pose proof (depth_child d c (nth_error_In _ _ N)). lia.
Qed.

Lemma whole_lookup doc fstr ftoks : dwf doc -> nz fstr -> rfc_parse_pointer fstr = Some ftoks ->
  match get_item_from_pointer doc fstr true with Some fp => subtree doc fp | None => None end = get doc ftoks.
Proof.
  intros Hd Hnz Hp.
  change (get_item_from_pointer doc fstr true) with (cJSONUtils_GetPointerCaseSensitive doc fstr).
  rewrite get_pointer_rfc; [|apply dwf_small; exact Hd | exact Hnz].
  unfold rfc6901. rewrite Hp. rewrite get_resolve. reflexivity.
Qed.

Lemma get_dwf_depth doc toks x : dwf doc -> get doc toks = Some x -> dwf x /\ (node_depth x <= node_depth doc)%nat.
Proof.
  intros Hd G. rewrite get_resolve in G. destruct (rfc_resolve doc toks) as [pp|]; [|discriminate].
  split; [eapply dwf_subtree; eassumption | eapply subtree_depth; eassumption].
Qed.

Theorem apply_patch_copy doc p ftoks toks : dwf doc -> shallow doc -> op_wf p -> op_of p = Some (Copy ftoks toks) ->
  conforms doc (Copy ftoks toks) (apply_patch doc p true) p.
Proof.
  intros Hd Hsh Hw Ho. destruct (op_of_inv _ _ Ho) as (opname & toks' & Eop & Ept & (Eo & Et & Ef)). subst toks'.
  destruct (path_lookup _ _ Hw Ept) as (j & pathn & pstr & Gp & Sp & Vp & Np & Pp).
  destruct (from_lookup _ _ Hw Ef) as (jf & fromn & fstr & Gf & Sf & Vf & Nf & Pf).
  unfold conforms, apply_patch. rewrite Gp, Sp. cbn [negb]. rewrite (decode_op _ _ Hw Eop), Eo. cbn [bind]. rewrite Vp.
  rewrite !andb_false_r. cbn [orb bind]. rewrite Gf, Sf. cbn [negb]. rewrite Vf.
  rewrite (whole_lookup doc fstr ftoks Hd Nf Pf). cbn [eval1].
  destruct (get doc ftoks) as [v0|] eqn:G; [|do 2 eexists; split; [reflexivity | discriminate]].
  destruct (get_dwf_depth _ _ _ Hd G) as [Hv Hdep].
  assert (Hs : shallow v0) by (unfold shallow in *; lia).
  destruct pstr as [|c0 p0].
  - assert (toks = []) by (apply (parse_nil_iff [] toks Pp); reflexivity). subst toks.
    destruct (dup_value v0 Hv Hs) as (d & Ed & Eq). rewrite Ed. cbn [finish_add bind].
    do 2 eexists. split; [reflexivity|]. cbn. split; [reflexivity|]. apply doc_eq_unnamed. exact Eq.
  - apply (add_tail 6 doc p v0 (c0 :: p0) toks); try assumption. discriminate.
Qed.
