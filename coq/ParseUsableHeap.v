(** ParseUsableHeap.v — property C01, the "usable result" clause, part 3: the tree the parser
    returns, SEEN AS A HEAP STRUCTURE, is a well-formed root that the tree API can walk and delete.

    THE BRIDGE, honestly.  The parser model (ParseDefs.v) returns a value-level [Tree.node] and
    COUNTS the blocks it allocates ([ParseDefs.blocks], proved equal to the ledger [pr_live] by
    [ParseSafe.parse_length_safe]); it does not build heap nodes.  The tree API (CoreDefs.v) works
    on the heap of Heap.v.  The two meet here through OUR construction [mat]: a Gallina program
    that builds the heap image of a value-level tree with the heap primitives and the library's
    own linking routine — one [alloc_node] per node (cJSON_New_Item), one [alloc_bytes] per
    valuestring and per key (the parser's string blocks), the fields stored with [st_dat], every
    child appended with [CoreDefs.add_item_to_array] (the transliteration of the C function that
    establishes exactly the link convention parse_array/parse_object establish inline:
    next forward, prev backward, head.prev = last).  What is proved about it, for every tree
    without flag bits ([plain]; every parsed tree is, by [shape_plain]) and every heap [h] that
    encodes a forest [F] ([WF h F]):

    * [mat_sim]: [mat t] runs without error, returns the fresh identity [h_next h], and the heap
      it leaves IS the canonical encoding of [F ++ [forest_of t (h_next h)]] ([Forest.WF]: link
      map = [heap_lnk_of], data map = [heap_dat_of], i.e. forward links end in NULL, prev mirrors
      next, head.prev = last, the root has no sibling links), where [forest_of t n] labels the
      nodes and string blocks of [t] with the consecutive identities n, n+1, …;
    * [owned_forest_of_count]: the number of library blocks it owns is [ParseDefs.blocks t], the
      parser model's ledger count;
    * [mat_delete]: [cJSON_Delete] of the returned root runs without error, leaves a heap that
      encodes [F] again, and the set of live library blocks is what it was before [mat] — the
      ledger returns to its state before the parse;
    * [mat_sim] also tracks the string blocks: [strs_of t n] lists them with their contents (the
      zero-terminated bytes), all present in the result heap, and earlier strings are untouched
      ([str_frame]) — ParseUsableWalk.v uses this to read the tree back from the heap.

    What is NOT proved: that the C parser's inline linking (parse_array / parse_object set next/prev
    as they go and head.prev at the end) produces this same heap for every tree; [mat] links with
    add_item_to_array instead.  On the non-vacuity example the two constructions are computed to
    give identical heaps (ParseUsableAll.mat_agrees_with_inline_linking_on_example), and the
    implementation side of the check walks, prints and deletes every returned tree under ASan. *)
From CJ Require Import Base Dbl Tree ParseDefs Heap Forest ForestLemmas CoreSpec CoreDefs CoreRefineBase
  CoreRefine CoreRefineDelete CoreRefineAddObject CoreRefineHistory.
From CJ.gen Require Import Constants.
From stdpp Require Import gmap.
Implicit Types (h : heap) (F : forest) (p x y i b : positive) (d : rdata).

(** * the heap image of a value-level tree *)

Definition nf : nat -> bool := fun _ => false.          (* no allocation fails *)

Definition alloc_opt_str (s : option bytes) : M ptr :=
  match s with None => ret None | Some s => alloc_bytes nf (s ++ [0%Z]) end.

Fixpoint link_children (m : node -> M ptr) (p : ptr) (l : list node) : M unit :=
  match l with
  | [] => ret tt
  | c :: r => cp <~ m c ;; add_item_to_array p cp ;;; link_children m p r
  end.

Fixpoint mat (n : node) : M ptr :=
  match n with
  | Node ty vs vi vd key ch =>
      p <~ alloc_node nf ;;
      vsp <~ alloc_opt_str vs ;;
      kp <~ alloc_opt_str key ;;
      st_dat p (mkND ty vsp vi vd kp None) ;;;
      (fix go (l : list node) : M unit :=
         match l with
         | [] => ret tt
         | c :: r => cp <~ mat c ;; add_item_to_array p cp ;;; go r
         end) ch ;;;
      ret p
  end.

Lemma mat_children_eq (p : ptr) ch :
  (fix go (l : list node) : M unit :=
     match l with
     | [] => ret tt
     | c :: r => cp <~ mat c ;; add_item_to_array p cp ;;; go r
     end) ch = link_children mat p ch.
Proof. induction ch as [|c r IH]; [done|]. cbn [link_children]. by rewrite IH. Qed.

Lemma bindM_ext {A B} (m : M A) (f g : A -> M B) h : (forall a h', f a h' = g a h') -> bindM m f h = bindM m g h.
Proof. intros H. unfold bindM. destruct (m h) as [[a h']|e]; [apply H|done]. Qed.

Lemma mat_unfold ty vs vi vd key ch h :
  mat (Node ty vs vi vd key ch) h =
    (p <~ alloc_node nf ;;
     vsp <~ alloc_opt_str vs ;;
     kp <~ alloc_opt_str key ;;
     st_dat p (mkND ty vsp vi vd kp None) ;;;
     link_children mat p ch ;;;
     ret p) h.
Proof.
  change (mat (Node ty vs vi vd key ch)) with
    (p <~ alloc_node nf ;;
     vsp <~ alloc_opt_str vs ;;
     kp <~ alloc_opt_str key ;;
     st_dat p (mkND ty vsp vi vd kp None) ;;;
     (fix go (l : list node) : M unit :=
        match l with
        | [] => ret tt
        | c :: r => cp <~ mat c ;; add_item_to_array p cp ;;; go r
        end) ch ;;;
     ret p).
  apply bindM_ext; intros p h1. apply bindM_ext; intros vsp h2. apply bindM_ext; intros kp h3.
  apply bindM_ext; intros u h4.
  by rewrite mat_children_eq.
Qed.

(** * the forest it encodes: consecutive identities in allocation order *)

Definition opt_cnt {A} (o : option A) (n : positive) : positive :=
  match o with Some _ => Pos.succ n | None => n end.
Definition opt_id {A} (o : option A) (n : positive) : ptr :=
  match o with Some _ => Some n | None => None end.

(** number of blocks of a tree, as a positive number *)
Fixpoint nblocks (n : node) : positive :=
  match n with
  | Node _ vs _ _ k ch =>
      (fix go l := match l with [] => opt_cnt k (opt_cnt vs 1) | c :: r => nblocks c + go r end)%positive ch
  end.
Definition nblocks_list (l : list node) (base : positive) : positive :=
  fold_right (fun c a => (nblocks c + a)%positive) base l.

Fixpoint map_acc (f : node -> positive -> tree) (l : list node) (m : positive) : list tree :=
  match l with [] => [] | c :: r => f c m :: map_acc f r (m + nblocks c)%positive end.

Fixpoint forest_of (t : node) (n : positive) : tree :=
  match t with
  | Node ty vs vi vd key ch =>
      let n1 := Pos.succ n in
      let n2 := opt_cnt vs n1 in
      let n3 := opt_cnt key n2 in
      T n (mkRD ty (opt_id vs n1) vi vd (opt_id key n2) None)
        ((fix go (l : list node) (m : positive) : list tree :=
            match l with [] => [] | c :: r => forest_of c m :: go r (m + nblocks c)%positive end) ch n3)
  end.

Lemma forest_of_unfold ty vs vi vd key ch n :
  forest_of (Node ty vs vi vd key ch) n =
    let n1 := Pos.succ n in
    let n2 := opt_cnt vs n1 in
    let n3 := opt_cnt key n2 in
    T n (mkRD ty (opt_id vs n1) vi vd (opt_id key n2) None) (map_acc forest_of ch n3).
Proof.
  change (forest_of (Node ty vs vi vd key ch) n) with
    (T n (mkRD ty (opt_id vs (Pos.succ n)) vi vd (opt_id key (opt_cnt vs (Pos.succ n))) None)
       ((fix go (l : list node) (m : positive) : list tree :=
           match l with [] => [] | c :: r => forest_of c m :: go r (m + nblocks c)%positive end) ch
          (opt_cnt key (opt_cnt vs (Pos.succ n))))).
  cbv zeta. f_equal. generalize (opt_cnt key (opt_cnt vs (Pos.succ n))).
  induction ch as [|c r IH]; intros m; [done|]. cbn [map_acc]. by rewrite IH.
Qed.

(** no reference / constant-key flag anywhere: every string is owned (what the parser builds) *)
Fixpoint plain (n : node) : bool :=
  match n with
  | Node ty _ _ _ _ ch =>
      (Z.land ty c_cJSON_IsReference =? 0)%Z && (Z.land ty c_cJSON_StringIsConst =? 0)%Z && forallb plain ch
  end.

(** the string blocks of the image with their contents (the parser's zero-terminated copies) *)
Definition opt_entry (o : option bytes) (n : positive) : list (positive * bytes) :=
  match o with Some s => [(n, s ++ [0%Z])] | None => [] end.
Fixpoint strs_list (f : node -> positive -> list (positive * bytes)) (l : list node) (m : positive)
    : list (positive * bytes) :=
  match l with [] => [] | c :: r => f c m ++ strs_list f r (m + nblocks c)%positive end.
Fixpoint strs_of (t : node) (n : positive) : list (positive * bytes) :=
  match t with
  | Node ty vs vi vd key ch =>
      let n1 := Pos.succ n in
      let n2 := opt_cnt vs n1 in
      let n3 := opt_cnt key n2 in
      opt_entry vs n1 ++ opt_entry key n2 ++
      (fix go (l : list node) (m : positive) : list (positive * bytes) :=
         match l with [] => [] | c :: r => strs_of c m ++ go r (m + nblocks c)%positive end) ch n3
  end.

Lemma strs_of_unfold ty vs vi vd key ch n :
  strs_of (Node ty vs vi vd key ch) n =
    let n1 := Pos.succ n in
    let n2 := opt_cnt vs n1 in
    let n3 := opt_cnt key n2 in
    opt_entry vs n1 ++ opt_entry key n2 ++ strs_list strs_of ch n3.
Proof.
  change (strs_of (Node ty vs vi vd key ch) n) with
    (opt_entry vs (Pos.succ n) ++ opt_entry key (opt_cnt vs (Pos.succ n)) ++
     (fix go (l : list node) (m : positive) : list (positive * bytes) :=
        match l with [] => [] | c :: r => strs_of c m ++ go r (m + nblocks c)%positive end) ch
       (opt_cnt key (opt_cnt vs (Pos.succ n)))).
  cbv zeta. do 2 f_equal. generalize (opt_cnt key (opt_cnt vs (Pos.succ n))).
  induction ch as [|c r IH]; intros m; [done|]. cbn [strs_list]. by rewrite IH.
Qed.

Lemma nblocks_unfold ty vs vi vd k ch :
  nblocks (Node ty vs vi vd k ch) = nblocks_list ch (opt_cnt k (opt_cnt vs 1%positive)).
Proof.
  change (nblocks (Node ty vs vi vd k ch)) with
    ((fix go l := match l with [] => opt_cnt k (opt_cnt vs 1) | c :: r => nblocks c + go r end)%positive ch).
  induction ch as [|c r IH]; [done|]. unfold nblocks_list in *. cbn [fold_right]. by rewrite IH.
Qed.

Lemma nblocks_list_add l (a b : positive) : nblocks_list l (a + b)%positive = (a + nblocks_list l b)%positive.
Proof. unfold nblocks_list. induction l as [|c r IH]; [done|]. cbn [fold_right]. rewrite IH. lia. Qed.

Lemma nblocks_list_ge l (a : positive) : (a <= nblocks_list l a)%positive.
Proof. unfold nblocks_list. induction l as [|c r IH]; cbn [fold_right]; lia. Qed.

Lemma blocks_unfold ty vs vi vd k ch :
  blocks (Node ty vs vi vd k ch) =
  (1 + (match vs with Some _ => 1 | None => 0 end) + (match k with Some _ => 1 | None => 0 end) + blocks_list ch)%Z.
Proof.
  change (blocks (Node ty vs vi vd k ch)) with
    (1 + (match vs with Some _ => 1 | None => 0 end) + (match k with Some _ => 1 | None => 0 end)
     + (fix go l := match l with [] => 0 | c :: r => blocks c + go r end) ch)%Z.
  reflexivity.
Qed.

(** the two counts agree *)
Lemma nblocks_blocks : forall t, Zpos (nblocks t) = blocks t.
Proof.
  induction t as [ty vs vi vd k ch IH] using node_ind'.
  rewrite nblocks_unfold, blocks_unfold.
  assert (H : forall base, Zpos (nblocks_list ch base) = (blocks_list ch + Zpos base)%Z).
  { induction IH as [|c r Hc _ IHr]; intros base; [done|].
    unfold nblocks_list, blocks_list in *. cbn [fold_right]. rewrite Pos2Z.inj_add, Hc, IHr. lia. }
  rewrite H. destruct vs, k; cbn [opt_cnt]; lia.
Qed.

(** * small facts about the primitives *)

(* equalities / memberships of unions of opaque sets (never unfolds [lib_live], [owned], ...) *)
Ltac usets :=
  try (apply set_eq; intros ?);
  rewrite ?elem_of_union, ?elem_of_list_to_set, ?elem_of_app, ?elem_of_cons, ?elem_of_nil, ?elem_of_singleton,
          ?elem_of_empty;
  tauto.

Lemma run_alloc_node h : alloc_node nf h = Ret (Some (h_next h), alloc_typed h 0).
Proof. reflexivity. Qed.
Lemma run_alloc_bytes h c : alloc_bytes nf c h = Ret (Some (h_next h), alloc_str h c).
Proof. reflexivity. Qed.

Lemma run_st_dat_plain h i nd : i ∈ h_live h -> is_Some (h_dat h !! i) ->
  st_dat (Some i) nd h = Ret (tt, set_dat h (<[i := nd]> (h_dat h))).
Proof. intros H1 H2. rewrite <- (upd_maps_id h) at 1. by rewrite run_st_dat. Qed.

(** the per-block part of [WF]: live, owned by the library, below the allocation frontier *)
Definition good h b : Prop := b ∈ h_live h /\ h_own h !! b = Some Lib /\ (b < h_next h)%positive.

Lemma WF_good h F b : WF h F -> b ∈ owned F -> good h b.
Proof. intros W Hb. split_and!; [by apply (wf_owned_live _ _ W)|by apply (wf_owned_lib _ _ W)|by apply (wf_fresh _ _ W)]. Qed.

Lemma lib_live_alloc (h : heap) L D S tr rq :
  lib_live (mkHeap L D S (<[h_next h := Lib]> (h_own h)) ({[h_next h]} ∪ h_live h) (Pos.succ (h_next h)) rq (h_hooks h) tr)
  = {[h_next h]} ∪ lib_live h.
Proof.
  apply set_eq. intros b. unfold lib_live. cbn. rewrite elem_of_union, !elem_of_filter, elem_of_union, elem_of_singleton.
  destruct (decide (b = h_next h)) as [->|Hne].
  - rewrite lookup_insert. tauto.
  - rewrite lookup_insert_ne by done. tauto.
Qed.

(** string blocks: what an earlier state holds below its allocation frontier is still there *)
Definition str_frame h (h' : heap) : Prop :=
  forall b (s : bytes), h_str h !! b = Some s -> (b < h_next h)%positive -> h_str h' !! b = Some s.
Definition strs_in (h' : heap) (l : list (positive * bytes)) : Prop :=
  forall b (s : bytes), (b, s) ∈ l -> h_str h' !! b = Some s /\ (b < h_next h')%positive.

Lemma str_frame_same h (h' : heap) : h_str h' = h_str h -> str_frame h h'.
Proof. intros E b s H _. by rewrite E. Qed.
Lemma str_frame_trans h1 h2 h3 : (h_next h1 <= h_next h2)%positive -> str_frame h1 h2 -> str_frame h2 h3 -> str_frame h1 h3.
Proof. intros Hle F1 F2 b s H Hb. apply F2; [by apply F1|lia]. Qed.
Lemma strs_in_frame h1 h2 l : (h_next h1 <= h_next h2)%positive -> str_frame h1 h2 -> strs_in h1 l -> strs_in h2 l.
Proof. intros Hle F1 S b s Hin. destruct (S b s Hin) as [H1 H2]. split; [by apply F1|lia]. Qed.
Lemma strs_in_app h l1 l2 : strs_in h l1 -> strs_in h l2 -> strs_in h (l1 ++ l2).
Proof. intros S1 S2 b s Hin. apply elem_of_app in Hin as [Hin|Hin]; [by apply S1|by apply S2]. Qed.

Lemma alloc_opt_str_spec s h :
  exists h2, alloc_opt_str s h = Ret (opt_id s (h_next h), h2) /\
    h_next h2 = opt_cnt s (h_next h) /\ h_lnk h2 = h_lnk h /\ h_dat h2 = h_dat h /\
    (forall F, WF h F -> WF h2 F) /\
    (forall b, good h b -> good h2 b) /\
    (forall b, opt_id s (h_next h) = Some b -> good h2 b) /\
    lib_live h2 = lib_live h ∪ list_to_set (opt_list (opt_id s (h_next h))) /\
    str_frame h h2 /\ strs_in h2 (opt_entry s (h_next h)).
Proof.
  destruct s as [s|]; cbn [alloc_opt_str opt_id opt_cnt opt_list opt_entry].
  - exists (alloc_str h (s ++ [0%Z])). split; [apply run_alloc_bytes|]. split_and!; try done.
    + intros F. apply WF_alloc_str.
    + intros b (G1 & G2 & G3). split_and!; cbn.
      * apply elem_of_union; by right.
      * rewrite lookup_insert_ne; [done|]. intros <-. lia.
      * lia.
    + intros b [= <-]. split_and!; cbn; [apply elem_of_union; left; by apply elem_of_singleton|by rewrite lookup_insert|lia].
    + unfold alloc_str. rewrite lib_live_alloc. generalize (lib_live h). intros X. usets.
    + intros b s0 Hs Hb. cbn. rewrite lookup_insert_ne; [done|]. intros <-. lia.
    + intros b s0 Hin. apply elem_of_list_singleton in Hin. injection Hin as -> ->. cbn. rewrite lookup_insert. split; [done|lia].
  - exists h. split_and!; try done.
    + cbn. generalize (lib_live h). intros X. usets.
    + by apply str_frame_same.
    + intros b s0 Hin. by apply elem_of_nil in Hin.
Qed.

(** * forest bookkeeping for a fresh root *)

Lemma tid_forest_of t n : tid (forest_of t n) = n.
Proof. destruct t. by rewrite forest_of_unfold. Qed.

Lemma owned_app F G : owned (F ++ G) = owned F ++ owned G.
Proof. unfold owned. by rewrite flat_app, owned_fl_app. Qed.
Lemma owned_singleton i d cs : owned [T i d cs] = i :: owned_strs d ++ owned cs.
Proof. unfold owned. rewrite flat_singleton, flat_t_unfold, owned_fl_cons. reflexivity. Qed.
Lemma owned_cons t G : owned (t :: G) = owned [t] ++ owned G.
Proof. apply (owned_app [t] G). Qed.

Lemma find_root_app_fresh x G t : x ∉ roots G -> tid t = x -> find_root x (G ++ [t]) = Some t.
Proof.
  intros HG Ht. unfold find_root. induction G as [|g G IH]; cbn.
  - by rewrite bool_decide_eq_true_2.
  - unfold roots in HG. rewrite fmap_cons in HG. apply not_elem_of_cons in HG as [H1 H2].
    rewrite bool_decide_eq_false_2 by done. by apply IH.
Qed.
Lemma remove_root_app_fresh x G t : x ∉ roots G -> tid t = x -> remove_root x (G ++ [t]) = G.
Proof.
  intros HG Ht. unfold remove_root. rewrite List.filter_app. fold (remove_root x G). rewrite remove_root_notin by done.
  cbn. rewrite bool_decide_eq_true_2 by done. cbn. by rewrite app_nil_r.
Qed.
Lemma set_children_app_last p d cs cs' F : p ∉ ids F ->
  set_children p cs' (F ++ [T p d cs]) = F ++ [T p d cs'].
Proof.
  intros Hp. unfold set_children. rewrite fmap_app. fold (set_children p cs' F). rewrite set_children_notin by done.
  cbn. by rewrite decide_True.
Qed.

Lemma fresh_not_id h F : WF h F -> h_next h ∉ ids F.
Proof. intros W Hin. exact (Pos.lt_irrefl _ (WF_ids_fresh _ _ _ W Hin)). Qed.

(** * the simulation *)

Definition mat_post (t : node) h F (h' : heap) : Prop :=
  let tr := forest_of t (h_next h) in
  WF h' (F ++ [tr]) /\ h_next h' = (h_next h + nblocks t)%positive /\
  lib_live h' = lib_live h ∪ list_to_set (owned [tr]) /\
  str_frame h h' /\ strs_in h' (strs_of t (h_next h)).

Definition mat_ok (t : node) : Prop :=
  forall h F, plain t = true -> WF h F ->
    exists h', mat t h = Ret (Some (h_next h), h') /\ mat_post t h F h'.

Lemma plain_unfold ty vs vi vd key ch :
  plain (Node ty vs vi vd key ch) =
  (Z.land ty c_cJSON_IsReference =? 0)%Z && (Z.land ty c_cJSON_StringIsConst =? 0)%Z && forallb plain ch.
Proof. reflexivity. Qed.

(** the children loop: [done] are the children already linked below [p] *)
Lemma link_children_sim cs : Forall mat_ok cs -> forallb plain cs = true ->
  forall (done : list tree) h F p d, WF h (F ++ [T p d done]) -> p ∉ ids F -> is_ref d = false ->
  exists h', link_children mat (Some p) cs h = Ret (tt, h') /\
    WF h' (F ++ [T p d (done ++ map_acc forest_of cs (h_next h))]) /\
    h_next h' = nblocks_list cs (h_next h) /\
    lib_live h' = lib_live h ∪ list_to_set (owned (map_acc forest_of cs (h_next h))) /\
    str_frame h h' /\ strs_in h' (strs_list strs_of cs (h_next h)).
Proof.
  induction 1 as [|c r Hc _ IH]; intros Hpl done h F p d W Hp Href.
  - exists h. cbn [link_children map_acc nblocks_list fold_right strs_list]. rewrite app_nil_r. split_and!; try done.
    + change (owned []) with (@nil positive). generalize (lib_live h). intros X. usets.
    + by apply str_frame_same.
    + intros b s Hin. by apply elem_of_nil in Hin.
  - cbn [forallb] in Hpl. apply andb_true_iff in Hpl as [Hpc Hpr].
    set (F1 := F ++ [T p d done]) in *. set (x := h_next h).
    destruct (Hc h F1 Hpc W) as (ha & Hrun & Wa & Hna & Hla & Hfa & Hsa). fold x in Hrun, Wa, Hna, Hla, Hsa.
    set (tc := forest_of c x) in *.
    assert (Htid : tid tc = x) by apply tid_forest_of.
    assert (HpF1 : p ∈ ids F1).
    { unfold F1. rewrite ids_app. apply elem_of_app. right. rewrite ids_cons, ids_t_unfold. by left. }
    assert (Hpx : p <> x).
    { intros ->. by apply (fresh_not_id _ _ W). }
    assert (Hxr : x ∉ roots F1).
    { intros Hin. apply (fresh_not_id _ _ W). by apply roots_subseteq_ids. }
    assert (ND1 : NoDup (ids F1)) by apply W.
    assert (Hfr : find_root x (F1 ++ [tc]) = Some tc) by (by apply find_root_app_fresh).
    assert (Hrm : remove_root x (F1 ++ [tc]) = F1) by (by apply remove_root_app_fresh).
    assert (Hft : find_tree p (remove_root x (F1 ++ [tc])) = Some (T p d done)).
    { rewrite Hrm. apply find_tree_unique; [done| |done].
      unfold F1. rewrite nodes_app. apply elem_of_app. right. rewrite nodes_cons. apply elem_of_app. left. apply nodes_t_self. }
    destruct (add_item_to_array_sim ha (F1 ++ [tc]) p x tc d done Wa Hpx Hfr Hft Href) as (_ & Hadd & Wb).
    rewrite Hrm in Hadd, Wb. unfold F1 in Hadd, Wb. rewrite (set_children_app_last p d done (done ++ [tc]) F Hp) in Hadd, Wb.
    set (hb := upd_maps ha _ _) in *.
    destruct (IH Hpr (done ++ [tc]) hb F p d Wb Hp Href) as (h' & Hrun' & W' & Hn' & Hl' & Hf' & Hs').
    assert (Hnb : h_next hb = (x + nblocks c)%positive) by exact Hna.
    rewrite Hnb in W', Hn', Hl', Hs'.
    assert (Hfb : str_frame ha hb) by (by apply str_frame_same).
    assert (Hle1 : (h_next h <= h_next ha)%positive) by (rewrite Hna; fold x; lia).
    assert (Hle2 : (h_next hb <= h_next h')%positive) by (rewrite Hn', Hnb; apply nblocks_list_ge).
    exists h'. split_and!.
    + cbn [link_children]. rewrite (bindM_Ret _ _ _ _ _ Hrun). rewrite (bindM_Ret _ _ _ _ _ Hadd). exact Hrun'.
    + cbn [map_acc]. fold x. fold tc. by rewrite <- app_assoc in W'.
    + rewrite Hn'. cbn [nblocks_list fold_right]. fold (nblocks_list r x).
      rewrite (Pos.add_comm x), nblocks_list_add. done.
    + rewrite Hl'. cbn [map_acc]. fold x. fold tc. rewrite (owned_cons tc).
      change (lib_live hb) with (lib_live ha). rewrite Hla. rewrite list_to_set_app_L.
      generalize (lib_live h), (owned [tc]), (owned (map_acc forest_of r (x + nblocks c)%positive)). intros X Y Z. usets.
    + apply (str_frame_trans h ha h' Hle1 Hfa). intros b s Hb Hlt. by apply Hf'.
    + cbn [strs_list]. fold x. apply strs_in_app; [|exact Hs'].
      apply (strs_in_frame hb h'); [done|done|]. intros b s Hin. exact (Hsa b s Hin).
Qed.

Lemma is_ref_false ty a1 a2 a3 a4 a5 : (Z.land ty c_cJSON_IsReference =? 0)%Z = true -> is_ref (mkRD ty a1 a2 a3 a4 a5) = false.
Proof. intros H. unfold is_ref. cbn. by rewrite H. Qed.
Lemma is_const_false ty a1 a2 a3 a4 a5 : (Z.land ty c_cJSON_StringIsConst =? 0)%Z = true -> is_const (mkRD ty a1 a2 a3 a4 a5) = false.
Proof. intros H. unfold is_const. cbn. by rewrite H. Qed.

Theorem mat_sim : forall t, mat_ok t.
Proof.
  induction t as [ty vs vi vd key ch IH] using node_ind'. intros h F Hpl W.
  rewrite plain_unfold in Hpl. apply andb_true_iff in Hpl as [Hpl Hplc]. apply andb_true_iff in Hpl as [Hf1 Hf2].
  set (n0 := h_next h).
  (* the node *)
  pose proof (WF_alloc_typed h F 0 W) as W1. unfold spec_create in W1. fold n0 in W1.
  set (h1 := alloc_typed h 0) in *.
  assert (Hl1 : lib_live h1 = {[n0]} ∪ lib_live h) by apply lib_live_alloc.
  (* the strings *)
  destruct (alloc_opt_str_spec vs h1) as (h2 & R2 & N2 & L2 & D2 & WF2 & G2 & GN2 & LL2 & SF2 & SI2).
  destruct (alloc_opt_str_spec key h2) as (h3 & R3 & N3 & L3 & D3 & WF3 & G3 & GN3 & LL3 & SF3 & SI3).
  change (h_next h1) with (Pos.succ n0) in *. rewrite N2 in *.
  set (n1 := Pos.succ n0) in *. set (n2 := opt_cnt vs n1) in *. set (n3 := opt_cnt key n2) in *.
  set (d0 := rd_typed 0) in *.
  set (d := mkRD ty (opt_id vs n1) vi vd (opt_id key n2) None).
  pose proof (WF3 _ (WF2 _ W1)) as W3.
  (* the fields *)
  assert (Hlive0 : n0 ∈ h_live h3).
  { apply (WF_ids_live _ _ _ W3). rewrite ids_app. apply elem_of_app. right. rewrite ids_cons, ids_t_unfold. by left. }
  assert (Hdat0 : is_Some (h_dat h3 !! n0)).
  { rewrite D3, D2. unfold h1, alloc_typed. cbn. rewrite lookup_insert. by eexists. }
  set (h4 := set_dat h3 (<[n0 := mkND ty (opt_id vs n1) vi vd (opt_id key n2) None]> (h_dat h3))).
  assert (R4 : st_dat (Some n0) (mkND ty (opt_id vs n1) vi vd (opt_id key n2) None) h3 = Ret (tt, h4))
    by (by apply run_st_dat_plain).
  assert (Hfl : forall dd, flat (F ++ [T n0 dd []]) ≡ₚ (n0, dd, []) :: flat F).
  { intros dd. rewrite flat_app, flat_singleton. cbn. by rewrite <- Permutation_cons_append. }
  assert (Hstrs : owned_strs d = opt_list (opt_id vs n1) ++ opt_list (opt_id key n2)).
  { unfold owned_strs. unfold d. rewrite is_ref_false, is_const_false by done. reflexivity. }
  assert (Hown4 : owned (F ++ [T n0 d []]) = owned F ++ n0 :: opt_list (opt_id vs n1) ++ opt_list (opt_id key n2)).
  { rewrite owned_app, owned_singleton, Hstrs. cbn. by rewrite app_nil_r. }
  assert (Hown1 : owned (F ++ [T n0 d0 []]) = owned F ++ [n0]).
  { rewrite owned_app, owned_singleton. unfold d0. by rewrite owned_strs_typed. }
  assert (Hn0F : n0 ∉ owned F).
  { intros Hin. exact (Pos.lt_irrefl _ (wf_fresh _ _ W _ Hin)). }
  assert (HltF : forall b, b ∈ owned F -> (b < n0)%positive) by (intros b Hb; by apply (wf_fresh _ _ W)).
  assert (W4 : WF h4 (F ++ [T n0 d []])).
  { apply (WF_set_data h3 h4 (F ++ [T n0 d0 []]) (F ++ [T n0 d []]) n0 d0 d [] (flat F) W3 (Hfl d0) (Hfl d)).
    - by rewrite !roots_app.
    - done.
    - done.
    - rewrite Hown4. apply NoDup_app. split_and!.
      + apply W.
      + intros b Hb Hin. pose proof (HltF b Hb) as Hlt. apply elem_of_cons in Hin as [->|Hin]; [lia|].
        apply elem_of_app in Hin as [Hin|Hin].
        * destruct vs; cbn in Hin; [|by apply elem_of_nil in Hin]. apply elem_of_list_singleton in Hin. unfold n1 in Hin. lia.
        * destruct key; cbn in Hin; [|by apply elem_of_nil in Hin]. apply elem_of_list_singleton in Hin.
          unfold n2, n1 in Hin. destruct vs; cbn in Hin; lia.
      + apply NoDup_cons. split.
        * intros Hin. apply elem_of_app in Hin as [Hin|Hin].
          -- destruct vs; cbn in Hin; [|by apply elem_of_nil in Hin]. apply elem_of_list_singleton in Hin. unfold n1 in Hin. lia.
          -- destruct key; cbn in Hin; [|by apply elem_of_nil in Hin]. apply elem_of_list_singleton in Hin.
             unfold n2, n1 in Hin. destruct vs; cbn in Hin; lia.
        * destruct vs, key; cbn; try apply NoDup_nil_2; try apply NoDup_singleton.
          apply NoDup_cons. split; [|apply NoDup_singleton]. intros Hin. apply elem_of_list_singleton in Hin.
          unfold n2, n1 in Hin. cbn in Hin. lia.
    - intros b Hb. change (b ∈ h_live h3 /\ h_own h3 !! b = Some Lib /\ (b < h_next h3)%positive). fold (good h3 b).
      rewrite Hown4 in Hb. apply elem_of_app in Hb as [Hb|Hb].
      + apply (WF_good _ _ _ W3). rewrite Hown1. apply elem_of_app. by left.
      + apply elem_of_cons in Hb as [->|Hb].
        * apply (WF_good _ _ _ W3). rewrite Hown1. apply elem_of_app. right. by left.
        * apply elem_of_app in Hb as [Hb|Hb].
          -- apply G3, GN2. destruct vs; cbn in Hb |- *; [|by apply elem_of_nil in Hb]. apply elem_of_list_singleton in Hb. by subst.
          -- apply GN3. destruct key; cbn in Hb |- *; [|by apply elem_of_nil in Hb]. apply elem_of_list_singleton in Hb. by subst.
    - split; cbn; [done|]. intros Hne. done. }
  (* the children *)
  assert (Hp0 : n0 ∉ ids F) by (by apply fresh_not_id).
  assert (Href : is_ref d = false) by (by apply is_ref_false).
  destruct (link_children_sim ch IH Hplc [] h4 F n0 d W4 Hp0 Href) as (h5 & R5 & W5 & N5 & L5 & SF5 & SI5).
  assert (SF01 : str_frame h h1) by (by apply str_frame_same).
  assert (SF34 : str_frame h3 h4) by (by apply str_frame_same).
  change (h_next h4) with (h_next h3) in *. rewrite N3 in *. fold n3 in W5, N5, L5, SI5.
  assert (Hle12 : (n1 <= n2)%positive) by (unfold n2; destruct vs; cbn; lia).
  assert (Hle23 : (n2 <= n3)%positive) by (unfold n3; destruct key; cbn; lia).
  assert (Hle35 : (n3 <= h_next h5)%positive) by (rewrite N5; apply nblocks_list_ge).
  exists h5. split.
  - rewrite mat_unfold. rewrite (bindM_Ret _ _ _ _ _ (run_alloc_node h)). fold h1. fold n0.
    rewrite (bindM_Ret _ _ _ _ _ R2). rewrite (bindM_Ret _ _ _ _ _ R3). fold n1. fold n2.
    rewrite (bindM_Ret _ _ _ _ _ R4). rewrite (bindM_Ret _ _ _ _ _ R5). reflexivity.
  - unfold mat_post. fold n0. rewrite forest_of_unfold. cbv zeta. fold n1. fold n2. fold n3. fold d.
    split_and!.
    + exact W5.
    + rewrite N5, nblocks_unfold. rewrite <- nblocks_list_add. f_equal.
      unfold n3, n2, n1. destruct vs, key; cbn [opt_cnt]; lia.
    + rewrite L5. change (lib_live h4) with (lib_live h3). rewrite LL3, LL2, Hl1.
      rewrite owned_singleton, Hstrs. rewrite list_to_set_cons, !list_to_set_app_L.
      generalize (lib_live h), (owned (map_acc forest_of ch n3)). intros X Y. usets.
    + apply (str_frame_trans h h1 h5); [cbn; lia|done|].
      apply (str_frame_trans h1 h2 h5); [rewrite N2; fold n1 n2; done|done|].
      apply (str_frame_trans h2 h3 h5); [rewrite N2, N3; fold n1 n2 n3; done|done|].
      apply (str_frame_trans h3 h4 h5); [done|done|]. intros b s Hb Hlt. apply SF5; [done|]. exact Hlt.
    + rewrite strs_of_unfold. cbv zeta. fold n1 n2 n3.
      assert (SF45 : str_frame h4 h5) by (intros b s Hb Hlt; by apply SF5).
      assert (N4 : h_next h4 = n3) by (change (h_next h4) with (h_next h3); exact N3).
      apply strs_in_app; [|apply strs_in_app; [|exact SI5]].
      * apply (strs_in_frame h4 h5); [rewrite N4; done|done|].
        apply (strs_in_frame h3 h4); [done|done|].
        apply (strs_in_frame h2 h3); [rewrite N2, N3; fold n1 n2 n3; done|done|]. exact SI2.
      * apply (strs_in_frame h4 h5); [rewrite N4; done|done|].
        apply (strs_in_frame h3 h4); [done|done|]. exact SI3.
Qed.

(** * the number of blocks the image owns is the parser's ledger count *)

Lemma owned_strs_plain ty a1 a2 a3 vsp kp :
  (Z.land ty c_cJSON_IsReference =? 0)%Z = true -> (Z.land ty c_cJSON_StringIsConst =? 0)%Z = true ->
  owned_strs (mkRD ty vsp a1 a2 kp a3) = opt_list vsp ++ opt_list kp.
Proof. intros H1 H2. unfold owned_strs. by rewrite is_ref_false, is_const_false. Qed.

Lemma owned_forest_of_count : forall t n, plain t = true ->
  Z.of_nat (length (owned [forest_of t n])) = blocks t.
Proof.
  induction t as [ty vs vi vd key ch IH] using node_ind'. intros n Hpl.
  rewrite plain_unfold in Hpl. apply andb_true_iff in Hpl as [Hpl Hplc]. apply andb_true_iff in Hpl as [Hf1 Hf2].
  rewrite forest_of_unfold, blocks_unfold. cbv zeta. rewrite owned_singleton, owned_strs_plain by done.
  assert (H : forall m, Z.of_nat (length (owned (map_acc forest_of ch m))) = blocks_list ch).
  { clear -IH Hplc. induction IH as [|c r Hc _ IHr]; intros m; [done|].
    cbn [forallb] in Hplc. apply andb_true_iff in Hplc as [Hp1 Hp2].
    cbn [map_acc]. rewrite owned_cons, app_length, Nat2Z.inj_add, (Hc _ Hp1), (IHr Hp2). reflexivity. }
  cbn [length]. rewrite !app_length, !Nat2Z.inj_succ, !Nat2Z.inj_add, H.
  destruct vs, key; cbn; lia.
Qed.

(** * deleting the image restores the heap and the ledger *)

Lemma lib_live_free_all bs h : lib_live (free_all bs h) = lib_live h ∖ list_to_set bs.
Proof.
  apply set_eq. intros b. unfold lib_live. rewrite elem_of_difference, !elem_of_filter, free_all_own, free_all_live.
  rewrite elem_of_list_to_set. tauto.
Qed.

Theorem mat_delete t h F :
  plain t = true -> WF h F -> NoLeak h F ->
  exists h' h'',
    mat t h = Ret (Some (h_next h), h') /\
    WF h' (F ++ [forest_of t (h_next h)]) /\ NoLeak h' (F ++ [forest_of t (h_next h)]) /\
    lib_live h' = lib_live h ∪ list_to_set (owned [forest_of t (h_next h)]) /\
    NoDup (owned [forest_of t (h_next h)]) /\
    Z.of_nat (length (owned [forest_of t (h_next h)])) = blocks t /\
    cJSON_Delete (Some (h_next h)) h' = Ret (tt, h'') /\
    WF h'' F /\ NoLeak h'' F /\ lib_live h'' = lib_live h.
Proof.
  intros Hpl W NL. destruct (mat_sim t h F Hpl W) as (h' & Hrun & W' & Hn' & Hl' & _ & _).
  set (x := h_next h) in *. set (tr := forest_of t x) in *.
  assert (Htid : tid tr = x) by apply tid_forest_of.
  assert (Hxr : x ∉ roots F).
  { intros Hin. apply (fresh_not_id _ _ W). by apply roots_subseteq_ids. }
  assert (Hfr : find_root x (F ++ [tr]) = Some tr) by (by apply find_root_app_fresh).
  assert (Hrm : remove_root x (F ++ [tr]) = F) by (by apply remove_root_app_fresh).
  assert (NL' : NoLeak h' (F ++ [tr])).
  { intros b Hb. rewrite Hl' in Hb. rewrite owned_app. apply elem_of_app. apply elem_of_union in Hb as [Hb|Hb].
    - left. by apply NL.
    - right. by apply elem_of_list_to_set in Hb. }
  pose proof (wf_owned_nodup _ _ W') as NDo. rewrite owned_app in NDo. apply NoDup_app in NDo as (_ & Hdisj & NDt).
  destruct (cJSON_Delete_sim h' (F ++ [tr]) x tr W' Hfr) as (_ & Hdel & W'' & NL'').
  rewrite Hrm in W'', NL''.
  exists h', (free_all (free_order [tr]) h'). split_and!; try done.
  - by apply owned_forest_of_count.
  - by apply NL''.
  - rewrite lib_live_free_all, Hl'.
    assert (Hfo : (list_to_set (free_order [tr]) : gset positive) = list_to_set (owned [tr])).
    { apply set_eq. intros b. rewrite !elem_of_list_to_set. unfold owned. by rewrite free_order_owned. }
    rewrite Hfo. apply set_eq. intros b. rewrite elem_of_difference, elem_of_union, elem_of_list_to_set.
    split; [tauto|]. intros Hb. split; [by left|]. intros Hin. apply (Hdisj b); [|done]. by apply NL.
Qed.

(** what "canonical encoding" means for the links of the image, read off [heap_lnk_of] / [heap_dat_of]:
    the root has no sibling links; the k-th child [c] of a node with children [ks] has
    next = the (k+1)-th (NULL at the end) and prev = the (k-1)-th, the head's prev being the last;
    [child] is the head of the children list (NULL for a leaf). *)
Theorem mat_links t h F h' :
  plain t = true -> WF h F -> mat t h = Ret (Some (h_next h), h') ->
  let tr := forest_of t (h_next h) in
  h_lnk h' !! h_next h = Some (None, None) /\
  (forall i d (ks : list positive), (i, d, ks) ∈ flat [tr] ->
     h_dat h' !! i = Some (mk_dat d ks) /\
     forall k c, ks !! k = Some c -> h_lnk h' !! c = Some (link_at ks k)).
Proof.
  intros Hpl W Hrun tr. destruct (mat_sim t h F Hpl W) as (h1 & Hrun1 & W' & _).
  rewrite Hrun in Hrun1. injection Hrun1 as <-. fold tr in W'.
  assert (Hsub : forall e : fnode, e ∈ flat [tr] -> e ∈ flat (F ++ [tr])).
  { intros e He. rewrite flat_app. apply elem_of_app. by right. }
  split.
  - apply (WF_lookup_lnk_root _ _ _ W'). rewrite roots_app. apply elem_of_app. right. cbn.
    unfold tr. rewrite tid_forest_of. by left.
  - intros i d ks Hin. split.
    + by apply (WF_lookup_dat _ _ _ _ _ W'), Hsub.
    + intros k c Hk. by apply (WF_lookup_lnk_child _ _ _ _ _ _ _ W' (Hsub _ Hin) Hk).
Qed.

(** * the statement in one piece *)

(** [t], materialised in ANY heap [h] that encodes a forest [F] without leak, is a well-formed
    new root [h_next h] (the heap [h'] IS the canonical encoding of [F] plus the labelled tree
    [forest_of t (h_next h)], nothing else is live library memory), it owns exactly
    [ParseDefs.blocks t] pairwise distinct library blocks, and [cJSON_Delete] of it returns
    without error, leaving a heap [h''] that encodes [F] again with the ledger ([lib_live]) back
    at its value before. *)
Definition heap_usable (t : node) : Prop :=
  forall h F, WF h F -> NoLeak h F ->
  exists h' h'',
    mat t h = Ret (Some (h_next h), h') /\
    WF h' (F ++ [forest_of t (h_next h)]) /\ NoLeak h' (F ++ [forest_of t (h_next h)]) /\
    lib_live h' = lib_live h ∪ list_to_set (owned [forest_of t (h_next h)]) /\
    NoDup (owned [forest_of t (h_next h)]) /\
    Z.of_nat (length (owned [forest_of t (h_next h)])) = blocks t /\
    cJSON_Delete (Some (h_next h)) h' = Ret (tt, h'') /\
    WF h'' F /\ NoLeak h'' F /\ lib_live h'' = lib_live h.

Theorem plain_heap_usable t : plain t = true -> heap_usable t.
Proof. intros Hpl h F W NL. by apply mat_delete. Qed.

(** from the empty heap: the whole ledger is the tree, and deleting it empties the ledger *)
Corollary plain_usable_from_empty t : plain t = true ->
  exists h' h'',
    mat t empty_heap = Ret (Some 1%positive, h') /\ WF h' [forest_of t 1] /\
    lib_live h' = list_to_set (owned [forest_of t 1]) /\ Z.of_nat (length (owned [forest_of t 1])) = blocks t /\
    cJSON_Delete (Some 1%positive) h' = Ret (tt, h'') /\ lib_live h'' = ∅.
Proof.
  intros Hpl. destruct Abs_empty as (W & NL & _). cbn [as_forest] in W, NL.
  destruct (mat_delete t empty_heap [] Hpl W NL) as (h' & h'' & H1 & H2 & _ & H4 & _ & H6 & H7 & _ & _ & H10).
  exists h', h''. split_and!; try done.
  rewrite H4. apply set_eq. intros b. rewrite elem_of_union. split; [|tauto]. intros [Hb|Hb]; [|done].
  unfold lib_live in Hb. apply elem_of_filter in Hb as [_ Hb]. by apply elem_of_empty in Hb.
Qed.
