(** LibcG17Defs.v — the intermediate quantities of [LibcPrint.fmt_g] named, so that the proofs
    about "%1.17g" (LibcG17*.v) can speak about them: the scaled fraction, the rounded P-digit
    decimal significand [g_D], its decimal exponent [g_X], and the text layout [g_text].
    [LibcG17.fmt_g_finite] shows that [fmt_g] is exactly their composition.  No proofs here. *)
From Coq Require Import ZArith List Bool Floats.SpecFloat.
From CJ Require Import Base Dbl LibcNum LibcPrint.
Import ListNotations.
Local Open Scope Z_scope.

(** numerator and denominator of the exact value of the finite double (+, m, e) *)
Definition g_num (m : positive) (e : Z) : Z := if 0 <=? e then Zpos m * 2 ^ e else Zpos m.
Definition g_den (e : Z) : Z := if 0 <=? e then 1 else 2 ^ (- e).

(** the first estimate of the decimal exponent *)
Definition g_x0 (m : positive) (e : Z) : Z :=
  ((Z.log2 (g_num m e) - Z.log2 (g_den e)) * 30103) / 100000.

(** (nS, dS, X) with value = (nS / dS) * 10^X, 1 <= nS / dS < 10 *)
Definition g_scaled (m : positive) (e : Z) : Z * Z * Z :=
  let num := g_num m e in
  let den := g_den e in
  let x0 := g_x0 m e in
  let t := 10 ^ (Z.abs x0) in
  let '(nS1, dS1, x1) := scale_down 8 (if 0 <=? x0 then num else num * t) (if 0 <=? x0 then den * t else den) x0 in
  scale_up 8 nS1 dS1 x1.

(** nearest integer to N / Dn, ties to even *)
Definition g_round (N Dn : Z) : Z :=
  let q := N / Dn in
  let r := N mod Dn in
  if 2 * r <? Dn then q else if Dn <? 2 * r then q + 1 else if Z.even q then q else q + 1.

Definition g_q (P : Z) (m : positive) (e : Z) : Z :=
  let '(nS, dS, X) := g_scaled m e in g_round (nS * 10 ^ (P - 1)) dS.

(** the P-digit decimal significand and its decimal exponent (value ~ D * 10^(X' - P + 1)) *)
Definition g_D (P : Z) (m : positive) (e : Z) : Z :=
  let q' := g_q P m e in if q' =? 10 ^ P then 10 ^ (P - 1) else q'.
Definition g_X (P : Z) (m : positive) (e : Z) : Z :=
  let '(nS, dS, X) := g_scaled m e in
  let q' := g_q P m e in if q' =? 10 ^ P then X + 1 else X.

(** the layout: %f style for -4 <= X' < P, %e style otherwise; trailing zeros removed *)
Definition g_text (P : Z) (D X' : Z) : bytes :=
  let ds := dec_fixed (Z.to_nat P) D in
  if (-4 <=? X') && (X' <? P) then
    if 0 <=? X' then
      with_point (firstn (Z.to_nat (X' + 1)) ds) (strip0 (skipn (Z.to_nat (X' + 1)) ds))
    else
      with_point [48] (strip0 (repeat 48 (Z.to_nat (- X' - 1)) ++ ds))
  else
    with_point (firstn 1 ds) (strip0 (skipn 1 ds)) ++ exp_part X'.

Definition g_sign (s : bool) : bytes := if s then [45] else [].
