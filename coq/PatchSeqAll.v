(** PatchSeqAll.v — cJSONUtils_ApplyPatchesCaseSensitive on ARBITRARY operation sequences against
    RFC 6902's [eval]: the model's document stays [doc_same] (exactly equal up to the order of object
    members) to the RFC's document along the whole sequence; the two fail at the same operation. *)
From Coq Require Import Lia ZArith List Bool Permutation.
From CJ Require Import Base Dbl Tree PointerDefs PointerProofs CompareDefs PatchDefs PatchProofs PatchRobust Rfc6902
  PatchConform PatchOps PatchApply PatchSort PatchTest PatchMove PatchSeq PatchGen PatchEq PatchRound PatchObj
  PatchExact PatchSeq2Rfc PatchSeq2Op.
Import ListNotations.
Local Open Scope Z_scope.

(** an operation: operands well-formed (and duplicable), reference tokens C strings of unsigned chars,
    not the removal of the whole document *)
Definition op_good (o : op) : Prop := op_values_ok o /\ op_toks_ok o /\ o <> Remove [].
(** the operation object [p] is read by RFC 6902 as the operation [o] *)
Definition op_ok (p : node) (o : op) : Prop := op_wf2 p /\ op_of p = Some o /\ op_good o.

(** the size side condition, on the RFC evaluation alone: every document produced on the way has no
    container above SIZE_MAX elements, and a value that is copied is nested no deeper than
    CJSON_CIRCULAR_LIMIT (cJSON_Duplicate refuses deeper values) *)
Fixpoint fits (d : node) (ops : list op) : Prop :=
  match ops with
  | [] => True
  | o :: r => copy_ok d o /\ match eval1 d o with Some e => small_arrays e /\ fits e r | None => True end
  end.

Lemma copy_ok_same d1 d2 o : dwf d1 -> dwf d2 -> doc_same d1 d2 -> copy_ok d2 o -> copy_ok d1 o.
Proof.
  intros H1 H2 S Hc. destruct o as [q v|q|q v|f q|f q|q v]; cbn [copy_ok] in *; try exact I.
  intros v1 G1. pose proof (get_same f d1 d2 H1 H2 S) as G. rewrite G1 in G.
  destruct (get d2 f) as [v2|] eqn:G2; [|contradiction]. cbn [orel] in G.
  eapply doc_same_shallow; [apply doc_same_sym; exact G | apply Hc; reflexivity].
Qed.

(** ---------- one step, model document vs RFC document ---------- *)
Lemma step_same d1 d2 p o : dwf d1 -> dwf d2 -> doc_same d1 d2 -> op_ok p o -> copy_ok d2 o ->
  (forall e, eval1 d2 o = Some e -> small_arrays e) ->
  exists st d1' p', apply_patch d1 p true = Ok (st, d1', p') /\
    match eval1 d2 o with
    | Some e => st = 0 /\ doc_same d1' e /\ dwf d1' /\ dwf e
    | None => st <> 0
    end.
Proof.
  intros H1 H2 S (Hw & Ho & Hv & Ht & Hne) Hc Hs.
  destruct (apply_patch_same d1 p o H1 Hw Ho Hv Hne (copy_ok_same _ _ _ H1 H2 S Hc)) as (st & d1' & p' & E & R).
  exists st, d1', p'. split; [exact E|].
  pose proof (eval1_same d1 d2 o H1 H2 S Hv) as Q.
  destruct (eval1 d1 o) as [e1|] eqn:E1; destruct (eval1 d2 o) as [e2|] eqn:E2; try contradiction; [|exact R].
  destruct R as [R1 R2]. cbn [orel] in Q.
  assert (He2 : dwf e2) by (eapply eval1_dwf; [exact H2 | exact Hv | exact Ht | exact E2 | apply Hs; reflexivity]).
  assert (S' : doc_same d1' e2) by (eapply doc_same_trans; eassumption).
  split; [exact R1|]. split; [exact S'|]. split; [|exact He2].
  eapply doc_same_dwf; [exact He2 | apply doc_same_sym; exact S'].
Qed.

(** ---------- the loop ---------- *)
Theorem apply_loop_same : forall ps ops d1 d2, dwf d1 -> dwf d2 -> doc_same d1 d2 -> Forall2 op_ok ps ops -> fits d2 ops ->
  exists st d1' ps', apply_loop d1 ps true = Ok (st, d1', ps') /\
    match eval d2 ops with
    | Some e => st = 0 /\ doc_same d1' e /\ dwf d1' /\ dwf e
    | None => st <> 0
    end.
Proof.
  induction ps as [|p r IH]; intros ops d1 d2 H1 H2 S F Hf; inversion F as [|? o ? ops' Hpo F']; subst.
  - cbn [apply_loop eval]. do 3 eexists. split; [reflexivity|]. split; [reflexivity|]. split; [exact S|]. split; assumption.
  - cbn [fits] in Hf. destruct Hf as [Hc Hf].
    destruct (step_same d1 d2 p o H1 H2 S Hpo Hc) as (st & d1' & p' & E & R).
    { intros e Ee. rewrite Ee in Hf. apply Hf. }
    cbn [apply_loop eval]. rewrite E. cbn [bind].
    destruct (eval1 d2 o) as [e|] eqn:E2.
    + destruct R as (-> & S' & H1' & H2'). cbn [Z.eqb negb]. destruct Hf as [_ Hf].
      destruct (IH ops' d1' e H1' H2' S' F' Hf) as (st2 & d1'' & r' & E' & R').
      rewrite E'. cbn [bind]. do 3 eexists. split; [reflexivity | exact R'].
    + destruct (Z.eqb_spec st 0) as [Hz|Hnz]; [contradiction|]. cbn [negb]. do 3 eexists. split; [reflexivity | exact Hnz].
Qed.

(** the first failing operation is the same on both sides: the model's loop succeeds on exactly the
    operations before the first one at which the RFC evaluation fails, reaches there a document that is
    the RFC's intermediate document, and returns the non-zero status of that operation *)
Theorem apply_loop_first_failure : forall ps ops d1 d2, dwf d1 -> dwf d2 -> doc_same d1 d2 -> Forall2 op_ok ps ops -> fits d2 ops ->
  eval d2 ops = None ->
  exists k pk ok dk ek ps0 st dk' pk' ps',
    nth_error ps k = Some pk /\ nth_error ops k = Some ok /\
    apply_loop d1 (firstn k ps) true = Ok (0, dk, ps0) /\ eval d2 (firstn k ops) = Some ek /\ doc_same dk ek /\
    eval1 ek ok = None /\ apply_patch dk pk true = Ok (st, dk', pk') /\ st <> 0 /\
    apply_loop d1 ps true = Ok (st, dk', ps').
Proof.
  induction ps as [|p r IH]; intros ops d1 d2 H1 H2 Sd F Hf Ev; inversion F as [|? o ? ops' Hpo F']; subst.
  - cbn [eval] in Ev. discriminate.
  - cbn [fits] in Hf. destruct Hf as [Hc Hf].
    destruct (step_same d1 d2 p o H1 H2 Sd Hpo Hc) as (st & d1' & p' & E & R).
    { intros e Ee. rewrite Ee in Hf. apply Hf. }
    cbn [eval] in Ev. destruct (eval1 d2 o) as [e|] eqn:E2.
    + destruct R as (-> & S' & H1' & H2'). destruct Hf as [_ Hf].
      destruct (IH ops' d1' e H1' H2' S' F' Hf Ev) as (k & pk & ok & dk & ek & ps0 & st & dk' & pk' & ps' & N1 & N2 & L & V & Sk & Vk & A & Hst & Lall).
      exists (S k), pk, ok, dk, ek, (p' :: ps0), st, dk', pk', (p' :: ps'). cbn [nth_error firstn apply_loop eval].
      rewrite E, E2. cbn [bind Z.eqb negb]. rewrite L, Lall. cbn [bind].
      split; [exact N1|]. split; [exact N2|]. split; [reflexivity|]. split; [exact V|]. split; [exact Sk|]. split; [exact Vk|]. split; [exact A|]. split; [exact Hst | reflexivity].
    + exists 0%nat, p, o, d1, d2, [], st, d1', p', (p' :: r). cbn [nth_error firstn apply_loop eval]. rewrite E. cbn [bind].
      destruct (Z.eqb_spec st 0) as [Hz|Hnz]; [contradiction|]. cbn [negb].
      split; [reflexivity|]. split; [reflexivity|]. split; [reflexivity|]. split; [reflexivity|]. split; [exact Sd|]. split; [exact E2|]. split; [reflexivity|]. split; [exact R | reflexivity].
Qed.

(** ---------- the entry point ---------- *)
Lemma ops_of_Forall2 patches ops : ops_of patches = Some ops ->
  is_array patches = true /\ Forall2 (fun p o => op_of p = Some o) (n_children patches) ops.
Proof.
  unfold ops_of. destruct (is_array patches); [|discriminate]. intro H. split; [reflexivity|].
  revert ops H. induction (n_children patches) as [|p r IH]; intros ops H; cbn [map all_some] in H.
  - inversion H. constructor.
  - destruct (op_of p) as [o|] eqn:Eo; [|discriminate]. destruct (all_some (map op_of r)) as [os|] eqn:Er; [|discriminate].
    cbn in H. inversion H; subst. constructor; [exact Eo | apply IH; reflexivity].
Qed.

Lemma op_ok_Forall2 ps ops : Forall2 (fun p o => op_of p = Some o) ps ops -> Forall op_wf2 ps -> Forall op_good ops -> Forall2 op_ok ps ops.
Proof.
  induction 1 as [|p o ps ops H F IH]; intros Hw Hg; [constructor|].
  inversion Hw as [|? ? Hwp Hw']; subst. inversion Hg as [|? ? Hgo Hg']; subst. constructor; [|apply IH; assumption].
  split; [exact Hwp|]. split; [exact H | exact Hgo].
Qed.

(** C16 conformance for whole patch arrays.  [doc_same] is the exact relation (hence also [doc_eq]). *)
Theorem apply_patches_conform doc patches ops :
  dwf doc -> ops_of patches = Some ops -> Forall op_wf2 (n_children patches) -> Forall op_good ops -> fits doc ops ->
  exists st doc' patches', cJSONUtils_ApplyPatchesCaseSensitive doc patches = Ok (st, doc', patches') /\
    match eval doc ops with
    | Some d' => st = 0 /\ doc_same doc' d' /\ doc_eq doc' d' /\ dwf doc'
    | None => st <> 0
    end.
Proof.
  intros Hd Ho Hw Hg Hf. destruct (ops_of_Forall2 _ _ Ho) as [Ha F].
  pose proof (op_ok_Forall2 _ _ F Hw Hg) as F'.
  destruct (apply_loop_same (n_children patches) ops doc doc Hd Hd (doc_same_refl doc) F' Hf) as (st & d' & ps' & E & R).
  unfold cJSONUtils_ApplyPatchesCaseSensitive, apply_patches. rewrite Ha. cbn [negb]. rewrite E. cbn [bind].
  do 3 eexists. split; [reflexivity|]. destruct (eval doc ops) as [e|]; [|exact R].
  destruct R as (R1 & R2 & R3 & R4). split; [exact R1|]. split; [exact R2|]. split; [apply doc_same_doc_eq; assumption | exact R3].
Qed.

(** the same with the point of failure *)
Theorem apply_patches_first_failure doc patches ops :
  dwf doc -> ops_of patches = Some ops -> Forall op_wf2 (n_children patches) -> Forall op_good ops -> fits doc ops ->
  eval doc ops = None ->
  exists k pk ok dk ek ps0 st dk' pk' patches',
    nth_error (n_children patches) k = Some pk /\ nth_error ops k = Some ok /\
    apply_loop doc (firstn k (n_children patches)) true = Ok (0, dk, ps0) /\ eval doc (firstn k ops) = Some ek /\ doc_same dk ek /\
    eval1 ek ok = None /\ apply_patch dk pk true = Ok (st, dk', pk') /\ st <> 0 /\
    cJSONUtils_ApplyPatchesCaseSensitive doc patches = Ok (st, dk', patches').
Proof.
  intros Hd Ho Hw Hg Hf Ev. destruct (ops_of_Forall2 _ _ Ho) as [Ha F].
  pose proof (op_ok_Forall2 _ _ F Hw Hg) as F'.
  destruct (apply_loop_first_failure (n_children patches) ops doc doc Hd Hd (doc_same_refl doc) F' Hf Ev)
    as (k & pk & ok & dk & ek & ps0 & st & dk' & pk' & ps' & N1 & N2 & L & V & Sk & Vk & A & Hst & Lall).
  exists k, pk, ok, dk, ek, ps0, st, dk', pk', (set_children patches ps').
  split; [exact N1|]. split; [exact N2|]. split; [exact L|]. split; [exact V|]. split; [exact Sk|]. split; [exact Vk|]. split; [exact A|]. split; [exact Hst|].
  unfold cJSONUtils_ApplyPatchesCaseSensitive, apply_patches. rewrite Ha. cbn [negb]. rewrite Lall. reflexivity.
Qed.

(** ---------- executable checkers of the hypotheses ---------- *)
Fixpoint small_arraysb (n : node) : bool :=
  match n with
  | Node _ _ _ _ _ cs =>
      (Z.of_nat (length cs) <=? SIZE_MAX) &&
      (fix go (l : list node) : bool := match l with [] => true | c :: r => small_arraysb c && go r end) cs
  end.
Lemma small_arraysb_sound n : small_arraysb n = true -> small_arrays n.
Proof.
  induction n as [ty vs vi vd k cs IH] using node_ind'. cbn [small_arraysb]. intro H.
  apply andb_true_iff in H. destruct H as [Hl Hgo]. apply small_arrays_unfold. split; [lia|].
  clear Hl. induction cs as [|c r IHr]; [constructor|].
  apply andb_true_iff in Hgo. destruct Hgo as [Hc Hr]. inversion IH; subst. constructor; [auto | apply IHr; assumption].
Qed.

Definition copy_okb (d : node) (o : op) : bool :=
  match o with Copy f _ => match get d f with Some v => shallowb v | None => true end | _ => true end.
Lemma copy_okb_sound d o : copy_okb d o = true -> copy_ok d o.
Proof.
  destruct o; cbn [copy_okb copy_ok]; try (intros; exact I). intros H v0 G. rewrite G in H. apply shallowb_sound. exact H.
Qed.

Fixpoint fitsb (d : node) (ops : list op) : bool :=
  match ops with
  | [] => true
  | o :: r => copy_okb d o && match eval1 d o with Some e => small_arraysb e && fitsb e r | None => true end
  end.
Lemma fitsb_sound : forall ops d, fitsb d ops = true -> fits d ops.
Proof.
  induction ops as [|o r IH]; intros d H; cbn [fitsb fits] in *; [exact I|].
  apply andb_true_iff in H. destruct H as [H1 H2]. split; [apply copy_okb_sound; exact H1|].
  destruct (eval1 d o) as [e|]; [|exact I]. apply andb_true_iff in H2. destruct H2 as [H2 H3].
  split; [apply small_arraysb_sound; exact H2 | apply IH; exact H3].
Qed.

Definition toksb (p : list bytes) : bool := forallb kbb p.
Lemma toksb_sound p : toksb p = true -> Forall key_bytes_ok p.
Proof. unfold toksb. rewrite forallb_forall, Forall_forall. intros H x Hx. apply kbb_sound. apply H. exact Hx. Qed.

Definition op_goodb (o : op) : bool :=
  match o with
  | Add p v | Replace p v => dwfb v && shallowb v && toksb p
  | Test p v => dwfb v && toksb p
  | Remove p => toksb p && match p with [] => false | _ => true end
  | Move f p | Copy f p => toksb f && toksb p
  end.
Lemma op_goodb_sound o : op_goodb o = true -> op_good o.
Proof.
  unfold op_good. destruct o as [p v|p|p v|f p|f p|p v]; cbn [op_goodb op_values_ok op_toks_ok]; intro H.
  - apply andb_true_iff in H. destruct H as [H H3]. apply andb_true_iff in H. destruct H as [H1 H2].
    split; [split; [apply dwfb_sound; exact H1 | apply shallowb_sound; exact H2]|]. split; [apply toksb_sound; exact H3 | discriminate].
  - apply andb_true_iff in H. destruct H as [H1 H2]. split; [exact I|]. split; [apply toksb_sound; exact H1|].
    intro E. inversion E; subst. discriminate.
  - apply andb_true_iff in H. destruct H as [H H3]. apply andb_true_iff in H. destruct H as [H1 H2].
    split; [split; [apply dwfb_sound; exact H1 | apply shallowb_sound; exact H2]|]. split; [apply toksb_sound; exact H3 | discriminate].
  - apply andb_true_iff in H. destruct H as [H1 H2]. split; [exact I|]. split; [split; apply toksb_sound; assumption | discriminate].
  - apply andb_true_iff in H. destruct H as [H1 H2]. split; [exact I|]. split; [split; apply toksb_sound; assumption | discriminate].
  - apply andb_true_iff in H. destruct H as [H1 H2]. split; [apply dwfb_sound; exact H1|]. split; [apply toksb_sound; exact H2 | discriminate].
Qed.

Lemma forallb_Forall {A} (f : A -> bool) (P : A -> Prop) l : (forall x, f x = true -> P x) -> forallb f l = true -> Forall P l.
Proof. intros H. rewrite forallb_forall, Forall_forall. intros G x Hx. apply H. apply G. exact Hx. Qed.

(** ---------- a concrete five-operation patch ----------
    document  {"a/b":[1,2,{"~k":3}],"c":"x"}
    patch     add   "/a~1b/1"  {"n":[true]}           (array index)
              test  "/a~1b/3/~0k"  3
              move  "/a~1b/3/~0k" -> "/m~0"
              copy  "/a~1b" -> "/c"                    (replaces the member "c": the model deletes and appends it)
              remove "/a~1b/0" *)
Definition y_obj (k : option bytes) (ms : list node) : node := Node 64 None 0 xz k ms.
Definition y_arr (k : option bytes) (es : list node) : node := Node 32 None 0 xz k es.
Definition y_doc : node :=
  y_obj None [y_arr (Some [97;47;98]) [xnum None 1; xnum None 2; y_obj None [xnum (Some [126;107]) 3]]; xstr (Some [99]) [120]].
Definition y_p_ab1 : bytes := [47;97;126;49;98;47;49].                    (* /a~1b/1 *)
Definition y_p_ab3k : bytes := [47;97;126;49;98;47;51;47;126;48;107].     (* /a~1b/3/~0k *)
Definition y_p_m : bytes := [47;109;126;48].                              (* /m~0 *)
Definition y_p_ab : bytes := [47;97;126;49;98].                           (* /a~1b *)
Definition y_p_c : bytes := [47;99].                                      (* /c *)
Definition y_p_ab0 : bytes := [47;97;126;49;98;47;48].                    (* /a~1b/0 *)
Definition y_op1 : node := y_obj None [xstr (Some k_op) v_add; xstr (Some k_path) y_p_ab1;
                                       y_obj (Some k_value) [y_arr (Some [110]) [Node 2 None 0 xz None []]]].
Definition y_op2 : node := y_obj None [xstr (Some k_op) v_test; xstr (Some k_path) y_p_ab3k; xnum (Some k_value) 3].
Definition y_op3 : node := y_obj None [xstr (Some k_op) v_move; xstr (Some k_from) y_p_ab3k; xstr (Some k_path) y_p_m].
Definition y_op4 : node := y_obj None [xstr (Some k_op) v_copy; xstr (Some k_from) y_p_ab; xstr (Some k_path) y_p_c].
Definition y_op5 : node := y_obj None [xstr (Some k_op) v_remove; xstr (Some k_path) y_p_ab0].
Definition y_patch : node := y_arr None [y_op1; y_op2; y_op3; y_op4; y_op5].

Definition y_ops : list op :=
  [Add [[97;47;98]; [49]] (y_obj (Some k_value) [y_arr (Some [110]) [Node 2 None 0 xz None []]]);
   Test [[97;47;98]; [51]; [126;107]] (xnum (Some k_value) 3);
   Move [[97;47;98]; [51]; [126;107]] [[109;126]];
   Copy [[97;47;98]] [[99]];
   Remove [[97;47;98]; [48]]].

Lemma five_ops_example :
  dwf y_doc /\ ops_of y_patch = Some y_ops /\
  Forall op_wf2 (n_children y_patch) /\ Forall op_good y_ops /\ fits y_doc y_ops /\
  exists e d p', eval y_doc y_ops = Some e /\
    cJSONUtils_ApplyPatchesCaseSensitive y_doc y_patch = Ok (0, d, p') /\
    d <> e /\ doc_same d e /\ doc_eqb d e = true.
Proof.
  assert (Hd : dwf y_doc) by (apply dwfb_sound; vm_compute; reflexivity).
  assert (Ho : ops_of y_patch = Some y_ops) by (vm_compute; reflexivity).
  assert (Hw : Forall op_wf2 (n_children y_patch)) by (apply (forallb_Forall op_wfb); [intros x Hx; apply op_wf_wf2; apply op_wfb_sound; exact Hx | vm_compute; reflexivity]).
  assert (Hg : Forall op_good y_ops) by (apply (forallb_Forall op_goodb); [apply op_goodb_sound | vm_compute; reflexivity]).
  assert (Hf : fits y_doc y_ops) by (apply fitsb_sound; vm_compute; reflexivity).
  split; [exact Hd|]. split; [exact Ho|]. split; [exact Hw|]. split; [exact Hg|]. split; [exact Hf|].
  destruct (apply_patches_conform y_doc y_patch y_ops Hd Ho Hw Hg Hf) as (st & d & p' & E & R).
  destruct (eval y_doc y_ops) as [e|] eqn:Ev; [|vm_compute in Ev; discriminate Ev].
  destruct R as (-> & Sd & _ & _). exists e, d, p'. split; [reflexivity|]. split; [exact E|].
  vm_compute in Ev. vm_compute in E. inversion Ev; subst e. inversion E; subst d.
  split; [intro X; discriminate X|]. split; [exact Sd | vm_compute; reflexivity].
Qed.

(** a failing sequence: add "/a~1b/1" ...; test "/c" 3 (the member is "x"); remove "/a~1b/0" — the RFC evaluation
    fails at operation 1, the model returns status 1 with the document as the add left it *)
Definition y_op_bad : node := y_obj None [xstr (Some k_op) v_test; xstr (Some k_path) y_p_c; xnum (Some k_value) 3].
Definition y_patch_bad : node := y_arr None [y_op1; y_op_bad; y_op5].
Definition y_ops_bad : list op :=
  [Add [[97;47;98]; [49]] (y_obj (Some k_value) [y_arr (Some [110]) [Node 2 None 0 xz None []]]);
   Test [[99]] (xnum (Some k_value) 3);
   Remove [[97;47;98]; [48]]].

Lemma failing_example :
  dwf y_doc /\ ops_of y_patch_bad = Some y_ops_bad /\
  Forall op_wf2 (n_children y_patch_bad) /\ Forall op_good y_ops_bad /\ fits y_doc y_ops_bad /\
  eval y_doc y_ops_bad = None /\
  exists e1 d p', eval y_doc (firstn 1 y_ops_bad) = Some e1 /\
    cJSONUtils_ApplyPatchesCaseSensitive y_doc y_patch_bad = Ok (1, d, p') /\ doc_same d e1 /\ d <> y_doc.
Proof.
  split; [apply dwfb_sound; vm_compute; reflexivity|]. split; [vm_compute; reflexivity|].
  split; [apply (forallb_Forall op_wfb); [intros x Hx; apply op_wf_wf2; apply op_wfb_sound; exact Hx | vm_compute; reflexivity]|].
  split; [apply (forallb_Forall op_goodb); [apply op_goodb_sound | vm_compute; reflexivity]|].
  split; [apply fitsb_sound; vm_compute; reflexivity|]. split; [vm_compute; reflexivity|].
  do 3 eexists. split; [vm_compute; reflexivity|]. split; [vm_compute; reflexivity|].
  split; [apply doc_same_refl | intro X; discriminate X].
Qed.
