"""C08 (core part) — any single allocation failure in a tree-API call makes the call fail cleanly.

Exposes generate_core / verdict_core / project_core for C08.py (which composes them with the parser and printer parts).
Cases are `hist` cases of area `core`: a setup history without failures (pre-existing trees with owned and constant keys,
strings, references), then ONE scenario call during which the k-th allocation request OF THAT CALL fails
(fail spec `@<call>.<k>`), for every k from 1 to (requests of the failure-free call) + 1, then a follow-up edit of a
pre-existing tree; the drivers finally delete every live root (X).  The number of requests of the failure-free call is
taken from the list-model oracle of coregen.py (validated against the implementation's request counter on every run:
the case with k = requests + 1 must complete normally).
"""
import random
from .common import Case, is_crash
from . import coregen
from .coregen import dt

AREA = 'core'

SETUP = ('obj;arr;num:3ff8000000000000;add:1:2;str:x76616c7565;add:1:3;addo:0:x6c697374:1;true;addcs:0:x636b:4;'       # 0 obj{list:[1.5,"value"], ck:true}
         'obj;astr:5:x6e616d65:x736f6d652074657874207468617420697320726174686572206c6f6e67;'                             # 5 obj{name:"some text …"}  6 = the string
         'str:x7265706c6163656d656e74;arr;null;add:8:9;'                                                                  # 7 detached string, 8 arr[null]
         'obj;anum:10:x7274:4000000000000000;addrefo:0:x726566:10;'                                                      # 10 obj{rt:2} (never edited), referenced from 0
         'obj;astr:12:x6b6b:x7676;deto:12:x6b6b;'                                                                          # 12 obj{}, 13 = 14 = detached string that still OWNS its key "kk"
         'str:x73747276616c;addrefo:0:x616c696173:15;'                                                                    # 15 string, referenced from 0 under the owned key "alias" (reference with valuestring and key)
         'obj;false;addcs:16:x63736b:17;deto:16:x63736b')                                                                  # 16 obj{}, 17 = 18 = detached false that still carries the CONSTANT key "csk"
# handles after SETUP: 0..18; live roots: 0, 5, 7, 8, 10, 12, 14, 15, 16, 18
LONG = (b'a much longer value than the one that is stored ' * 3).hex()

def scenarios():
    s = ['null', 'true', 'false', 'bool:1', 'num:' + dt(2.5), 'str:x61626364', 'raw:x7b7d', 'arr', 'obj', 'sref:x616263', 'oref:10', 'aref:11',
         'ints:3:1,2,3', 'ints:0:=', 'floats:2:%s,%s' % (dt(1.5), dt(2.0)), 'doubles:3:%s,%s,%s' % (dt(0.1), dt(2.0), dt(1e300)), 'strs:3:x61,x,x626364', 'strs:1:x61',
         'anull:5:x6b', 'atrue:5:x6b', 'afalse:5:x6b', 'abool:5:x6b:1', 'anum:5:x6b:' + dt(7.0), 'astr:5:x6b:x76616c', 'araw:5:x6b:x5b5d', 'aobj:5:x6b', 'aarr:5:x6b',
         'addref:8:10', 'addref:8:3', 'addrefo:5:x726b:10', 'addrefo:5:x726b:7',
         'addo:5:x6e65776b6579:7', 'addo:5:k6:7', 'addcs:5:x636f6e7374:7', 'add:8:7',
         'dup:0:1', 'dup:0:0', 'dup:5:1', 'dup:1:1', 'dup:6:1', 'dup:4:0',
         'repo:5:x6e616d65:7', 'repocs:5:x6e616d65:7', 'repo:5:x4e414d45:7', 'repo:5:k6:7', 'repo:5:x6d697373696e67:7',
         'sets:6:x' + LONG, 'sets:3:x' + LONG, 'sets:6:x73686f7274', 'sets:7:v6',
         'ins:8:0:7', 'repa:8:0:7',
         # an item that already owns a key is added / replaced under another name (the old key must survive a failed call)
         'addo:5:x6e6b:14', 'addcs:5:x636b32:14', 'repo:5:x6e616d65:14', 'addo:5:k14:14', 'dup:14:1', 'dup:12:1',
         # an item that carries a constant (borrowed) key: a refused call must leave the flag and the key alone
         'addo:5:x6e6b32:18', 'addo:5:k18:18', 'repo:5:x6e616d65:18', 'repocs:5:x6e616d65:18', 'dup:18:1', 'addrefo:5:x726b32:18']
    return s

FOLLOW = 'anull:5:x6166746572;add:8:-;size:0;size:5;each:8'

def generate_core(ctx):
    cases = []
    nsetup = len(SETUP.split(';'))
    for sc in scenarios():
        sim = coregen.Sim()
        for o in SETUP.split(';'): sim.step(o, False)
        before = sim.reqs
        sim.step(sc, False)
        nreq = sim.reqs - before
        for k in range(1, nreq + 2):
            line = 'hist DX @%d.%d %s;%s;%s' % (nsetup, k, SETUP, sc, FOLLOW)
            cases.append(Case(line, {'tags': ['core-failure', 'scenario:' + sc.split(':')[0], 'k=%d' % k if k <= nreq else 'k=requests+1'],
                                     'call': nsetup, 'k': k, 'requests': nreq, 'scenario': sc}))
    return cases

def project_core(c, out): return out

def _live(seg):
    for t in seg.split(' '):
        if t.startswith('L') and t[1:].isdigit(): return int(t[1:])
    return None

def verdict_core(c, out, ctx):
    hp = coregen.health_problem(out)
    if hp: return hp
    j = c.info['call']; k = c.info['k']; nreq = c.info['requests']; sc = c.info['scenario']
    segs = out.split(' ; ')
    if len(segs) <= j + 1: return 'output ends before the scenario call'
    if ' X live=0' not in out: return 'ledger not balanced after the follow-up edit and deleting every root: ' + out[-60:]
    res = segs[j].split(' ')[0]; dumps = [t for t in segs[j].split(' ')[1:] if ':' in t]
    before, after = _live(segs[j - 1]), _live(segs[j])
    nofail = coregen.expected(c.line.replace(' @%d.%d ' % (j, k), ' 0 ', 1))
    normal = nofail.split(' ; ')[j] if nofail else None
    if normal is not None and segs[j] == normal:
        # completed normally: everything after it must be the failure-free history
        if coregen.results_only(out) != coregen.results_only(nofail): return coregen.diff_report(c.line, out, nofail, coregen.results_only)
        return None
    if k > nreq: return 'no request of the call failed (k = requests + 1) but the call did not complete normally: "%s" instead of "%s"' % (segs[j][:80], (normal or '?')[:80])
    failure_value = '0' if sc.split(':')[0] in ('add', 'addo', 'addcs', 'addref', 'addrefo', 'ins', 'repa', 'repo', 'repocs', 'repp') else '-'
    if res != failure_value: return 'request %d of %s failed: result "%s" is neither the normal result nor the documented failure value "%s"' % (k, sc, res, failure_value)
    if after != before: return 'request %d of %s failed: %d blocks live after the call, %d before' % (k, sc, after, before)
    if dumps: return 'request %d of %s failed but a pre-existing tree changed: %s' % (k, sc, dumps[0][:100])
    return None

def nontrivial_core(c, out): return not is_crash(out)
