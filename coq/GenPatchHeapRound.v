(** GenPatchHeapRound.v — stage 6b: the round trip of C17 at HEAP level.

    [generate_then_apply]: the heap-level cJSONUtils_GeneratePatchesCaseSensitive(from, to) (GenPatchHeapDefs.v),
    then cJSON_Duplicate(from, 1), then the heap-level cJSONUtils_ApplyPatchesCaseSensitive(duplicate, patches)
    (PatchHeapApplyDefs.v) run in the heap the generation ended in: status 0, and the duplicate now reads back as a
    document equal to [to] ([Rfc6902.doc_eq]: arrays in order, objects as name/value sets).  Composition of
    [GenPatchHeapEntry.generate_patches_refines], [GenPatchHeapSteps.S_dup], [PatchHeapLoop.apply_patches_refines]
    (C16 at heap level) and the value-level [GenPatchHeapValue.roundtrip_any] (C17 through the model's own
    apply_patch), whose [run_ok] is derived from the well-formedness of the documents. *)
From CJ Require Import Base Dbl Heap Forest ForestLemmas CoreSpec CoreDefs CoreRefineBase CoreRefine CoreRefineMore
  CoreRefineFrame CoreRefineHistory CoreRefineDupBase CoreRefineDupValue CoreRefineDupForest CoreLedgerGen.
From CJ Require Import TierBridgeDefs TierBridgeForest TierBridgeLemmas TierBridgeEndToEndStr.
From CJ Require Import MergeHeapDefs MergeHeapInv MergeHeapProofs GenMergeHeapDefs GenMergeHeapForest GenMergeHeapCompare GenMergeHeapProofs
  PatchHeapDefs PatchHeapPath PatchHeapPointer PatchHeapSteps PatchHeapApplyDefs PatchHeapTest PatchHeapLoop
  GenPatchHeapDefs GenPatchHeapBytes GenPatchHeapSteps GenPatchHeapCompose GenPatchHeapProofs GenPatchHeapEntry.
From CJ Require Tree PointerDefs PatchDefs CompareDefs Rfc6902 PatchConform PatchApply PatchExact PatchSeq2Op GenPatchHeapValue.
From CJ.gen Require Import Constants.
From stdpp Require Import gmap.
From Coq Require Import Lia.
Local Open Scope Z_scope.

(** * documents in the sense of C16/C17 satisfy the hypotheses of the heap-level generation *)
Lemma dwf_gdoc St : forall t, PatchConform.dwf (reify St t) -> gdoc t.
Proof.
  induction t as [i d cs IH] using tree_ind'. rewrite reify_unfold, PatchConform.dwf_unfold. intros [(_ & _ & Hs & _ & Ho) Hc].
  apply gdoc_intro.
  - split; cbn [tdata tchildren].
    + intros Eo c Hc'. destruct (Ho Eo) as [_ Hk]. unfold PatchConform.keyed_children in Hk. rewrite List.Forall_forall in Hk.
      destruct (Hk (reify St c)) as (k & Ek & _); [apply in_map; by apply elem_of_list_In|].
      rewrite reify_key in Ek. unfold key_string in Ek. intros E. by rewrite E in Ek.
    + intros Es. destruct (Hs Es) as (s & E & _). intros E'. by rewrite E' in E.
  - intros c Hc'. rewrite Forall_forall in IH. apply (IH c Hc'). rewrite List.Forall_forall in Hc.
    apply Hc. apply in_map. by apply elem_of_list_In.
Qed.

Lemma node_size_reify St : forall t, Tree.node_size (reify St t) = tsize t.
Proof.
  induction t as [i d cs IH] using tree_ind'. rewrite reify_unfold, tsize_unfold. cbn [Tree.node_size]. f_equal.
  induction cs as [|c r IHr]; [done|]. apply Forall_cons in IH as [H1 H2]. cbn [map]. rewrite nodes_cons, app_length.
  rewrite (IHr H2). f_equal. exact H1.
Qed.

Lemma shallow_height St t : PatchApply.shallow (reify St t) -> (height t <= LIMIT)%nat.
Proof. unfold PatchApply.shallow. rewrite height_node_depth. pose proof CoreRefineDup.limit_nonneg. lia. Qed.

(** * generate, duplicate, apply *)
Theorem generate_then_apply h F f t tf tu :
  MInv h F -> find_tree f F = Some tf -> find_tree t F = Some tu -> tdisj tf tu ->
  let vf := reify (h_str h) tf in
  let vt := reify (h_str h) tu in
  PatchConform.dwf vf -> PatchConform.dwf vt -> PatchApply.shallow vf -> PatchApply.shallow vt ->
  2 * Z.of_nat (Tree.node_size vf + Tree.node_size vt) <= PointerDefs.SIZE_MAX ->
  exists h1 F1 res tf' tu',
    GenPatchHeapDefs.cJSONUtils_GeneratePatchesCaseSensitive nofail (Some f) (Some t) h = Ret (Some (tid res), h1) /\
    MInv h1 (F1 ++ [res]) /\ (NoLeak h F -> NoLeak h1 (F1 ++ [res])) /\
    find_tree f F1 = Some tf' /\ find_tree t F1 = Some tu' /\ treord tf tf' /\ treord tu tu' /\
    PatchExact.doc_same (reify (h_str h1) tf') vf /\
    exists h2 dup,
      cJSON_Duplicate nofail (Some f) true h1 = Ret (Some (tid dup), h2) /\
      MInv h2 (F2 F1 [] [] dup res) /\ (NoLeak h F -> NoLeak h2 (F2 F1 [] [] dup res)) /\
      PatchExact.doc_same (reify (h_str h2) dup) vf /\
      exists h3 docT arrT,
        PatchHeapApplyDefs.cJSONUtils_ApplyPatchesCaseSensitive nofail (Some (tid dup)) (Some (tid res)) h2 = Ret (0, h3) /\
        MInv h3 (F2 F1 [] [] docT arrT) /\ tid docT = tid dup /\ tid arrT = tid res /\
        (NoLeak h F -> NoLeak h3 (F2 F1 [] [] docT arrT)) /\
        find_tree t (F2 F1 [] [] docT arrT) = Some tu' /\
        Rfc6902.doc_eq (reify (h_str h3) docT) vt /\ PatchConform.dwf (reify (h_str h3) docT).
Proof.
  intros I Hf Ht Hdis vf vt Df Dt Sf St Hsz.
  assert (Hmax : Z.of_nat (tsize tf) <= PointerDefs.SIZE_MAX).
  { unfold vf, vt in Hsz. rewrite !node_size_reify in Hsz. lia. }
  destruct (generate_patches_refines true h F f t tf tu I Hf Ht Hdis (dwf_gdoc _ _ Df) (dwf_gdoc _ _ Dt) (shallow_height _ _ St) Hmax)
    as (h1 & F1 & res & tf' & tu' & Hrun1 & I1 & S1 & Fr & Hf1 & Ht1 & Rf & Rt & V1 & NL1 & K1).
  fold vf vt in V1.
  (* the value-level side, for the duplicate *)
  pose proof (find_tree_app_l f F1 [res] _ Hf1) as Hf1F.
  assert (Hh' : (height tf' <= LIMIT)%nat) by (rewrite (treord_height _ _ Rf); exact (shallow_height _ _ Sf)).
  destruct (S_dup h1 _ f tf' I1 Hf1F Hh') as (dup & h2 & Hrun2 & I2 & S2 & Vd).
  set (v := reify (h_str h2) dup) in *.
  assert (Sdup : PatchExact.doc_same v (reify (h_str h1) tf')).
  { unfold PatchDefs.cJSON_Duplicate in Vd. exact (proj1 (PatchSeq2Op.dup_same _ _ _ Vd)). }
  assert (Sfv : PatchExact.doc_same (reify (h_str h1) tf') vf).
  { pose proof V1 as V1'. unfold PatchDefs.generate_patches in V1'.
    destruct (PatchDefs.create_patches (Tree.node_depth vf) [] [] vf vt true) as [[[ps0 f0] t0]| |] eqn:C; cbn [Base.bind] in V1'; try discriminate.
    injection V1' as _ E _. rewrite <- E. exact (proj1 (PatchSeq2Round.create_patches_keeps _ _ _ _ _ _ _ _ _ C)). }
  assert (Sv : PatchExact.doc_same v vf) by (exact (PatchExact.doc_same_trans _ _ _ Sdup Sfv)).
  destruct (GenPatchHeapValue.roundtrip_any vf vt v Df Dt St Hsz
              (PatchExact.doc_same_dwf _ _ Df (PatchExact.doc_same_sym _ _ Sv)) Sv)
    as (patches & f' & t' & Eg & Sf' & Harr & (dd & p1 & Ea & Deq & Ddd) & Hok).
  unfold PatchDefs.cJSONUtils_GeneratePatchesCaseSensitive in Eg. rewrite V1 in Eg. injection Eg as <- <- <-.
  exists h1, F1, res, tf', tu'. split; [exact Hrun1|]. split; [exact I1|]. split; [exact NL1|]. split; [exact Hf1|]. split; [exact Ht1|].
  split; [exact Rf|]. split; [exact Rt|]. split; [exact Sf'|].
  (* the forest of the application *)
  assert (EF : (F1 ++ [res]) ++ [dup] = F2 F1 [] [] dup res) by (unfold F2; by rewrite <- app_assoc).
  rewrite EF in I2, S2.
  assert (Eres : reify (h_str h2) res = reify (h_str h1) res).
  { rewrite <- EF in I2, S2. apply (reify_step [] h1 _ h2 _ res I1 I2 S2).
    - rewrite nodes_app. apply elem_of_app. right. apply roots_in_nodes. by left.
    - apply node_in_app_l. rewrite nodes_app. apply elem_of_app. right. apply roots_in_nodes. by left. }
  exists h2, dup. split; [exact Hrun2|]. split; [exact I2|].
  split; [intros NL; exact (Step_NoLeak _ _ _ _ _ S2 (NL1 NL))|].
  split; [exact (PatchExact.doc_same_trans _ _ _ Sdup Sf')|].
  destruct res as [x d pnew].
  pose proof (apply_patches_refines h2 F1 [] dup (T x d pnew) [] x d pnew true I2 eq_refl) as HA.
  fold v in HA. rewrite Eres in HA. unfold PatchDefs.cJSONUtils_ApplyPatchesCaseSensitive in Ea. rewrite Ea in HA.
  destruct HA as (h3 & docT & arrT & Hrun3 & I3 & Etd & Eta & Hre & _ & NL3 & _).
  { intros _. rewrite reify_children in Hok. cbn [tchildren] in Hok.
    assert (Em : map (reify (h_str h2)) pnew = map (reify (h_str h1)) pnew).
    { rewrite !reify_unfold in Eres. by injection Eres. }
    rewrite Em. exact Hok. }
  cbn [put_t] in I3, NL3.
  exists h3, docT, arrT. split; [exact Hrun3|]. split; [exact I3|]. split; [exact Etd|]. split; [exact Eta|].
  split; [intros NL; apply NL3; exact (Step_NoLeak _ _ _ _ _ S2 (NL1 NL))|].
  split; [unfold F2; by apply find_tree_app_l|]. rewrite Hre. split; [exact Deq|exact Ddd].
Qed.
