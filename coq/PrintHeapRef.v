(** PrintHeapRef.v — reference nodes in the heap-level printer theorems, in the vocabulary of
    CoreOpsBridgeRefDefs.v.

    [CoreOpsBridgeRefDefs.ref_chain F (Some a)] is the list-model answer to "what does the reference node
    [a] denote NOW": the chain that starts at its borrowed child pointer, DEFINED exactly when the target
    has not been released (it is a node of the forest).  The printer reads the children of a reference
    node through that child pointer, as every other walk of the C library does.

    * [refs_live F]: every reference node of [F] has a live target ([ref_chain] is defined);
      [refs_live_refs_in]: this is the hypothesis [refs_in] of the refinement theorems;
    * [kids_ref_chain]: the children the unrolling puts below a reference node ARE [ref_chain];
      [reify_reference_node]: so a reference node prints the referenced elements — the value printed for it
      is its own type / strings / numbers / key with the reifications of the chain's elements as children;
    * [heap_value_refs_live]: the hypothesis bundle of the transfer theorems from [refs_live];
    * on the example heap (PrintHeapEx.v): the chain of node 25 is the three elements of "arr". *)
From CJ Require Import Base Dbl Tree PrintDefs Heap Forest ForestLemmas CoreSpec CoreDefs CoreRefine CoreRefineDupTree
  CoreRefineDupLoop CoreRefineDupValue CoreRefineDupForest CoreRefineDupUnroll CoreOpsBridgeRefDefs
  PrintHeapDefs PrintHeapRefine PrintHeapForest PrintHeapTransfer PrintHeapEx.
From CJ.gen Require Import Constants.
From stdpp Require Import gmap.
From Coq Require Import Lia.
Local Open Scope Z_scope.

Definition refs_live (F : forest) : Prop :=
  forall i d (ks : list positive), (i, d, ks) ∈ flat F -> is_ref d = true -> is_Some (ref_chain F (Some i)).

Lemma find_tree_of_flat F i d (ks : list positive) :
  NoDup (ids F) -> (i, d, ks) ∈ flat F -> exists cs, find_tree i F = Some (T i d cs) /\ ks = tid <$> cs.
Proof.
  intros ND He.
  assert (Hi : i ∈ ids F) by (rewrite ids_flat; apply elem_of_list_fmap; by exists (i, d, ks)).
  destruct (find_tree_is_Some i F Hi) as [[i' d' cs'] Hf].
  pose proof (find_tree_Some _ _ _ Hf) as [_ Hid]. cbn in Hid. subst i'.
  pose proof (find_tree_flat _ _ _ _ Hf) as He'.
  pose proof (flat_unique F _ _ ND He He' eq_refl) as E. injection E as -> ->. by exists cs'.
Qed.

Lemma refs_live_refs_in h F : WF h F -> refs_live F -> refs_in F.
Proof.
  intros W RL i d ks c He Er.
  pose proof (wf_ref _ _ W) as R. rewrite Forall_forall in R. destruct (R _ He) as [R1 R2]. cbn in R1, R2.
  assert (Hr : is_ref d = true) by (apply R2; by rewrite Er).
  specialize (R1 Hr). subst ks.
  destruct (find_tree_of_flat F i d [] (wf_nodup _ _ W) He) as (cs & Hf & Hcs).
  symmetry in Hcs. apply fmap_nil_inv in Hcs. subst cs.
  destruct (RL i d [] He Hr) as [us Hus]. unfold ref_chain in Hus. rewrite Hf, Hr, Er in Hus.
  destruct (bool_decide (c ∈ ids F)) eqn:E; [by apply bool_decide_eq_true in E|discriminate Hus].
Qed.

Lemma kids_ref_chain F p d us :
  find_tree p F = Some (T p d []) -> ref_chain F (Some p) = Some us -> kids F (T p d []) = us.
Proof.
  intros Hf Hus. unfold ref_chain in Hus. rewrite Hf in Hus. cbn [kids].
  destruct (is_ref d); [|discriminate Hus]. destruct (rd_ref d) as [c|].
  - destruct (bool_decide (c ∈ ids F)); [|discriminate Hus]. by injection Hus.
  - by injection Hus.
Qed.

(** the value printed for a reference node: its own fields, the referenced elements as children *)
Lemma reify_reference_node (S : gmap positive bytes) F p d us k :
  find_tree p F = Some (T p d []) -> ref_chain F (Some p) = Some us ->
  reify S (unroll F (Datatypes.S k) (T p d []))
  = Node (rd_type d) (cstr_of S (rd_vstr d)) (rd_vint d) (rd_vdbl d) (cstr_of S (rd_key d))
         (map (fun c => reify S (unroll F k c)) us).
Proof.
  intros Hf Hus. cbn [unroll reify]. rewrite (kids_ref_chain F p d us Hf Hus). f_equal.
  clear Hf Hus. induction us as [|u r IH]; [done|]. cbn [map fmap list_fmap]. by rewrite IH.
Qed.

Theorem heap_value_refs_live h F p t k :
  WF h F -> refs_live F -> forest_readable h F -> find_tree p F = Some t -> complete (unroll F k t) ->
  (k < Pos.to_nat (h_next h))%nat -> heap_value h p (reify (h_str h) (unroll F k t)).
Proof. intros W RL. apply heap_value_forest; [done|by eapply refs_live_refs_in]. Qed.

(** * the example heap *)
Lemma ex_ref_chain : ref_chain ex_F (Some 25%positive) = Some ex_elems.
Proof. vm_compute. reflexivity. Qed.

Lemma ex_refs_live : refs_live ex_F.
Proof.
  intros i d ks He Hr. unfold ex_F, ex_t0, ex_elems, ex_inner in He. rewrite flat_singleton, !flat_t_unfold in He. cbn in He.
  repeat (apply elem_of_cons in He as [He|He];
          [injection He as -> -> ->; first [discriminate Hr | (eexists; vm_compute; reflexivity)]|]).
  by apply elem_of_nil in He.
Qed.
