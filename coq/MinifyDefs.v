(** MinifyDefs.v — transliteration of cJSON_Minify and its helpers (cJSON.c) on an
    explicit byte buffer with explicit read and write cursors.  No proofs here. *)
From CJ Require Import Base.
Local Open Scope Z_scope.

(* skip_oneline_comment: input += 2; for (; in[0] != 0; ++in) if (in[0]=='\n') {in += 1; return;} *)
Fixpoint skip_oneline_loop (fuel : nat) (b : bytes) (i : nat) : res nat :=
  match fuel with
  | O => OutOfFuel
  | S f =>
      c <- rd b i ;;
      if c =? 0 then Ok i
      else if c =? 10 then Ok (i + 1)%nat
      else skip_oneline_loop f b (i + 1)%nat
  end.
Definition skip_oneline_comment (b : bytes) (i : nat) : res nat :=
  skip_oneline_loop (length b) b (i + 2)%nat.

(* skip_multiline_comment: input += 2; for (; in[0] != 0; ++in) if (in[0]=='*' && in[1]=='/') {in += 2; return;} *)
Fixpoint skip_multiline_loop (fuel : nat) (b : bytes) (i : nat) : res nat :=
  match fuel with
  | O => OutOfFuel
  | S f =>
      c <- rd b i ;;
      if c =? 0 then Ok i
      else if c =? 42 then
             d <- rd b (i + 1)%nat ;;
             if d =? 47 then Ok (i + 2)%nat else skip_multiline_loop f b (i + 1)%nat
           else skip_multiline_loop f b (i + 1)%nat
  end.
Definition skip_multiline_comment (b : bytes) (i : nat) : res nat :=
  skip_multiline_loop (length b) b (i + 2)%nat.

(* minify_string: the for loop; state = buffer, input cursor, output cursor *)
Fixpoint minify_string_loop (fuel : nat) (b : bytes) (i o : nat) : res (bytes * nat * nat) :=
  match fuel with
  | O => OutOfFuel
  | S f =>
      c <- rd b i ;;
      if c =? 0 then Ok (b, i, o)
      else
        b1 <- wr b o c ;;                                   (* out[0] = in[0] *)
        c' <- rd b1 i ;;                                    (* re-read in[0] *)
        if c' =? 34 then
          b2 <- wr b1 o 34 ;;
          Ok (b2, (i + 1)%nat, (o + 1)%nat)
        else if c' =? 92 then
          d <- rd b1 (i + 1)%nat ;;
          if negb (d =? 0) then
            b2 <- wr b1 (o + 1)%nat d ;;                    (* out[1] = in[1] *)
            minify_string_loop f b2 (i + 2)%nat (o + 2)%nat
          else minify_string_loop f b1 (i + 1)%nat (o + 1)%nat
        else minify_string_loop f b1 (i + 1)%nat (o + 1)%nat
  end.
Definition minify_string (b : bytes) (i o : nat) : res (bytes * nat * nat) :=
  c <- rd b i ;;
  b1 <- wr b o c ;;
  minify_string_loop (length b) b1 (i + 1)%nat (o + 1)%nat.

(* cJSON_Minify main loop *)
Fixpoint minify_loop (fuel : nat) (b : bytes) (i o : nat) : res (bytes * nat) :=
  match fuel with
  | O => OutOfFuel
  | S f =>
      c <- rd b i ;;
      if c =? 0 then Ok (b, o)
      else if (c =? 32) || (c =? 9) || (c =? 13) || (c =? 10) then minify_loop f b (i + 1)%nat o
      else if c =? 47 then
        d <- rd b (i + 1)%nat ;;
        if d =? 47 then i' <- skip_oneline_comment b i ;; minify_loop f b i' o
        else if d =? 42 then i' <- skip_multiline_comment b i ;; minify_loop f b i' o
        else minify_loop f b (i + 1)%nat o
      else if c =? 34 then
        '(b', i', o') <- minify_string b i o ;; minify_loop f b' i' o'
      else
        b' <- wr b o c ;; minify_loop f b' (i + 1)%nat (o + 1)%nat
  end.

(** cJSON_Minify(json) for json != NULL: the buffer afterwards *)
Definition cJSON_Minify (b : bytes) : res bytes :=
  '(b', o) <- minify_loop (length b + 1) b 0%nat 0%nat ;;
  wr b' o 0.

(** ---- list-level description of the same function (the specification) ---- *)

Fixpoint skip1_l (l : bytes) : bytes :=
  match l with [] => [] | c :: r => if c =? 10 then r else skip1_l r end.

Fixpoint skipm_l (l : bytes) : bytes :=
  match l with
  | [] => []
  | c :: r => if (c =? 42) && (hd 0 r =? 47) then tl r else skipm_l r
  end.

(* after the opening quote: (bytes copied including the closing quote, remaining input) *)
Fixpoint mstr_l (l : bytes) : bytes * bytes :=
  match l with
  | [] => ([], [])
  | c :: r =>
      if c =? 34 then ([34], r)
      else if c =? 92 then
        match r with
        | [] => ([92], [])
        | d :: r' => let '(a, rest) := mstr_l r' in (92 :: d :: a, rest)
        end
      else let '(a, rest) := mstr_l r in (c :: a, rest)
  end.

Fixpoint minify_l (fuel : nat) (l : bytes) : bytes :=
  match fuel with
  | O => []
  | S f =>
      match l with
      | [] => []
      | c :: r =>
          if (c =? 32) || (c =? 9) || (c =? 13) || (c =? 10) then minify_l f r
          else if c =? 47 then
            if hd 0 r =? 47 then minify_l f (skip1_l (tl r))
            else if hd 0 r =? 42 then minify_l f (skipm_l (tl r))
            else minify_l f r
          else if c =? 34 then let '(a, rest) := mstr_l r in 34 :: a ++ minify_l f rest
          else c :: minify_l f r
      end
  end.
Definition minify_spec (s : bytes) : bytes := minify_l (length s + 1) s.
