(** PatchHeapApplyDefs.v — HEAP-LEVEL transliteration of the JSON Patch application of cJSON_Utils.c:
    [compare_json] (with its in-place sorting: [SortDefs.sort_object]), [get_object_item] (the Utils wrapper),
    [decode_patch_operation], [apply_patch] (six operations, the root cases through
    [TierBridgeOverwriteDefs.patch_root_remove] / [patch_root_overwrite], the [cleanup:] block),
    [cJSONUtils_ApplyPatches] / [cJSONUtils_ApplyPatchesCaseSensitive], on the memory model of Heap.v.
    PatchDefs.v is the VALUE-level model of the same C functions.  No proofs here.

    Conventions as in PatchHeapDefs.v.  The labels of the C function:
      [cleanup value parent_pointer status] is the block
          cleanup: if (value != NULL) cJSON_Delete(value);
                   if (parent_pointer != NULL) cJSON_free(parent_pointer);
                   return status;
      entered with the CURRENT values of the two locals (a [goto cleanup] before [value] is assigned enters it with
      NULL).  [strncmp(from, path, strlen(from)) == 0] is the pure prefix test on the two loaded C strings;
      [path->valuestring[from_length]] is then read inside the block (evaluated only when the prefix test holds,
      as [&&] does). *)
From stdpp Require Import gmap.
From CJ Require Import Base Dbl Heap CoreDefs Forest TierBridgeUtilsDefs TierBridgeOverwriteDefs MergeHeapDefs PatchHeapDefs.
From CJ Require Tree PointerDefs PatchDefs CompareDefs SortDefs.
From CJ.gen Require Import Constants.
Local Open Scope Z_scope.

Import PatchDefs (opcode, INVALID, ADD, REMOVE, REPLACE, MOVE, COPY, TEST, s_op, s_path, s_value, s_from, s_add, s_remove,
  s_replace, s_move, s_copy, s_test, s_dash).

(** static cJSON *get_object_item(const cJSON * const object, const char* name, const cJSON_bool case_sensitive) *)
Definition u_get_object_item (object : ptr) (name : cstring) (case_sensitive : bool) : M ptr :=
  if case_sensitive then cJSON_GetObjectItemCaseSensitive_s object name
  else cJSON_GetObjectItem_s object name.

(** [strcmp(item->valuestring, "lit") == 0] *)
Definition vs_is (item : ptr) (lit : bytes) : M bool :=
  vs <~ get_vstr item ;;
  s <~ ld_cstr vs ;;
  ret (strcmp s lit =? 0).

(** static enum patch_operation decode_patch_operation(const cJSON * const patch, const cJSON_bool case_sensitive) *)
Definition decode_patch_operation (patch : ptr) (case_sensitive : bool) : M opcode :=
  operation <~ u_get_object_item patch (CLit s_op) case_sensitive ;;
  iss <~ cJSON_IsString operation ;;
  if negb iss then ret INVALID else
  b1 <~ vs_is operation s_add ;; if b1 then ret ADD else
  b2 <~ vs_is operation s_remove ;; if b2 then ret REMOVE else
  b3 <~ vs_is operation s_replace ;; if b3 then ret REPLACE else
  b4 <~ vs_is operation s_move ;; if b4 then ret MOVE else
  b5 <~ vs_is operation s_copy ;; if b5 then ret COPY else
  b6 <~ vs_is operation s_test ;; if b6 then ret TEST else
  ret INVALID.

(** static cJSON_bool compare_json(cJSON *a, cJSON *b, const cJSON_bool case_sensitive):
    [dfuel] bounds the recursion, [lfuel] the sibling loops and the sort *)
Fixpoint compare_json_fuel (dfuel lfuel : nat) (a b : ptr) (case_sensitive : bool) {struct dfuel} : M bool :=
  match dfuel with
  | O => fail NoFuel
  | S df =>
      if is_null a || is_null b then ret false else
      ta <~ get_type a ;;
      tb <~ get_type b ;;
      if negb (Z.land ta 255 =? Z.land tb 255) then ret false else       (* mismatched type. *)
      ta2 <~ get_type a ;;                                                (* switch (a->type & 0xFF) *)
      let k := Z.land ta2 255 in
      if k =? c_cJSON_Number then
        ai <~ get_vint a ;;
        bi <~ get_vint b ;;
        if negb (ai =? bi) then ret false else
        ad <~ get_vdbl a ;;
        bd <~ get_vdbl b ;;
        if negb (compare_double ad bd) then ret false else ret true
      else if k =? c_cJSON_String then
        av <~ get_vstr a ;;
        bv <~ get_vstr b ;;
        sa <~ ld_cstr av ;;
        sb <~ ld_cstr bv ;;
        if negb (strcmp sa sb =? 0) then ret false else ret true
      else if k =? c_cJSON_Array then
        a1 <~ get_child a ;;
        b1 <~ get_child b ;;
        let fix loop (lf : nat) (a b : ptr) {struct lf} : M bool :=
          match lf with
          | O => fail NoFuel
          | S lf' =>
              if negb (is_null a) && negb (is_null b) then
                identical <~ compare_json_fuel df lfuel a b case_sensitive ;;
                if negb identical then ret false else
                a' <~ get_next a ;;
                b' <~ get_next b ;;
                loop lf' a' b'
              else
                (* array size mismatch? (one of both children is not NULL) *)
                if negb (is_null a) || negb (is_null b) then ret false else ret true
          end in
        loop lfuel a1 b1
      else if k =? c_cJSON_Object then
        SortDefs.sort_object (S (S lfuel)) a case_sensitive ;;;
        SortDefs.sort_object (S (S lfuel)) b case_sensitive ;;;
        a1 <~ get_child a ;;
        b1 <~ get_child b ;;
        let fix loop (lf : nat) (a b : ptr) {struct lf} : M bool :=
          match lf with
          | O => fail NoFuel
          | S lf' =>
              if negb (is_null a) && negb (is_null b) then
                ka <~ get_key a ;;
                kb <~ get_key b ;;
                c <~ SortDefs.compare_strings ka kb case_sensitive ;;
                if negb (c =? 0) then ret false else                      (* missing member *)
                identical <~ compare_json_fuel df lfuel a b case_sensitive ;;
                if negb identical then ret false else
                a' <~ get_next a ;;
                b' <~ get_next b ;;
                loop lf' a' b'
              else
                if negb (is_null a) || negb (is_null b) then ret false else ret true
          end in
        loop lfuel a1 b1
      else ret true                                                       (* null, true or false *)
  end.
Definition compare_json (a b : ptr) (case_sensitive : bool) : M bool :=
  fuel <~ heap_fuel ;;
  compare_json_fuel fuel fuel a b case_sensitive.

Section ApplyPatch.
  Variable oracle : nat -> bool.

  Definition cleanup (value parent_pointer : ptr) (status : Z) : M Z :=
    when (negb (is_null value)) (cJSON_Delete value) ;;;
    when (negb (is_null parent_pointer)) (cJSON_free parent_pointer) ;;;
    ret status.

  (** from "Now, just add value to path" to the end; [value] is non-NULL here *)
  Definition apply_patch_finish (object path value : ptr) (case_sensitive : bool) : M Z :=
    pv0 <~ get_vstr path ;;
    c0 <~ ld_byte (cs_of_ptr pv0) 0 ;;
    if c0 =? 0 then
      (* copy or move onto the root (add and replace were handled above) *)
      patch_root_overwrite object value ;;;
      cleanup None None 0
    else
    pv <~ get_vstr path ;;
    parent_pointer <~ cJSONUtils_strdup oracle pv ;;                    (* split pointer in parent and child *)
    let pp := cs_of_ptr parent_pointer in
    last <~ (if negb (is_null parent_pointer) then strrchr_slash pp else ret None) ;;
    child_pointer <~ match last with
                     | Some i => st_byte pp i 0 ;;; ret (cs_plus pp (S i))
                     | None => ret CNull
                     end ;;
    parent <~ get_item_from_pointer object pp case_sensitive ;;
    if is_null parent || cs_is_null child_pointer then
      cleanup value parent_pointer 9                                     (* Couldn't find object to add to. *)
    else
    isarr <~ cJSON_IsArray parent ;;
    if isarr then
      cp <~ ld_cs child_pointer ;;
      if strcmp cp s_dash =? 0 then
        cJSON_AddItemToArray parent value ;;;
        cleanup None parent_pointer 0
      else
        oi <~ decode_array_index_from_pointer child_pointer ;;
        match oi with
        | None => cleanup value parent_pointer 11
        | Some index =>
            ok <~ insert_item_in_array parent index value ;;
            if negb ok then cleanup value parent_pointer 10
            else cleanup None parent_pointer 0
        end
    else
    isobj <~ cJSON_IsObject parent ;;
    if isobj then
      decode_pointer_inplace child_pointer ;;;
      (if case_sensitive then cJSON_DeleteItemFromObjectCaseSensitive_s parent child_pointer
       else cJSON_DeleteItemFromObject_s parent child_pointer) ;;;
      cJSON_AddItemToObject_s oracle parent child_pointer value ;;;      (* result ignored *)
      cleanup None parent_pointer 0
    else cleanup value parent_pointer 9.                                 (* parent is not an object *)

  (** static int apply_patch(cJSON *object, const cJSON *patch, const cJSON_bool case_sensitive) *)
  Definition apply_patch (object patch : ptr) (case_sensitive : bool) : M Z :=
    path <~ u_get_object_item patch (CLit s_path) case_sensitive ;;
    iss <~ cJSON_IsString path ;;
    if negb iss then cleanup None None 2 else                           (* malformed patch. *)
    opcode <~ decode_patch_operation patch case_sensitive ;;
    match opcode with
    | INVALID => cleanup None None 3
    | TEST =>
        (* compare value: {...} with the given path *)
        pv <~ get_vstr path ;;
        a <~ get_item_from_pointer object (cs_of_ptr pv) case_sensitive ;;
        b <~ u_get_object_item patch (CLit s_value) case_sensitive ;;
        r <~ compare_json a b case_sensitive ;;
        cleanup None None (if r then 0 else 1)
    | _ =>
        let is_remove := match opcode with REMOVE => true | _ => false end in
        let is_replace := match opcode with REPLACE => true | _ => false end in
        let is_add := match opcode with ADD => true | _ => false end in
        let is_move := match opcode with MOVE => true | _ => false end in
        let is_copy := match opcode with COPY => true | _ => false end in
        pv0 <~ get_vstr path ;;
        c0 <~ ld_byte (cs_of_ptr pv0) 0 ;;                                (* special case for replacing the root *)
        if (c0 =? 0) && is_remove then
          patch_root_remove object ;;;
          cleanup None None 0
        else if (c0 =? 0) && (is_replace || is_add) then
          value <~ u_get_object_item patch (CLit s_value) case_sensitive ;;
          if is_null value then cleanup None None 7 else                 (* missing "value" for add/replace. *)
          value' <~ cJSON_Duplicate oracle value true ;;
          if is_null value' then cleanup None None 8 else                (* out of memory for add/replace. *)
          patch_root_overwrite object value' ;;;
          cleanup None None 0
        else
        (* Get rid of old. *)
        early <~ (if is_remove || is_replace then
                    pv <~ get_vstr path ;;
                    old_item <~ detach_path oracle object pv case_sensitive ;;
                    if is_null old_item then ret (Some 13)
                    else
                      cJSON_Delete old_item ;;;
                      if is_remove then ret (Some 0) else ret None       (* For Remove, this job is done. *)
                  else ret None) ;;
        match early with
        | Some status => cleanup None None status
        | None =>
            if is_move || is_copy then                                   (* Copy/Move uses "from". *)
              from <~ u_get_object_item patch (CLit s_from) case_sensitive ;;
              isf <~ cJSON_IsString from ;;
              if negb isf then cleanup None None 4 else                  (* missing "from" for copy/move. *)
              r1 <~ (if is_move then
                       (* a value cannot be moved into one of its own children *)
                       fv <~ get_vstr from ;;
                       fs <~ ld_cstr fv ;;                               (* from_length = strlen(from->valuestring) *)
                       fv2 <~ get_vstr from ;;
                       pv <~ get_vstr path ;;
                       fs2 <~ ld_cstr fv2 ;;
                       ps <~ ld_cstr pv ;;
                       inside <~ (if bytes_eqb (firstn (length fs) ps) fs2 then
                                    pv2 <~ get_vstr path ;;
                                    c <~ ld_byte (cs_of_ptr pv2) (length fs) ;;
                                    ret (c =? 47)
                                  else ret false) ;;
                       if inside then ret None
                       else
                         fv3 <~ get_vstr from ;;
                         v <~ detach_path oracle object fv3 case_sensitive ;;
                         ret (Some v)
                     else ret (Some None)) ;;
              match r1 with
              | None => cleanup None None 9
              | Some value0 =>
                  value1 <~ (if is_copy then
                               fv <~ get_vstr from ;;
                               get_item_from_pointer object (cs_of_ptr fv) case_sensitive
                             else ret value0) ;;
                  if is_null value1 then cleanup None None 5 else        (* missing "from" for copy/move. *)
                  value2 <~ (if is_copy then cJSON_Duplicate oracle value1 true else ret value1) ;;
                  if is_null value2 then cleanup None None 6 else        (* out of memory for copy/move. *)
                  apply_patch_finish object path value2 case_sensitive
              end
            else                                                         (* Add/Replace uses "value". *)
              value <~ u_get_object_item patch (CLit s_value) case_sensitive ;;
              if is_null value then cleanup None None 7 else
              value' <~ cJSON_Duplicate oracle value true ;;
              if is_null value' then cleanup None None 8 else
              apply_patch_finish object path value' case_sensitive
        end
    end.

  (** cJSONUtils_ApplyPatches / cJSONUtils_ApplyPatchesCaseSensitive (the two bodies differ in the flag only) *)
  Fixpoint apply_patches_loop (fuel : nat) (object current_patch : ptr) (case_sensitive : bool) : M Z :=
    match fuel with
    | O => fail NoFuel
    | S f =>
        if is_null current_patch then ret 0 else
        status <~ apply_patch object current_patch case_sensitive ;;
        if negb (status =? 0) then ret status else
        nx <~ get_next current_patch ;;
        apply_patches_loop f object nx case_sensitive
    end.
  Definition apply_patches (object patches : ptr) (case_sensitive : bool) : M Z :=
    isarr <~ cJSON_IsArray patches ;;
    if negb isarr then ret 1 else                                         (* malformed patches. *)
    current_patch <~ (if negb (is_null patches) then get_child patches else ret None) ;;
    fuel <~ heap_fuel ;;
    apply_patches_loop fuel object current_patch case_sensitive.
  Definition cJSONUtils_ApplyPatches (object patches : ptr) : M Z := apply_patches object patches false.
  Definition cJSONUtils_ApplyPatchesCaseSensitive (object patches : ptr) : M Z := apply_patches object patches true.
End ApplyPatch.
