(** SortForest.v — the canonical link map used by the C19 statements is Forest.links (the encoding
    of a children list in the C06 forest model); kept apart so that the C19 proofs do not depend
    on the Forest development. *)
From CJ Require Import Base Dbl Heap Forest SortDefs.
From stdpp Require Import gmap.

Lemma slink_at_is_link_at : slink_at = link_at.
Proof. reflexivity. Qed.

Lemma slinks_is_links : slinks = links.
Proof. reflexivity. Qed.
