(** PatchHeapFailLoop.v — the entry points [cJSONUtils_ApplyPatches] / [cJSONUtils_ApplyPatchesCaseSensitive] under an
    ARBITRARY allocation-failure schedule [oracle] refine the value-level loop WITH refusals
    [PatchHeapFailDefs.apply_patches_f] for SOME list [fss] of refusal flags (one record per operation met).

    For every oracle, from [MInv h (F2 A B [] doc rb)] with the patch array at path [ppa] of the root [rb]:
      - the run returns normally — no memory-error outcome whatever is refused;
      - status, document and patch array are those of [apply_patches_f fss];
      - the invariant holds for the forest [F2 (L ++ A) B [] docT (put_t rb ppa arrT)] in which the values leaked by
        refused name copies ([f_key]) are the additional roots [L] (they reify to the leaked values of the model), and
        [NoLeak] holds for THAT forest: besides [L] nothing is lost.

    [run_okf]: the only thing the theorems need to know about the value-level run: when an operation met is a [test],
    the document at that moment and the "value" member of the operation are keyed (compare_json sorts them) — for
    every schedule, since the schedule is chosen by the oracle. *)
From CJ Require Import Base Dbl Heap Forest ForestLemmas CoreSpec CoreDefs CoreRefineBase CoreRefine CoreRefineMore
  CoreRefineDelete CoreRefineReplace CoreRefineObject CoreRefineByKey CoreRefineFrame CoreRefineHistory CoreRefineAddObject
  CoreRefineHistoryObj CoreRefineCreate CoreRefineDupValue CoreRefineDupForest CoreLedgerGen CoreLedgerDup.
From CJ Require Import TierBridgeDefs TierBridgeForest TierBridgeLemmas TierBridgeSort TierBridgeSortHeap TierBridgeUtilsDefs TierBridgeUtils
  TierBridgeE2E2 TierBridgeEndToEndStr TierBridgeOverwriteDefs TierBridgeOverwrite
  MergeHeapDefs MergeHeapInv MergeHeapProofs PatchHeapDefs PatchHeapPath PatchHeapPointer PatchHeapStr PatchHeapSteps
  PatchHeapDetach PatchHeapApplyDefs PatchHeapOps PatchHeapFinish PatchHeapApply PatchHeapTest PatchHeapLoop PatchHeapDup PatchHeapDupLoop
  PatchHeapFailDefs PatchHeapFail PatchHeapFailFinish PatchHeapFailApply PatchHeapFailTest.
From CJ Require Tree PointerDefs PatchDefs CompareDefs MergeDefs SortDefs SortSpec PatchProofs.
From CJ.gen Require Import Constants.
From stdpp Require Import gmap.
From Coq Require Import Lia.
Local Open Scope Z_scope.

(** * the [test] operation makes no request *)
Lemma apply_patch_f_test fs o p cs :
  PatchDefs.decode_patch_operation p cs = Ok PatchDefs.TEST ->
  apply_patch_f fs o p cs = ' (st, d, p') <- PatchDefs.apply_patch o p cs ;; Ok (st, d, p', None).
Proof.
  intros E. unfold apply_patch_f.
  destruct (CompareDefs.get_object_item p (Some PatchDefs.s_path) cs) as [[j pathn]|] eqn:Ep.
  - destruct (negb (Tree.is_string pathn)) eqn:Es.
    + unfold PatchDefs.apply_patch. by rewrite Ep, Es.
    + rewrite E. cbn [bind]. reflexivity.
  - unfold PatchDefs.apply_patch. by rewrite Ep.
Qed.

Fixpoint run_okf (fss : list fails) (object : Tree.node) (ps : list Tree.node) (cs : bool) : Prop :=
  match ps with
  | [] => True
  | p :: r =>
      (PatchDefs.decode_patch_operation p cs = Ok PatchDefs.TEST -> vkeyed object) /\ value_keyed p cs /\
      match apply_patch_f (hd no_fails fss) object p cs with
      | Ok (st, o, _, _) => st = 0 -> run_okf (tl fss) o r cs
      | _ => True
      end
  end.

(** * one operation, whatever its opcode *)
Section OneOpOracle.
  Variable oracle : nat -> bool.
  Context (h : heap) (A B : forest) (doc rb : tree) (ppt : Tree.path) (pid : positive) (dpt : rdata) (cpt : list tree) (flag : bool).
  Notation F := (F2 A B [] doc rb).
  Notation St := (h_str h).
  Notation pt := (T pid dpt cpt).
  Hypothesis I : MInv h F.
  Hypothesis Hpt : subtree_t rb ppt = Some pt.

  Definition op_post_f (o : out (Z * heap)) (vres : Base.res (Z * Tree.node * Tree.node * option Tree.node)%type) : Prop :=
    match vres with
    | Ok (st, doc', pt', lk) =>
        exists h' docT ptT L,
          o = Ret (st, h') /\ MInv h' (F2 (L ++ A) B [] docT (put_t rb ppt ptT)) /\
          tid docT = tid doc /\ tid ptT = pid /\ tid <$> tchildren ptT = tid <$> cpt /\ tdata ptT = dpt /\
          reify (h_str h') docT = doc' /\ reify (h_str h') ptT = pt' /\ reify (h_str h') <$> L = leak_list lk /\
          (forall t, t ∈ nodes (A ++ rb :: B) -> reify (h_str h') t = reify St t) /\ KeepO h h' (A ++ rb :: B) /\
          (NoLeak h F -> NoLeak h' (F2 (L ++ A) B [] docT (put_t rb ppt ptT))) /\ (h_next h <= h_next h')%positive
    | _ => True
    end.

  Lemma F2_leak v docT rb' : ((A ++ rb' :: B) ++ [docT]) ++ [v] ≡ₚ F2 ([v] ++ A) B [] docT rb'.
  Proof. unfold F2. cbn [app]. rewrite <- Permutation_cons_append. by rewrite <- app_assoc. Qed.

  Theorem apply_patch_any_oracle :
    (PatchDefs.decode_patch_operation (reify St pt) flag = Ok PatchDefs.TEST -> vkeyed (reify St doc)) ->
    value_keyed (reify St pt) flag ->
    exists fs : fails,
    op_post_f (apply_patch oracle (Some (tid doc)) (Some pid) flag h) (apply_patch_f fs (reify St doc) (reify St pt) flag).
  Proof.
    intros Hkd Hkp.
    destruct (decide (PatchDefs.decode_patch_operation (reify St pt) flag = Ok PatchDefs.TEST)) as [Et|Hnt].
    - exists no_fails.
      assert (Hkv : forall vi m, found_member St flag PatchDefs.s_value cpt = Some (vi, m) -> all_keyed St m).
      { intros vi m Efm. apply all_keyed_of_vkeyed. specialize (Hkp Et).
        rewrite (get_object_item_found St pid dpt cpt PatchDefs.s_value flag zf_value), Efm in Hkp. exact Hkp. }
      pose proof (apply_patch_test_refines_o oracle h A B doc rb ppt pid dpt cpt flag I Hpt (all_keyed_of_vkeyed _ _ (Hkd Et)) Hkv Et) as H.
      unfold test_post in H. rewrite (apply_patch_f_test _ _ _ _ Et). unfold op_post_f.
      destruct (PatchDefs.apply_patch (reify St doc) (reify St pt) flag) as [[[st doc'] pt']| |]; [|done|done]. cbn [bind].
      destruct H as (h' & docT & ptT & E & I' & Ht & Hp & Hd & Hc & Hre & Hrp & Es & En & NL & _).
      exists h', docT, ptT, []. rewrite Es. cbn [app]. split_and!; try done; [intros b Hb; by rewrite Es|lia].
    - assert (HptG : pt ∈ nodes (A ++ rb :: B)).
      { rewrite nodes_app, nodes_cons. apply elem_of_app. right. apply elem_of_app. left. by eapply subtree_t_nodes. }
      pose proof I as I0. rewrite F2_last in I0.
      destruct (apply_patch_oracle oracle h (A ++ rb :: B) doc pid dpt cpt flag I0 HptG Hnt) as (fs & H). exists fs.
      unfold apply_post_f in H. unfold op_post_f.
      destruct (apply_patch_f fs (reify St doc) (reify St pt) flag) as [[[[st doc'] pt'] lk]| |]; [|done|done].
      destruct H as (h' & docT & E & Ht & Hre & Hp & K & Hn & HL).
      assert (Hkeep : forall t, t ∈ nodes (A ++ rb :: B) -> reify (h_str h') t = reify St t).
      { intros t Ht'. apply (reify_keep h h' (A ++ rb :: B) t); [|done|done]. intros e He. apply (mi_own _ _ I0). apply datas_elem_app. by left. }
      destruct lk as [lv|]; cbn [leak_post leak_list] in *.
      + destruct HL as (v & I' & NL & Hv).
        exists h', docT, pt, [v]. rewrite (put_t_id rb ppt _ Hpt).
        split; [done|]. split; [exact (MInv_perm _ _ _ I' (F2_leak v docT rb))|].
        split; [done|]. split; [done|]. split; [done|]. split; [done|]. split; [done|].
        split; [rewrite Hp; by apply Hkeep|]. split; [cbn; by rewrite Hv|]. split; [done|]. split; [done|].
        split; [|done]. intros H0. rewrite F2_last in H0. exact (NoLeak_perm _ _ _ (NL H0) (F2_leak v docT rb)).
      + destruct HL as [I' NL].
        exists h', docT, pt, []. rewrite (put_t_id rb ppt _ Hpt). cbn [app]. rewrite !F2_last.
        split; [done|]. split; [done|]. split; [done|]. split; [done|]. split; [done|]. split; [done|]. split; [done|].
        split; [rewrite Hp; by apply Hkeep|]. split; [done|]. split; [done|]. split; [done|]. split; [done|done].
  Qed.
End OneOpOracle.

(** * the loop over the patch array *)
Section LoopOracle.
  Variable oracle : nat -> bool.
  Context (B : forest) (rb : tree) (ppa : Tree.path) (aid : positive) (da : rdata) (elems0 : list tree) (flag : bool).
  Hypothesis Harr : subtree_t rb ppa = Some (T aid da elems0).
  Notation rbk := (rbk rb ppa aid da).
  Notation arr_strs := (arr_strs da).

  Lemma loop_sim_o : forall rest pre h doc A fuel,
    MInv h (F2 A B [] doc (rbk (pre ++ rest))) -> (length rest < fuel)%nat ->
    (forall fss, run_okf fss (reify (h_str h) doc) (map (reify (h_str h)) rest) flag) ->
    exists fss : list fails,
    match apply_loop_f fss (reify (h_str h) doc) (map (reify (h_str h)) rest) flag with
    | Ok (st, doc', ps', lks) =>
        exists h' docT rest' L,
          apply_patches_loop oracle fuel (Some (tid doc)) (tid <$> head rest) flag h = Ret (st, h') /\
          MInv h' (F2 (L ++ A) B [] docT (rbk (pre ++ rest'))) /\ tid docT = tid doc /\
          reify (h_str h') docT = doc' /\ map (reify (h_str h')) rest' = ps' /\ reify (h_str h') <$> L = lks /\
          (forall t, t ∈ pre -> reify (h_str h') t = reify (h_str h) t) /\
          (forall t, t ∈ A -> reify (h_str h') t = reify (h_str h) t) /\
          (forall b, b ∈ arr_strs -> h_str h' !! b = h_str h !! b) /\
          (NoLeak h (F2 A B [] doc (rbk (pre ++ rest))) -> NoLeak h' (F2 (L ++ A) B [] docT (rbk (pre ++ rest')))) /\
          (h_next h <= h_next h')%positive
    | _ => True
    end.
  Proof.
    induction rest as [|p rest IH]; intros pre h doc A fuel I Hf Hok; (destruct fuel as [|fuel]; [cbn in Hf; lia|]).
    { exists []. cbn [map apply_loop_f apply_patches_loop head fmap option_fmap option_map is_null].
      exists h, doc, [], []. cbn [app]. split_and!; done. }
    destruct p as [pid dpt cpt].
    assert (Hok1 := Hok []). cbn [run_okf map] in Hok1. destruct Hok1 as (Hkd & Hkp & _).
    set (k := length pre).
    assert (Hpk : (pre ++ T pid dpt cpt :: rest) !! k = Some (T pid dpt cpt)) by (by apply list_lookup_middle).
    assert (Hpt : subtree_t (rbk (pre ++ T pid dpt cpt :: rest)) (ppa ++ [k]) = Some (T pid dpt cpt)).
    { by rewrite (subtree_t_snoc _ _ _ _ _ k (rbk_sub rb ppa aid da elems0 Harr _)). }
    destruct (apply_patch_any_oracle oracle h A B doc (rbk (pre ++ T pid dpt cpt :: rest)) (ppa ++ [k]) pid dpt cpt flag I Hpt Hkd Hkp)
      as (fs & Hop).
    unfold op_post_f in Hop.
    destruct (apply_patch_f fs (reify (h_str h) doc) (reify (h_str h) (T pid dpt cpt)) flag) as [[[[st o] pv] lk]| |] eqn:Eap.
    2:{ exists [fs]. cbn [map apply_loop_f hd]. by rewrite Eap. }
    2:{ exists [fs]. cbn [map apply_loop_f hd]. by rewrite Eap. }
    destruct Hop as (h1 & docT & ptT & L1 & E & I1 & Ht & Hp & Hc & Hd & Hre & Hrp & HL1 & Hkeep & K1 & NL1 & En1).
    rewrite (rbk_put rb ppa aid da elems0 Harr _ k _ ptT Hpk) in I1, NL1. unfold k in I1, NL1. rewrite insert_middle in I1, NL1.
    assert (Hrest1 : map (reify (h_str h1)) rest = map (reify (h_str h)) rest).
    { apply map_ext_in. intros t Ht'. apply elem_of_list_In in Ht'. apply Hkeep. apply (rbk_elem_node A B rb ppa aid da elems0 Harr _ doc). apply elem_of_app. right. by right. }
    assert (Hpre1 : forall t, t ∈ pre -> reify (h_str h1) t = reify (h_str h) t).
    { intros t Ht'. apply Hkeep. apply (rbk_elem_node A B rb ppa aid da elems0 Harr _ doc). apply elem_of_app. by left. }
    assert (Harr1 : forall b, b ∈ arr_strs -> h_str h1 !! b = h_str h !! b).
    { intros b Hb. apply K1. destruct (rbk_node A B rb ppa aid da elems0 Harr (pre ++ T pid dpt cpt :: rest) doc) as [Hn1 Hn2].
      assert (Hown : forall e, e ∈ datas (A ++ rbk (pre ++ T pid dpt cpt :: rest) :: B) -> node_owns e.2).
      { intros e He. apply (mi_own _ _ I). rewrite F2_last. apply datas_elem_app. by left. }
      apply (str_blocks_in_owned _ (T aid da (pre ++ T pid dpt cpt :: rest)) b Hown Hn1). cbn [str_blocks].
      unfold PatchHeapLoop.arr_strs in Hb. apply elem_of_app in Hb as [Hb|Hb]; apply elem_of_app; [by left|right]. apply elem_of_app. by left. }
    assert (HA1 : forall t, t ∈ A -> reify (h_str h1) t = reify (h_str h) t).
    { intros t Ht'. apply Hkeep. apply roots_in_nodes. apply elem_of_app. by left. }
    destruct (Z.eqb_spec st 0) as [->|Hst].
    - (* go on *)
      assert (Hn1 : T aid da (pre ++ ptT :: rest) ∈ nodes (F2 (L1 ++ A) B [] docT (rbk (pre ++ ptT :: rest))))
        by (exact (proj2 (rbk_node (L1 ++ A) B rb ppa aid da elems0 Harr _ docT))).
      pose proof (run_get_next_child h1 _ I1 aid da _ (length pre) ptT Hn1 ltac:(by apply list_lookup_middle)) as Hnx.
      rewrite Hp in Hnx. rewrite lookup_middle_S in Hnx.
      specialize (IH (pre ++ [ptT]) h1 docT (L1 ++ A) fuel). rewrite <- app_assoc in IH. cbn [app] in IH.
      rewrite Hre, Hrest1 in IH.
      destruct (IH I1 ltac:(cbn in Hf; lia)) as (fss' & IH').
      { intros fss'. specialize (Hok (fs :: fss')). cbn [run_okf map hd tl] in Hok. destruct Hok as (_ & _ & Hok).
        rewrite Eap in Hok. exact (Hok eq_refl). }
      exists (fs :: fss'). cbn [map apply_loop_f hd tl apply_patches_loop head fmap option_fmap option_map is_null].
      rewrite Eap. cbn [bind Z.eqb negb].
      destruct (apply_loop_f fss' o (map (reify (h_str h)) rest) flag) as [[[[st2 o2] r2] lks2]| |]; [|done|done]. cbn [bind].
      destruct IH' as (h2 & docT2 & rest2 & L2 & E2 & I2 & Ht2 & Hre2 & Hr2 & HL2 & Hpre2 & HA2 & Harr2 & NL2 & En2).
      rewrite <- app_assoc in I2, NL2. cbn [app] in I2, NL2. rewrite app_assoc in I2, NL2.
      exists h2, docT2, (ptT :: rest2), (L2 ++ L1).
      split.
      { rewrite (bindM_Ret _ _ _ _ _ E). cbn [Z.eqb negb]. rewrite (bindM_Ret _ _ _ _ _ Hnx). rewrite Ht in E2. exact E2. }
      split; [exact I2|]. split; [congruence|]. split; [done|].
      split; [|split; [|split; [|split; [|split; [|split; [auto|lia]]]]]].
      + cbn [map]. rewrite Hr2. f_equal. rewrite (Hpre2 ptT ltac:(apply elem_of_app; right; by left)). exact Hrp.
      + rewrite fmap_app, HL2. f_equal. rewrite <- HL1. apply list_fmap_ext. intros i t Hit.
        apply HA2. apply elem_of_app. left. by eapply elem_of_list_lookup_2.
      + intros t Ht'. rewrite (Hpre2 t ltac:(apply elem_of_app; by left)). by apply Hpre1.
      + intros t Ht'. rewrite (HA2 t ltac:(apply elem_of_app; by right)). by apply HA1.
      + intros b Hb. rewrite (Harr2 b Hb). by apply Harr1.
    - (* stop *)
      exists [fs]. cbn [map apply_loop_f hd tl apply_patches_loop head fmap option_fmap option_map is_null].
      rewrite Eap. cbn [bind]. destruct (Z.eqb_spec st 0) as [|_]; [done|]. cbn [negb].
      exists h1, docT, (ptT :: rest), L1.
      split.
      { rewrite (bindM_Ret _ _ _ _ _ E). destruct (Z.eqb_spec st 0) as [|_]; [done|]. done. }
      split; [exact I1|]. split; [done|]. split; [done|].
      split; [cbn [map]; by rewrite Hrp, Hrest1|]. split; [done|]. split; [done|]. split; [done|]. split; [done|]. split; [done|lia].
  Qed.
End LoopOracle.

(** * the entry points *)
Section EntryOracle.
  Variable oracle : nat -> bool.
  Context (h : heap) (A B : forest) (doc rb : tree) (ppa : Tree.path) (aid : positive) (da : rdata) (elems : list tree) (flag : bool).
  Notation F := (F2 A B [] doc rb).
  Notation St := (h_str h).
  Notation arr := (T aid da elems).
  Hypothesis I : MInv h F.
  Hypothesis Harr : subtree_t rb ppa = Some arr.

  Theorem apply_patches_oracle :
    (Tree.is_array (reify St arr) = true -> forall fss, run_okf fss (reify St doc) (map (reify St) elems) flag) ->
    exists fss : list fails,
    match apply_patches_f fss (reify St doc) (reify St arr) flag with
    | Ok (st, doc', patches', lks) =>
        exists h' docT arrT L,
          apply_patches oracle (Some (tid doc)) (Some aid) flag h = Ret (st, h') /\
          MInv h' (F2 (L ++ A) B [] docT (put_t rb ppa arrT)) /\ tid docT = tid doc /\ tid arrT = aid /\
          reify (h_str h') docT = doc' /\ reify (h_str h') arrT = patches' /\ reify (h_str h') <$> L = lks /\
          (NoLeak h F -> NoLeak h' (F2 (L ++ A) B [] docT (put_t rb ppa arrT))) /\ (h_next h <= h_next h')%positive
    | _ => True
    end.
  Proof.
    intros Hok. pose proof (F2_node_b A B [] doc rb ppa _ Harr) as HarrF.
    unfold apply_patches_f, apply_patches, cJSON_IsArray. cbn [is_null].
    pose proof (run_is_type h F I aid da elems c_cJSON_Array HarrF) as Hty.
    unfold Tree.is_array, Tree.is_type, Tree.tymask in *. change (Tree.n_ty (reify St arr)) with (rd_type da) in *.
    destruct (Z.land (rd_type da) 255 =? c_cJSON_Array) eqn:Ea; cbn [negb].
    2:{ exists []. rewrite (bindM_Ret _ _ _ _ _ Hty). cbn [negb].
        exists h, doc, arr, []. rewrite (put_t_id rb ppa _ Harr). cbn [app]. split_and!; done. }
    pose proof (loop_sim_o oracle B rb ppa aid da elems flag Harr elems [] h doc A (Pos.to_nat (h_next h))) as HL.
    cbn [app] in HL. unfold PatchHeapLoop.rbk in HL. rewrite (put_t_id rb ppa _ Harr) in HL.
    destruct (HL I ltac:(exact (children_fuel h F I aid da elems HarrF)) (Hok eq_refl)) as (fss & HL'). exists fss.
    rewrite reify_children. cbn [tchildren].
    destruct (apply_loop_f fss (reify St doc) (map (reify St) elems) flag) as [[[[st o] ps] lks]| |]; [|done|done]. cbn [bind].
    destruct HL' as (h' & docT & rest' & L & E & I' & Ht & Hre & Hr & HLk & _ & _ & Hstr & NL & En).
    exists h', docT, (T aid da rest'), L. split.
    { rewrite (bindM_Ret _ _ _ _ _ Hty). cbn [negb is_null]. rewrite (bindM_Ret _ _ _ _ _ (run_get_child h F I aid da elems HarrF)).
      unfold heap_fuel. unfold bindM at 1. exact E. }
    split; [exact I'|]. split; [done|]. split; [done|]. split; [done|].
    split; [|split; [exact HLk|split; [exact NL|exact En]]].
    rewrite !reify_unfold. cbn [PatchDefs.set_children]. rewrite Hr. f_equal.
    - destruct (rd_vstr da) as [b|] eqn:Eb; [|done]. cbn. rewrite Hstr; [done|]. unfold PatchHeapLoop.arr_strs. rewrite Eb. apply elem_of_app. left. cbn. by left.
    - destruct (rd_key da) as [b|] eqn:Eb; [|done]. cbn. rewrite Hstr; [done|]. unfold PatchHeapLoop.arr_strs. rewrite Eb. apply elem_of_app. right. cbn. by left.
  Qed.
End EntryOracle.

(** a patch array without [test] operations satisfies [run_okf] whatever the schedule and the document *)
Lemma run_okf_no_test ps cs :
  Forall (fun p => PatchDefs.decode_patch_operation p cs <> Ok PatchDefs.TEST) ps ->
  forall fss object, run_okf fss object ps cs.
Proof.
  induction 1 as [|p r Hp Hr IH]; intros fss object; [done|]. cbn [run_okf].
  split; [intros E; by apply Hp in E|]. split; [intros E; by apply Hp in E|].
  destruct (apply_patch_f (hd no_fails fss) object p cs) as [[[[st o] pv] lk]| |]; [|done|done]. intros _. apply IH.
Qed.
