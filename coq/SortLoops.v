(** SortLoops.v — specifications of the loops of [sort_list] over the chain predicate of
    SortChain.v: the sortedness pre-check, the two-speed walk to the middle, the cut, the merge
    loop with its invariant, the two append tails, and the walk to the last child. *)
From CJ Require Import Base Dbl Tree Heap SortDefs SortSpec SortChain.
From stdpp Require Import gmap sorting.
Local Open Scope Z_scope.

Ltac mstep H := rewrite (bind_eq _ _ _ _ _ H); cbn beta iota.

(** "compare_strings(...) <= 0" as a boolean relation on nodes *)
Definition le_of (cmpf : positive -> positive -> Z) (x y : positive) : bool := cmpf x y <=? 0.

(** The loops are specified for ANY node predicate [okn] and comparison function [cmpf] such that
    the key loads and [compare_strings] succeed on [okn] nodes and return [cmpf]; no order property
    of [cmpf] is used here.  SortProofs.v instantiates this twice: members with string keys
    ([node_ok], [kcmp]: a total preorder) and members whose key may be NULL ([node_ok0], [cmpz]). *)
Section Loops.
  Variable h : heap.
  Variable cs : bool.
  Variable okn : positive -> Prop.
  Variable cmpf : positive -> positive -> Z.
  Hypothesis okn_live : forall x, okn x -> x ∈ h_live h.
  Hypothesis okn_key : forall m x, okn x -> get_key (Some x) (with_lnk h m) = Ret (key_ptr h x, with_lnk h m).
  Hypothesis okn_cmp : forall m x y, okn x -> okn y ->
    compare_strings (key_ptr h x) (key_ptr h y) cs (with_lnk h m) = Ret (cmpf x y, with_lnk h m).
  Notation le := (le_of cmpf).
  Notation ok := okn.
  Notation live x := (x ∈ h_live h).

  (** ** the sortedness pre-check *)

  (** where the scan stops: the suffix of the chain starting at [current_item] *)
  Fixpoint scan_pure (l : list positive) : list positive :=
    match l with
    | x :: r =>
        match r with
        | y :: _ => if cmpf x y <? 0 then scan_pure r else l
        | [] => l
        end
    | [] => l
    end.

  Lemma scan_pure_suffix l : exists pre, l = pre ++ scan_pure l.
  Proof.
    induction l as [|x r IH]; [exists []; reflexivity|].
    destruct r as [|y r']; [exists []; reflexivity|].
    cbn [scan_pure]. destruct (cmpf x y <? 0).
    - destruct IH as [pre Hp]. exists (x :: pre). cbn [app]. f_equal. exact Hp.
    - exists []. reflexivity.
  Qed.

  Lemma scan_pure_nonempty l : l <> [] -> scan_pure l <> [].
  Proof.
    induction l as [|x r IH]; [congruence|]. intros _.
    destruct r as [|y r']; [cbn; congruence|].
    cbn [scan_pure]. destruct (cmpf x y <? 0); [apply IH|]; congruence.
  Qed.

  Lemma scan_pure_sorted l : (length (scan_pure l) <= 1)%nat -> Sorted (fun a b => le a b = true) l.
  Proof.
    induction l as [|x r IH]; intros Hl; [constructor|].
    destruct r as [|y r']; [repeat constructor|].
    cbn [scan_pure] in Hl. destruct (cmpf x y <? 0) eqn:E.
    - constructor; [apply IH; exact Hl|]. constructor. unfold le_of. apply Z.leb_le. apply Z.ltb_lt in E. lia.
    - cbn [length] in Hl. lia.
  Qed.

  Lemma scan_sorted_spec m : forall fuel l,
    chain m l -> (forall x, x ∈ l -> ok x) -> (length l < fuel)%nat ->
    scan_sorted fuel (head l) cs (with_lnk h m) = Ret (head (scan_pure l), with_lnk h m).
  Proof.
    induction fuel as [|f IH]; intros l Hc Hok Hf; [lia|].
    destruct l as [|x r]; [reflexivity|].
    assert (ok x) as Hx by (apply Hok; left).
    destruct (chain_head _ _ _ _ Hc) as [p Hmx].
    cbn [scan_sorted head].
    mstep (get_next_with h m x _ _ (okn_live _ Hx) Hmx).
    destruct r as [|y r']; [reflexivity|]. cbn [head].
    assert (ok y) as Hy by (apply Hok; right; left).
    mstep (okn_key m x Hx).
    mstep (get_next_with h m x _ _ (okn_live _ Hx) Hmx).
    mstep (okn_key m y Hy).
    mstep (okn_cmp m x y Hx Hy).
    cbn [scan_pure].
    destruct (cmpf x y <? 0); [|reflexivity].
    mstep (get_next_with h m x _ _ (okn_live _ Hx) Hmx).
    apply (IH (y :: r')).
    - eapply seg_tail. exact Hc.
    - intros z Hz. apply Hok. right. exact Hz.
    - cbn [length] in *. lia.
  Qed.

  (** ** the walk to the middle *)

  Fixpoint mid (ls lc : list positive) : list positive :=
    match lc with
    | [] => ls
    | _ :: lc1 =>
        match lc1 with
        | [] => tail ls
        | _ :: lc2 => mid (tail ls) lc2
        end
    end.

  Lemma mid_drop : forall n lc ls, (length lc <= n)%nat -> (length lc <= length ls)%nat ->
    exists k, mid ls lc = drop k ls /\ (2 * k = length lc \/ 2 * k = length lc + 1)%nat.
  Proof.
    induction n as [|n IH]; intros lc ls Hn Hl.
    - destruct lc; [|cbn in Hn; lia]. exists O. split; [reflexivity|left; reflexivity].
    - destruct lc as [|c lc1]; [exists O; split; [reflexivity|left; reflexivity]|].
      destruct lc1 as [|c' lc2].
      + exists 1%nat. split; [destruct ls; reflexivity|right; reflexivity].
      + cbn [mid]. destruct (IH lc2 (tail ls)) as (k & Hk & Hk2).
        * cbn [length] in Hn. lia.
        * destruct ls; cbn [length tail] in *; lia.
        * exists (S k). split.
          -- rewrite Hk. destruct ls; [cbn [length] in Hl; lia|reflexivity].
          -- cbn [length]. lia.
  Qed.

  Lemma split_point l : (2 <= length l)%nat ->
    exists k, mid l l = drop k l /\ take (length l - length (mid l l)) l = take k l /\ (1 <= k < length l)%nat.
  Proof.
    intros Hl. destruct (mid_drop (length l) l l ltac:(lia) ltac:(lia)) as (k & Hk & Hk2).
    exists k. split; [exact Hk|]. rewrite Hk, drop_length. split; [f_equal; lia|lia].
  Qed.

  (** ** what [sort_list] computes, as a list function (same recursion, same fuel) *)
  Fixpoint msort (fuel : nat) (l : list positive) : list positive :=
    match fuel with
    | O => l
    | S f =>
        match l with
        | _ :: _ :: _ =>
            if (length (scan_pure l) <=? 1)%nat then l
            else merge_runs le (msort f (take (length l - length (mid l l)) l)) (msort f (mid l l))
        | _ => l
        end
    end.

  Lemma msort_cons2 f x y r :
    msort (S f) (x :: y :: r) =
    if (length (scan_pure (x :: y :: r)) <=? 1)%nat then x :: y :: r
    else merge_runs le (msort f (take (length (x :: y :: r) - length (mid (x :: y :: r) (x :: y :: r))) (x :: y :: r)))
                       (msort f (mid (x :: y :: r) (x :: y :: r))).
  Proof. reflexivity. Qed.

  Lemma msort_perm : forall f l, Permutation (msort f l) l.
  Proof.
    induction f as [|f IH]; intros l; [reflexivity|].
    destruct l as [|x [|y r]]; [reflexivity|reflexivity|].
    rewrite msort_cons2. destruct (length (scan_pure (x :: y :: r)) <=? 1)%nat; [reflexivity|].
    destruct (split_point (x :: y :: r) ltac:(cbn [length]; lia)) as (k & Hk & Hk' & _).
    rewrite Hk', Hk, merge_runs_perm, !IH. rewrite take_drop. reflexivity.
  Qed.

  (** for a total preorder it is the stable insertion sort *)
  Lemma msort_isort :
    (forall a b, le a b = true \/ le b a = true) ->
    (forall a b c, le a b = true -> le b c = true -> le a c = true) ->
    forall f l, (length l <= f)%nat -> msort f l = isort le l.
  Proof.
    intros Htot Htr. induction f as [|f IH]; intros l Hl.
    - destruct l; [reflexivity|cbn in Hl; lia].
    - destruct l as [|x [|y r]]; [reflexivity|reflexivity|].
      rewrite msort_cons2. destruct (Nat.leb_spec (length (scan_pure (x :: y :: r))) 1) as [Hs|Hs].
      + symmetry. apply isort_id. apply scan_pure_sorted. exact Hs.
      + destruct (split_point (x :: y :: r) ltac:(cbn [length]; lia)) as (k & Hk & Hk' & Hk1).
        rewrite Hk', Hk. rewrite !IH.
        * rewrite (merge_isort le Htot Htr), take_drop. reflexivity.
        * rewrite drop_length. lia.
        * rewrite take_length. lia.
  Qed.

  Lemma find_middle_spec m : forall fuel ls lc,
    chain m ls -> chain m lc -> (forall x, x ∈ ls -> live x) -> (forall x, x ∈ lc -> live x) ->
    (length lc <= length ls)%nat -> (length lc < fuel)%nat ->
    find_middle fuel (head ls) (head lc) (with_lnk h m) = Ret (head (mid ls lc), with_lnk h m).
  Proof.
    induction fuel as [|f IH]; intros ls lc Hs Hc Ls Lc Hl Hf; [lia|].
    destruct lc as [|c lc1]; [reflexivity|].
    destruct ls as [|s ls1]; [cbn in Hl; lia|].
    destruct (chain_head _ _ _ _ Hs) as [ps Hms].
    destruct (chain_head _ _ _ _ Hc) as [pc Hmc].
    cbn [find_middle head].
    mstep (get_next_with h m s _ _ (Ls s (elem_of_list_here _ _)) Hms).
    mstep (get_next_with h m c _ _ (Lc c (elem_of_list_here _ _)) Hmc).
    assert (chain m ls1) as Hs1 by (eapply seg_tail; exact Hs).
    assert (forall x, x ∈ ls1 -> live x) as Ls1 by (intros z Hz; apply Ls; right; exact Hz).
    destruct lc1 as [|c' lc2]; cbn [head mid tail].
    - apply (IH ls1 []); try assumption; [exact I|intros z Hz; inversion Hz|cbn; lia|cbn [length] in *; lia].
    - assert (chain m (c' :: lc2)) as Hc1 by (eapply seg_tail; exact Hc).
      destruct (chain_head _ _ _ _ Hc1) as [pc' Hmc'].
      mstep (get_next_with h m c' _ _ (Lc c' (elem_of_list_further _ _ _ (elem_of_list_here _ _))) Hmc').
      apply (IH ls1 lc2); try assumption.
      + eapply seg_tail. exact Hc1.
      + intros z Hz. apply Lc. right. right. exact Hz.
      + cbn [length] in *. lia.
      + cbn [length] in *. lia.
  Qed.

  (** ** the cut *)

  Lemma split_spec m l0 t s r :
    chain m (l0 ++ t :: s :: r) -> NoDup (l0 ++ t :: s :: r) -> live t -> live s ->
    exists m', split_before (Some s) (with_lnk h m) = Ret (tt, with_lnk h m') /\
               chain m' (l0 ++ [t]) /\ chain m' (s :: r) /\
               (forall z, z <> t -> z <> s -> m' !! z = m !! z).
  Proof.
    intros Hc Hnd Lt Ls.
    destruct (seg_split _ _ _ _ _ _ _ Hc Hnd) as (pt & ns & Hmt & Hms & H1 & H2).
    assert (t <> s) as Hne.
    { apply NoDup_app in Hnd as (_ & _ & Hnd). apply NoDup_cons in Hnd as [Hts _].
      intros ->. apply Hts. left. }
    eexists. split; [|split; [exact H1|split; [eapply seg_weaken_pv; exact H2|]]].
    - unfold split_before.
      mstep (get_prev_with h m s _ _ Ls Hms).
      mstep (get_prev_with h m s _ _ Ls Hms).
      mstep (set_next_with h m t _ _ None Lt Hmt).
      apply (set_prev_with h (<[t:=(None, pt)]> m) s ns (Some t) None Ls).
      rewrite lookup_insert_ne by congruence. exact Hms.
    - intros z Hzt Hzs. rewrite !lookup_insert_ne by congruence. reflexivity.
  Qed.

  (** ** linking one more node behind the merged prefix *)

  Lemma head_snoc_ne {A} (l : list A) x y : head ((l ++ [x]) ++ y) = head (l ++ [x]).
  Proof. destruct l; reflexivity. Qed.

  Lemma link_step m acc s ns ps :
    seg m None acc None -> NoDup acc -> s ∉ acc -> m !! s = Some (ns, ps) ->
    (forall x, x ∈ acc -> live x) -> live s ->
    exists m' ps',
      (match head acc with
       | None => ret (Some s, Some s)
       | Some _ => set_next (last acc) (Some s) ;;; set_prev (Some s) (last acc) ;;; ret (head acc, Some s)
       end) (with_lnk h m) = Ret ((head (acc ++ [s]), Some s), with_lnk h m') /\
      seg m' None (acc ++ [s]) None /\ m' !! s = Some (ns, ps') /\
      (forall z, z ∉ acc -> z <> s -> m' !! z = m !! z).
  Proof.
    intros Hs Hnd Hsa Hms La Ls.
    destruct acc as [|a0 acc0] using rev_ind.
    - exists m, ps. split; [reflexivity|]. split; [|split; [exact Hms|reflexivity]].
      cbn [app seg]. exists ns, ps. split; [exact Hms|]. split; [intros q Hq; discriminate|].
      split; [intros q Hq; discriminate|exact I].
    - clear IHacc0. rename a0 into t. rename acc0 into l0.
      assert (t <> s) as Hne by (intros ->; apply Hsa; apply elem_of_app; right; left).
      assert (live t) as Lt by (apply La; apply elem_of_app; right; left).
      destruct (seg_lookup _ _ _ _ t Hs) as [[nt pt] Hmt]; [apply elem_of_app; right; left|].
      exists (<[s := (ns, Some t)]> (<[t := (Some s, pt)]> m)), (Some t).
      split; [|split; [|split]].
      + rewrite last_snoc. rewrite head_snoc_ne.
        destruct (head (l0 ++ [t])) eqn:Eh; [|destruct l0; discriminate].
        mstep (set_next_with h m t _ _ (Some s) Lt Hmt).
        assert ((<[t:=(Some s, pt)]> m) !! s = Some (ns, ps)) as Hms' by (rewrite lookup_insert_ne by congruence; exact Hms).
        mstep (set_prev_with h _ s _ _ (Some t) Ls Hms').
        reflexivity.
      + rewrite <- app_assoc. cbn [app].
        eapply (seg_join m t s [] None nt pt ns ps l0 None Hs); try eassumption.
        * cbn [seg]. exists ns, ps. split; [exact Hms|]. split; [intros q Hq; discriminate|].
          split; [intros q Hq; discriminate|exact I].
        * replace (l0 ++ [t; s]) with ((l0 ++ [t]) ++ [s]) by (rewrite <- app_assoc; reflexivity).
          apply NoDup_app. split; [exact Hnd|]. split; [|apply NoDup_singleton].
          intros z Hz Hz'. apply elem_of_list_singleton in Hz'. subst z. contradiction.
      + apply lookup_insert.
      + intros z Hz Hzs. rewrite !lookup_insert_ne; [reflexivity| |congruence].
        intros ->. apply Hz. apply elem_of_app. right. left.
  Qed.

  (** ** the merge loop *)

  Lemma merge_loop_spec : forall fuel a b acc m,
    (length a + length b < fuel)%nat ->
    NoDup (acc ++ a ++ b) -> (forall x, x ∈ acc ++ a ++ b -> ok x) ->
    chain m a -> chain m b -> seg m None acc None ->
    exists acc' a' b' m',
      merge_loop fuel (head a) (head b) (head acc) (last acc) cs (with_lnk h m)
      = Ret ((head a', head b', head acc', last acc'), with_lnk h m') /\
      (a' = [] \/ b' = []) /\
      acc' ++ a' ++ b' = acc ++ merge_runs le a b /\
      chain m' a' /\ chain m' b' /\ seg m' None acc' None /\
      (forall z, z ∉ acc ++ a ++ b -> m' !! z = m !! z) /\
      (a <> [] \/ b <> [] -> a' <> [] \/ b' <> []) /\
      (acc <> [] \/ (a <> [] /\ b <> []) -> acc' <> []).
  Proof.
    induction fuel as [|f IH]; intros a b acc m Hf Hnd Hok Ha Hb Hacc; [lia|].
    destruct a as [|x a1].
    { exists acc, [], b, m. split; [reflexivity|]. split; [left; reflexivity|].
      split; [rewrite merge_runs_nil_l; reflexivity|]. repeat split; try assumption; tauto. }
    destruct b as [|y b1].
    { exists acc, (x :: a1), [], m. split; [reflexivity|]. split; [right; reflexivity|].
      split; [rewrite merge_runs_nil_r, app_nil_r; reflexivity|]. repeat split; try assumption; tauto. }
    assert (ok x) as Hx by (apply Hok; rewrite !elem_of_app; right; left; left).
    assert (ok y) as Hy by (apply Hok; rewrite !elem_of_app; right; right; left).
    pose proof (okn_live _ Hx) as Lx. pose proof (okn_live _ Hy) as Ly.
    destruct (chain_head _ _ _ _ Ha) as [px Hmx].
    destruct (chain_head _ _ _ _ Hb) as [py Hmy].
    apply NoDup_app in Hnd as Hnd3. destruct Hnd3 as (Hnacc & Hdis & Hnab).
    assert (forall z, z ∈ acc -> live z) as Lacc.
    { intros z Hz. apply okn_live, Hok. apply elem_of_app. left. exact Hz. }
    assert (x ∉ acc) as Hxacc by (intros Hz; apply (Hdis x Hz); apply elem_of_app; left; left).
    assert (y ∉ acc) as Hyacc by (intros Hz; apply (Hdis y Hz); apply elem_of_app; right; left).
    assert (x <> y) as Hxy.
    { intros ->. apply NoDup_app in Hnab as (_ & Hd & _). apply (Hd y); left. }
    cbn [merge_loop head].
    mstep (okn_key m x Hx).
    mstep (okn_key m y Hy).
    mstep (okn_cmp m x y Hx Hy).
    change (cmpf x y <=? 0) with (le x y).
    rewrite merge_runs_cons.
    destruct (le x y) eqn:E.
    - (* take from the first run *)
      destruct (link_step m acc x _ _ Hacc Hnacc Hxacc Hmx Lacc Lx) as (m1 & px' & Hrun & Hseg1 & Hm1x & Hfr1).
      mstep Hrun. cbn [fst snd ptr_eqb]. rewrite Pos.eqb_refl.
      mstep (get_next_with h m1 x _ _ Lx Hm1x).
      assert ((acc ++ [x]) ++ a1 ++ y :: b1 = acc ++ (x :: a1) ++ y :: b1) as EL
        by (rewrite <- app_assoc; reflexivity).
      destruct (IH a1 (y :: b1) (acc ++ [x]) m1) as (acc' & a' & b' & m' & Hrun' & Hor & Heq & Ha' & Hb' & Hacc' & Hfr' & Hne1 & Hne2).
      + cbn [length] in *. lia.
      + rewrite EL. exact Hnd.
      + intros z Hz. apply Hok. rewrite <- EL. exact Hz.
      + eapply seg_frame; [|eapply seg_tail; exact Ha]. intros z Hz. apply Hfr1.
        * intros Hz'. apply (Hdis z Hz'). apply elem_of_app. left. right. exact Hz.
        * intros ->. apply NoDup_app in Hnab as (Hn1 & _ & _). apply NoDup_cons in Hn1 as [Hn1 _]. contradiction.
      + eapply seg_frame; [|exact Hb]. intros z Hz. apply Hfr1.
        * intros Hz'. apply (Hdis z Hz'). apply elem_of_app. right. exact Hz.
        * intros ->. apply NoDup_app in Hnab as (_ & Hd & _). apply (Hd x); [left|exact Hz].
      + exact Hseg1.
      + exists acc', a', b', m'. rewrite last_snoc in Hrun'. split; [exact Hrun'|]. split; [exact Hor|].
        split; [rewrite Heq, <- app_assoc; reflexivity|]. split; [exact Ha'|]. split; [exact Hb'|]. split; [exact Hacc'|].
        split; [|split].
        * intros z Hz. rewrite Hfr' by (rewrite EL; exact Hz). apply Hfr1.
          -- intros Hz'. apply Hz. apply elem_of_app. left. exact Hz'.
          -- intros ->. apply Hz. rewrite !elem_of_app. right. left. left.
        * intros _. apply Hne1. right. congruence.
        * intros _. apply Hne2. left. destruct acc; discriminate.
    - (* take from the second run *)
      destruct (link_step m acc y _ _ Hacc Hnacc Hyacc Hmy Lacc Ly) as (m1 & py' & Hrun & Hseg1 & Hm1y & Hfr1).
      mstep Hrun. cbn [fst snd ptr_eqb].
      destruct (Pos.eqb_spec x y) as [Exy|_]; [contradiction|].
      mstep (get_next_with h m1 y _ _ Ly Hm1y).
      assert (Permutation ((acc ++ [y]) ++ (x :: a1) ++ b1) (acc ++ (x :: a1) ++ y :: b1)) as EP.
      { rewrite <- app_assoc. apply Permutation_app_head. cbn [app]. apply (Permutation_middle (x :: a1) b1 y). }
      destruct (IH (x :: a1) b1 (acc ++ [y]) m1) as (acc' & a' & b' & m' & Hrun' & Hor & Heq & Ha' & Hb' & Hacc' & Hfr' & Hne1 & Hne2).
      + cbn [length] in *. lia.
      + rewrite EP. exact Hnd.
      + intros z Hz. apply Hok. rewrite <- EP. exact Hz.
      + eapply seg_frame; [|exact Ha]. intros z Hz. apply Hfr1.
        * intros Hz'. apply (Hdis z Hz'). apply elem_of_app. left. exact Hz.
        * intros ->. apply NoDup_app in Hnab as (_ & Hd & _). apply (Hd y Hz). left.
      + eapply seg_frame; [|eapply seg_tail; exact Hb]. intros z Hz. apply Hfr1.
        * intros Hz'. apply (Hdis z Hz'). apply elem_of_app. right. right. exact Hz.
        * intros ->. apply NoDup_app in Hnab as (_ & _ & Hn2). apply NoDup_cons in Hn2 as [Hn2 _]. contradiction.
      + exact Hseg1.
      + exists acc', a', b', m'. rewrite last_snoc in Hrun'. split; [exact Hrun'|]. split; [exact Hor|].
        split; [rewrite Heq, <- app_assoc; reflexivity|]. split; [exact Ha'|]. split; [exact Hb'|]. split; [exact Hacc'|].
        split; [|split].
        * intros z Hz. rewrite Hfr' by (rewrite EP; exact Hz). apply Hfr1.
          -- intros Hz'. apply Hz. apply elem_of_app. left. exact Hz'.
          -- intros ->. apply Hz. rewrite !elem_of_app. right. right. left.
        * intros _. apply Hne1. left. congruence.
        * intros _. apply Hne2. left. destruct acc; discriminate.
  Qed.

  (** ** the two append tails *)

  Lemma append_rest_spec m l0 t s r (k : M ptr) :
    seg m None (l0 ++ [t]) None -> chain m (s :: r) -> NoDup (l0 ++ t :: s :: r) -> live t -> live s ->
    exists m', append_rest (Some s) (head (l0 ++ [t])) (last (l0 ++ [t])) k (with_lnk h m) = k (with_lnk h m') /\
               chain m' (l0 ++ t :: s :: r) /\
               (forall z, z <> t -> z <> s -> m' !! z = m !! z).
  Proof.
    intros Hs Hc Hnd Lt Ls.
    assert (t <> s) as Hne.
    { apply NoDup_app in Hnd as (_ & _ & Hnd). apply NoDup_cons in Hnd as [Hts _].
      intros ->. apply Hts. left. }
    destruct (seg_lookup _ _ _ _ t Hs) as [[nt pt] Hmt]; [apply elem_of_app; right; left|].
    destruct (chain_head _ _ _ _ Hc) as [ps Hms].
    exists (<[s := (head r, Some t)]> (<[t := (Some s, pt)]> m)). split; [|split].
    - unfold append_rest. rewrite last_snoc.
      destruct (head (l0 ++ [t])) eqn:Eh; [|destruct l0; discriminate].
      mstep (set_next_with h m t _ _ (Some s) Lt Hmt).
      assert ((<[t:=(Some s, pt)]> m) !! s = Some (head r, ps)) as Hms' by (rewrite lookup_insert_ne by congruence; exact Hms).
      mstep (set_prev_with h _ s _ _ (Some t) Ls Hms').
      reflexivity.
    - eapply (seg_join m t s r (Some None) nt pt (head r) ps l0 None Hs); eassumption.
    - intros z Hzt Hzs. rewrite !lookup_insert_ne by congruence. reflexivity.
  Qed.

  Lemma merge_finish_spec m acc a b :
    (a = [] \/ b = []) -> (a <> [] \/ b <> []) -> acc <> [] ->
    chain m a -> chain m b -> seg m None acc None -> NoDup (acc ++ a ++ b) ->
    (forall x, x ∈ acc ++ a ++ b -> live x) ->
    exists m', merge_finish (head a) (head b) (head acc) (last acc) (with_lnk h m)
               = Ret (head (acc ++ a ++ b), with_lnk h m') /\
               chain m' (acc ++ a ++ b) /\
               (forall z, z ∉ acc ++ a ++ b -> m' !! z = m !! z).
  Proof.
    intros Hor Hne Hacc Ha Hb Hs Hnd Hl.
    destruct acc as [|t l0 _] using rev_ind; [congruence|].
    assert (live t) as Lt by (apply Hl; rewrite !elem_of_app; left; right; left).
    unfold merge_finish.
    destruct a as [|x a1]; destruct b as [|y b1].
    - destruct Hne; congruence.
    - cbn [head app] in *.
      assert (live y) as Ly by (apply Hl; rewrite !elem_of_app; right; left).
      assert (NoDup (l0 ++ t :: y :: b1)) as Hnd' by (rewrite <- app_assoc in Hnd; exact Hnd).
      change (append_rest None (head (l0 ++ [t])) (last (l0 ++ [t]))
                (append_rest (Some y) (head (l0 ++ [t])) (last (l0 ++ [t])) (ret (head (l0 ++ [t])))) (with_lnk h m))
        with (append_rest (Some y) (head (l0 ++ [t])) (last (l0 ++ [t])) (ret (head (l0 ++ [t]))) (with_lnk h m)).
      destruct (append_rest_spec m l0 t y b1 (ret (head (l0 ++ [t]))) Hs Hb Hnd' Lt Ly) as (m' & Hrun & Hc' & Hfr).
      exists m'. rewrite <- app_assoc. cbn [app]. split; [|split; [exact Hc'|]].
      + etransitivity; [exact Hrun|]. unfold ret. f_equal. f_equal. destruct l0; reflexivity.
      + intros z Hz. apply Hfr.
        * intros ->. apply Hz. apply elem_of_app. right. left.
        * intros ->. apply Hz. apply elem_of_app. right. right. left.
    - rewrite app_nil_r in *. cbn [head] in *.
      assert (live x) as Lx by (apply Hl; rewrite !elem_of_app; right; left).
      assert (NoDup (l0 ++ t :: x :: a1)) as Hnd' by (rewrite <- app_assoc in Hnd; exact Hnd).
      destruct (append_rest_spec m l0 t x a1 (append_rest None (head (l0 ++ [t])) (last (l0 ++ [t])) (ret (head (l0 ++ [t])))) Hs Ha Hnd' Lt Lx) as (m' & Hrun & Hc' & Hfr).
      exists m'. rewrite <- app_assoc. cbn [app]. split; [|split; [exact Hc'|]].
      + etransitivity; [exact Hrun|]. cbn [append_rest]. unfold ret. f_equal. f_equal. destruct l0; reflexivity.
      + intros z Hz. apply Hfr.
        * intros ->. apply Hz. apply elem_of_app. right. left.
        * intros ->. apply Hz. apply elem_of_app. right. right. left.
    - destruct Hor; congruence.
  Qed.

  (** ** the walk to the last child *)

  Lemma find_last_spec m : forall fuel l0 t,
    chain m (l0 ++ [t]) -> (forall x, x ∈ l0 ++ [t] -> live x) -> (length l0 < fuel)%nat ->
    find_last fuel (head (l0 ++ [t])) (with_lnk h m) = Ret (Some t, with_lnk h m).
  Proof.
    induction fuel as [|f IH]; intros l0 t Hc Hl Hf; [lia|].
    destruct l0 as [|x l1]; cbn [app head] in *.
    - destruct (chain_head m None t [] Hc) as [p Hm]. cbn [find_last].
      mstep (get_next_with h m t _ _ (Hl t (elem_of_list_here _ _)) Hm). reflexivity.
    - destruct (chain_head m None x (l1 ++ [t]) Hc) as [p Hm]. cbn [find_last].
      assert (live x) as Lx by (apply Hl; left).
      mstep (get_next_with h m x _ _ Lx Hm).
      destruct (head (l1 ++ [t])) eqn:Eh; [|destruct l1; discriminate].
      mstep (get_next_with h m x _ _ Lx Hm). rewrite <- Eh.
      apply IH.
      + eapply seg_tail. exact Hc.
      + intros z Hz. apply Hl. right. exact Hz.
      + cbn [length] in Hf. lia.
  Qed.
  (** ** [sort_list] *)

  Lemma head_app_ne {A} (l1 l2 : list A) : l1 <> [] -> head (l1 ++ l2) = head l1.
  Proof. destruct l1; [congruence|reflexivity]. Qed.

  Lemma sort_list_spec : forall fuel l m,
    (length l + 2 <= fuel)%nat -> chain m l -> NoDup l -> (forall x, x ∈ l -> ok x) ->
    exists m', sort_list fuel (head l) cs (with_lnk h m) = Ret (head (msort fuel l), with_lnk h m') /\
               chain m' (msort fuel l) /\
               (forall z, z ∉ l -> m' !! z = m !! z).
  Proof.
    induction fuel as [|f IH]; intros l m Hf Hc Hnd Hok; [lia|].
    destruct l as [|x r].
    { exists m. split; [reflexivity|]. split; [exact I|reflexivity]. }
    assert (ok x) as Hx by (apply Hok; left). pose proof (okn_live _ Hx) as Lx.
    destruct (chain_head _ _ _ _ Hc) as [px Hmx].
    cbn [sort_list head].
    mstep (get_next_with h m x _ _ Lx Hmx).
    destruct r as [|y r'].
    { exists m. split; [reflexivity|]. split; [exact Hc|reflexivity]. }
    cbn [head]. rewrite (msort_cons2 f x y r'). set (l := x :: y :: r') in *.
    assert (forall z, z ∈ l -> z ∈ h_live h) as Hlive by (intros z Hz; apply okn_live, Hok, Hz).
    (* the pre-check *)
    rewrite (bind_eq _ _ _ _ _ (scan_sorted_spec m f l Hc Hok ltac:(cbn [length] in *; lia))).
    destruct (scan_pure_suffix l) as [pre Hpre].
    pose proof (scan_pure_nonempty l ltac:(discriminate)) as Hsne.
    destruct (scan_pure l) as [|z w] eqn:Esp; [congruence|]. cbn [head]. cbn beta iota.
    assert (chain m (z :: w)) as Hcz by (rewrite Hpre in Hc; eapply seg_suffix; exact Hc).
    assert (z ∈ l) as Hzl by (rewrite Hpre; apply elem_of_app; right; left).
    destruct (chain_head _ _ _ _ Hcz) as [pz Hmz].
    assert ((n' <~ get_next (Some z) ;; ret (match n' with None => true | Some _ => false end)) (with_lnk h m)
            = Ret (match head w with None => true | Some _ => false end, with_lnk h m)) as Hin.
    { mstep (get_next_with h m z _ _ (Hlive z Hzl) Hmz). reflexivity. }
    mstep Hin. clear Hin.
    destruct w as [|w0 w']; cbn [head]; cbn beta iota.
    { (* already sorted: left alone *)
      exists m. cbn [length Nat.leb].
      split; [reflexivity|]. split; [exact Hc|reflexivity]. }
    cbn [length Nat.leb].
    clear Hcz Hmz Hzl Hpre Hsne Esp pre pz z w0 w'.
    (* the middle *)
    rewrite (bind_eq _ _ _ _ _ (find_middle_spec m f l l Hc Hc Hlive Hlive ltac:(lia) ltac:(cbn [length] in *; lia))).
    assert (2 <= length l)%nat as Hlen2 by (cbn; lia).
    destruct (split_point l Hlen2) as (k & Hmid & Htk & Hk1 & Hk2).
    rewrite Htk, Hmid.
    pose proof (take_drop k l) as Htd.
    assert (length (take k l) = k) as Hlt by (rewrite take_length; lia).
    assert (length (drop k l) = (length l - k)%nat) as Hld by (apply drop_length).
    destruct (take k l) as [|t0 l00] eqn:Et using rev_ind; [cbn in Hlt; lia|]. clear IHl00.
    rename t0 into t. rename l00 into l0.
    destruct (drop k l) as [|s r2] eqn:Ed; [exfalso; change (0%nat = (length l - k)%nat) in Hld; lia|].
    assert (l = l0 ++ t :: s :: r2) as El by (rewrite <- Htd, <- app_assoc; reflexivity).
    assert (forall z, z ∈ l0 ++ [t] -> z ∈ l) as In1 by (intros z Hz; rewrite <- Htd; apply elem_of_app; left; exact Hz).
    assert (forall z, z ∈ s :: r2 -> z ∈ l) as In2 by (intros z Hz; rewrite <- Htd; apply elem_of_app; right; exact Hz).
    assert (NoDup (l0 ++ [t]) /\ (forall z, z ∈ l0 ++ [t] -> z ∉ s :: r2) /\ NoDup (s :: r2)) as (Hnd1 & Hdis & Hnd2)
      by (apply NoDup_app; rewrite Htd; exact Hnd).
    (* the cut *)
    assert (t ∈ l) as Htl by (apply In1, elem_of_app; right; left).
    assert (s ∈ l) as Hsl by (apply In2; left).
    destruct (split_spec m l0 t s r2 ltac:(rewrite <- El; exact Hc) ltac:(rewrite <- El; exact Hnd) (Hlive t Htl) (Hlive s Hsl))
      as (m1 & Hrun1 & Hc1a & Hc1b & Hfr1).
    mstep Hrun1.
    (* first half *)
    assert (Some x = head (l0 ++ [t])) as Hhd.
    { assert (head l = head (l0 ++ [t])) as HH by (rewrite <- Htd; apply head_app_ne; destruct l0; discriminate). exact HH. }
    rewrite Hhd.
    destruct (IH (l0 ++ [t]) m1 ltac:(rewrite Hlt; cbn [length] in *; lia) Hc1a Hnd1 (fun z Hz => Hok z (In1 z Hz)))
      as (m2 & Hrun2 & Hc2 & Hfr2).
    mstep Hrun2.
    (* second half *)
    assert (chain m2 (s :: r2)) as Hc2b.
    { eapply seg_frame; [|exact Hc1b]. intros z Hz. apply Hfr2. intros Hz'. exact (Hdis z Hz' Hz). }
    change (Some s) with (head (s :: r2)).
    destruct (IH (s :: r2) m2 ltac:(rewrite Hld; cbn [length] in *; lia) Hc2b Hnd2 (fun z Hz => Hok z (In2 z Hz)))
      as (m3 & Hrun3 & Hc3 & Hfr3).
    mstep Hrun3.
    set (a := msort f (l0 ++ [t])) in *. set (b := msort f (s :: r2)) in *.
    assert (forall z, z ∈ a <-> z ∈ l0 ++ [t]) as Ina by (intros z; unfold a; rewrite (msort_perm f (l0 ++ [t])); reflexivity).
    assert (forall z, z ∈ b <-> z ∈ s :: r2) as Inb by (intros z; unfold b; rewrite (msort_perm f (s :: r2)); reflexivity).
    assert (chain m3 a) as Hc3a.
    { eapply seg_frame; [|exact Hc2]. intros z Hz. apply Hfr3. intros Hz'. apply Ina in Hz. exact (Hdis z Hz Hz'). }
    (* the merge *)
    assert (NoDup ([] ++ a ++ b)) as Hndab.
    { cbn [app]. apply NoDup_app. split; [unfold a; rewrite (msort_perm f (l0 ++ [t])); exact Hnd1|]. split; [|unfold b; rewrite (msort_perm f (s :: r2)); exact Hnd2].
      intros z Hz Hz'. apply Ina in Hz. apply Inb in Hz'. exact (Hdis z Hz Hz'). }
    assert (forall z, z ∈ [] ++ a ++ b -> z ∈ l) as Inab.
    { cbn [app]. intros z Hz. apply elem_of_app in Hz as [Hz|Hz]; [apply In1, Ina, Hz|apply In2, Inb, Hz]. }
    assert (length a + length b = length l)%nat as Hlab.
    { unfold a, b. rewrite (Permutation_length (msort_perm f (l0 ++ [t]))), (Permutation_length (msort_perm f (s :: r2))), Hlt, Hld. lia. }
    destruct (merge_loop_spec f a b [] m3 ltac:(rewrite Hlab; cbn [length] in *; lia) Hndab
                (fun z Hz => Hok z (Inab z Hz)) Hc3a Hc3 I)
      as (acc' & a' & b' & m4 & Hrun4 & Hor & Heq & Ha4 & Hb4 & Hacc4 & Hfr4 & Hne1 & Hne2).
    cbn [head last] in Hrun4. mstep Hrun4.
    assert (length a = k) as Hla by (unfold a; rewrite (Permutation_length (msort_perm f (l0 ++ [t]))); exact Hlt).
    assert (length b = (length l - k)%nat) as Hlb by (unfold b; rewrite (Permutation_length (msort_perm f (s :: r2))); exact Hld).
    assert (a <> []) as Hane by (intros E; rewrite E in Hla; cbn [length] in Hla; lia).
    assert (b <> []) as Hbne by (intros E; rewrite E in Hlb; cbn [length] in Hlb; lia).
    cbn [app] in Heq. rename Heq into Hres.
    assert (Permutation (acc' ++ a' ++ b') l) as Hperm.
    { rewrite Hres, merge_runs_perm. unfold a, b. rewrite (msort_perm f (l0 ++ [t])), (msort_perm f (s :: r2)). rewrite Htd. reflexivity. }
    assert (forall z, z ∈ acc' ++ a' ++ b' <-> z ∈ l) as Inres by (intros z; rewrite Hperm; reflexivity).
    destruct (merge_finish_spec m4 acc' a' b' Hor (Hne1 (or_introl Hane)) (Hne2 (or_intror (conj Hane Hbne))) Ha4 Hb4 Hacc4
                ltac:(rewrite Hperm; exact Hnd) (fun z Hz => Hlive z (proj1 (Inres z) Hz)))
      as (m5 & Hrun5 & Hc5 & Hfr5).
    exists m5. rewrite Hrun5, Hres. split; [reflexivity|]. split; [rewrite <- Hres; exact Hc5|].
    intros z Hz.
    rewrite Hfr5 by (intros Hz'; apply Hz, Inres, Hz').
    rewrite Hfr4 by (intros Hz'; apply Hz, Inab, Hz').
    rewrite Hfr3 by (intros Hz'; apply Hz, In2, Hz').
    rewrite Hfr2 by (intros Hz'; apply Hz, In1, Hz').
    apply Hfr1; intros ->; apply Hz; assumption.
  Qed.
End Loops.
