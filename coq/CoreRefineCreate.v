(** CoreRefineCreate.v — simulation lemmas (C06/C07/C08) for the CONSTRUCTORS of CoreDefs.v,
    for an ARBITRARY allocation oracle.

    PART 0  vocabulary shared by CoreRefineSet.v / CoreRefineRef.v / CoreRefineArray.v:
            * [live_below h]: every live block has an identity below [h_next h] (kept by every
              primitive of Heap.v; holds in [empty_heap]) — without it a fresh identity could
              collide with a caller block and "nothing changes on failure" would be false;
            * [clean_failure h h']: [h'] differs from [h] only in the allocator counters, the
              trace and in blocks that did not exist in [h]: link and data maps equal, live set
              equal, strings / ownership tags of the old identities equal.  Consequences:
              [clean_failure_WF] (every forest encoded by [h] is encoded by [h']),
              [clean_failure_lib_live], [clean_failure_NoLeak];
            * [refused oracle h h']: some request made between [h] and [h'] was refused;
            * the result heaps [new_node h d] (one node allocated, final data [d]) and
              [new_str h s] (one byte block allocated, final contents [s]);
            * [WF_new_root]: well-formedness after a new root without children appeared;
            * stepping lemmas for the allocator, string loads/stores and data setters on plain
              heaps.
    PART 1  [cJSON_strdup], [cJSON_CreateNull/True/False/Bool/Array/Object], [cJSON_CreateNumber],
            [cJSON_CreateString/Raw], [cJSON_CreateStringReference/ObjectReference/ArrayReference].

    Shape of every constructor lemma [f_sim]:

      WF h F -> live_below h -> (readable arguments) ->
        ( f h = Ret (Some id, h_ok)  /\ WF h_ok (spec_create F id d) /\ live_below h_ok /\ no request refused )
     \/ ( f h = Ret (None, h')       /\ clean_failure h h' /\ refused oracle h h' )

    with [id = h_next h] and [h_ok] an explicit heap.  Corollaries [f_total] instantiate the
    oracle with [fun _ => false]. *)
From CJ Require Import Base Dbl Heap Forest ForestLemmas CoreSpec CoreDefs CoreRefineBase CoreRefine
  CoreRefineDelete CoreRefineMore.
From CJ.gen Require Import Constants.
From stdpp Require Import gmap.
Implicit Types (h : heap) (F : forest) (p x y i b : positive) (d : rdata).

(** * PART 0 *)

(** ** identities below [h_next] *)
Definition live_below h : Prop := forall b, b ∈ h_live h -> (b < h_next h)%positive.

Lemma live_below_empty : live_below empty_heap.
Proof. intros b Hb. cbn in Hb. set_solver. Qed.
Lemma live_below_upd_maps h L D : live_below h -> live_below (upd_maps h L D).
Proof. intros H b Hb. by apply H. Qed.
Lemma live_below_bump h : live_below h -> live_below (bump h).
Proof. intros H b Hb. by apply H. Qed.
Lemma live_below_free1 h b : live_below h -> live_below (free1 b h).
Proof. intros H c Hc. cbn in *. apply H. set_solver. Qed.
Lemma live_below_free_all bs h : live_below h -> live_below (free_all bs h).
Proof. revert h. induction bs as [|b bs IH]; intros h H; [done|]. rewrite free_all_cons. by apply IH, live_below_free1. Qed.

(** ** clean failure *)
Definition refused (oracle : nat -> bool) h h' : Prop :=
  exists k, h_req h <= k < h_req h' /\ oracle k = true.

Record clean_failure h h' : Prop := mkCF {
  cf_lnk : h_lnk h' = h_lnk h;
  cf_dat : h_dat h' = h_dat h;
  cf_str : forall b, (b < h_next h)%positive -> h_str h' !! b = h_str h !! b;
  cf_own : forall b, (b < h_next h)%positive -> h_own h' !! b = h_own h !! b;
  cf_live : h_live h' = h_live h;
  cf_next : (h_next h <= h_next h')%positive;
  cf_req : h_req h <= h_req h';
  cf_hooks : h_hooks h' = h_hooks h;
  cf_trace : exists evs, h_trace h' = evs ++ h_trace h
}.

Lemma clean_failure_refl h : clean_failure h h.
Proof. constructor; try done; try lia; by exists []. Qed.
Lemma clean_failure_bump h : clean_failure h (bump h).
Proof. constructor; cbn; try done; try lia; by exists []. Qed.
Lemma clean_failure_trans h1 h2 h3 : clean_failure h1 h2 -> clean_failure h2 h3 -> clean_failure h1 h3.
Proof.
  intros [A1 A2 A3 A4 A5 A6 A7 A8 [e1 A9]] [B1 B2 B3 B4 B5 B6 B7 B8 [e2 B9]]. constructor.
  - congruence.
  - congruence.
  - intros b Hb. rewrite B3 by lia. by apply A3.
  - intros b Hb. rewrite B4 by lia. by apply A4.
  - congruence.
  - lia.
  - lia.
  - congruence.
  - exists (e2 ++ e1). rewrite B9, A9. by rewrite app_assoc.
Qed.

(** every forest encoded by the old heap is encoded by the new one: no pre-existing tree changed *)
Lemma clean_failure_WF h h' F : WF h F -> clean_failure h h' -> WF h' F.
Proof.
  intros [W1 W2 W3 W4 W5 W6 W7 W8] C. constructor; try done.
  - by rewrite (cf_lnk _ _ C).
  - by rewrite (cf_dat _ _ C).
  - intros b Hb. rewrite (cf_live _ _ C). by apply W5.
  - intros b Hb. rewrite (cf_own _ _ C) by (by apply W7). by apply W6.
  - intros b Hb. pose proof (W7 b Hb). pose proof (cf_next _ _ C). lia.
Qed.

Lemma clean_failure_lib_live h h' : live_below h -> clean_failure h h' -> lib_live h' = lib_live h.
Proof.
  intros LB C. unfold lib_live. apply set_eq. intros b. rewrite !elem_of_filter, (cf_live _ _ C).
  split; intros [H1 H2]; (split; [|done]).
  - by rewrite <- (cf_own _ _ C) by (by apply LB).
  - by rewrite (cf_own _ _ C) by (by apply LB).
Qed.
Lemma clean_failure_NoLeak h h' F : live_below h -> clean_failure h h' -> NoLeak h F -> NoLeak h' F.
Proof. intros LB C NL b Hb. apply NL. by rewrite <- (clean_failure_lib_live _ _ LB C). Qed.
Lemma clean_failure_live_below h h' : live_below h -> clean_failure h h' -> live_below h'.
Proof. intros LB C b Hb. rewrite (cf_live _ _ C) in Hb. pose proof (LB b Hb). pose proof (cf_next _ _ C). lia. Qed.
(** strings of live blocks are untouched *)
Lemma clean_failure_str h h' b : live_below h -> clean_failure h h' -> b ∈ h_live h -> h_str h' !! b = h_str h !! b.
Proof. intros LB C Hb. apply (cf_str _ _ C). by apply LB. Qed.

Lemma refused_false h h' : ~ refused (fun _ => false) h h'.
Proof. by intros (k & _ & ?). Qed.

(** ** the allocator *)
Definition new_node h d : heap :=
  let id := h_next h in
  mkHeap (<[id := (None, None)]> (h_lnk h)) (<[id := mk_dat d []]> (h_dat h)) (h_str h)
         (<[id := Lib]> (h_own h)) ({[id]} ∪ h_live h) (Pos.succ id) (S (h_req h)) (h_hooks h)
         (EvAlloc id (via_malloc h) :: h_trace h).
Definition new_str h (s : bytes) : heap :=
  let id := h_next h in
  mkHeap (h_lnk h) (h_dat h) (<[id := s]> (h_str h))
         (<[id := Lib]> (h_own h)) ({[id]} ∪ h_live h) (Pos.succ id) (S (h_req h)) (h_hooks h)
         (EvAlloc id (via_malloc h) :: h_trace h).

Lemma live_below_new_node h d : live_below h -> live_below (new_node h d).
Proof.
  intros H b Hb. cbn in *. apply elem_of_union in Hb as [Hb|Hb].
  - apply elem_of_singleton in Hb as ->. lia.
  - pose proof (H b Hb). lia.
Qed.
Lemma live_below_new_str h s : live_below h -> live_below (new_str h s).
Proof.
  intros H b Hb. cbn in *. apply elem_of_union in Hb as [Hb|Hb].
  - apply elem_of_singleton in Hb as ->. lia.
  - pose proof (H b Hb). lia.
Qed.

Lemma nd0_mk_dat : nd0 = mk_dat rd0 [].
Proof. reflexivity. Qed.

Lemma run_alloc_node_fail oracle h : oracle (h_req h) = true -> alloc_node oracle h = Ret (None, bump h).
Proof. intros Ho. unfold alloc_node. by rewrite Ho. Qed.
Lemma run_alloc_node_ok oracle h : oracle (h_req h) = false -> alloc_node oracle h = Ret (Some (h_next h), new_node h rd0).
Proof. intros Ho. unfold alloc_node. by rewrite Ho. Qed.
Lemma run_alloc_bytes_fail oracle init h : oracle (h_req h) = true -> alloc_bytes oracle init h = Ret (None, bump h).
Proof. intros Ho. unfold alloc_bytes. by rewrite Ho. Qed.
Lemma run_alloc_bytes_ok oracle init h : oracle (h_req h) = false -> alloc_bytes oracle init h = Ret (Some (h_next h), new_str h init).
Proof. intros Ho. unfold alloc_bytes. by rewrite Ho. Qed.

(** ** data setters on plain heaps *)
Lemma set_dat_set_dat h D D' : set_dat (set_dat h D) D' = set_dat h D'.
Proof. reflexivity. Qed.
Lemma set_dat_id h : set_dat h (h_dat h) = h.
Proof. by destruct h. Qed.

Lemma run_ld_dat_plain h i nd : i ∈ h_live h -> h_dat h !! i = Some nd -> ld_dat (Some i) h = Ret (nd, h).
Proof. intros H1 H2. pose proof (run_ld_dat h (h_lnk h) _ i _ H1 H2) as H. by rewrite upd_maps_id in H. Qed.
Lemma run_ld_lnk_plain h i e : i ∈ h_live h -> h_lnk h !! i = Some e -> ld_lnk (Some i) h = Ret (e, h).
Proof. intros H1 H2. pose proof (run_ld_lnk h _ (h_dat h) i _ H1 H2) as H. by rewrite upd_maps_id in H. Qed.
Lemma run_st_dat_plain h i nd : i ∈ h_live h -> is_Some (h_dat h !! i) ->
  st_dat (Some i) nd h = Ret (tt, set_dat h (<[i := nd]> (h_dat h))).
Proof. intros H1 H2. rewrite <- (upd_maps_id h) at 1. by rewrite run_st_dat. Qed.
Lemma run_st_lnk_plain h i e : i ∈ h_live h -> is_Some (h_lnk h !! i) ->
  st_lnk (Some i) e h = Ret (tt, upd_maps h (<[i := e]> (h_lnk h)) (h_dat h)).
Proof. intros H1 H2. rewrite <- (upd_maps_id h) at 1. by rewrite run_st_lnk. Qed.

(** every field store is [ld_dat] followed by [st_dat] of a function of the old record *)
Lemma run_ld_st_dat h i nd (f : ndata -> ndata) : i ∈ h_live h -> h_dat h !! i = Some nd ->
  (d <~ ld_dat (Some i) ;; st_dat (Some i) (f d)) h = Ret (tt, set_dat h (<[i := f nd]> (h_dat h))).
Proof. intros H1 H2. rewrite (bindM_Ret _ _ _ _ _ (run_ld_dat_plain _ _ _ H1 H2)). by rewrite run_st_dat_plain by eauto. Qed.

Definition nd_set_vint (nd : ndata) (v : Z) : ndata :=
  mkND (nd_type nd) (nd_vstr nd) v (nd_vdbl nd) (nd_key nd) (nd_child nd).
Definition nd_set_vdbl (nd : ndata) (v : dbl) : ndata :=
  mkND (nd_type nd) (nd_vstr nd) (nd_vint nd) v (nd_key nd) (nd_child nd).

Lemma run_set_vint_plain h i nd v : i ∈ h_live h -> h_dat h !! i = Some nd ->
  set_vint (Some i) v h = Ret (tt, set_dat h (<[i := nd_set_vint nd v]> (h_dat h))).
Proof. intros H1 H2. unfold set_vint. by rewrite (run_ld_st_dat _ _ _ _ H1 H2). Qed.
Lemma run_set_vdbl_plain h i nd v : i ∈ h_live h -> h_dat h !! i = Some nd ->
  set_vdbl (Some i) v h = Ret (tt, set_dat h (<[i := nd_set_vdbl nd v]> (h_dat h))).
Proof. intros H1 H2. unfold set_vdbl. by rewrite (run_ld_st_dat _ _ _ _ H1 H2). Qed.
Lemma run_set_child_plain h i nd v : i ∈ h_live h -> h_dat h !! i = Some nd ->
  set_child (Some i) v h = Ret (tt, set_dat h (<[i := nd_set_child nd v]> (h_dat h))).
Proof. intros H1 H2. unfold set_child. by rewrite (run_ld_st_dat _ _ _ _ H1 H2). Qed.

(** ** strings *)
Definition Readable h b : Prop :=
  b ∈ h_live h /\ exists s : bytes, h_str h !! b = Some s /\ existsb (Z.eqb 0) s = true.
(** the C string in block [b] ([] when the block is not a string block) *)
Definition str_at h b : bytes := match h_str h !! b with Some s => cstr s | None => [] end.

Lemma run_ld_str_plain h b (s : bytes) : b ∈ h_live h -> h_str h !! b = Some s -> ld_str (Some b) h = Ret (s, h).
Proof. intros H1 H2. unfold ld_str, chk, bindM. rewrite decide_True by done. by rewrite H2. Qed.
Lemma run_ld_cstr_plain h b (s : bytes) :
  b ∈ h_live h -> h_str h !! b = Some s -> existsb (Z.eqb 0) s = true -> ld_cstr (Some b) h = Ret (cstr s, h).
Proof. intros H1 H2 H3. unfold ld_cstr. rewrite (bindM_Ret _ _ _ _ _ (run_ld_str_plain _ _ _ H1 H2)). by rewrite H3. Qed.
Lemma run_ld_cstr_readable h b : Readable h b -> ld_cstr (Some b) h = Ret (str_at h b, h).
Proof. intros (H1 & s & H2 & H3). unfold str_at. rewrite H2. by apply run_ld_cstr_plain. Qed.

Definition set_str h (S : gmap positive bytes) : heap :=
  mkHeap (h_lnk h) (h_dat h) S (h_own h) (h_live h) (h_next h) (h_req h) (h_hooks h) (h_trace h).
Lemma run_st_str_plain h b (old s : bytes) :
  b ∈ h_live h -> h_str h !! b = Some old -> h_own h !! b = Some Lib -> length s = length old ->
  st_str (Some b) s h = Ret (tt, set_str h (<[b := s]> (h_str h))).
Proof.
  intros H1 H2 H3 H4. unfold st_str, chk, bindM. rewrite decide_True by done. unfold bytes in *. rewrite H2, H3.
  apply Nat.eqb_eq in H4. by rewrite H4.
Qed.

Lemma cstr_length_lt (s : bytes) : existsb (Z.eqb 0) s = true -> length (cstr s) < length s.
Proof.
  induction s as [|c s IH]; [done|]. cbn [existsb cstr length]. destruct (Z.eqb_spec c 0) as [->|Hne].
  - cbn. lia.
  - destruct (Z.eqb_spec 0 c) as [E|_]; [congruence|]. cbn [orb length]. intros H. specialize (IH H). lia.
Qed.

(** ** a new root without children *)
Lemma owned_snoc_root F id d : owned (F ++ [T id d []]) ≡ₚ (id :: owned_strs d) ++ owned F.
Proof.
  unfold owned. rewrite flat_app, flat_singleton, owned_fl_app. cbn. rewrite app_nil_r.
  apply Permutation_app_comm.
Qed.

Lemma WF_new_root h h' F id d :
  WF h F ->
  id ∉ owned F -> (forall b, b ∈ owned_strs d -> b ∉ owned F) -> NoDup (id :: owned_strs d) ->
  ref_ok (id, d, []) ->
  h_lnk h' = <[id := (None, None)]> (h_lnk h) ->
  h_dat h' = <[id := mk_dat d []]> (h_dat h) ->
  (forall b, b ∈ (id :: owned_strs d) ++ owned F ->
             b ∈ h_live h' /\ h_own h' !! b = Some Lib /\ (b < h_next h')%positive) ->
  WF h' (F ++ [T id d []]).
Proof.
  intros W Hfresh Hstrs NDn Hrok Hl Hd Hall.
  assert (Hidn : id ∉ ids F) by (intros Hin; by apply Hfresh, ids_subseteq_owned).
  assert (Hflat : flat (F ++ [T id d []]) ≡ₚ (id, d, []) :: flat F).
  { rewrite flat_app, flat_singleton. cbn. by rewrite <- Permutation_cons_append. }
  assert (Hroots : roots (F ++ [T id d []]) ≡ₚ id :: roots F).
  { rewrite roots_app. cbn. by rewrite <- Permutation_cons_append. }
  assert (Hids : ids (F ++ [T id d []]) ≡ₚ id :: ids F) by (by rewrite !ids_flat, Hflat).
  assert (ND' : NoDup (ids (F ++ [T id d []]))).
  { rewrite Hids. apply NoDup_cons. split; [done|apply W]. }
  pose proof (owned_snoc_root F id d) as Hown.
  constructor.
  - done.
  - destruct (heap_lnk_of_focus _ _ _ _ _ _ ND' Hroots Hflat) as [-> _].
    rewrite links_nil, (left_id_L ∅ (∪)). rewrite lnk_of_cons_root. rewrite Hl. by rewrite (wf_lnk _ _ W).
  - destruct (heap_dat_of_focus _ _ _ _ _ ND' Hflat) as [-> _]. rewrite Hd. by rewrite (wf_dat _ _ W).
  - rewrite Hown. apply NoDup_app. split; [done|]. split; [|apply W].
    intros b Hb. apply elem_of_cons in Hb as [->|Hb]; [done|by apply Hstrs].
  - intros b Hb. rewrite Hown in Hb. by apply Hall.
  - intros b Hb. rewrite Hown in Hb. by apply Hall.
  - intros b Hb. rewrite Hown in Hb. by apply Hall.
  - rewrite Hflat. apply Forall_cons. split; [done|apply W].
Qed.

Lemma NoLeak_new_root h h' F id d :
  NoLeak h F ->
  (forall b, b ∈ lib_live h' -> b ∈ lib_live h \/ b ∈ id :: owned_strs d) ->
  NoLeak h' (F ++ [T id d []]).
Proof.
  intros NL H b Hb. rewrite owned_snoc_root. apply elem_of_app. destruct (H b Hb) as [Hb'|Hb']; [right; by apply NL|by left].
Qed.

(** the fresh identity is unknown to the old heap *)
Lemma WF_next_notin h F : WF h F -> h_next h ∉ owned F.
Proof. intros W Hin. exact (Pos.lt_irrefl _ (wf_fresh _ _ W _ Hin)). Qed.
Lemma WF_next_lnk h F : WF h F -> h_lnk h !! h_next h = None.
Proof.
  intros W. rewrite (wf_lnk _ _ W). apply heap_lnk_of_lookup_None. intros Hin.
  by apply (WF_next_notin _ _ W), ids_subseteq_owned.
Qed.
Lemma WF_next_dat h F : WF h F -> h_dat h !! h_next h = None.
Proof.
  intros W. rewrite (wf_dat _ _ W). apply heap_dat_of_lookup_None. intros Hin.
  by apply (WF_next_notin _ _ W), ids_subseteq_owned.
Qed.
Lemma WF_above_lnk h F b : WF h F -> (h_next h <= b)%positive -> h_lnk h !! b = None.
Proof.
  intros W Hb. rewrite (wf_lnk _ _ W). apply heap_lnk_of_lookup_None. intros Hin.
  pose proof (WF_ids_fresh _ _ _ W Hin). lia.
Qed.
Lemma WF_above_dat h F b : WF h F -> (h_next h <= b)%positive -> h_dat h !! b = None.
Proof.
  intros W Hb. rewrite (wf_dat _ _ W). apply heap_dat_of_lookup_None. intros Hin.
  pose proof (WF_ids_fresh _ _ _ W Hin). lia.
Qed.

(** [WF] of [new_node] *)
Lemma WF_new_node h F d :
  WF h F -> owned_strs d = [] -> (rd_ref d <> None -> is_ref d = true) ->
  WF (new_node h d) (spec_create F (h_next h) d).
Proof.
  intros W Hs Hr. unfold spec_create.
  apply (WF_new_root h _ F (h_next h) d W); try done.
  - by apply (WF_next_notin _ _ W).
  - rewrite Hs. intros b Hb. by apply elem_of_nil in Hb.
  - rewrite Hs. apply NoDup_singleton.
  - rewrite Hs. cbn. intros b Hb. apply elem_of_cons in Hb as [->|Hb].
    + split; [set_solver|]. split; [by rewrite lookup_insert|lia].
    + pose proof (wf_fresh _ _ W _ Hb). split; [|split].
      * apply elem_of_union. right. by apply (wf_owned_live _ _ W).
      * rewrite lookup_insert_ne by lia. by apply (wf_owned_lib _ _ W).
      * lia.
Qed.
Lemma NoLeak_new_node h F d : NoLeak h F -> NoLeak (new_node h d) (spec_create F (h_next h) d).
Proof.
  intros NL. apply (NoLeak_new_root h _ F _ d NL). intros b Hb.
  unfold lib_live in *. apply elem_of_filter in Hb as [Hb1 Hb2]. cbn in Hb1, Hb2.
  destruct (decide (b = h_next h)) as [->|Hne]; [right; by left|left].
  apply elem_of_filter. rewrite lookup_insert_ne in Hb1 by done. split; [done|set_solver].
Qed.

(** [clean_failure] from pointwise facts: below [h_next h] nothing changed, above it nothing is left *)
Lemma clean_failure_intro h h' F :
  WF h F -> live_below h ->
  (forall b, (b < h_next h)%positive ->
     h_lnk h' !! b = h_lnk h !! b /\ h_dat h' !! b = h_dat h !! b /\ h_str h' !! b = h_str h !! b /\
     h_own h' !! b = h_own h !! b /\ (b ∈ h_live h' <-> b ∈ h_live h)) ->
  (forall b, (h_next h <= b)%positive -> h_lnk h' !! b = None /\ h_dat h' !! b = None /\ b ∉ h_live h') ->
  (h_next h <= h_next h')%positive -> h_req h <= h_req h' -> h_hooks h' = h_hooks h ->
  (exists evs, h_trace h' = evs ++ h_trace h) ->
  clean_failure h h'.
Proof.
  intros W LB Hlo Hhi Hn Hr Hh Ht. constructor; try done.
  - apply map_eq. intros b. destruct (Pos.ltb_spec b (h_next h)) as [Hb|Hb].
    + by apply Hlo.
    + rewrite (WF_above_lnk _ _ _ W Hb). by apply Hhi.
  - apply map_eq. intros b. destruct (Pos.ltb_spec b (h_next h)) as [Hb|Hb].
    + by apply Hlo.
    + rewrite (WF_above_dat _ _ _ W Hb). by apply Hhi.
  - intros b Hb. by apply Hlo.
  - intros b Hb. by apply Hlo.
  - apply set_eq. intros b. destruct (Pos.ltb_spec b (h_next h)) as [Hb|Hb].
    + by apply Hlo.
    + split; intros Hin; [by apply Hhi in Hin|]. pose proof (LB b Hin). lia.
Qed.
