(** Properties_C10.v — property C10: parse end, error position and termination checking
    are reliable.  Only statements closed by [exact]. *)
From CJ Require Import Base Dbl Tree LibcNum ParseDefs ParseSpec ParseSafe ParseRefine ParseListProofs.
Local Open Scope Z_scope.

(** failure: NULL, both outputs equal, inside the buffer (never past its last byte);
    success: the global error pointer is NULL and the parse end lies within [0, len];
    with termination required the parse end designates a zero byte inside the buffer *)
Theorem C10_positions : forall strtod oracle content len rnt r,
  strtod_ok strtod -> (len <= length content)%nat ->
  cJSON_ParseWithLengthOpts strtod oracle content len rnt = Ok r ->
  (pr_tree r = None -> exists p, pr_error r = Some p /\ pr_end r = Some p /\ (p < Nat.max len 1)%nat) /\
  (forall t, pr_tree r = Some t ->
     pr_error r = None /\ exists e, pr_end r = Some e /\ (e <= len)%nat /\
     (rnt = true -> (e < len)%nat /\ nth_error content e = Some 0)).
Proof. exact parse_positions. Qed.
Print Assumptions C10_positions.

(** exact characterisation (no allocation failure): the call succeeds iff the list-level
    specification accepts the declared bytes, with the same tree and the same parse end; with
    termination required, [text_l] accepts iff the value is followed only by whitespace and
    then a zero byte inside the buffer; without, whatever follows the value is ignored *)
Theorem C10_end_exact : forall strtod content len rnt,
  strtod_ok strtod -> (len <= length content)%nat ->
  exists r, cJSON_ParseWithLengthOpts strtod never_fails content len rnt = Ok r /\
    match text_l strtod (firstn len content) rnt with
    | Some (t, rest) => pr_tree r = Some t /\ pr_end r = Some (len - length rest)%nat
    | None => pr_tree r = None
    end.
Proof. exact parse_refines_spec. Qed.
Print Assumptions C10_end_exact.

(** the bytes before the parse end form by themselves a text that parses to an equal tree *)
Theorem C10_prefix_reparse : forall strtod l t rest,
  strtod_ok strtod -> strtod_stable strtod -> text_l strtod l false = Some (t, rest) ->
  exists pre, l = pre ++ rest /\ text_l strtod pre false = Some (t, []).
Proof. exact text_l_prefix. Qed.
Print Assumptions C10_prefix_reparse.

(** the reference strtod satisfies both parts of the contract *)
Theorem C10_strtod_ref_contract : strtod_ok LibcNum.strtod_ref /\ strtod_stable LibcNum.strtod_ref.
Proof. exact strtod_ref_contract. Qed.
Print Assumptions C10_strtod_ref_contract.

(** non-vacuity: the text [1, "a"] followed by " x" in a 10-byte buffer is accepted with parse end 8
    when termination is not required and rejected when it is *)
Theorem C10_nonvacuous :
  let content := [91; 49; 44; 32; 34; 97; 34; 93; 32; 120]%Z in
  (exists t, text_l strtod_ref (firstn 10 content) false = Some (t, [32; 120]%Z) /\
     exists r, cJSON_ParseWithLengthOpts strtod_ref never_fails content 10 false = Ok r /\
               pr_tree r = Some t /\ pr_end r = Some 8%nat) /\
  text_l strtod_ref (firstn 10 content) true = None /\
  (exists r, cJSON_ParseWithLengthOpts strtod_ref never_fails content 10 true = Ok r /\ pr_tree r = None).
Proof. exact parse_refines_spec_example. Qed.
Print Assumptions C10_nonvacuous.
