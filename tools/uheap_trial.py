#!/usr/bin/env python3
"""uheap_trial.py [seed-dir-name] — runs area `uheap` end to end: builds the implementation driver (harness/h_uheap.inc), generates the
cases of tools/props/uheap.py, runs them through the implementation driver and through ocaml/driver_uheap (the extracted heap-level
utility transliterations), compares line by line and prints counts per case kind plus the first mismatches.
  VERIF_SEED=<n>  VERIF_TIER=quick|full  UHEAP_SHOW=<n mismatches to print>  UHEAP_KEEP=<file: dump cases and both outputs>
With a seed-dir name the seeded change /verif/seeded/<name>/patch.diff is applied to a scratch COPY of /repo's sources (never /repo)."""
import sys, os, importlib, tempfile, subprocess, time, shutil, collections
sys.path.insert(0, os.path.dirname(os.path.abspath(__file__)))
import check
seed = sys.argv[1] if len(sys.argv) > 1 else None
tier = os.environ.get('VERIF_TIER', 'quick'); show = int(os.environ.get('UHEAP_SHOW', '5'))
scratch = None
if seed:
    scratch = tempfile.mkdtemp(prefix='cjseed_')
    for f in ('cJSON.c', 'cJSON.h', 'cJSON_Utils.c', 'cJSON_Utils.h'): shutil.copy('/repo/' + f, scratch)
    rc = subprocess.call(['git', 'apply', '--include=cJSON*', '/verif/seeded/%s/patch.diff' % seed], cwd=scratch)
    if rc: shutil.rmtree(scratch); sys.exit('patch does not apply')
    check.REPO = scratch
rc = 0
try:
    mod = importlib.import_module('props.uheap')
    tmp = tempfile.mkdtemp(); log = []
    impl = check.build_impl(tmp, log, area='uheap', name='impl_uheap')
    model = '/verif/ocaml/driver_uheap'
    ctx = {'tmp': tmp, 'tier': tier, 'seed': int(os.environ.get('VERIF_SEED', '1')), 'verif': '/verif', 'impl': impl, 'model': model,
           'impls': {'uheap': impl}, 'models': {'uheap': model}, 'run_driver': check.run_driver, 'build_impl': check.build_impl, 'sh': check.sh, 'log': log, 'repo': check.REPO}
    cases = mod.corpus(ctx) + mod.generate(ctx)
    lines = [c.line for c in cases]
    t = time.time(); io, ierr = check.run_driver(impl, lines, tmp); t1 = time.time(); mo, merr = check.run_driver(model, lines, tmp); t2 = time.time()
    per = collections.OrderedDict(); shown = 0
    for c, i, m in zip(cases, io, mo):
        k = c.info.get('kind', c.line.split(' ', 1)[0]); s = per.setdefault(k, collections.Counter()); s['cases'] += 1
        v = mod.verdict(c, i, ctx)
        if v:
            s['verdict'] += 1
            if shown < show: shown += 1; print('VERDICT', v, '|', c.line[:300], '| impl:', i[:300])
        if 'MODELERR' in m or 'MODEL_EXN' in m or m in ('NOOUTPUT', 'UNKNOWNKIND'): s['modelerr'] += 1
        if mod.project(c, i) != mod.project(c, m):
            s['mismatch'] += 1
            if shown < show:
                shown += 1
                # first differing token
                a, b = i.split(' '), m.split(' '); j = 0
                while j < min(len(a), len(b)) and a[j] == b[j]: j += 1
                print('MISMATCH [%s] %s\n   impl : %s\n   model: %s\n   first difference at token %d: impl %s | model %s' %
                      (' '.join(c.info.get('tags', [])), c.line[:400], i[:600], m[:600], j, ' '.join(a[j:j + 8]), ' '.join(b[j:j + 8])))
        else: s['agree'] += 1
        if mod.nontrivial(c, m): s['nontrivial'] += 1
    print('%-10s %7s %7s %9s %8s %9s %11s' % ('kind', 'cases', 'agree', 'mismatch', 'verdict', 'modelerr', 'nontrivial'))
    tot = collections.Counter()
    for k, s in per.items():
        print('%-10s %7d %7d %9d %8d %9d %11d' % (k, s['cases'], s['agree'], s['mismatch'], s['verdict'], s['modelerr'], s['nontrivial'])); tot.update(s)
    print('%-10s %7d %7d %9d %8d %9d %11d' % ('TOTAL', tot['cases'], tot['agree'], tot['mismatch'], tot['verdict'], tot['modelerr'], tot['nontrivial']))
    print('seed-dir', seed, 'VERIF_SEED', ctx['seed'], 'tier', tier, 'impl %.1fs model %.1fs' % (t1 - t, t2 - t1), log)
    if merr.strip(): print('model stderr:', merr[:500])
    keep = os.environ.get('UHEAP_KEEP')
    if keep:
        with open(keep, 'w') as f:
            for c, i, m in zip(cases, io, mo): f.write('CASE %s\nIMPL %s\nMODEL %s\n' % (c.line, i, m))
    rc = 1 if (tot['mismatch'] or tot['verdict']) else 0
    shutil.rmtree(tmp, ignore_errors=True)
finally:
    if scratch: shutil.rmtree(scratch, ignore_errors=True)
sys.exit(rc)
