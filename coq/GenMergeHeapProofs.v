(** GenMergeHeapProofs.v — the heap-level [generate_merge_patch] of GenMergeHeapDefs.v REFINES the value-level
    model [MergeDefs.mp_generate_merge_patch].

    [gen_rec] (induction on the recursion fuel; inner induction along the two member chains): for two nodes
    [from], [to] with disjoint subtrees of a forest under [MInv] — roots or inner nodes — that satisfy [gdoc]
    (object members have names, string nodes a valuestring), [to] nested at most CJSON_CIRCULAR_LIMIT deep, and
    the never-failing allocator, the run returns without memory error NULL or the identity of a NEW last root;
    the forest afterwards differs from the one before only inside the two subtrees ([Frame]), where [from] and
    [to] are reorderings of themselves ([treord]); no string of the old forest is touched; nothing is leaked;
    and the reified result and the reified operands afterwards are what the value-level model computes. *)
From CJ Require Import Base Dbl Heap Forest ForestLemmas CoreSpec CoreDefs CoreRefineBase CoreRefine CoreRefineMore
  CoreRefineDelete CoreRefineObject CoreRefineFrame CoreRefineHistory CoreRefineAddObject
  CoreRefineDupBase CoreRefineDupValue CoreRefineDupForest CoreLedgerGen.
From CJ Require Import TierBridgeDefs TierBridgeForest TierBridgeLemmas TierBridgeEndToEnd TierBridgeEndToEndStr TierBridgeE2E2.
From CJ Require Import MergeHeapDefs MergeHeapInv MergeHeapProofs GenMergeHeapDefs GenMergeHeapForest GenMergeHeapCompare.
From CJ Require Tree CompareDefs MergeDefs MergeApply MergePerm SortDefs SortSpec.
From CJ.gen Require Import Constants.
From stdpp Require Import gmap.
From Coq Require Import Lia.
Local Open Scope Z_scope.

Notation LIMIT := (Z.to_nat c_CJSON_CIRCULAR_LIMIT).

(** * the merge walk as a standalone function *)
Definition gen_loop (oracle : nat -> bool) (rec : ptr -> ptr -> M ptr) (lfuel : nat) (patch : ptr) (case_sensitive : bool)
  : nat -> ptr -> ptr -> M unit :=
  fix loop (lf : nat) (from_child to_child : ptr) {struct lf} : M unit :=
    match lf with
    | O => fail NoFuel
    | S lf' =>
        if is_null from_child && is_null to_child then ret tt else
        diff <~ (if negb (is_null from_child) then
                   if negb (is_null to_child) then
                     k1 <~ get_key from_child ;;
                     k2 <~ get_key to_child ;;
                     c_strcmp k1 k2
                   else ret (-1)
                 else ret 1) ;;
        if diff <? 0 then
          k <~ get_key from_child ;;
          n <~ cJSON_CreateNull oracle ;;
          cJSON_AddItemToObject oracle patch k n ;;;
          nx <~ get_next from_child ;;
          loop lf' nx to_child
        else if 0 <? diff then
          k <~ get_key to_child ;;
          d <~ cJSON_Duplicate oracle to_child true ;;
          cJSON_AddItemToObject oracle patch k d ;;;
          nx <~ get_next to_child ;;
          loop lf' from_child nx
        else
          same <~ compare_json_fuel lfuel lfuel from_child to_child case_sensitive ;;
          (if negb same then
             k <~ get_key to_child ;;
             sub <~ rec from_child to_child ;;
             cJSON_AddItemToObject oracle patch k sub ;;;
             ret tt
           else ret tt) ;;;
          nf <~ get_next from_child ;;
          nt <~ get_next to_child ;;
          loop lf' nf nt
    end.

Lemma generate_merge_patch_fuel_S oracle df lf from to flag :
  generate_merge_patch_fuel oracle (S df) lf from to flag =
  (if is_null to then cJSON_CreateNull oracle else
   nonobj <~ (to_o <~ cJSON_IsObject to ;;
              if negb to_o then ret true else
              from_o <~ cJSON_IsObject from ;; ret (negb from_o)) ;;
   if (nonobj : bool) then cJSON_Duplicate oracle to true else
   SortDefs.sort_object lf from flag ;;;
   SortDefs.sort_object lf to flag ;;;
   from_child <~ get_child from ;;
   to_child <~ get_child to ;;
   patch <~ cJSON_CreateObject oracle ;;
   if is_null patch then ret None else
   gen_loop oracle (fun f t => generate_merge_patch_fuel oracle df lf f t flag) lf patch flag lf from_child to_child ;;;
   pc <~ get_child patch ;;
   if is_null pc then cJSON_Delete patch ;;; ret None else ret patch).
Proof. reflexivity. Qed.

(** * the value-level walk, one equation per case *)
Section VGen.
  Variable cmp : Tree.node -> Tree.node -> Base.res (bool * Tree.node * Tree.node).
  Variable gen : Tree.node -> Tree.node -> Base.res (option Tree.node * Tree.node * Tree.node).
  Notation walk := (MergeDefs.mp_gen_walk cmp gen).
  Lemma gen_walk_nil_nil : walk [] [] = Ok ([], [], []).
  Proof. reflexivity. Qed.
  Lemma gen_walk_nil_cons tc tr :
    walk [] (tc :: tr) =
    ('(p, fl2, tl2) <- walk [] tr ;;
     Ok (MergeDefs.mp_add_member [] (Tree.n_key tc) (MergeDefs.mp_dup_rec 0 tc) ++ p, fl2, tc :: tl2)).
  Proof. reflexivity. Qed.
  Lemma gen_walk_cons_nil fc fr :
    walk (fc :: fr) [] =
    ('(p, fl2, tl2) <- walk fr [] ;;
     Ok (MergeDefs.mp_add_member [] (Tree.n_key fc) (Some MergeDefs.mp_CreateNull) ++ p, fc :: fl2, tl2)).
  Proof. reflexivity. Qed.
  Lemma gen_walk_cons_cons fc fr tc tr :
    walk (fc :: fr) (tc :: tr) =
    match Tree.n_key fc, Tree.n_key tc with
    | Some kf, Some kt =>
        let diff := strcmp kf kt in
        if diff <? 0 then
          '(p, fl2, tl2) <- walk fr (tc :: tr) ;;
          Ok (MergeDefs.mp_add_member [] (Tree.n_key fc) (Some MergeDefs.mp_CreateNull) ++ p, fc :: fl2, tl2)
        else if 0 <? diff then
          '(p, fl2, tl2) <- walk (fc :: fr) tr ;;
          Ok (MergeDefs.mp_add_member [] (Tree.n_key tc) (MergeDefs.mp_dup_rec 0 tc) ++ p, fl2, tc :: tl2)
        else
          '(same, fc1, tc1) <- cmp fc tc ;;
          if same then
            '(p, fl2, tl2) <- walk fr tr ;; Ok (p, fc1 :: fl2, tc1 :: tl2)
          else
            '(sub, fc2, tc2) <- gen fc1 tc1 ;;
            '(p, fl2, tl2) <- walk fr tr ;;
            Ok (MergeDefs.mp_add_member [] (Tree.n_key tc2) sub ++ p, fc2 :: fl2, tc2 :: tl2)
    | _, _ => OOB
    end.
  Proof. reflexivity. Qed.
End VGen.

Lemma mp_generate_merge_patch_S f flag from to :
  MergeDefs.mp_generate_merge_patch (S f) flag from to =
  (if negb (Tree.is_object to) || negb (Tree.is_object from) then Ok (MergeDefs.mp_dup_rec 0 to, from, to)
   else
     sf <- MergeDefs.mp_sort_members flag (Tree.n_children from) ;;
     st <- MergeDefs.mp_sort_members flag (Tree.n_children to) ;;
     '(p, fl, tl) <- MergeDefs.mp_gen_walk (MergeDefs.mp_compare_json_top flag) (MergeDefs.mp_generate_merge_patch f flag) sf st ;;
     Ok (match p with
         | [] => None
         | _ => Some (MergeDefs.mp_set_children MergeDefs.mp_CreateObject p)
         end, MergeDefs.mp_set_children from fl, MergeDefs.mp_set_children to tl)).
Proof. reflexivity. Qed.

(** * cJSON_AddItemToObject(patch, name, last root): the new member *)
Lemma step_add_member h G0 x y d dy pcs csy kb sn :
  MInv h ((G0 ++ [T x d pcs]) ++ [T y dy csy]) -> kb ∈ h_live h -> h_str h !! kb = Some sn -> existsb (Z.eqb 0) sn = true ->
  exists h' m,
    cJSON_AddItemToObject nofail (Some x) (Some kb) (Some y) h = Ret (true, h') /\
    MInv h' (G0 ++ [T x d (pcs ++ [m])]) /\
    (NoLeak h ((G0 ++ [T x d pcs]) ++ [T y dy csy]) -> NoLeak h' (G0 ++ [T x d (pcs ++ [m])])) /\
    KeepO h h' (G0 ++ [T x d pcs]) /\
    reify (h_str h') m = MergeDefs.mp_keyed (cstr sn) (reify (h_str h) (T y dy csy)).
Proof.
  intros I Hkl Hks Hkz.
  destruct (step_add h G0 x y d dy pcs csy kb sn I Hkl Hks Hkz) as (h' & Hrun & I' & NL' & _ & _).
  destruct (step_add_value h G0 x y d dy pcs csy kb sn I Hkl Hks Hkz h' Hrun) as [K V].
  exists h', (T y (rd_owned_key dy (h_next h)) csy). split; [exact Hrun|]. split; [exact I'|]. split; [exact NL'|]. split; [exact K|].
  unfold MergeDefs.mp_AddItemToObject, MergeDefs.mp_add_member in V.
  rewrite (reify_unfold (h_str h') x d), (reify_unfold (h_str h) x d pcs) in V.
  pose proof (f_equal Tree.n_children V) as Vc. cbn [MergeDefs.mp_set_children Tree.n_children] in Vc.
  rewrite map_app in Vc. cbn [map] in Vc. by apply app_inj_tail in Vc as [_ Vc].
Qed.

Lemma add_null_item h x kb : cJSON_AddItemToObject nofail (Some x) kb None h = Ret (false, h).
Proof. unfold cJSON_AddItemToObject, add_item_to_object. cbn [is_null orb]. by rewrite !orb_true_r. Qed.

Lemma reify_keep_list h h' F l :
  (forall e, e ∈ datas F -> node_owns e.2) -> (forall c, c ∈ l -> c ∈ nodes F) -> KeepO h h' F ->
  map (reify (h_str h')) l = map (reify (h_str h)) l.
Proof. intros Ho Hl K. apply map_ext_in. intros c Hc. apply elem_of_list_In in Hc. apply (reify_keep h h' F c Ho (Hl c Hc) K). Qed.

Lemma member_in_nodes (G0 : forest) x d pcs c : c ∈ pcs -> c ∈ nodes (G0 ++ [T x d pcs]).
Proof.
  intros Hc. rewrite nodes_app. apply elem_of_app. right. eapply child_in_nodes; [|exact Hc].
  apply roots_in_nodes. by left.
Qed.

(** the key of a node of the forest *)
Lemma node_key_facts h F ci dc ccs :
  MInv h F -> find_tree ci F = Some (T ci dc ccs) -> rd_key dc <> None ->
  exists kb sn, rd_key dc = Some kb /\ kb ∈ h_live h /\ h_str h !! kb = Some sn /\ existsb (Z.eqb 0) sn = true /\
    get_key (Some ci) h = Ret (Some kb, h) /\ Tree.n_key (reify (h_str h) (T ci dc ccs)) = Some (cstr sn).
Proof.
  intros I Hf Hk. destruct (rd_key dc) as [kb|] eqn:E; [|done].
  destruct (MInv_node_facts h F ci dc ccs I Hf) as (_ & _ & _ & R2). destruct (R2 kb E) as (Hl & sn & Hs & Hz).
  exists kb, sn. split; [done|]. split; [done|]. split; [done|]. split; [done|]. split.
  - rewrite (run_get_key_node h F ci dc ccs (mi_wf _ _ I) Hf). by rewrite E.
  - rewrite reify_unfold. cbn [Tree.n_key]. rewrite E. cbn [cstr_of]. unfold bytes in *. by rewrite Hs.
Qed.

(** * the three actions of the walk, in continuation form *)
Section Actions.
  Context (h : heap) (G0 : forest) (x : positive) (d : rdata) (pcs : list tree).
  Hypothesis I : MInv h (G0 ++ [T x d pcs]).
  Notation F := (G0 ++ [T x d pcs]).

  (** from-only member: cJSON_AddItemToObject(patch, from_child->string, cJSON_CreateNull()) *)
  Lemma act_null ci dc ccs :
    find_tree ci F = Some (T ci dc ccs) -> rd_key dc <> None ->
    exists h2 m,
      (forall A (K : M A),
         (k <~ get_key (Some ci) ;; n <~ cJSON_CreateNull nofail ;; cJSON_AddItemToObject nofail (Some x) k n ;;; K) h = K h2) /\
      MInv h2 (G0 ++ [T x d (pcs ++ [m])]) /\ (NoLeak h F -> NoLeak h2 (G0 ++ [T x d (pcs ++ [m])])) /\
      KeepO h h2 F /\
      MergeDefs.mp_add_member [] (Tree.n_key (reify (h_str h) (T ci dc ccs))) (Some MergeDefs.mp_CreateNull) = [reify (h_str h2) m].
  Proof.
    intros Hf Hk. destruct (node_key_facts h F ci dc ccs I Hf Hk) as (kb & sn & Ek & Hkl & Hks & Hkz & Rk & Vk).
    destruct (step_create_typed h F c_cJSON_NULL I eq_refl eq_refl) as (h1 & Hrun1 & I1 & NL1 & Hs1 & V1).
    set (N := T (h_next h) (rd_typed c_cJSON_NULL) []) in *.
    destruct (node_key_facts h1 (F ++ [N]) ci dc ccs I1 (find_tree_app_l ci F [N] _ Hf) Hk) as (kb' & sn' & Ek' & Hkl' & Hks' & Hkz' & _ & _).
    rewrite Ek in Ek'. injection Ek' as <-. rewrite Hs1, Hks in Hks'. injection Hks' as <-.
    destruct (step_add_member h1 G0 x (h_next h) d (rd_typed c_cJSON_NULL) pcs [] kb sn I1 Hkl' ltac:(by rewrite Hs1) Hkz)
      as (h2 & m & Hrun2 & I2 & NL2 & K2 & V2).
    exists h2, m. split; [|split; [exact I2|split; [by intros NL; apply NL2, NL1|split]]].
    - intros A K. rewrite (bindM_Ret _ _ _ _ _ Rk). unfold cJSON_CreateNull. rewrite (bindM_Ret _ _ _ _ _ Hrun1).
      by rewrite (bindM_Ret _ _ _ _ _ Hrun2).
    - intros b Hb. rewrite (K2 b Hb). by rewrite Hs1.
    - rewrite Vk. cbn [MergeDefs.mp_add_member app]. f_equal. rewrite V2. reflexivity.
  Qed.

  (** to-only member: cJSON_AddItemToObject(patch, to_child->string, cJSON_Duplicate(to_child, 1)) *)
  Lemma act_dup ci dc ccs :
    find_tree ci F = Some (T ci dc ccs) -> rd_key dc <> None -> (height (T ci dc ccs) <= LIMIT)%nat ->
    exists h2 m,
      (forall A (K : M A),
         (k <~ get_key (Some ci) ;; n <~ cJSON_Duplicate nofail (Some ci) true ;; cJSON_AddItemToObject nofail (Some x) k n ;;; K) h = K h2) /\
      MInv h2 (G0 ++ [T x d (pcs ++ [m])]) /\ (NoLeak h F -> NoLeak h2 (G0 ++ [T x d (pcs ++ [m])])) /\
      KeepO h h2 F /\
      MergeDefs.mp_add_member [] (Tree.n_key (reify (h_str h) (T ci dc ccs))) (MergeDefs.mp_dup_rec 0 (reify (h_str h) (T ci dc ccs))) =
        [reify (h_str h2) m].
  Proof.
    intros Hf Hk Hh. destruct (node_key_facts h F ci dc ccs I Hf Hk) as (kb & sn & Ek & Hkl & Hks & Hkz & Rk & Vk).
    destruct (step_dup h F ci (T ci dc ccs) I Hf Hh) as (tc & h1 & Hrun1 & I1 & NL1 & K1 & V1).
    destruct (node_key_facts h1 (F ++ [tc]) ci dc ccs I1 (find_tree_app_l ci F [tc] _ Hf) Hk) as (kb' & sn' & Ek' & Hkl' & Hks' & Hkz' & _ & _).
    rewrite Ek in Ek'. injection Ek' as <-.
    assert (Hkbo : kb ∈ owned F).
    { apply find_tree_Some in Hf as [Hn _]. apply (str_owned F (ci, dc) kb (datas_of_node F _ Hn) (mi_own _ _ I _ (datas_of_node F _ Hn))). by right. }
    pose proof (K1 kb Hkbo) as Ek1. unfold bytes in *. rewrite Ek1, Hks in Hks'. injection Hks' as <-.
    destruct tc as [y dy csy].
    destruct (step_add_member h1 G0 x y d dy pcs csy kb sn I1 Hkl' (eq_trans Ek1 Hks) Hkz)
      as (h2 & m & Hrun2 & I2 & NL2 & K2 & V2).
    exists h2, m. split; [|split; [exact I2|split; [by intros NL; apply NL2, NL1|split]]].
    - intros A K. rewrite (bindM_Ret _ _ _ _ _ Rk). cbn [tid] in Hrun1. rewrite (bindM_Ret _ _ _ _ _ Hrun1).
      by rewrite (bindM_Ret _ _ _ _ _ Hrun2).
    - by eapply KeepO_trans.
    - rewrite Vk, V1. cbn [MergeDefs.mp_add_member app]. f_equal. by rewrite V2.
  Qed.
End Actions.

(** the sub-patch [s], last root, goes into the patch, second-last root *)
Lemma act_sub h G0 x d pcs (s : tree) ci dc ccs :
  MInv h ((G0 ++ [T x d pcs]) ++ [s]) ->
  find_tree ci G0 = Some (T ci dc ccs) -> rd_key dc <> None ->
  exists h2 m,
    (forall A (K : M A),
       (cJSON_AddItemToObject nofail (Some x) (rd_key dc) (Some (tid s)) ;;; K) h = K h2) /\
    MInv h2 (G0 ++ [T x d (pcs ++ [m])]) /\
    (NoLeak h ((G0 ++ [T x d pcs]) ++ [s]) -> NoLeak h2 (G0 ++ [T x d (pcs ++ [m])])) /\
    KeepO h h2 (G0 ++ [T x d pcs]) /\
    MergeDefs.mp_add_member [] (Tree.n_key (reify (h_str h) (T ci dc ccs))) (Some (reify (h_str h) s)) = [reify (h_str h2) m].
Proof.
  intros I Hf Hk.
  pose proof (find_tree_app_l ci _ [s] _ (find_tree_app_l ci G0 [T x d pcs] _ Hf)) as HfF.
  destruct (node_key_facts h _ ci dc ccs I HfF Hk) as (kb & sn & Ek & Hkl & Hks & Hkz & Rk & Vk).
  destruct s as [y dy csy].
  destruct (step_add_member h G0 x y d dy pcs csy kb sn I Hkl Hks Hkz) as (h2 & m & Hrun2 & I2 & NL2 & K2 & V2).
  exists h2, m. split; [|split; [exact I2|split; [exact NL2|split; [exact K2|]]]].
  - intros A K. rewrite Ek. cbn [tid]. by rewrite (bindM_Ret _ _ _ _ _ Hrun2).
  - rewrite Vk. cbn [MergeDefs.mp_add_member app]. f_equal. by rewrite V2.
Qed.

(** * what is proved about one call *)
Definition gen_pre (h : heap) (G X : forest) (tf tt : tree) (lf : nat) : Prop :=
  MInv h (G ++ X) /\ find_tree (tid tf) G = Some tf /\ find_tree (tid tt) G = Some tt /\ tdisj tf tt /\
  (tsize tf + tsize tt < lf)%nat /\ gdoc tf /\ gdoc tt /\ (height tt <= LIMIT)%nat.

Definition gen_post_out (flag : bool) (h : heap) (G X : forest) (tf tt : tree) (o : out (ptr * heap)) : Prop :=
  exists h' G' (res : option tree) tf' tt',
    o = Ret (tid <$> res, h') /\ MInv h' ((G' ++ X) ++ opt_list res) /\
    (NoLeak h (G ++ X) -> NoLeak h' ((G' ++ X) ++ opt_list res)) /\
    KeepO h h' (G ++ X) /\ Frame G G' (ids_t tf ++ ids_t tt) /\
    find_tree (tid tf) G' = Some tf' /\ find_tree (tid tt) G' = Some tt' /\ treord tf tf' /\ treord tt tt' /\
    forall fv, (height tt < fv)%nat ->
      MergeDefs.mp_generate_merge_patch fv flag (reify (h_str h) tf) (reify (h_str h) tt) =
      Ok (reify (h_str h') <$> res, reify (h_str h) tf', reify (h_str h) tt').

Definition gen_spec (df lf : nat) (flag : bool) : Prop :=
  forall tf tt h G X, (tsize tt <= df)%nat -> gen_pre h G X tf tt lf ->
    gen_post_out flag h G X tf tt (generate_merge_patch_fuel nofail df lf (Some (tid tf)) (Some (tid tt)) flag h).

(** * bookkeeping *)
Lemma KeepO_step h h3 h' F0 F3 :
  KeepO h h3 F0 -> KeepO h3 h' F3 -> (forall b, b ∈ owned F0 -> b ∈ owned F3) -> KeepO h h' F0.
Proof. intros K1 K2 Hs b Hb. rewrite (K2 b (Hs b Hb)). by apply K1. Qed.

Lemma owned_root_members x d (pcs l : list tree) b : b ∈ owned [T x d pcs] -> b ∈ owned [T x d (pcs ++ l)].
Proof.
  unfold owned. rewrite !flat_singleton, !flat_t_unfold, !owned_fl_cons, flat_app, owned_fl_app. cbn [owned_fn fn_id fn_data fst snd].
  intros Hb. apply elem_of_app in Hb as [Hb|Hb]; apply elem_of_app; [by left|right]. apply elem_of_app. by left.
Qed.

Lemma owned_grow G G' S X x d pcs l b :
  Frame G G' S -> b ∈ owned ((G ++ X) ++ [T x d pcs]) -> b ∈ owned ((G' ++ X) ++ [T x d (pcs ++ l)]).
Proof.
  intros Fr. rewrite !owned_app, !elem_of_app. intros [[Hb|Hb]|Hb].
  - left. left. by rewrite (Frame_owned _ _ _ Fr).
  - left. by right.
  - right. by apply owned_root_members.
Qed.

Lemma KeepO_owned_perm h h' F F' : owned F' ≡ₚ owned F -> KeepO h h' F -> KeepO h h' F'.
Proof. intros HP K b Hb. apply K. by rewrite <- HP. Qed.

(** both parents after a change confined to one child of each *)
Lemma frame_parents G G' a da pre_a x x' ra b db pre_b y y' rb :
  Frame G G' (ids_t x ++ ids_t y) -> NoDup (ids G) -> NoDup (ids G') ->
  find_tree a G = Some (T a da (pre_a ++ x :: ra)) -> find_tree b G = Some (T b db (pre_b ++ y :: rb)) ->
  tdisj (T a da (pre_a ++ x :: ra)) (T b db (pre_b ++ y :: rb)) ->
  find_tree (tid x) G' = Some x' -> find_tree (tid y) G' = Some y' -> tid x' = tid x -> tid y' = tid y ->
  find_tree a G' = Some (T a da (pre_a ++ x' :: ra)) /\ find_tree b G' = Some (T b db (pre_b ++ y' :: rb)).
Proof.
  intros Fr NDG NDG' Ha Hb Hdis Hx' Hy' Ex Ey.
  assert (HaS : forall z, z ∈ ids_t (T a da (pre_a ++ x :: ra)) -> z ∉ ids_t y).
  { intros z Hz Hz'. apply (Hdis z Hz). eapply ids_t_child; [apply (elem_mid pre_b y rb)|done]. }
  assert (HbS : forall z, z ∈ ids_t (T b db (pre_b ++ y :: rb)) -> z ∉ ids_t x).
  { intros z Hz Hz'. apply (Hdis z); [|done]. eapply ids_t_child; [apply (elem_mid pre_a x ra)|done]. }
  split.
  - rewrite <- (insert_mid pre_a x x' ra).
    apply (frame_parent G G' _ a da _ (length pre_a) x x' Fr NDG NDG' Ha (lookup_mid _ _ _) Hx' Ex).
    + intros Hin. apply elem_of_app in Hin as [Hin|Hin].
      * by apply (parent_not_in_child G a da _ x NDG Ha (elem_mid pre_a x ra)).
      * apply (HaS a); [|done]. rewrite ids_t_unfold. by left.
    + intros j cj Hj Hne z Hz Hin. apply elem_of_app in Hin as [Hin|Hin].
      * by apply (siblings_disjoint G a da _ j (length pre_a) cj x NDG Ha Hj (lookup_mid _ _ _) Hne z Hz).
      * apply (HaS z); [|done]. eapply ids_t_child; [by eapply elem_of_list_lookup_2|done].
  - rewrite <- (insert_mid pre_b y y' rb).
    apply (frame_parent G G' _ b db _ (length pre_b) y y' Fr NDG NDG' Hb (lookup_mid _ _ _) Hy' Ey).
    + intros Hin. apply elem_of_app in Hin as [Hin|Hin].
      * apply (HbS b); [|done]. rewrite ids_t_unfold. by left.
      * by apply (parent_not_in_child G b db _ y NDG Hb (elem_mid pre_b y rb)).
    + intros j cj Hj Hne z Hz Hin. apply elem_of_app in Hin as [Hin|Hin].
      * apply (HbS z); [|done]. eapply ids_t_child; [by eapply elem_of_list_lookup_2|done].
      * by apply (siblings_disjoint G b db _ j (length pre_b) cj y NDG Hb Hj (lookup_mid _ _ _) Hne z Hz).
Qed.

Lemma nodup_ids_ll h G X Y : WF h ((G ++ X) ++ Y) -> NoDup (ids G).
Proof. intros W. apply (nodup_ids_l h G (X ++ Y)). by rewrite app_assoc. Qed.

Lemma children_in_nodes (G X Y : forest) p d cs c : find_tree p G = Some (T p d cs) -> c ∈ cs -> c ∈ nodes ((G ++ X) ++ Y).
Proof.
  intros Hp Hc. apply node_in_app_l, node_in_app_l. apply find_tree_Some in Hp as [Hn _]. by eapply child_in_nodes.
Qed.

Lemma KeepO_sub h h' F F' : (forall b, b ∈ owned F' -> b ∈ owned F) -> KeepO h h' F -> KeepO h h' F'.
Proof. intros Hs K b Hb. apply K. by apply Hs. Qed.

Lemma reify_keep_frame h h2 G G' S c :
  Frame G G' S -> (forall e, e ∈ datas G' -> node_owns e.2) -> c ∈ nodes G' -> KeepO h h2 G ->
  reify (h_str h2) c = reify (h_str h) c.
Proof.
  intros Fr Ho Hc K. apply (reify_keep h h2 G' c Ho Hc). apply (KeepO_owned_perm h h2 G G'); [|done]. by apply (Frame_owned _ _ S).
Qed.
Lemma reify_keep_frame_list h h2 G G' S l :
  Frame G G' S -> (forall e, e ∈ datas G' -> node_owns e.2) -> (forall c, c ∈ l -> c ∈ nodes G') -> KeepO h h2 G ->
  map (reify (h_str h2)) l = map (reify (h_str h)) l.
Proof. intros Fr Ho Hl K. apply map_ext_in. intros c Hc. apply elem_of_list_In in Hc. by eapply reify_keep_frame; eauto. Qed.

Lemma MInv_own_G h G X Y : MInv h ((G ++ X) ++ Y) -> forall e, e ∈ datas G -> node_owns e.2.
Proof. intros I e He. apply (mi_own _ _ I). apply datas_elem_app. left. apply datas_elem_app. by left. Qed.

Lemma children_nodes_G G p d cs c : find_tree p G = Some (T p d cs) -> c ∈ cs -> c ∈ nodes G.
Proof. intros Hp Hc. apply find_tree_Some in Hp as [Hn _]. by eapply child_in_nodes. Qed.

(** * the merge walk *)
Section GenLoop.
  Context (flag : bool) (df lf : nat) (X : forest) (x : positive) (d : rdata).
  Hypothesis IH : gen_spec df lf flag.
  Context (f t : positive) (fd td : rdata).
  Notation rec := (fun a b => generate_merge_patch_fuel nofail df lf a b flag).
  Notation vwalk fv := (MergeDefs.mp_gen_walk (MergeDefs.mp_compare_json_top flag) (MergeDefs.mp_generate_merge_patch fv flag)).

  Definition okf (c : tree) : Prop := gdoc c /\ rd_key (tdata c) <> None.
  Definition okt (c : tree) : Prop :=
    (tsize c <= df)%nat /\ gdoc c /\ rd_key (tdata c) <> None /\ (height c <= LIMIT)%nat.

  Definition loop_stmt (n : nat) : Prop := forall rest_f rest_t pre_f pre_t h G pcs,
    (length rest_f + length rest_t < n)%nat ->
    MInv h ((G ++ X) ++ [T x d pcs]) ->
    find_tree f G = Some (T f fd (pre_f ++ rest_f)) -> find_tree t G = Some (T t td (pre_t ++ rest_t)) ->
    tdisj (T f fd (pre_f ++ rest_f)) (T t td (pre_t ++ rest_t)) ->
    (tsize (T f fd (pre_f ++ rest_f)) + tsize (T t td (pre_t ++ rest_t)) < lf)%nat ->
    (forall c, c ∈ rest_f -> okf c) -> (forall c, c ∈ rest_t -> okt c) ->
    exists h' G' pnew rest_f' rest_t',
      gen_loop nofail rec lf (Some x) flag n ((tid <$> (pre_f ++ rest_f)) !! length pre_f) ((tid <$> (pre_t ++ rest_t)) !! length pre_t) h = Ret (tt, h') /\
      MInv h' ((G' ++ X) ++ [T x d (pcs ++ pnew)]) /\
      (NoLeak h ((G ++ X) ++ [T x d pcs]) -> NoLeak h' ((G' ++ X) ++ [T x d (pcs ++ pnew)])) /\
      KeepO h h' ((G ++ X) ++ [T x d pcs]) /\
      Frame G G' (ids rest_f ++ ids rest_t) /\
      find_tree f G' = Some (T f fd (pre_f ++ rest_f')) /\ find_tree t G' = Some (T t td (pre_t ++ rest_t')) /\
      Forall2 treord rest_f rest_f' /\ Forall2 treord rest_t rest_t' /\
      forall fv, (forall c, c ∈ rest_t -> (height c < fv)%nat) ->
        vwalk fv (map (reify (h_str h)) rest_f) (map (reify (h_str h)) rest_t) =
        Ok (map (reify (h_str h')) pnew, map (reify (h_str h)) rest_f', map (reify (h_str h)) rest_t').

  Section Step.
    Context (n' : nat).
    Hypothesis IHn : loop_stmt n'.
    Context (h : heap) (G : forest) (pcs : list tree).
    Hypothesis I : MInv h ((G ++ X) ++ [T x d pcs]).
    Notation F0 := ((G ++ X) ++ [T x d pcs]).

    (** from-only member, then the rest of the walk *)
    Lemma step_from fc rf rest_t pre_f pre_t :
      (length rf + length rest_t < n')%nat ->
      find_tree f G = Some (T f fd (pre_f ++ fc :: rf)) -> find_tree t G = Some (T t td (pre_t ++ rest_t)) ->
      tdisj (T f fd (pre_f ++ fc :: rf)) (T t td (pre_t ++ rest_t)) ->
      (tsize (T f fd (pre_f ++ fc :: rf)) + tsize (T t td (pre_t ++ rest_t)) < lf)%nat ->
      (forall c, c ∈ fc :: rf -> okf c) -> (forall c, c ∈ rest_t -> okt c) ->
      exists h' G' pnew rf' rest_t',
        (k <~ get_key (Some (tid fc)) ;; n <~ cJSON_CreateNull nofail ;; cJSON_AddItemToObject nofail (Some x) k n ;;;
         nx <~ get_next (Some (tid fc)) ;;
         gen_loop nofail rec lf (Some x) flag n' nx ((tid <$> (pre_t ++ rest_t)) !! length pre_t)) h = Ret (tt, h') /\
        MInv h' ((G' ++ X) ++ [T x d (pcs ++ pnew)]) /\
        (NoLeak h F0 -> NoLeak h' ((G' ++ X) ++ [T x d (pcs ++ pnew)])) /\
        KeepO h h' F0 /\
        Frame G G' (ids (fc :: rf) ++ ids rest_t) /\
        find_tree f G' = Some (T f fd (pre_f ++ fc :: rf')) /\ find_tree t G' = Some (T t td (pre_t ++ rest_t')) /\
        Forall2 treord rf rf' /\ Forall2 treord rest_t rest_t' /\
        forall fv, (forall c, c ∈ rest_t -> (height c < fv)%nat) ->
          ('(p, fl2, tl2) <- vwalk fv (map (reify (h_str h)) rf) (map (reify (h_str h)) rest_t) ;;
           Ok (MergeDefs.mp_add_member [] (Tree.n_key (reify (h_str h) fc)) (Some MergeDefs.mp_CreateNull) ++ p,
               reify (h_str h) fc :: fl2, tl2)) =
          Ok (map (reify (h_str h')) pnew, reify (h_str h) fc :: map (reify (h_str h)) rf', map (reify (h_str h)) rest_t').
    Proof.
      intros Hn Hf Ht Hdis Hsz Hrf Hrt.
      pose proof (mi_wf _ _ I) as W. pose proof (nodup_ids_ll _ _ _ _ W) as NDG.
      destruct fc as [ci dc ccs]. cbn [tid].
      pose proof (find_tree_child G f fd _ _ NDG Hf (elem_mid pre_f _ rf)) as Hfc. cbn [tid] in Hfc.
      pose proof (find_tree_app_l ci _ [T x d pcs] _ (find_tree_app_l ci G X _ Hfc)) as HfcF.
      destruct (Hrf _ ltac:(by left)) as [Gfc Kfc]. cbn [tdata] in Kfc.
      destruct (act_null h (G ++ X) x d pcs I ci dc ccs HfcF Kfc) as (h2 & m & Hrun2 & I2 & NL2 & K2 & V2).
      rewrite (Hrun2 _ _).
      pose proof (mi_wf _ _ I2) as W2.
      pose proof (find_tree_flat _ _ _ _ (find_tree_app_l f _ [T x d (pcs ++ [m])] _ (find_tree_app_l f G X _ Hf))) as Hflat.
      rewrite (bindM_Ret _ _ _ _ _ (chain_get_next h2 _ f fd _ (length pre_f) ci W2 Hflat (lookup_mid_tid pre_f _ rf))).
      assert (Ef : pre_f ++ T ci dc ccs :: rf = (pre_f ++ [T ci dc ccs]) ++ rf) by (by rewrite <- app_assoc).
      assert (Elf : S (length pre_f) = length (pre_f ++ [T ci dc ccs])) by (rewrite app_length; cbn; lia).
      rewrite Ef, Elf. rewrite Ef in Hf, Hdis, Hsz.
      destruct (IHn rf rest_t (pre_f ++ [T ci dc ccs]) pre_t h2 G (pcs ++ [m]) Hn I2 Hf Ht Hdis Hsz
                  ltac:(intros c Hc; apply Hrf; by right) Hrt)
        as (h' & G' & pnew' & rf' & rt' & Hrun & I' & NL' & K' & Fr' & Hf' & Ht' & Rf' & Rt' & V').
      exists h', G', (m :: pnew'), rf', rt'.
      assert (Ep : (pcs ++ [m]) ++ pnew' = pcs ++ m :: pnew') by (by rewrite <- app_assoc).
      assert (Ef' : (pre_f ++ [T ci dc ccs]) ++ rf' = pre_f ++ T ci dc ccs :: rf') by (by rewrite <- app_assoc).
      rewrite Ep in I', NL'. rewrite Ef' in Hf'.
      split; [exact Hrun|]. split; [exact I'|]. split; [by intros NL; apply NL', NL2|].
      split; [apply (KeepO_step h h2 h' F0 _ K2 K'); intros b Hb; by apply (owned_grow G G [] X x d pcs [m] b (Frame_refl _ _))|].
      split; [apply (Frame_mono _ _ _ _ Fr'); intros z Hz; rewrite ids_cons; apply elem_of_app in Hz as [Hz|Hz]; apply elem_of_app; [left; apply elem_of_app; by right|by right]|].
      split; [exact Hf'|]. split; [exact Ht'|]. split; [exact Rf'|]. split; [exact Rt'|].
      intros fv Hfv.
      pose proof (KeepO_app_l _ _ _ _ (KeepO_app_l _ _ _ _ K2)) as K2G.
      pose proof (MInv_own_G _ _ _ _ I) as OwnG. pose proof (MInv_own_G _ _ _ _ I') as OwnG'.
      pose proof (reify_keep_frame_list h h2 G G [] rf (Frame_refl _ _) OwnG
                    ltac:(intros c Hc; apply (children_nodes_G G f fd _ c Hf); apply elem_of_app; by right) K2G) as E1.
      pose proof (reify_keep_frame_list h h2 G G [] rest_t (Frame_refl _ _) OwnG
                    ltac:(intros c Hc; apply (children_nodes_G G t td _ c Ht); apply elem_of_app; by right) K2G) as E2.
      pose proof (reify_keep_frame_list h h2 G G' _ rf' Fr' OwnG'
                    ltac:(intros c Hc; apply (children_nodes_G G' f fd _ c Hf'); apply elem_of_app; right; by right) K2G) as E3.
      pose proof (reify_keep_frame_list h h2 G G' _ rt' Fr' OwnG'
                    ltac:(intros c Hc; apply (children_nodes_G G' t td _ c Ht'); apply elem_of_app; by right) K2G) as E4.
      specialize (V' fv Hfv). rewrite E1, E2, E3, E4 in V'. rewrite V'. cbn [bind]. rewrite V2. cbn [app map].
      assert (Em : reify (h_str h') m = reify (h_str h2) m).
      { apply (reify_keep h2 h' _ m (mi_own _ _ I2)); [|exact K'].
        apply member_in_nodes. apply elem_of_app. right. by left. }
      by rewrite Em.
    Qed.

    (** to-only member, then the rest of the walk *)
    Lemma step_to tc rt rest_f pre_f pre_t :
      (length rest_f + length rt < n')%nat ->
      find_tree f G = Some (T f fd (pre_f ++ rest_f)) -> find_tree t G = Some (T t td (pre_t ++ tc :: rt)) ->
      tdisj (T f fd (pre_f ++ rest_f)) (T t td (pre_t ++ tc :: rt)) ->
      (tsize (T f fd (pre_f ++ rest_f)) + tsize (T t td (pre_t ++ tc :: rt)) < lf)%nat ->
      (forall c, c ∈ rest_f -> okf c) -> (forall c, c ∈ tc :: rt -> okt c) ->
      exists h' G' pnew rest_f' rt',
        (k <~ get_key (Some (tid tc)) ;; n <~ cJSON_Duplicate nofail (Some (tid tc)) true ;; cJSON_AddItemToObject nofail (Some x) k n ;;;
         nx <~ get_next (Some (tid tc)) ;;
         gen_loop nofail rec lf (Some x) flag n' ((tid <$> (pre_f ++ rest_f)) !! length pre_f) nx) h = Ret (tt, h') /\
        MInv h' ((G' ++ X) ++ [T x d (pcs ++ pnew)]) /\
        (NoLeak h F0 -> NoLeak h' ((G' ++ X) ++ [T x d (pcs ++ pnew)])) /\
        KeepO h h' F0 /\
        Frame G G' (ids rest_f ++ ids (tc :: rt)) /\
        find_tree f G' = Some (T f fd (pre_f ++ rest_f')) /\ find_tree t G' = Some (T t td (pre_t ++ tc :: rt')) /\
        Forall2 treord rest_f rest_f' /\ Forall2 treord rt rt' /\
        forall fv, (forall c, c ∈ tc :: rt -> (height c < fv)%nat) ->
          ('(p, fl2, tl2) <- vwalk fv (map (reify (h_str h)) rest_f) (map (reify (h_str h)) rt) ;;
           Ok (MergeDefs.mp_add_member [] (Tree.n_key (reify (h_str h) tc)) (MergeDefs.mp_dup_rec 0 (reify (h_str h) tc)) ++ p,
               fl2, reify (h_str h) tc :: tl2)) =
          Ok (map (reify (h_str h')) pnew, map (reify (h_str h)) rest_f', reify (h_str h) tc :: map (reify (h_str h)) rt').
    Proof.
      intros Hn Hf Ht Hdis Hsz Hrf Hrt.
      pose proof (mi_wf _ _ I) as W. pose proof (nodup_ids_ll _ _ _ _ W) as NDG.
      destruct tc as [ci dc ccs]. cbn [tid].
      pose proof (find_tree_child G t td _ _ NDG Ht (elem_mid pre_t _ rt)) as Htc. cbn [tid] in Htc.
      pose proof (find_tree_app_l ci _ [T x d pcs] _ (find_tree_app_l ci G X _ Htc)) as HtcF.
      destruct (Hrt _ ltac:(by left)) as (_ & Gtc & Ktc & Htch). cbn [tdata] in Ktc.
      destruct (act_dup h (G ++ X) x d pcs I ci dc ccs HtcF Ktc Htch) as (h2 & m & Hrun2 & I2 & NL2 & K2 & V2).
      rewrite (Hrun2 _ _).
      pose proof (mi_wf _ _ I2) as W2.
      pose proof (find_tree_flat _ _ _ _ (find_tree_app_l t _ [T x d (pcs ++ [m])] _ (find_tree_app_l t G X _ Ht))) as Hflat.
      rewrite (bindM_Ret _ _ _ _ _ (chain_get_next h2 _ t td _ (length pre_t) ci W2 Hflat (lookup_mid_tid pre_t _ rt))).
      assert (Et : pre_t ++ T ci dc ccs :: rt = (pre_t ++ [T ci dc ccs]) ++ rt) by (by rewrite <- app_assoc).
      assert (Elt : S (length pre_t) = length (pre_t ++ [T ci dc ccs])) by (rewrite app_length; cbn; lia).
      rewrite Et, Elt. rewrite Et in Ht, Hdis, Hsz.
      destruct (IHn rest_f rt pre_f (pre_t ++ [T ci dc ccs]) h2 G (pcs ++ [m]) Hn I2 Hf Ht Hdis Hsz Hrf
                  ltac:(intros c Hc; apply Hrt; by right))
        as (h' & G' & pnew' & rf' & rt' & Hrun & I' & NL' & K' & Fr' & Hf' & Ht' & Rf' & Rt' & V').
      exists h', G', (m :: pnew'), rf', rt'.
      assert (Ep : (pcs ++ [m]) ++ pnew' = pcs ++ m :: pnew') by (by rewrite <- app_assoc).
      assert (Et' : (pre_t ++ [T ci dc ccs]) ++ rt' = pre_t ++ T ci dc ccs :: rt') by (by rewrite <- app_assoc).
      rewrite Ep in I', NL'. rewrite Et' in Ht'.
      split; [exact Hrun|]. split; [exact I'|]. split; [by intros NL; apply NL', NL2|].
      split; [apply (KeepO_step h h2 h' F0 _ K2 K'); intros b Hb; by apply (owned_grow G G [] X x d pcs [m] b (Frame_refl _ _))|].
      split; [apply (Frame_mono _ _ _ _ Fr'); intros z Hz; rewrite ids_cons; apply elem_of_app in Hz as [Hz|Hz]; apply elem_of_app; [by left|right; apply elem_of_app; by right]|].
      split; [exact Hf'|]. split; [exact Ht'|]. split; [exact Rf'|]. split; [exact Rt'|].
      intros fv Hfv.
      pose proof (KeepO_app_l _ _ _ _ (KeepO_app_l _ _ _ _ K2)) as K2G.
      pose proof (MInv_own_G _ _ _ _ I) as OwnG. pose proof (MInv_own_G _ _ _ _ I') as OwnG'.
      pose proof (reify_keep_frame_list h h2 G G [] rest_f (Frame_refl _ _) OwnG
                    ltac:(intros c Hc; apply (children_nodes_G G f fd _ c Hf); apply elem_of_app; by right) K2G) as E1.
      pose proof (reify_keep_frame_list h h2 G G [] rt (Frame_refl _ _) OwnG
                    ltac:(intros c Hc; apply (children_nodes_G G t td _ c Ht); apply elem_of_app; by right) K2G) as E2.
      pose proof (reify_keep_frame_list h h2 G G' _ rf' Fr' OwnG'
                    ltac:(intros c Hc; apply (children_nodes_G G' f fd _ c Hf'); apply elem_of_app; by right) K2G) as E3.
      pose proof (reify_keep_frame_list h h2 G G' _ rt' Fr' OwnG'
                    ltac:(intros c Hc; apply (children_nodes_G G' t td _ c Ht'); apply elem_of_app; right; by right) K2G) as E4.
      specialize (V' fv ltac:(intros c Hc; apply Hfv; by right)). rewrite E1, E2, E3, E4 in V'. rewrite V'. cbn [bind]. rewrite V2. cbn [app map].
      assert (Em : reify (h_str h') m = reify (h_str h2) m).
      { apply (reify_keep h2 h' _ m (mi_own _ _ I2)); [|exact K'].
        apply member_in_nodes. apply elem_of_app. right. by left. }
      by rewrite Em.
    Qed.

    (** a member of both: compare_json, the recursive call when different, then the rest of the walk *)
    Lemma step_both fc rf tc rt pre_f pre_t :
      (length rf + length rt < n')%nat ->
      find_tree f G = Some (T f fd (pre_f ++ fc :: rf)) -> find_tree t G = Some (T t td (pre_t ++ tc :: rt)) ->
      tdisj (T f fd (pre_f ++ fc :: rf)) (T t td (pre_t ++ tc :: rt)) ->
      (tsize (T f fd (pre_f ++ fc :: rf)) + tsize (T t td (pre_t ++ tc :: rt)) < lf)%nat ->
      (forall c, c ∈ fc :: rf -> okf c) -> (forall c, c ∈ tc :: rt -> okt c) ->
      exists h' G' pnew fcK tcK rf' rt',
        (same <~ compare_json_fuel lf lf (Some (tid fc)) (Some (tid tc)) flag ;;
         (if negb same then
            k <~ get_key (Some (tid tc)) ;;
            sub <~ rec (Some (tid fc)) (Some (tid tc)) ;;
            cJSON_AddItemToObject nofail (Some x) k sub ;;;
            ret tt
          else ret tt) ;;;
         nf <~ get_next (Some (tid fc)) ;;
         nt <~ get_next (Some (tid tc)) ;;
         gen_loop nofail rec lf (Some x) flag n' nf nt) h = Ret (tt, h') /\
        MInv h' ((G' ++ X) ++ [T x d (pcs ++ pnew)]) /\
        (NoLeak h F0 -> NoLeak h' ((G' ++ X) ++ [T x d (pcs ++ pnew)])) /\
        KeepO h h' F0 /\
        Frame G G' (ids (fc :: rf) ++ ids (tc :: rt)) /\
        find_tree f G' = Some (T f fd (pre_f ++ fcK :: rf')) /\ find_tree t G' = Some (T t td (pre_t ++ tcK :: rt')) /\
        treord fc fcK /\ treord tc tcK /\ Forall2 treord rf rf' /\ Forall2 treord rt rt' /\
        forall fv, (forall c, c ∈ tc :: rt -> (height c < fv)%nat) ->
          ('(same, fc1, tc1) <- MergeDefs.mp_compare_json_top flag (reify (h_str h) fc) (reify (h_str h) tc) ;;
           if (same : bool) then
             '(p, fl2, tl2) <- vwalk fv (map (reify (h_str h)) rf) (map (reify (h_str h)) rt) ;; Ok (p, fc1 :: fl2, tc1 :: tl2)
           else
             '(sub, fc2, tc2) <- MergeDefs.mp_generate_merge_patch fv flag fc1 tc1 ;;
             '(p, fl2, tl2) <- vwalk fv (map (reify (h_str h)) rf) (map (reify (h_str h)) rt) ;;
             Ok (MergeDefs.mp_add_member [] (Tree.n_key tc2) sub ++ p, fc2 :: fl2, tc2 :: tl2)) =
          Ok (map (reify (h_str h')) pnew, reify (h_str h) fcK :: map (reify (h_str h)) rf', reify (h_str h) tcK :: map (reify (h_str h)) rt').
    Proof.
      intros Hn Hf Ht Hdis Hsz Hrf Hrt.
      pose proof (mi_wf _ _ I) as W. pose proof (nodup_ids_ll _ _ _ _ W) as NDG.
      pose proof (find_tree_child G f fd _ _ NDG Hf (elem_mid pre_f fc rf)) as Hfc.
      pose proof (find_tree_child G t td _ _ NDG Ht (elem_mid pre_t tc rt)) as Htc.
      destruct (Hrf _ ltac:(by left)) as [Gfc Kfc]. destruct (Hrt _ ltac:(by left)) as (Stc & Gtc & Ktc & Htch).
      assert (Hdxy : tdisj fc tc) by (eapply tdisj_children; [exact Hdis|apply elem_mid|apply elem_mid]).
      pose proof (tsize_child_lt f fd _ fc (elem_mid pre_f fc rf)) as Hx1.
      pose proof (tsize_child_lt t td _ tc (elem_mid pre_t tc rt)) as Hy1.
      pose proof (MInv_own_G _ _ _ _ I) as OwnG.
      (* what follows the member: advance both pointers, walk the rest *)
      assert (Hnext : forall h3 G3 padd fcK tcK,
                MInv h3 ((G3 ++ X) ++ [T x d (pcs ++ padd)]) ->
                (NoLeak h F0 -> NoLeak h3 ((G3 ++ X) ++ [T x d (pcs ++ padd)])) ->
                KeepO h h3 F0 -> Frame G G3 (ids_t fc ++ ids_t tc) ->
                find_tree (tid fc) G3 = Some fcK -> find_tree (tid tc) G3 = Some tcK -> treord fc fcK -> treord tc tcK ->
                exists h' G' pnew' rf' rt',
                  (nf <~ get_next (Some (tid fc)) ;; nt <~ get_next (Some (tid tc)) ;; gen_loop nofail rec lf (Some x) flag n' nf nt) h3 = Ret (tt, h') /\
                  MInv h' ((G' ++ X) ++ [T x d (pcs ++ (padd ++ pnew'))]) /\
                  (NoLeak h F0 -> NoLeak h' ((G' ++ X) ++ [T x d (pcs ++ (padd ++ pnew'))])) /\
                  KeepO h h' F0 /\
                  Frame G G' (ids (fc :: rf) ++ ids (tc :: rt)) /\
                  find_tree f G' = Some (T f fd (pre_f ++ fcK :: rf')) /\ find_tree t G' = Some (T t td (pre_t ++ tcK :: rt')) /\
                  Forall2 treord rf rf' /\ Forall2 treord rt rt' /\
                  map (reify (h_str h')) padd = map (reify (h_str h3)) padd /\
                  forall fv, (forall c, c ∈ rt -> (height c < fv)%nat) ->
                    vwalk fv (map (reify (h_str h)) rf) (map (reify (h_str h)) rt) =
                    Ok (map (reify (h_str h')) pnew', map (reify (h_str h)) rf', map (reify (h_str h)) rt')).
      { intros h3 G3 padd fcK tcK I3 NL3 K3 Fr3 HfK HtK RfK RtK.
        pose proof (mi_wf _ _ I3) as W3. pose proof (nodup_ids_ll _ _ _ _ W3) as NDG3.
        destruct (frame_parents G G3 f fd pre_f fc fcK rf t td pre_t tc tcK rt Fr3 NDG NDG3 Hf Ht Hdis HfK HtK
                    (treord_tid _ _ RfK) (treord_tid _ _ RtK)) as [Hf3 Ht3].
        pose proof (find_tree_flat _ _ _ _ (find_tree_app_l f _ [T x d (pcs ++ padd)] _ (find_tree_app_l f G3 X _ Hf3))) as Hflf.
        pose proof (find_tree_flat _ _ _ _ (find_tree_app_l t _ [T x d (pcs ++ padd)] _ (find_tree_app_l t G3 X _ Ht3))) as Hflt.
        rewrite (bindM_Ret _ _ _ _ _ (chain_get_next h3 _ f fd _ (length pre_f) (tid fc) W3 Hflf
                   ltac:(rewrite <- (treord_tid _ _ RfK); apply lookup_mid_tid))).
        rewrite (bindM_Ret _ _ _ _ _ (chain_get_next h3 _ t td _ (length pre_t) (tid tc) W3 Hflt
                   ltac:(rewrite <- (treord_tid _ _ RtK); apply lookup_mid_tid))).
        assert (Ef : pre_f ++ fcK :: rf = (pre_f ++ [fcK]) ++ rf) by (by rewrite <- app_assoc).
        assert (Et : pre_t ++ tcK :: rt = (pre_t ++ [tcK]) ++ rt) by (by rewrite <- app_assoc).
        assert (Elf : S (length pre_f) = length (pre_f ++ [fcK])) by (rewrite app_length; cbn; lia).
        assert (Elt : S (length pre_t) = length (pre_t ++ [tcK])) by (rewrite app_length; cbn; lia).
        pose proof (treord_replace_child f fd pre_f fc fcK rf RfK) as RF.
        pose proof (treord_replace_child t td pre_t tc tcK rt RtK) as RT.
        rewrite Ef, Et, Elf, Elt. rewrite Ef in Hf3, RF. rewrite Et in Ht3, RT.
        destruct (IHn rf rt (pre_f ++ [fcK]) (pre_t ++ [tcK]) h3 G3 (pcs ++ padd) Hn I3 Hf3 Ht3
                    (tdisj_treord _ _ _ _ Hdis RF RT)
                    ltac:(rewrite (treord_tsize _ _ RF), (treord_tsize _ _ RT); exact Hsz)
                    ltac:(intros c Hc; apply Hrf; by right) ltac:(intros c Hc; apply Hrt; by right))
          as (h' & G' & pnew' & rf' & rt' & Hrun & I' & NL' & K' & Fr' & Hf' & Ht' & Rf' & Rt' & V').
        assert (Ef' : (pre_f ++ [fcK]) ++ rf' = pre_f ++ fcK :: rf') by (by rewrite <- app_assoc).
        assert (Et' : (pre_t ++ [tcK]) ++ rt' = pre_t ++ tcK :: rt') by (by rewrite <- app_assoc).
        assert (Ep : (pcs ++ padd) ++ pnew' = pcs ++ (padd ++ pnew')) by (by rewrite <- app_assoc).
        rewrite Ef' in Hf'. rewrite Et' in Ht'. rewrite Ep in I', NL'.
        assert (FrA : Frame G G' (ids (fc :: rf) ++ ids (tc :: rt))).
        { apply (Frame_trans G G3 G').
          - apply (Frame_mono _ _ _ _ Fr3). intros z Hz. rewrite !ids_cons.
            apply elem_of_app in Hz as [Hz|Hz]; apply elem_of_app; [left|right]; apply elem_of_app; by left.
          - apply (Frame_mono _ _ _ _ Fr'). intros z Hz. rewrite !ids_cons.
            apply elem_of_app in Hz as [Hz|Hz]; apply elem_of_app; [left|right]; apply elem_of_app; by right. }
        exists h', G', pnew', rf', rt'. split; [exact Hrun|]. split; [exact I'|]. split; [by intros NL; apply NL', NL3|].
        split; [apply (KeepO_step h h3 h' F0 _ K3 K'); intros b Hb; by apply (owned_grow G G3 _ X x d pcs padd b Fr3)|].
        split; [exact FrA|]. split; [exact Hf'|]. split; [exact Ht'|]. split; [exact Rf'|]. split; [exact Rt'|].
        split.
        { apply (reify_keep_list h3 h' _ padd (mi_own _ _ I3)); [|exact K'].
          intros c Hc. apply member_in_nodes. apply elem_of_app. by right. }
        intros fv Hfv.
        pose proof (KeepO_app_l _ _ _ _ (KeepO_app_l _ _ _ _ K3)) as K3G.
        pose proof (MInv_own_G _ _ _ _ I') as OwnG'.
        pose proof (reify_keep_frame_list h h3 G G [] rf (Frame_refl _ _) OwnG
                      ltac:(intros c Hc; apply (children_nodes_G G f fd _ c Hf); apply elem_of_app; right; by right) K3G) as E1.
        pose proof (reify_keep_frame_list h h3 G G [] rt (Frame_refl _ _) OwnG
                      ltac:(intros c Hc; apply (children_nodes_G G t td _ c Ht); apply elem_of_app; right; by right) K3G) as E2.
        pose proof (reify_keep_frame_list h h3 G G' _ rf' FrA OwnG'
                      ltac:(intros c Hc; apply (children_nodes_G G' f fd _ c Hf'); apply elem_of_app; right; by right) K3G) as E3.
        pose proof (reify_keep_frame_list h h3 G G' _ rt' FrA OwnG'
                      ltac:(intros c Hc; apply (children_nodes_G G' t td _ c Ht'); apply elem_of_app; right; by right) K3G) as E4.
        specialize (V' fv Hfv). by rewrite E1, E2, E3, E4 in V'. }
      (* compare_json on the pair *)
      assert (EA : (G ++ X) ++ [T x d pcs] = G ++ (X ++ [T x d pcs])) by (by rewrite <- app_assoc).
      pose proof I as IA. rewrite EA in IA.
      destruct (compare_rec lf lf flag fc tc h G (X ++ [T x d pcs]) ltac:(lia)) as (h1 & G1 & same & fc1 & tc1 & Hrun1 & I1 & NL1 & Es1 & En1 & Fr1 & Hfc1 & Htc1 & Rf1 & Rt1 & V1).
      { split; [exact IA|]. split; [exact Hfc|]. split; [exact Htc|]. split; [exact Hdxy|]. split; [lia|]. by split. }
      rewrite (bindM_Ret _ _ _ _ _ Hrun1).
      assert (EA1 : G1 ++ (X ++ [T x d pcs]) = (G1 ++ X) ++ [T x d pcs]) by (by rewrite <- app_assoc).
      assert (Vc : MergeDefs.mp_compare_json_top flag (reify (h_str h) fc) (reify (h_str h) tc) =
                   Ok (same, reify (h_str h) fc1, reify (h_str h) tc1)).
      { unfold MergeDefs.mp_compare_json_top. rewrite height_node_depth. apply V1. lia. }
      assert (K1 : KeepO h h1 F0) by (intros b _; by rewrite Es1).
      destruct same; cbn [negb].
      { (* identical: nothing is added *)
        rewrite bindM_ret.
        destruct (Hnext h1 G1 [] fc1 tc1) as (h' & G' & pnew' & rf' & rt' & Hrun & I' & NL' & K' & Fr' & Hf' & Ht' & Rf' & Rt' & _ & V'); try done.
        { rewrite app_nil_r. by rewrite <- EA1. }
        { rewrite app_nil_r. intros NL. rewrite <- EA1. apply NL1. by rewrite <- EA. }
        exists h', G', pnew', fc1, tc1, rf', rt'. cbn [app] in I', NL'.
        split; [exact Hrun|]. split; [exact I'|]. split; [exact NL'|]. split; [exact K'|]. split; [exact Fr'|].
        split; [exact Hf'|]. split; [exact Ht'|]. split; [exact Rf1|]. split; [exact Rt1|]. split; [exact Rf'|]. split; [exact Rt'|].
        intros fv Hfv. rewrite Vc. cbn [bind]. rewrite (V' fv); [done|]. intros c Hc. apply Hfv. by right. }
      (* different: the key, the recursive call, cJSON_AddItemToObject *)
      destruct tc as [ci dc ccs]. destruct tc1 as [ci1 dc1 ccs1].
      pose proof (treord_tid _ _ Rt1) as Eci. pose proof (treord_tdata _ _ Rt1) as Edc. cbn [tid tdata] in Eci, Edc, Ktc. subst ci1 dc1.
      cbn [tid] in *.
      destruct (node_key_facts h1 _ ci dc ccs1 I1 (find_tree_app_l ci G1 _ _ Htc1) Ktc) as (kb & sn & Ek & Hkl & Hks & Hkz & Rk & Vk).
      rewrite !bindM_assoc. rewrite (bindM_Ret _ _ _ _ _ Rk).
      pose proof (mi_wf _ _ I1) as W1. pose proof (nodup_ids_l _ _ _ W1) as NDG1.
      destruct (IH fc1 (T ci dc ccs1) h1 G1 (X ++ [T x d pcs])) as (h2 & G2 & sub & fc2 & tc2 & Hrun2 & I2 & NL2 & K2 & Fr2 & Hfc2 & Htc2 & Rf2 & Rt2 & V2).
      { rewrite (treord_tsize _ _ Rt1). exact Stc. }
      { split; [exact I1|]. split; [by rewrite (treord_tid _ _ Rf1)|]. split; [exact Htc1|]. split; [exact (tdisj_treord _ _ _ _ Hdxy Rf1 Rt1)|].
        split; [rewrite (treord_tsize _ _ Rf1), (treord_tsize _ _ Rt1); lia|].
        split; [exact (treord_gdoc _ _ Rf1 Gfc)|]. split; [exact (treord_gdoc _ _ Rt1 Gtc)|].
        rewrite (treord_height _ _ Rt1). exact Htch. }
      rewrite (treord_tid _ _ Rf1) in Hrun2, Hfc2. cbn [tid] in Hrun2, Htc2.
      rewrite !bindM_assoc. rewrite (bindM_Ret _ _ _ _ _ Hrun2).
      assert (Fr12 : Frame G G2 (ids_t fc ++ ids_t (T ci dc ccs))).
      { apply (Frame_trans G G1 G2); [exact Fr1|]. apply (Frame_mono _ _ _ _ Fr2). intros z Hz.
        apply elem_of_app in Hz as [Hz|Hz]; apply elem_of_app; [left; by rewrite <- (treord_ids _ _ Rf1)|right; by rewrite <- (treord_ids _ _ Rt1)]. }
      assert (K12 : KeepO h h2 F0).
      { intros b Hb. rewrite (K2 b); [by rewrite Es1|]. rewrite <- app_assoc in Hb.
        rewrite owned_app in Hb. rewrite owned_app. apply elem_of_app in Hb as [Hb|Hb]; apply elem_of_app; [left|by right].
        by rewrite (Frame_owned _ _ _ Fr1). }
      pose proof (treord_trans _ _ _ Rf1 Rf2) as RfK. pose proof (treord_trans _ _ _ Rt1 Rt2) as RtK.
      assert (Vg : forall fv, (height (T ci dc ccs) < fv)%nat ->
                 MergeDefs.mp_generate_merge_patch fv flag (reify (h_str h) fc1) (reify (h_str h) (T ci dc ccs1)) =
                 Ok (reify (h_str h2) <$> sub, reify (h_str h) fc2, reify (h_str h) tc2)).
      { intros fv Hfv. rewrite <- Es1. apply V2. by rewrite (treord_height _ _ Rt1). }
      assert (EA2 : G2 ++ (X ++ [T x d pcs]) = (G2 ++ X) ++ [T x d pcs]) by (by rewrite <- app_assoc).
      destruct sub as [s|]; cbn [opt_list fmap option_fmap option_map] in *.
      2:{ (* no sub-patch: cJSON_AddItemToObject(patch, key, NULL) refuses *)
        rewrite app_nil_r in I2, NL2. rewrite EA2 in I2, NL2.
        rewrite !bindM_assoc. rewrite (bindM_Ret _ _ _ _ _ (add_null_item h2 x (Some kb))). rewrite !bindM_ret.
        destruct (Hnext h2 G2 [] fc2 tc2) as (h' & G' & pnew' & rf' & rt' & Hrun & I' & NL' & K' & Fr' & Hf' & Ht' & Rf' & Rt' & _ & V'); try done.
        { by rewrite app_nil_r. }
        { rewrite app_nil_r. intros NL. apply NL2. apply NL1. by rewrite <- EA. }
        exists h', G', pnew', fc2, tc2, rf', rt'. cbn [app] in I', NL'.
        split; [exact Hrun|]. split; [exact I'|]. split; [exact NL'|]. split; [exact K'|]. split; [exact Fr'|].
        split; [exact Hf'|]. split; [exact Ht'|]. split; [exact RfK|]. split; [exact RtK|]. split; [exact Rf'|]. split; [exact Rt'|].
        intros fv Hfv. rewrite Vc. cbn [bind]. rewrite (Vg fv (Hfv _ ltac:(by left))). cbn [bind].
        rewrite (V' fv); [|intros c Hc; apply Hfv; by right]. cbn [bind].
        by destruct (Tree.n_key (reify (h_str h) tc2)). }
      (* the sub-patch becomes a member of the patch *)
      rewrite EA2 in I2, NL2.
      destruct tc2 as [ci2 dc2 ccs2].
      pose proof (treord_tid _ _ Rt2) as Eci. pose proof (treord_tdata _ _ Rt2) as Edc. cbn [tid tdata] in Eci, Edc. subst ci2 dc2.
      destruct (act_sub h2 (G2 ++ X) x d pcs s ci dc ccs2 I2 (find_tree_app_l ci G2 X _ Htc2) Ktc)
        as (h3 & m & Hrun3 & I3 & NL3 & K3 & V3).
      rewrite Ek in Hrun3. rewrite !bindM_assoc. rewrite (Hrun3 _ _). rewrite bindM_ret.
      destruct (Hnext h3 G2 [m] fc2 (T ci dc ccs2)) as (h' & G' & pnew' & rf' & rt' & Hrun & I' & NL' & K' & Fr' & Hf' & Ht' & Rf' & Rt' & Em & V'); try done.
      { intros NL. apply NL3, NL2. apply NL1. by rewrite <- EA. }
      { apply (KeepO_step h h2 h3 F0 _ K12 K3). intros b Hb. by apply (owned_grow G G2 _ X x d pcs [] b Fr12) in Hb; rewrite app_nil_r in Hb. }
      exists h', G', (m :: pnew'), fc2, (T ci dc ccs2), rf', rt'. cbn [app] in I', NL'.
      split; [exact Hrun|]. split; [exact I'|]. split; [exact NL'|]. split; [exact K'|]. split; [exact Fr'|].
      split; [exact Hf'|]. split; [exact Ht'|]. split; [exact RfK|]. split; [exact RtK|]. split; [exact Rf'|]. split; [exact Rt'|].
      intros fv Hfv. rewrite Vc. cbn [bind]. rewrite (Vg fv (Hfv _ ltac:(by left))). cbn [bind].
      rewrite (V' fv); [|intros c Hc; apply Hfv; by right]. cbn [bind].
      assert (Ekey : Tree.n_key (reify (h_str h) (T ci dc ccs2)) = Tree.n_key (reify (h_str h2) (T ci dc ccs2))).
      { pose proof (mi_wf _ _ I2) as W2.
        rewrite (reify_keep_frame h h2 G G2 _ (T ci dc ccs2) Fr12 (MInv_own_G _ _ _ _ I3)); [done| |exact (KeepO_app_l _ _ _ _ (KeepO_app_l _ _ _ _ K12))].
        by apply find_tree_Some in Htc2 as [? _]. }
      rewrite Ekey, V3. cbn [app map]. cbn [map] in Em. injection Em as Em. by rewrite Em.
    Qed.
  End Step.

  Lemma Forall2_nil_l_inv {A B} (R : A -> B -> Prop) l : Forall2 R [] l -> l = [].
  Proof. by inversion 1. Qed.

  Lemma gen_loop_sim : forall n, loop_stmt n.
  Proof.
    induction n as [|n' IHn]; intros rest_f rest_t pre_f pre_t h G pcs Hn I Hf Ht Hdis Hsz Hrf Hrt; [lia|].
    destruct rest_f as [|fc rf], rest_t as [|tc rt].
    - (* both chains ran out *)
      rewrite !lookup_end_tid. cbn [gen_loop is_null andb].
      exists h, G, [], [], []. rewrite app_nil_r. split; [done|]. split; [done|]. split; [done|]. split; [apply KeepO_refl|].
      split; [apply Frame_refl|]. split; [done|]. split; [done|]. split; [constructor|]. split; [constructor|]. by intros fv _.
    - (* from ran out: diff = 1 *)
      cbn [length] in Hn. rewrite lookup_end_tid, lookup_mid_tid. cbn [gen_loop is_null andb negb]. rewrite bindM_ret.
      change (1 <? 0) with false. change (0 <? 1) with true. cbv iota.
      destruct (step_to n' IHn h G pcs I tc rt [] pre_f pre_t ltac:(cbn [length]; lia) Hf Ht Hdis Hsz Hrf Hrt)
        as (h' & G' & pnew & rf' & rt' & Hrun & I' & NL' & K' & Fr' & Hf' & Ht' & Rf' & Rt' & V').
      rewrite lookup_end_tid in Hrun. apply Forall2_nil_l_inv in Rf' as ->.
      exists h', G', pnew, [], (tc :: rt'). split; [exact Hrun|]. split; [done|]. split; [done|]. split; [done|]. split; [done|].
      split; [done|]. split; [done|]. split; [constructor|]. split; [constructor; [apply treord_refl|done]|].
      intros fv Hfv. cbn [map]. rewrite gen_walk_nil_cons. exact (V' fv Hfv).
    - (* to ran out: diff = -1 *)
      cbn [length] in Hn. rewrite lookup_end_tid, lookup_mid_tid. cbn [gen_loop is_null andb negb]. rewrite bindM_ret.
      change (-1 <? 0) with true. cbv iota.
      destruct (step_from n' IHn h G pcs I fc rf [] pre_f pre_t ltac:(cbn [length]; lia) Hf Ht Hdis Hsz Hrf Hrt)
        as (h' & G' & pnew & rf' & rt' & Hrun & I' & NL' & K' & Fr' & Hf' & Ht' & Rf' & Rt' & V').
      rewrite lookup_end_tid in Hrun. apply Forall2_nil_l_inv in Rt' as ->.
      exists h', G', pnew, (fc :: rf'), []. split; [exact Hrun|]. split; [done|]. split; [done|]. split; [done|]. split; [done|].
      split; [done|]. split; [done|]. split; [constructor; [apply treord_refl|done]|]. split; [constructor|].
      intros fv Hfv. cbn [map]. rewrite gen_walk_cons_nil. exact (V' fv Hfv).
    - (* a member on both sides: diff = strcmp of the two names *)
      cbn [length] in Hn. rewrite !lookup_mid_tid. cbn [gen_loop is_null andb negb].
      pose proof (mi_wf _ _ I) as W. pose proof (nodup_ids_ll _ _ _ _ W) as NDG.
      pose proof (find_tree_child G f fd _ _ NDG Hf (elem_mid pre_f fc rf)) as Hfc.
      pose proof (find_tree_child G t td _ _ NDG Ht (elem_mid pre_t tc rt)) as Htc.
      destruct (Hrf _ ltac:(by left)) as [Gfc Kfc]. destruct (Hrt _ ltac:(by left)) as (Stc & Gtc & Ktc & Htch).
      destruct fc as [fi fdc fccs], tc as [ti tdc tccs]. cbn [tid tdata] in *.
      pose proof (find_tree_app_l fi _ [T x d pcs] _ (find_tree_app_l fi G X _ Hfc)) as HfcF.
      pose proof (find_tree_app_l ti _ [T x d pcs] _ (find_tree_app_l ti G X _ Htc)) as HtcF.
      destruct (node_key_facts h _ fi fdc fccs I HfcF Kfc) as (kf & sf & Ekf & Hlf & Hsf & Hzf & Rkf & Vkf).
      destruct (node_key_facts h _ ti tdc tccs I HtcF Ktc) as (kt & st & Ekt & Hlt & Hst & Hzt & Rkt & Vkt).
      rewrite !bindM_assoc. rewrite (bindM_Ret _ _ _ _ _ Rkf). rewrite !bindM_assoc. rewrite (bindM_Ret _ _ _ _ _ Rkt).
      unfold c_strcmp. rewrite !bindM_assoc. rewrite (bindM_Ret _ _ _ _ _ (run_ld_cstr h kf sf Hlf Hsf Hzf)).
      rewrite !bindM_assoc. rewrite (bindM_Ret _ _ _ _ _ (run_ld_cstr h kt st Hlt Hst Hzt)). rewrite bindM_ret.
      assert (Hwalk : forall fv,
                vwalk fv (map (reify (h_str h)) (T fi fdc fccs :: rf)) (map (reify (h_str h)) (T ti tdc tccs :: rt)) =
                let fc := reify (h_str h) (T fi fdc fccs) in let tc := reify (h_str h) (T ti tdc tccs) in
                let fr := map (reify (h_str h)) rf in let tr := map (reify (h_str h)) rt in
                let diff := strcmp (cstr sf) (cstr st) in
                if diff <? 0 then
                  '(p, fl2, tl2) <- vwalk fv fr (tc :: tr) ;;
                  Ok (MergeDefs.mp_add_member [] (Tree.n_key fc) (Some MergeDefs.mp_CreateNull) ++ p, fc :: fl2, tl2)
                else if 0 <? diff then
                  '(p, fl2, tl2) <- vwalk fv (fc :: fr) tr ;;
                  Ok (MergeDefs.mp_add_member [] (Tree.n_key tc) (MergeDefs.mp_dup_rec 0 tc) ++ p, fl2, tc :: tl2)
                else
                  '(same, fc1, tc1) <- MergeDefs.mp_compare_json_top flag fc tc ;;
                  if (same : bool) then
                    '(p, fl2, tl2) <- vwalk fv fr tr ;; Ok (p, fc1 :: fl2, tc1 :: tl2)
                  else
                    '(sub, fc2, tc2) <- MergeDefs.mp_generate_merge_patch fv flag fc1 tc1 ;;
                    '(p, fl2, tl2) <- vwalk fv fr tr ;;
                    Ok (MergeDefs.mp_add_member [] (Tree.n_key tc2) sub ++ p, fc2 :: fl2, tc2 :: tl2)).
      { intros fv. cbn [map]. rewrite gen_walk_cons_cons. by rewrite Vkf, Vkt. }
      destruct (strcmp (cstr sf) (cstr st) <? 0) eqn:Elt.
      + (* from-only member *)
        destruct (step_from n' IHn h G pcs I (T fi fdc fccs) rf (T ti tdc tccs :: rt) pre_f pre_t ltac:(cbn [length]; lia) Hf Ht Hdis Hsz Hrf Hrt)
          as (h' & G' & pnew & rf' & rt' & Hrun & I' & NL' & K' & Fr' & Hf' & Ht' & Rf' & Rt' & V').
        rewrite lookup_mid_tid in Hrun. cbn [tid] in Hrun.
        exists h', G', pnew, (T fi fdc fccs :: rf'), rt'. split; [exact Hrun|]. split; [done|]. split; [done|]. split; [done|]. split; [done|].
        split; [done|]. split; [done|]. split; [constructor; [apply treord_refl|done]|]. split; [done|].
        intros fv Hfv. rewrite Hwalk. cbv zeta. rewrite Elt. exact (V' fv Hfv).
      + destruct (0 <? strcmp (cstr sf) (cstr st)) eqn:Egt.
        * (* to-only member *)
          destruct (step_to n' IHn h G pcs I (T ti tdc tccs) rt (T fi fdc fccs :: rf) pre_f pre_t ltac:(cbn [length]; lia) Hf Ht Hdis Hsz Hrf Hrt)
            as (h' & G' & pnew & rf' & rt' & Hrun & I' & NL' & K' & Fr' & Hf' & Ht' & Rf' & Rt' & V').
          rewrite lookup_mid_tid in Hrun. cbn [tid] in Hrun.
          exists h', G', pnew, rf', (T ti tdc tccs :: rt'). split; [exact Hrun|]. split; [done|]. split; [done|]. split; [done|]. split; [done|].
          split; [done|]. split; [done|]. split; [done|]. split; [constructor; [apply treord_refl|done]|].
          intros fv Hfv. rewrite Hwalk. cbv zeta. rewrite Elt, Egt. exact (V' fv Hfv).
        * (* the same name on both sides *)
          destruct (step_both n' IHn h G pcs I (T fi fdc fccs) rf (T ti tdc tccs) rt pre_f pre_t ltac:(lia) Hf Ht Hdis Hsz Hrf Hrt)
            as (h' & G' & pnew & fcK & tcK & rf' & rt' & Hrun & I' & NL' & K' & Fr' & Hf' & Ht' & RfK & RtK & Rf' & Rt' & V').
          cbn [tid] in Hrun.
          exists h', G', pnew, (fcK :: rf'), (tcK :: rt'). split; [exact Hrun|]. split; [done|]. split; [done|]. split; [done|]. split; [done|].
          split; [done|]. split; [done|]. split; [by constructor|]. split; [by constructor|].
          intros fv Hfv. rewrite Hwalk. cbv zeta. rewrite Elt, Egt. exact (V' fv Hfv).
  Qed.
End GenLoop.

(** * the recursion *)
Lemma run_IsObject h F p d cs :
  WF h F -> find_tree p F = Some (T p d cs) ->
  cJSON_IsObject (Some p) h = Ret (Tree.is_object (reify (h_str h) (T p d cs)), h).
Proof. intros W Hp. unfold cJSON_IsObject. cbn [is_null]. exact (run_type_is h F p d cs c_cJSON_Object W Hp). Qed.

Theorem gen_rec : forall df lf flag, gen_spec df lf flag.
Proof.
  induction df as [|df IHdf]; intros lf flag tf tt h G X Hdf (I & Hf & Ht & Hdis & Hlf & Gf & Gt & Hh).
  { pose proof (tsize_pos tt). lia. }
  destruct tf as [f fd fcs], tt as [t td tcs]. cbn [tid] in *.
  rewrite generate_merge_patch_fuel_S. cbn [is_null].
  pose proof (mi_wf _ _ I) as W. pose proof (nodup_ids_l _ _ _ W) as NDG.
  pose proof (find_tree_app_l f G X _ Hf) as HfF. pose proof (find_tree_app_l t G X _ Ht) as HtF.
  rewrite !bindM_assoc. rewrite (bindM_Ret _ _ _ _ _ (run_IsObject h _ t td tcs W HtF)).
  assert (Hnonobj : Tree.is_object (reify (h_str h) (T t td tcs)) && Tree.is_object (reify (h_str h) (T f fd fcs)) = false ->
            gen_post_out flag h G X (T f fd fcs) (T t td tcs) (cJSON_Duplicate nofail (Some t) true h)).
  { intros Eno.
    destruct (step_dup h (G ++ X) t (T t td tcs) I HtF Hh) as (tc & h1 & Hrun1 & I1 & NL1 & K1 & V1).
    exists h1, G, (Some tc), (T f fd fcs), (T t td tcs). split; [exact Hrun1|]. split; [exact I1|]. split; [exact NL1|].
    split; [exact K1|]. split; [apply Frame_refl|]. split; [done|]. split; [done|]. split; [apply treord_refl|]. split; [apply treord_refl|].
    intros [|fv] Hfv; [lia|]. rewrite mp_generate_merge_patch_S. rewrite <- negb_andb, Eno. cbn [negb]. by rewrite V1. }
  destruct (Tree.is_object (reify (h_str h) (T t td tcs))) eqn:Eto; cbn [negb].
  2:{ rewrite bindM_ret. by apply Hnonobj. }
  rewrite !bindM_assoc. rewrite (bindM_Ret _ _ _ _ _ (run_IsObject h _ f fd fcs W HfF)). rewrite bindM_ret.
  destruct (Tree.is_object (reify (h_str h) (T f fd fcs))) eqn:Efrom; cbn [negb].
  2:{ by apply Hnonobj. }
  (* both are objects *)
  assert (Eof : Tree.tymask (rd_type fd) = c_cJSON_Object) by (by apply Z.eqb_eq in Efrom).
  assert (Eot : Tree.tymask (rd_type td) = c_cJSON_Object) by (by apply Z.eqb_eq in Eto).
  rewrite tsize_unfold in Hlf, Hdf. rewrite (tsize_unfold t td tcs) in Hlf.
  pose proof (nodes_length_ge fcs) as Hlf'. pose proof (nodes_length_ge tcs) as Hlt'.
  destruct (step_sort h G X f fd fcs flag lf I Hf (proj1 (gdoc_self _ Gf) Eof) ltac:(unfold SortDefs.sort_fuel; lia))
    as (h1 & Hrun1 & I1 & NL1 & Es1 & En1 & Hf1 & Fr1 & Pf & Vf).
  set (fcs1 := sort_children (h_str h) flag fcs) in *. set (G1 := set_children f fcs1 G) in *.
  rewrite (bindM_Ret _ _ _ _ _ Hrun1).
  pose proof (mi_wf _ _ I1) as W1. pose proof (nodup_ids_l _ _ _ W1) as NDG1.
  assert (Ht1 : find_tree t G1 = Some (T t td tcs)).
  { apply (frame_find G G1 [f] (T t td tcs) Fr1 NDG1 Ht). intros z Hz Hin. apply elem_of_list_singleton in Hin as ->.
    apply (Hdis f); [|done]. rewrite ids_t_unfold. by left. }
  destruct (step_sort h1 G1 X t td tcs flag lf I1 Ht1 (proj1 (gdoc_self _ Gt) Eot) ltac:(unfold SortDefs.sort_fuel; lia))
    as (h2 & Hrun2 & I2 & NL2 & Es2 & En2 & Ht2 & Fr2 & Pt & Vt).
  rewrite Es1 in Vt, Ht2, Fr2, Pt, I2, NL2. set (tcs1 := sort_children (h_str h) flag tcs) in *. set (G2 := set_children t tcs1 G1) in *.
  rewrite (bindM_Ret _ _ _ _ _ Hrun2).
  pose proof (mi_wf _ _ I2) as W2. pose proof (nodup_ids_l _ _ _ W2) as NDG2.
  assert (RF1 : treord (T f fd fcs) (T f fd fcs1)) by (apply treord_children with (sorted := fcs1); [by symmetry|apply Forall2_treord_refl]).
  assert (RT1 : treord (T t td tcs) (T t td tcs1)) by (apply treord_children with (sorted := tcs1); [by symmetry|apply Forall2_treord_refl]).
  pose proof (tdisj_treord _ _ _ _ Hdis RF1 RT1) as Hdis1.
  assert (Hf2 : find_tree f G2 = Some (T f fd fcs1)).
  { apply (frame_find G1 G2 [t] (T f fd fcs1) Fr2 NDG2 Hf1). intros z Hz Hin. apply elem_of_list_singleton in Hin as ->.
    apply (Hdis1 t Hz). rewrite ids_t_unfold. by left. }
  rewrite (bindM_Ret _ _ _ _ _ (run_child_node h2 _ f fd fcs1 I2 (find_tree_app_l f G2 X _ Hf2))).
  rewrite (bindM_Ret _ _ _ _ _ (run_child_node h2 _ t td tcs1 I2 (find_tree_app_l t G2 X _ Ht2))).
  destruct (step_create h2 (G2 ++ X) I2) as (h3 & Hrun3 & I3 & NL3 & Es3 & V3).
  set (x := h_next h2) in *. set (d := rd_typed c_cJSON_Object) in *.
  rewrite (bindM_Ret _ _ _ _ _ Hrun3). cbn [is_null].
  pose proof (treord_gdoc _ _ RF1 Gf) as Gf1. pose proof (treord_gdoc _ _ RT1 Gt) as Gt1.
  destruct (gen_loop_sim flag df lf X x d (IHdf lf flag) f t fd td lf fcs1 tcs1 [] [] h3 G2 [])
    as (h4 & G4 & pnew & fcs' & tcs' & Hrun4 & I4 & NL4 & K4 & Fr4 & Hf4 & Ht4 & RF4 & RT4 & V4).
  { rewrite (Permutation_length Pf), (Permutation_length Pt). lia. }
  { exact I3. } { exact Hf2. } { exact Ht2. } { exact Hdis1. }
  { cbn [app]. rewrite (treord_tsize _ _ RF1), (treord_tsize _ _ RT1), !tsize_unfold. lia. }
  { intros c Hc. split; [exact (gdoc_child _ _ _ _ Gf1 Hc)|]. exact (proj1 (gdoc_self _ Gf1) Eof c Hc). }
  { intros c Hc. split; [|split; [exact (gdoc_child _ _ _ _ Gt1 Hc)|split; [exact (proj1 (gdoc_self _ Gt1) Eot c Hc)|]]].
    - pose proof (tsize_child_lt t td tcs1 c Hc) as Hlt. rewrite (treord_tsize _ _ RT1), tsize_unfold in Hlt. lia.
    - pose proof (height_child_lt t td tcs1 c Hc) as Hlt. rewrite (treord_height _ _ RT1) in Hlt. lia. }
  cbn [app length] in Hrun4, I4, NL4, K4, Hf4, Ht4.
  rewrite ?bindM_assoc. rewrite (bindM_Ret _ _ _ _ _ Hrun4).
  pose proof (mi_wf _ _ I4) as W4.
  rewrite (bindM_Ret _ _ _ _ _ (run_child_node h4 _ x d pnew I4 (find_tree_last h4 (G4 ++ X) (T x d pnew) W4))).
  (* what does not depend on whether the patch is empty *)
  assert (Fr : Frame G G4 (ids_t (T f fd fcs) ++ ids_t (T t td tcs))).
  { apply (Frame_trans G G1 G4); [|apply (Frame_trans G1 G2 G4)].
    - apply (Frame_mono _ _ _ _ Fr1). intros z Hz. apply elem_of_list_singleton in Hz as ->. apply elem_of_app. left. rewrite ids_t_unfold. by left.
    - apply (Frame_mono _ _ _ _ Fr2). intros z Hz. apply elem_of_list_singleton in Hz as ->. apply elem_of_app. right. rewrite ids_t_unfold. by left.
    - apply (Frame_mono _ _ _ _ Fr4). intros z Hz.
      pose proof (treord_ids _ _ RF1) as PA. pose proof (treord_ids _ _ RT1) as PB. rewrite !ids_t_unfold in PA, PB.
      apply elem_of_app in Hz as [Hz|Hz]; apply elem_of_app; [left|right]; rewrite ids_t_unfold.
      + rewrite <- PA. by right.
      + rewrite <- PB. by right. }
  assert (Fr12 : Frame G G2 (ids_t (T f fd fcs) ++ ids_t (T t td tcs))).
  { apply (Frame_trans G G1 G2).
    - apply (Frame_mono _ _ _ _ Fr1). intros z Hz. apply elem_of_list_singleton in Hz as ->. apply elem_of_app. left. rewrite ids_t_unfold. by left.
    - apply (Frame_mono _ _ _ _ Fr2). intros z Hz. apply elem_of_list_singleton in Hz as ->. apply elem_of_app. right. rewrite ids_t_unfold. by left. }
  assert (K04 : KeepO h h4 (G ++ X)).
  { intros b Hb. rewrite (K4 b); [by rewrite Es3, Es2, Es1|].
    rewrite owned_app. apply elem_of_app. left. rewrite owned_app in Hb. rewrite owned_app.
    apply elem_of_app in Hb as [Hb|Hb]; apply elem_of_app; [left|by right]. by rewrite (Frame_owned _ _ _ Fr12). }
  assert (RF : treord (T f fd fcs) (T f fd fcs')) by (apply treord_children with (sorted := fcs1); [by symmetry|done]).
  assert (RT : treord (T t td tcs) (T t td tcs')) by (apply treord_children with (sorted := tcs1); [by symmetry|done]).
  assert (Vw : forall fv, (height (T t td tcs) < S fv)%nat ->
             MergeDefs.mp_generate_merge_patch (S fv) flag (reify (h_str h) (T f fd fcs)) (reify (h_str h) (T t td tcs)) =
             Ok (match map (reify (h_str h4)) pnew with
                 | [] => None
                 | _ => Some (MergeDefs.mp_set_children MergeDefs.mp_CreateObject (map (reify (h_str h4)) pnew))
                 end, reify (h_str h) (T f fd fcs'), reify (h_str h) (T t td tcs'))).
  { intros fv Hfv. rewrite mp_generate_merge_patch_S. rewrite Eto, Efrom. cbn [negb orb].
    rewrite !reify_children. cbn [tchildren]. rewrite Vf. cbn [bind]. rewrite Vt. cbn [bind].
    rewrite Es3, Es2, Es1 in V4. rewrite (V4 fv).
    - cbn [bind]. by rewrite !reify_mp_set_children.
    - intros c Hc. pose proof (height_child_lt t td tcs1 c Hc) as Hlt. rewrite (treord_height _ _ RT1) in Hlt. lia. }
  destruct pnew as [|m pnew]; cbn [fmap list_fmap lookup list_lookup is_null].
  - (* no patch generated: cJSON_Delete(patch); return NULL *)
    destruct (step_delete_last h4 (G4 ++ X) (T x d []) I4) as (h5 & Hrun5 & I5 & NL5 & K5 & _). cbn [tid] in Hrun5.
    rewrite (bindM_Ret _ _ _ _ _ Hrun5).
    exists h5, G4, None, (T f fd fcs'), (T t td tcs'). cbn [opt_list fmap option_fmap option_map]. rewrite app_nil_r.
    split; [done|]. split; [exact I5|]. split; [intros NL; by apply NL5, NL4, NL3, NL2, NL1|].
    split.
    { apply (KeepO_step h h4 h5 (G ++ X) (G4 ++ X) K04 K5). intros b Hb. rewrite owned_app in Hb. rewrite owned_app.
      apply elem_of_app in Hb as [Hb|Hb]; apply elem_of_app; [left|by right]. by rewrite (Frame_owned _ _ _ Fr). }
    split; [exact Fr|]. split; [exact Hf4|]. split; [exact Ht4|]. split; [exact RF|]. split; [exact RT|].
    intros [|fv] Hfv; [lia|]. by rewrite (Vw fv Hfv).
  - (* the patch *)
    exists h4, G4, (Some (T x d (m :: pnew))), (T f fd fcs'), (T t td tcs'). cbn [opt_list fmap option_fmap option_map tid].
    split; [done|]. split; [exact I4|]. split; [intros NL; by apply NL4, NL3, NL2, NL1|]. split; [exact K04|].
    split; [exact Fr|]. split; [exact Hf4|]. split; [exact Ht4|]. split; [exact RF|]. split; [exact RT|].
    intros [|fv] Hfv; [lia|]. rewrite (Vw fv Hfv). cbn [map]. reflexivity.
Qed.
