(** CoreRefineRef.v — simulation lemmas (C06/C07/C08) for the REFERENCE functions of CoreDefs.v,
    for an arbitrary allocation oracle: [create_reference], [cJSON_AddItemReferenceToArray],
    [cJSON_AddItemReferenceToObject].

    A reference to node [y] (data [d], children ids [ks]) is a NEW ROOT WITHOUT CHILDREN whose data is
    [rd_reference d ks]: the type word with [cJSON_IsReference] set, the same valuestring / numbers,
    NO key, and the borrowed child pointer [rd_ref = child_of d ks] (Forest.v).  It owns nothing
    but its own node block, so deleting it never touches the referenced tree.

    [cJSON_AddItemReferenceToArray]: one request (the node); refused => [false], clean failure.
    [cJSON_AddItemReferenceToObject]: two requests (the node, the copy of the name); if the second
    is refused the reference node is deleted again => [false], clean failure (this is the path
    on which the pinned tree leaked the node: finding F6). *)
From CJ Require Import Base Dbl Heap Forest ForestLemmas CoreSpec CoreDefs CoreRefineBase CoreRefine
  CoreRefineDelete CoreRefineReplace CoreRefineMore CoreRefineObject CoreRefineAddObject CoreRefineCreate.
From CJ.gen Require Import Constants.
From stdpp Require Import gmap.
Implicit Types (h : heap) (F : forest) (p x y r i b : positive) (d : rdata).

(** * the data of a reference node *)
Definition rd_reference d (ks : list positive) : rdata :=
  mkRD (Z.lor (rd_type d) c_cJSON_IsReference) (rd_vstr d) (rd_vint d) (rd_vdbl d) None (child_of d ks).

Lemma is_ref_reference d ks : is_ref (rd_reference d ks) = true.
Proof.
  unfold is_ref, rd_reference. cbn [rd_type]. rewrite Z.land_lor_distr_l.
  change (Z.land c_cJSON_IsReference c_cJSON_IsReference) with 256%Z.
  destruct (Z.eqb_spec (Z.lor (Z.land (rd_type d) c_cJSON_IsReference) 256) 0) as [E|]; [|done].
  apply Z.lor_eq_0_iff in E as [_ E]. done.
Qed.
Lemma owned_strs_reference d ks : owned_strs (rd_reference d ks) = [].
Proof. unfold owned_strs. rewrite is_ref_reference. cbn. by destruct (is_const _). Qed.

(** * the list model *)
Definition spec_create_reference F (item : ptr) (fresh : ptr) : forest * ptr :=
  match item, fresh with
  | Some y, Some r =>
      match find_tree y F with
      | Some n => (spec_create F r (rd_reference (tdata n) (cids n)), Some r)
      | None => (F, None)
      end
  | _, _ => (F, None)
  end.
Definition spec_add_reference_to_array F (array item fresh : ptr) : forest * bool :=
  match array with
  | None => (F, false)
  | Some _ => let '(F1, r) := spec_create_reference F item fresh in spec_add_to_array F1 array r
  end.

(** * stepping in normal form *)
Lemma run_ld_st_dat_nf h L D i nd (f : ndata -> ndata) : i ∈ h_live h -> D !! i = Some nd ->
  (d <~ ld_dat (Some i) ;; st_dat (Some i) (f d)) (upd_maps h L D) = Ret (tt, upd_maps h L (<[i := f nd]> D)).
Proof. intros H1 H2. rewrite (bindM_Ret _ _ _ _ _ (run_ld_dat _ _ _ _ _ H1 H2)). by rewrite run_st_dat by eauto. Qed.

Lemma WF_lnk_is_Some h F y : WF h F -> y ∈ ids F -> is_Some (h_lnk h !! y).
Proof.
  intros W Hy. rewrite (wf_lnk _ _ W). apply elem_of_dom. rewrite dom_heap_lnk_of. by apply elem_of_list_to_set.
Qed.

(** ownership is invariant under moving a root below a container (as in CoreRefineHistory.v) *)
Lemma owned_move_root' F x tx p d cs cs' :
  NoDup (ids F) -> find_root x F = Some tx -> find_tree p (remove_root x F) = Some (T p d cs) ->
  cs' ≡ₚ tx :: cs -> owned (set_children p cs' (remove_root x F)) ≡ₚ owned F.
Proof.
  intros ND Hx Hp Hcs'. destruct (focus_root_container _ _ _ _ _ _ ND Hx Hp) as (FL0 & Htx & ND0 & HFp & E1 & E2).
  unfold owned. rewrite E2, E1. rewrite !owned_fl_cons, !owned_fl_app.
  change (owned_fn (p, d, tid <$> cs')) with (owned_fn (p, d, tid <$> cs)).
  apply Permutation_app_head.
  assert (H : owned_fl (flat cs') ≡ₚ owned_fl (flat_t tx) ++ owned_fl (flat cs)).
  { rewrite <- owned_fl_app, <- flat_cons. by apply owned_fl_proper, flat_proper. }
  rewrite H. rewrite <- !app_assoc. rewrite (Permutation_app_swap_app (owned_fl (flat_t tx))). done.
Qed.

Lemma cJSON_Delete_null h : cJSON_Delete None h = Ret (tt, h).
Proof.
  unfold cJSON_Delete, heap_fuel, bindM. destruct (Pos.to_nat (h_next h)) eqn:E; [|done].
  pose proof (Pos2Nat.is_pos (h_next h)). lia.
Qed.

Lemma find_root_snoc' F t : tid t ∉ roots F -> find_root (tid t) (F ++ [t]) = Some t.
Proof. intros H. rewrite find_root_app_r by done. unfold find_root. cbn. by rewrite bool_decide_eq_true_2. Qed.

Section Reference.
  Variable oracle : nat -> bool.

  (** * create_reference *)
  Lemma create_reference_null h : create_reference oracle None h = Ret (None, h).
  Proof. reflexivity. Qed.

  Lemma create_reference_sim h F y d (ks : list positive) :
    WF h F -> live_below h -> (y, d, ks) ∈ flat F ->
    ctor1_post oracle (create_reference oracle (Some y)) h F (rd_reference d ks).
  Proof.
    intros W LB Hy. apply ctor1_intro; try done.
    { apply owned_strs_reference. }
    { intros _. apply is_ref_reference. }
    2:{ intros Ho. unfold create_reference, cJSON_New_Item. cbn [is_null].
        by rewrite (bindM_Ret _ _ _ _ _ (run_alloc_node_fail _ _ Ho)). }
    intros Ho. unfold create_reference, cJSON_New_Item. cbn [is_null].
    rewrite (bindM_Ret _ _ _ _ _ (run_alloc_node_ok _ _ Ho)). cbn [is_null].
    set (r := h_next h). set (H0 := new_node h rd0).
    assert (Hyi : y ∈ ids F) by (rewrite ids_flat; apply elem_of_list_fmap; by exists (y, d, ks)).
    assert (Hyr : y <> r) by (pose proof (WF_ids_fresh _ _ _ W Hyi); unfold r; lia).
    destruct (WF_lnk_is_Some _ _ _ W Hyi) as [l Hl].
    pose proof (WF_lookup_dat _ _ _ _ _ W Hy) as Hd.
    set (L0 := <[r := (None, None)]> (h_lnk h)). set (D0 := <[r := nd0]> (h_dat h)).
    change H0 with (upd_maps H0 L0 D0).
    assert (Hlr : r ∈ h_live H0) by (cbn; set_solver).
    assert (Hly : y ∈ h_live H0) by (cbn; apply elem_of_union; right; by apply (WF_ids_live _ _ _ W)).
    assert (HL0y : L0 !! y = Some l) by (unfold L0; by rewrite lookup_insert_ne).
    assert (HD0y : D0 !! y = Some (mk_dat d ks)) by (unfold D0; by rewrite lookup_insert_ne).
    rewrite (bindM_Ret _ _ _ _ _ (run_ld_lnk _ _ _ _ _ Hly HL0y)).
    rewrite (bindM_Ret _ _ _ _ _ (run_ld_dat _ _ _ _ _ Hly HD0y)).
    rewrite (bindM_Ret _ _ _ _ _ (run_st_lnk H0 L0 D0 r l Hlr ltac:(unfold L0; rewrite lookup_insert; eauto))).
    rewrite (bindM_Ret _ _ _ _ _ (run_st_dat H0 _ D0 r (mk_dat d ks) Hlr ltac:(unfold D0; rewrite lookup_insert; eauto))).
    unfold set_key at 1.
    rewrite (bindM_Ret _ _ _ _ _ (run_ld_st_dat_nf H0 _ _ r _ _ Hlr (lookup_insert _ _ _))).
    rewrite (bindM_Ret _ _ _ _ _ (run_get_type H0 _ _ r _ Hlr (lookup_insert _ _ _))).
    unfold set_type at 1.
    rewrite (bindM_Ret _ _ _ _ _ (run_ld_st_dat_nf H0 _ _ r _ _ Hlr (lookup_insert _ _ _))).
    rewrite (bindM_Ret _ _ _ _ _ (run_set_prev H0 _ _ r None Hlr ltac:(rewrite lookup_insert; eauto))).
    rewrite (bindM_Ret _ _ _ _ _ (run_set_next H0 _ _ r None Hlr ltac:(rewrite is_Some_upd_prev, lookup_insert; eauto))).
    unfold ret. do 2 f_equal. unfold upd_maps, new_node, H0. cbn. f_equal.
    - rewrite (upd_prev_insert _ _ _ l) by (by rewrite lookup_insert).
      rewrite (upd_next_insert _ _ _ (l.1, None)) by (by rewrite lookup_insert).
      unfold L0. by rewrite !insert_insert.
    - unfold D0. by rewrite !insert_insert.
  Qed.

  (** deleting a reference leaves everything else as it was (C07_reference_release, one step) *)
  Lemma delete_reference h F y d (ks : list positive) :
    WF h F -> live_below h -> (y, d, ks) ∈ flat F ->
    let h1 := new_node h (rd_reference d ks) in
    cJSON_Delete (Some (h_next h)) h1 = Ret (tt, free1 (h_next h) h1) /\ clean_failure h (free1 (h_next h) h1).
  Proof.
    intros W LB Hy h1.
    apply (cJSON_Delete_new_node h F (rd_reference d ks) h1 W LB (owned_strs_reference d ks)); [|by left].
    intros _. apply is_ref_reference.
  Qed.

  (** * cJSON_AddItemReferenceToArray *)
  Lemma cJSON_AddItemReferenceToArray_null_array h F item fresh :
    spec_add_reference_to_array F None item fresh = (F, false) /\
    cJSON_AddItemReferenceToArray oracle None item h = Ret (false, h).
  Proof. done. Qed.
  Lemma cJSON_AddItemReferenceToArray_null_item h F array fresh :
    spec_add_reference_to_array F array None fresh = (F, false) /\
    cJSON_AddItemReferenceToArray oracle array None h = Ret (false, h).
  Proof. destruct array; [|done]. split; [done|]. reflexivity. Qed.

  Lemma cJSON_AddItemReferenceToArray_sim h F p dp cs y d csy :
    WF h F -> live_below h ->
    find_tree p F = Some (T p dp cs) -> is_ref dp = false ->
    find_tree y F = Some (T y d csy) ->
    (let r := h_next h in
     let tr := T r (rd_reference d (tid <$> csy)) [] in
     let F' := set_children p (cs ++ [tr]) F in
     let h1 := new_node h (rd_reference d (tid <$> csy)) in
     let h' := upd_maps h1 (heap_lnk_of F') (heap_dat_of F') in
     oracle (h_req h) = false /\
     spec_add_reference_to_array F (Some p) (Some y) (Some r) = (F', true) /\
     cJSON_AddItemReferenceToArray oracle (Some p) (Some y) h = Ret (true, h') /\
     WF h' F' /\ live_below h' /\ (NoLeak h F -> NoLeak h' F'))
    \/ (spec_add_reference_to_array F (Some p) (Some y) None = (F, false) /\
        cJSON_AddItemReferenceToArray oracle (Some p) (Some y) h = Ret (false, bump h) /\
        clean_failure h (bump h) /\ refused oracle h (bump h)).
  Proof.
    intros W LB Hp Href Hy. pose proof (find_tree_flat _ _ _ _ Hy) as Hyf.
    unfold cJSON_AddItemReferenceToArray. cbn [is_null].
    destruct (create_reference_sim h F y d (tid <$> csy) W LB Hyf) as [(Ho & Hrun & W1 & LB1 & NL1)|(Ho & Hrun & Hcf & Hrf)].
    2:{ right. rewrite (bindM_Ret _ _ _ _ _ Hrun). split; [reflexivity|done]. }
    left. cbn zeta. set (r := h_next h) in *. set (dr := rd_reference d (tid <$> csy)) in *.
    set (h1 := new_node h dr) in *. set (F1 := spec_create F r dr) in *.
    rewrite (bindM_Ret _ _ _ _ _ Hrun).
    assert (Hrnot : r ∉ ids F) by (intros Hin; pose proof (WF_ids_fresh _ _ _ W Hin); unfold r in *; lia).
    assert (Hrroots : r ∉ roots F) by (intros Hin; by apply Hrnot, roots_subseteq_ids).
    assert (Hpr : p <> r).
    { intros ->. apply Hrnot. apply find_tree_Some in Hp as [Hp _]. apply elem_of_list_fmap. by exists (T r dp cs). }
    assert (Hroot : find_root r F1 = Some (T r dr [])).
    { unfold F1, spec_create. rewrite find_root_app_r by done. unfold find_root. cbn. by rewrite bool_decide_eq_true_2. }
    assert (Hrem : remove_root r F1 = F) by (apply (remove_root_snoc F (T r dr [])); done).
    assert (Hp1 : find_tree p (remove_root r F1) = Some (T p dp cs)) by (by rewrite Hrem).
    destruct (add_item_to_array_sim h1 F1 p r (T r dr []) dp cs W1 Hpr Hroot Hp1 Href) as (S1 & S2 & S3).
    rewrite Hrem in S1, S2, S3.
    split; [done|]. split; [|split; [exact S2|split; [exact S3|split]]].
    - unfold spec_add_reference_to_array, spec_create_reference. rewrite Hy. change (cids (T y d csy)) with (tid <$> csy). cbn [tdata]. exact S1.
    - by apply live_below_upd_maps.
    - intros NL b Hb.
      assert (Ho' : owned (set_children p (cs ++ [T r dr []]) (remove_root r F1)) ≡ₚ owned F1).
      { apply (owned_move_root' F1 r (T r dr []) p dp cs _ (wf_nodup _ _ W1) Hroot Hp1). by rewrite <- Permutation_cons_append. }
      rewrite Hrem in Ho'. rewrite Ho'. by apply (NL1 NL).
  Qed.

  (** * cJSON_AddItemReferenceToObject *)
  Definition spec_add_reference_to_object F (object string item fresh copy : ptr) : forest * bool :=
    match object, string with
    | Some _, Some _ =>
        let '(F1, r) := spec_create_reference F item fresh in
        let '(F2, ok) := spec_add_to_object F1 object string r false copy in
        if ok then (F2, true) else (spec_delete F2 r, false)     (* the reference is deleted again *)
    | _, _ => (F, false)
    end.

  Lemma cJSON_AddItemReferenceToObject_null h F object string item fresh copy :
    object = None \/ string = None ->
    spec_add_reference_to_object F object string item fresh copy = (F, false) /\
    cJSON_AddItemReferenceToObject oracle object string item h = Ret (false, h).
  Proof.
    intros H. unfold spec_add_reference_to_object, cJSON_AddItemReferenceToObject.
    destruct object, string; try done. by destruct H.
  Qed.
  Lemma cJSON_AddItemReferenceToObject_null_item h F p sb fresh copy :
    spec_add_reference_to_object F (Some p) (Some sb) None fresh copy = (F, false) /\
    cJSON_AddItemReferenceToObject oracle (Some p) (Some sb) None h = Ret (false, h).
  Proof.
    split; [reflexivity|]. unfold cJSON_AddItemReferenceToObject. cbn [is_null orb].
    rewrite (bindM_Ret _ _ _ _ _ (create_reference_null h)). cbn [add_item_to_object is_null orb].
    rewrite bindM_ret. by rewrite (bindM_Ret _ _ _ _ _ (cJSON_Delete_null h)).
  Qed.

  Lemma old_key_reference d ks : old_key (rd_reference d ks) = [].
  Proof. unfold old_key. cbn. by destruct (is_const _). Qed.

  Lemma cJSON_AddItemReferenceToObject_sim h F p dp csp y d csy sb (s : bytes) :
    WF h F -> live_below h ->
    find_tree p F = Some (T p dp csp) -> is_ref dp = false ->
    find_tree y F = Some (T y d csy) ->
    Readable h sb -> h_str h !! sb = Some s ->
    (let r := h_next h in let nk := Pos.succ r in
     let dr := rd_owned_key (rd_reference d (tid <$> csy)) nk in
     let F' := set_children p (csp ++ [T r dr []]) F in
     let h2 := alloc_str (new_node h (rd_reference d (tid <$> csy))) (cstr s ++ [0%Z]) in
     let h' := upd_maps h2 (heap_lnk_of F') (heap_dat_of F') in
     oracle (h_req h) = false /\ oracle (S (h_req h)) = false /\
     spec_add_reference_to_object F (Some p) (Some sb) (Some y) (Some r) (Some nk) = (F', true) /\
     cJSON_AddItemReferenceToObject oracle (Some p) (Some sb) (Some y) h = Ret (true, h') /\
     WF h' F' /\ live_below h' /\ (NoLeak h F -> NoLeak h' F'))
    \/ (exists h' fresh,
        spec_add_reference_to_object F (Some p) (Some sb) (Some y) fresh None = (F, false) /\
        cJSON_AddItemReferenceToObject oracle (Some p) (Some sb) (Some y) h = Ret (false, h') /\
        clean_failure h h' /\ refused oracle h h').
  Proof.
    intros W LB Hp Href Hy HR Hs. pose proof (find_tree_flat _ _ _ _ Hy) as Hyf.
    unfold cJSON_AddItemReferenceToObject. cbn [is_null orb].
    destruct (create_reference_sim h F y d (tid <$> csy) W LB Hyf) as [(Ho & Hrun & W1 & LB1 & NL1)|(Ho & Hrun & Hcf & Hrf)].
    2:{ right. exists (bump h), None. rewrite (bindM_Ret _ _ _ _ _ Hrun).
        split; [reflexivity|]. split; [|done]. cbn [add_item_to_object is_null orb].
        rewrite bindM_ret. by rewrite (bindM_Ret _ _ _ _ _ (cJSON_Delete_null (bump h))). }
    set (r := h_next h) in *. set (dr0 := rd_reference d (tid <$> csy)) in *.
    set (h1 := new_node h dr0) in *. set (F1 := spec_create F r dr0) in *.
    rewrite (bindM_Ret _ _ _ _ _ Hrun).
    assert (Hrnot : r ∉ ids F) by (intros Hin; pose proof (WF_ids_fresh _ _ _ W Hin); unfold r in *; lia).
    assert (Hrroots : r ∉ roots F) by (intros Hin; by apply Hrnot, roots_subseteq_ids).
    assert (Hpr : p <> r).
    { intros ->. apply Hrnot. apply find_tree_Some in Hp as [Hp _]. apply elem_of_list_fmap. by exists (T r dp csp). }
    assert (Hroot : find_root r F1 = Some (T r dr0 [])).
    { unfold F1, spec_create. rewrite find_root_app_r by done. unfold find_root. cbn. by rewrite bool_decide_eq_true_2. }
    assert (Hrem : remove_root r F1 = F) by (apply (remove_root_snoc F (T r dr0 [])); done).
    assert (Hp1 : find_tree p (remove_root r F1) = Some (T p dp csp)) by (by rewrite Hrem).
    assert (HR1 : Readable h1 sb) by (by apply Readable_new_node).
    assert (Hs1 : h_str h1 !! sb = Some s) by exact Hs.
    destruct (oracle (S (h_req h))) eqn:Ho2.
    - (* the copy of the name is refused: the reference is deleted again *)
      right. assert (Ho2' : oracle (h_req h1) = true) by exact Ho2.
      destruct (add_item_to_object_sim_nomem oracle h1 F1 p r sb dr0 [] W1 Hpr Hroot s HR1 Hs1 Ho2') as (S1 & S2 & _).
      rewrite (bindM_Ret _ _ _ _ _ S2).
      destruct (cJSON_Delete_new_node h F dr0 (bump h1) W LB (owned_strs_reference _ _) ltac:(intros _; apply is_ref_reference)
                  (or_intror eq_refl)) as [Hdel Hcf].
      fold r in Hdel, Hcf. rewrite (bindM_Ret _ _ _ _ _ Hdel).
      exists (free1 r (bump h1)), (Some r). split; [|split; [reflexivity|split; [exact Hcf|]]].
      + unfold spec_add_reference_to_object, spec_create_reference. rewrite Hy. change (cids (T y d csy)) with (tid <$> csy). cbn [tdata].
        fold dr0 F1. rewrite S1. cbn [spec_delete]. by rewrite Hrem.
      + exists (S (h_req h)). cbn. split; [lia|done].
    - left. assert (Ho2' : oracle (h_req h1) = false) by exact Ho2.
      destruct (add_item_to_object_sim_owned oracle h1 F1 p r sb dr0 dp [] csp W1 Hpr Hroot Hp1 Href s HR1 Hs1 Ho2')
        as (S1 & S2 & S3).
      rewrite Hrem in S1, S2, S3. assert (Hok : old_key dr0 = []) by apply old_key_reference. rewrite Hok in S2, S3. cbn [free_all fold_left] in S2, S3.
      cbn zeta. split; [done|]. split; [done|]. split; [|split; [|split; [exact S3|]]].
      + unfold spec_add_reference_to_object, spec_create_reference. rewrite Hy. change (cids (T y d csy)) with (tid <$> csy). cbn [tdata].
        fold dr0 F1. change (h_next h1) with (Pos.succ r) in S1. by rewrite S1.
      + by rewrite (bindM_Ret _ _ _ _ _ S2).
      + split.
        { apply live_below_upd_maps. intros b Hb. cbn in Hb. cbn.
          apply elem_of_union in Hb as [Hb|Hb]; [apply elem_of_singleton in Hb as ->; lia|].
          apply elem_of_union in Hb as [Hb|Hb]; [apply elem_of_singleton in Hb as ->; lia|].
          pose proof (LB b Hb). lia. }
        intros NL b Hb. set (nk := Pos.succ r). set (dr := rd_owned_key dr0 nk).
        (* ownership of the result forest: the old blocks, the reference node, the key copy *)
        assert (Hroot' : find_root r (F ++ [T r dr []]) = Some (T r dr [])) by (apply (find_root_snoc' F (T r dr [])); done).
        assert (Hrem' : remove_root r (F ++ [T r dr []]) = F) by (apply (remove_root_snoc F (T r dr [])); done).
        assert (ND' : NoDup (ids (F ++ [T r dr []]))).
        { rewrite ids_app. cbn. apply NoDup_app. split; [apply W|]. split; [|apply NoDup_singleton].
          intros z Hz Hz'. apply elem_of_list_singleton in Hz' as ->. done. }
        assert (Ho' : owned (set_children p (csp ++ [T r dr []]) (remove_root r (F ++ [T r dr []]))) ≡ₚ owned (F ++ [T r dr []])).
        { apply (owned_move_root' _ r (T r dr []) p dp csp _ ND' Hroot'); [by rewrite Hrem'|by rewrite <- Permutation_cons_append]. }
        rewrite Hrem' in Ho'. rewrite Ho', owned_snoc_root.
        assert (Hos : owned_strs dr = [nk]).
        { unfold owned_strs, dr. rewrite is_ref_set_key_clear, is_const_set_key_clear. unfold dr0. by rewrite is_ref_reference. }
        rewrite Hos. unfold lib_live in Hb. apply elem_of_filter in Hb as [Hb1 Hb2]. cbn in Hb1, Hb2.
        apply elem_of_app. destruct (decide (b = nk)) as [->|Hn1]; [left; right; by left|].
        destruct (decide (b = r)) as [->|Hn2]; [left; by left|right].
        apply NL. apply elem_of_filter. rewrite !lookup_insert_ne in Hb1 by done. split; [done|]. set_solver.
  Qed.
End Reference.

(** * with an allocator that never refuses *)
Lemma create_reference_total h F y d (ks : list positive) :
  WF h F -> live_below h -> (y, d, ks) ∈ flat F ->
  create_reference never (Some y) h = Ret (Some (h_next h), new_node h (rd_reference d ks)) /\
  WF (new_node h (rd_reference d ks)) (spec_create F (h_next h) (rd_reference d ks)).
Proof.
  intros W LB Hy. destruct (ctor1_total _ _ _ _ (create_reference_sim never h F y d ks W LB Hy)) as (H1 & H2 & _). done.
Qed.
Lemma cJSON_AddItemReferenceToArray_total h F p dp cs y d csy :
  WF h F -> live_below h -> find_tree p F = Some (T p dp cs) -> is_ref dp = false ->
  find_tree y F = Some (T y d csy) ->
  let F' := set_children p (cs ++ [T (h_next h) (rd_reference d (tid <$> csy)) []]) F in
  let h' := upd_maps (new_node h (rd_reference d (tid <$> csy))) (heap_lnk_of F') (heap_dat_of F') in
  cJSON_AddItemReferenceToArray never (Some p) (Some y) h = Ret (true, h') /\ WF h' F'.
Proof.
  intros W LB Hp Href Hy.
  destruct (cJSON_AddItemReferenceToArray_sim never h F p dp cs y d csy W LB Hp Href Hy)
    as [(_ & _ & H1 & H2 & _)|(_ & _ & _ & H)]; [done|]. by apply refused_false in H.
Qed.
Lemma cJSON_AddItemReferenceToObject_total h F p dp csp y d csy sb (s : bytes) :
  WF h F -> live_below h -> find_tree p F = Some (T p dp csp) -> is_ref dp = false ->
  find_tree y F = Some (T y d csy) -> Readable h sb -> h_str h !! sb = Some s ->
  let r := h_next h in
  let F' := set_children p (csp ++ [T r (rd_owned_key (rd_reference d (tid <$> csy)) (Pos.succ r)) []]) F in
  let h' := upd_maps (alloc_str (new_node h (rd_reference d (tid <$> csy))) (cstr s ++ [0%Z])) (heap_lnk_of F') (heap_dat_of F') in
  cJSON_AddItemReferenceToObject never (Some p) (Some sb) (Some y) h = Ret (true, h') /\ WF h' F'.
Proof.
  intros W LB Hp Href Hy HR Hs.
  destruct (cJSON_AddItemReferenceToObject_sim never h F p dp csp y d csy sb s W LB Hp Href Hy HR Hs)
    as [(_ & _ & _ & H1 & H2 & _)|(h' & fr & _ & _ & _ & H)]; [done|]. by apply refused_false in H.
Qed.
