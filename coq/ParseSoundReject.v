(** ParseSoundReject.v — C03: one general rejection lemma per class of malformed text named in
    the property, each quantified over all fuel, depth and surrounding bytes it can be stated
    for at list level, proved directly from the list-level specification (ParseSpec.v).
    The statement for arbitrary contexts is [reject_outside_dialect] (ParseSound.v). *)
From CJ Require Import Base Dbl Tree LibcNum ParseDefs ParseSpec Grammar ParseSoundUtf8 ParseSoundGrammar ParseSound.
Local Open Scope Z_scope.

(** * where a value is expected *)

Definition value_start_byte (c : Z) : bool :=
  (c =? 110) || (c =? 102) || (c =? 116) || (c =? 34) || (c =? 45) || ((48 <=? c) && (c <=? 57)) ||
  (c =? 91) || (c =? 123).

Section Reject.
  Variable strtod : bytes -> option (dbl * nat).

  (** truncated input: nothing where a value is expected *)
  Lemma reject_empty f d : value_l strtod f d [] = None.
  Proof. destruct f; reflexivity. Qed.

  (** a byte that starts no value: ] } , : ' letters other than n f t, upper-case N F T, + . etc. *)
  Lemma reject_bad_first_byte f d c r : value_start_byte c = false -> value_l strtod f d (c :: r) = None.
  Proof.
    unfold value_start_byte. intro H.
    repeat (apply orb_false_iff in H; destruct H as [H ?]).
    destruct f as [|f]; [reflexivity|]. cbn [value_l starts].
    rewrite H, H0, H1, H2, H3, H4, H5, H6. reflexivity.
  Qed.

  (** misspelt or wrongly cased literals: n not followed by ull, f not by alse, t not by rue
      (includes truncation inside the literal) *)
  Lemma reject_misspelt_null f d r : starts [117; 108; 108] r = None -> value_l strtod f d (110 :: r) = None.
  Proof.
    intro H. destruct f as [|f]; [reflexivity|]. cbn [value_l].
    replace (starts [110; 117; 108; 108] (110 :: r)) with (@None bytes) by (symmetry; exact H).
    reflexivity.
  Qed.
  Lemma reject_misspelt_false f d r : starts [97; 108; 115; 101] r = None -> value_l strtod f d (102 :: r) = None.
  Proof.
    intro H. destruct f as [|f]; [reflexivity|]. cbn [value_l].
    replace (starts [102; 97; 108; 115; 101] (102 :: r)) with (@None bytes) by (symmetry; exact H).
    reflexivity.
  Qed.
  Lemma reject_misspelt_true f d r : starts [114; 117; 101] r = None -> value_l strtod f d (116 :: r) = None.
  Proof.
    intro H. destruct f as [|f]; [reflexivity|]. cbn [value_l].
    replace (starts [116; 114; 117; 101] (116 :: r)) with (@None bytes) by (symmetry; exact H).
    reflexivity.
  Qed.

End Reject.

(** * strings (no reference to strtod) *)
Section Strings.

  (** [l], read as the continuation of a string body, is refused whatever the fuel *)
  Definition string_dead (l : bytes) : Prop := forall f, str_l f l = None.

  Lemma hex4_l_of_hex4v h1 h2 h3 h4 u r : hex4v h1 h2 h3 h4 = Some u -> hex4_l (h1 :: h2 :: h3 :: h4 :: r) = Some (u, r).
  Proof.
    unfold hex4v, hex4_l. rewrite !hex_val_hexv.
    destruct (hexv h1) as [x|]; [|discriminate]. destruct (hexv h2) as [y|]; [|discriminate].
    destruct (hexv h3) as [z|]; [|discriminate]. destruct (hexv h4) as [w|]; [|discriminate].
    intro H. inversion H. f_equal. f_equal. lia.
  Qed.

  Lemma simple_escape_cases e v : simple_escape e = Some v ->
    e = 34 \/ e = 92 \/ e = 47 \/ e = 98 \/ e = 102 \/ e = 110 \/ e = 114 \/ e = 116.
  Proof.
    unfold simple_escape.
    destruct (Z.eqb_spec e 34); [tauto|]. destruct (Z.eqb_spec e 92); [tauto|]. destruct (Z.eqb_spec e 47); [tauto|].
    destruct (Z.eqb_spec e 98); [tauto|]. destruct (Z.eqb_spec e 102); [tauto|]. destruct (Z.eqb_spec e 110); [tauto|].
    destruct (Z.eqb_spec e 114); [tauto|]. destruct (Z.eqb_spec e 116); [tauto|]. discriminate.
  Qed.

  (** a defect in a string body is reached through any well-formed beginning of the body *)
  Lemma string_dead_prefix body s : chars len_raw body s -> forall l, string_dead l -> string_dead (body ++ l).
  Proof.
    intro Hc.
    induction Hc as [|c b s Hq Hb Hr Hc IH|e v b s He Hc IH|h1 h2 h3 h4 u b s Hu Hh Hl Hc IH
                     |h1 h2 h3 h4 l1 l2 l3 l4 hi lo b s Hhi Hh Hlo Hl Hc IH]; intros l Hd f.
    - apply Hd.
    - destruct f as [|f]; [reflexivity|]. cbn [app str_l].
      apply Z.eqb_neq in Hq, Hb. rewrite Hq, Hb. rewrite (IH l Hd f). reflexivity.
    - destruct f as [|f]; [reflexivity|].
      apply simple_escape_cases in He.
      destruct He as [->|[->|[->|[->|[->|[->|[->| ->]]]]]]]; cbn [app str_l Z.eqb Pos.eqb orb];
        rewrite (IH l Hd f); reflexivity.
    - destruct f as [|f]; [reflexivity|]. cbn [app str_l Z.eqb Pos.eqb orb].
      rewrite (hex4_l_of_hex4v _ _ _ _ _ _ Hu).
      unfold is_low_surrogate in Hl. unfold is_high_surrogate in Hh. rewrite Hl, Hh.
      rewrite (IH l Hd f). destruct (utf8_encode_c u); reflexivity.
    - destruct f as [|f]; [reflexivity|]. cbn [app str_l Z.eqb Pos.eqb orb].
      rewrite (hex4_l_of_hex4v _ _ _ _ _ _ Hhi).
      unfold is_high_surrogate in Hh. rewrite Hh.
      assert (Hnl : (56320 <=? hi) && (hi <=? 57343) = false).
      { apply andb_true_iff in Hh as [A B]. apply Z.leb_le in B. apply andb_false_iff. left. apply Z.leb_gt. lia. }
      rewrite Hnl. cbn [Z.eqb Pos.eqb andb negb].
      rewrite (hex4_l_of_hex4v _ _ _ _ _ _ Hlo).
      assert (Hl2 : (lo <? 56320) || (lo >? 57343) = false).
      { unfold is_low_surrogate in Hl. apply andb_true_iff in Hl as [A B]. apply Z.leb_le in A, B.
        apply orb_false_iff. split; [apply Z.ltb_ge; lia|]. rewrite Z.gtb_ltb. apply Z.ltb_ge. lia. }
      rewrite Hl2. rewrite (IH l Hd f).
      destruct (utf8_encode_c _); reflexivity.
  Qed.

  (** unterminated string: the input ends inside the body, or contains no quote at all *)
  Lemma dead_end_of_input : string_dead [].
  Proof. intros [|f]; reflexivity. Qed.

  Lemma dead_no_quote l : ~ In 34 l -> string_dead l.
  Proof.
    intros Hn f. destruct (str_l f l) as [[o rest]|] eqn:E; [|reflexivity].
    apply str_l_sound in E as (body & -> & _). exfalso. apply Hn. apply in_or_app. right. left. reflexivity.
  Qed.

  Lemma dead_backslash_at_end : string_dead [92].
  Proof. intros [|f]; reflexivity. Qed.

  (** unknown escape: a backslash followed by a byte other than quote, backslash, slash, b f n r t u *)
  Lemma dead_unknown_escape e r : simple_escape e = None -> e <> 117 -> string_dead (92 :: e :: r).
  Proof.
    intros He Hu [|f]; [reflexivity|]. cbn [str_l Z.eqb Pos.eqb]. revert He. unfold simple_escape.
    destruct (e =? 34); [discriminate|]. destruct (e =? 92); [discriminate|]. destruct (e =? 47); [discriminate|].
    destruct (e =? 98); [discriminate|]. destruct (e =? 102); [discriminate|]. destruct (e =? 110); [discriminate|].
    destruct (e =? 114); [discriminate|]. destruct (e =? 116); [discriminate|]. intros _.
    apply Z.eqb_neq in Hu. rewrite Hu. reflexivity.
  Qed.

  (** \u not followed by four hex digits *)
  Lemma dead_bad_hex r : hex4_l r = None -> string_dead (92 :: 117 :: r).
  Proof. intros H [|f]; [reflexivity|]. cbn [str_l Z.eqb Pos.eqb orb]. rewrite H. reflexivity. Qed.

  Lemma hex4_l_short r : (length r < 4)%nat -> hex4_l r = None.
  Proof. destruct r as [|a [|b [|c [|d r]]]]; cbn [length]; intros; try reflexivity. lia. Qed.

  Lemma hex4_l_nonhex a b c d r :
    hexv a = None \/ hexv b = None \/ hexv c = None \/ hexv d = None -> hex4_l (a :: b :: c :: d :: r) = None.
  Proof.
    unfold hex4_l. rewrite !hex_val_hexv. intros [H|[H|[H|H]]]; rewrite H.
    - reflexivity.
    - destruct (hexv a); reflexivity.
    - destruct (hexv a); [destruct (hexv b)|]; reflexivity.
    - destruct (hexv a); [destruct (hexv b); [destruct (hexv c)|]|]; reflexivity.
  Qed.

  (** a lone low surrogate *)
  Lemma dead_lone_low_surrogate r u r2 :
    hex4_l r = Some (u, r2) -> is_low_surrogate u = true -> string_dead (92 :: 117 :: r).
  Proof.
    intros H Hl [|f]; [reflexivity|]. cbn [str_l Z.eqb Pos.eqb orb]. rewrite H.
    unfold is_low_surrogate in Hl. rewrite Hl. reflexivity.
  Qed.

  (** a high surrogate that is not followed by \u + a low surrogate (nothing, other bytes, \u with
      bad hex digits, \u with a code unit outside DC00..DFFF such as a second high surrogate) *)
  Lemma dead_unpaired_high_surrogate r u r2 :
    hex4_l r = Some (u, r2) -> is_high_surrogate u = true ->
    (forall r3 u2 r4, r2 = 92 :: 117 :: r3 -> hex4_l r3 = Some (u2, r4) -> is_low_surrogate u2 = false) ->
    string_dead (92 :: 117 :: r).
  Proof.
    intros H Hh Hno [|f]; [reflexivity|]. cbn [str_l Z.eqb Pos.eqb orb]. rewrite H.
    destruct ((56320 <=? u) && (u <=? 57343)); [reflexivity|].
    unfold is_high_surrogate in Hh. rewrite Hh.
    destruct r2 as [|c0 [|c1 r3]]; try reflexivity.
    destruct (Z.eqb_spec c0 92) as [->|N0]; [|reflexivity].
    destruct (Z.eqb_spec c1 117) as [->|N1]; [|reflexivity].
    cbn [andb negb].
    destruct (hex4_l r3) as [[u2 r4]|] eqn:E2; [|reflexivity].
    specialize (Hno r3 u2 r4 eq_refl E2). unfold is_low_surrogate in Hno.
    replace ((u2 <? 56320) || (u2 >? 57343)) with true; [reflexivity|].
    symmetry. apply andb_false_iff in Hno as [A|A].
    - apply Z.leb_gt in A. apply orb_true_iff. left. apply Z.ltb_lt. lia.
    - apply Z.leb_gt in A. apply orb_true_iff. right. rewrite Z.gtb_ltb. apply Z.ltb_lt. lia.
  Qed.

  (** from the string body to the value: any of the above after the opening quote and a
      well-formed beginning of the body *)
  Lemma string_l_dead l : string_dead l -> string_l l = None.
  Proof. intro H. unfold string_l. rewrite H. reflexivity. Qed.

End Strings.

Section Reject2.
  Variable strtod : bytes -> option (dbl * nat).

  Lemma reject_dead_string f d l : string_dead l -> value_l strtod f d (34 :: l) = None.
  Proof.
    intro H. destruct f as [|f]; [reflexivity|]. cbn [value_l starts Z.eqb Pos.eqb].
    rewrite (string_l_dead l H). reflexivity.
  Qed.

  Theorem reject_string_defect f d body s l :
    chars len_raw body s -> string_dead l -> value_l strtod f d (34 :: body ++ l) = None.
  Proof. intros Hc Hd. apply reject_dead_string. eapply string_dead_prefix; eassumption. Qed.

  (** * numbers: a token that starts like a number but that strtod does not convert (no digits) *)
  Lemma reject_unconverted_number f d c r :
    ((c =? 45) || ((48 <=? c) && (c <=? 57))) = true ->
    strtod (number_run (Z.to_nat (c_NUMBER_C_STRING_SIZE - 1)) (c :: r)) = None ->
    value_l strtod f d (c :: r) = None.
  Proof.
    intros Hc Hs. destruct f as [|f]; [reflexivity|]. cbn [value_l starts].
    assert (Hr : 45 <= c <= 57).
    { apply orb_true_iff in Hc as [Hc|Hc]; [apply Z.eqb_eq in Hc; lia|].
      apply andb_true_iff in Hc as [A B]. apply Z.leb_le in A, B. lia. }
    destruct (Z.eqb_spec c 110); [lia|]. destruct (Z.eqb_spec c 102); [lia|]. destruct (Z.eqb_spec c 116); [lia|].
    destruct (Z.eqb_spec c 34); [lia|]. rewrite Hc. unfold number_l. rewrite Hs. reflexivity.
  Qed.

  (** * arrays (for any parser [vl] of the element values; in [value_l] it is [value_l f (depth+1)]) *)
  Section Containers.
    Variable vl : bytes -> option (node * bytes).

    (* truncated right after the bracket / brace *)
    Lemma array_truncated r : drop_ws r = [] -> array_l vl r = None.
    Proof. intro H. unfold array_l. rewrite H. reflexivity. Qed.
    Lemma object_truncated r : drop_ws r = [] -> object_l vl r = None.
    Proof. intro H. unfold object_l. rewrite H. reflexivity. Qed.

    (* at any element position (any round k, any elements acc already read): *)
    (* no value where an element is expected: "[,"  "[1,]"  "[1,,2]"  "[1," end of input *)
    Lemma elems_no_value k l0 acc : vl (drop_ws l0) = None -> elems_l vl k l0 acc = None.
    Proof. intro H. destruct k as [|k]; [reflexivity|]. cbn [elems_l]. rewrite H. reflexivity. Qed.

    (* after an element a byte other than , and ]: missing comma "[1 2]", mismatched bracket "[1}" *)
    Lemma elems_bad_separator k l0 acc v r2 c2 r3 :
      vl (drop_ws l0) = Some (v, r2) -> drop_ws r2 = c2 :: r3 -> c2 <> 44 -> c2 <> 93 ->
      elems_l vl k l0 acc = None.
    Proof.
      intros Hv Hd H1 H2. destruct k as [|k]; [reflexivity|]. cbn [elems_l]. rewrite Hv, Hd.
      apply Z.eqb_neq in H1, H2. rewrite H1, H2. reflexivity.
    Qed.

    (* after an element the input ends: unbalanced "[1" *)
    Lemma elems_truncated k l0 acc v r2 :
      vl (drop_ws l0) = Some (v, r2) -> drop_ws r2 = [] -> elems_l vl k l0 acc = None.
    Proof. intros Hv Hd. destruct k as [|k]; [reflexivity|]. cbn [elems_l]. rewrite Hv, Hd. reflexivity. Qed.

    (* a defect further right is reached through any number of well-formed elements *)
    Lemma elems_later k l0 acc v r2 r3 :
      vl (drop_ws l0) = Some (v, r2) -> drop_ws r2 = 44 :: r3 ->
      elems_l vl k r3 (v :: acc) = None -> elems_l vl (S k) l0 acc = None.
    Proof. intros Hv Hd H. cbn [elems_l]. rewrite Hv, Hd. cbn [Z.eqb Pos.eqb]. exact H. Qed.

    Lemma array_of_elems r c1 r1 :
      drop_ws r = c1 :: r1 -> c1 <> 93 -> elems_l vl (S (length r)) (c1 :: r1) [] = None -> array_l vl r = None.
    Proof.
      intros Hd Hc H. unfold array_l. rewrite Hd. apply Z.eqb_neq in Hc. rewrite Hc, H. reflexivity.
    Qed.

    (** * objects *)
    (* at any member position: *)
    (* key is not a string: "{1:2}" "{a:1}" "{,"  "{"a":1,}" *)
    Lemma members_nonstring_key k l0 acc q rq :
      drop_ws l0 = q :: rq -> q <> 34 -> members_l vl k l0 acc = None.
    Proof.
      intros Hd Hq. destruct k as [|k]; [reflexivity|]. cbn [members_l]. rewrite Hd.
      apply Z.eqb_neq in Hq. rewrite Hq. reflexivity.
    Qed.

    Lemma members_truncated_key k l0 acc : drop_ws l0 = [] -> members_l vl k l0 acc = None.
    Proof. intro Hd. destruct k as [|k]; [reflexivity|]. cbn [members_l]. rewrite Hd. reflexivity. Qed.

    (* malformed key string *)
    Lemma members_bad_key k l0 acc rq :
      drop_ws l0 = 34 :: rq -> string_dead rq -> members_l vl k l0 acc = None.
    Proof.
      intros Hd Hs. destruct k as [|k]; [reflexivity|]. cbn [members_l]. rewrite Hd. cbn [Z.eqb Pos.eqb negb].
      rewrite (string_l_dead rq Hs). reflexivity.
    Qed.

    (* missing colon: after the key a byte other than ':' or the end of the input *)
    Lemma members_missing_colon k l0 acc rq key r2 :
      drop_ws l0 = 34 :: rq -> string_l rq = Some (key, r2) ->
      (forall r3, drop_ws r2 <> 58 :: r3) -> members_l vl k l0 acc = None.
    Proof.
      intros Hd Hs Hc. destruct k as [|k]; [reflexivity|]. cbn [members_l]. rewrite Hd. cbn [Z.eqb Pos.eqb negb].
      rewrite Hs. destruct (drop_ws r2) as [|col r3]; [reflexivity|].
      destruct (Z.eqb_spec col 58) as [->|N]; [exfalso; exact (Hc r3 eq_refl)|reflexivity].
    Qed.

    (* no value after the colon *)
    Lemma members_no_value k l0 acc rq key r2 r3 :
      drop_ws l0 = 34 :: rq -> string_l rq = Some (key, r2) -> drop_ws r2 = 58 :: r3 ->
      vl (drop_ws r3) = None -> members_l vl k l0 acc = None.
    Proof.
      intros Hd Hs Hc Hv. destruct k as [|k]; [reflexivity|]. cbn [members_l]. rewrite Hd. cbn [Z.eqb Pos.eqb negb].
      rewrite Hs, Hc. cbn [Z.eqb Pos.eqb negb]. rewrite Hv. reflexivity.
    Qed.

    (* after a member a byte other than , and }: missing comma, mismatched bracket, or the end *)
    Lemma members_bad_separator k l0 acc rq key r2 r3 v0 r4 :
      drop_ws l0 = 34 :: rq -> string_l rq = Some (key, r2) -> drop_ws r2 = 58 :: r3 ->
      vl (drop_ws r3) = Some (v0, r4) ->
      (forall r5, drop_ws r4 <> 44 :: r5) -> (forall r5, drop_ws r4 <> 125 :: r5) ->
      members_l vl k l0 acc = None.
    Proof.
      intros Hd Hs Hc Hv H1 H2. destruct k as [|k]; [reflexivity|]. cbn [members_l]. rewrite Hd. cbn [Z.eqb Pos.eqb negb].
      rewrite Hs, Hc. cbn [Z.eqb Pos.eqb negb]. rewrite Hv. cbv zeta.
      destruct (drop_ws r4) as [|c2 r5]; [reflexivity|].
      destruct (Z.eqb_spec c2 44) as [->|N1]; [exfalso; exact (H1 r5 eq_refl)|].
      destruct (Z.eqb_spec c2 125) as [->|N2]; [exfalso; exact (H2 r5 eq_refl)|reflexivity].
    Qed.

    Lemma members_later k l0 acc rq key r2 r3 v0 r4 r5 :
      drop_ws l0 = 34 :: rq -> string_l rq = Some (key, r2) -> drop_ws r2 = 58 :: r3 ->
      vl (drop_ws r3) = Some (v0, r4) -> drop_ws r4 = 44 :: r5 ->
      members_l vl k r5 (with_key key v0 :: acc) = None -> members_l vl (S k) l0 acc = None.
    Proof.
      intros Hd Hs Hc Hv H4 H. cbn [members_l]. rewrite Hd. cbn [Z.eqb Pos.eqb negb].
      rewrite Hs, Hc. cbn [Z.eqb Pos.eqb negb]. rewrite Hv, H4. cbn [Z.eqb Pos.eqb]. exact H.
    Qed.

    Lemma object_of_members r c1 r1 :
      drop_ws r = c1 :: r1 -> c1 <> 125 -> members_l vl (S (length r)) (c1 :: r1) [] = None -> object_l vl r = None.
    Proof.
      intros Hd Hc H. unfold object_l. rewrite Hd. apply Z.eqb_neq in Hc. rewrite Hc, H. reflexivity.
    Qed.
  End Containers.

  (** from the container to the value *)
  Lemma value_l_array f d r :
    value_l strtod (S f) d (91 :: r) =
    if c_CJSON_NESTING_LIMIT <=? d then None else array_l (value_l strtod f (d + 1)) r.
  Proof. reflexivity. Qed.
  Lemma value_l_object f d r :
    value_l strtod (S f) d (123 :: r) =
    if c_CJSON_NESTING_LIMIT <=? d then None else object_l (value_l strtod f (d + 1)) r.
  Proof. reflexivity. Qed.

  Lemma reject_array f d r : (forall vl, array_l vl r = None) -> value_l strtod f d (91 :: r) = None.
  Proof. intro H. destruct f as [|f]; [reflexivity|]. rewrite value_l_array, H. destruct (_ <=? _); reflexivity. Qed.
  Lemma reject_object f d r : (forall vl, object_l vl r = None) -> value_l strtod f d (123 :: r) = None.
  Proof. intro H. destruct f as [|f]; [reflexivity|]. rewrite value_l_object, H. destruct (_ <=? _); reflexivity. Qed.

  (** concrete shapes, in any context to the right *)
  (* "[" ws* "," : extra comma; "[" ws* "}" : mismatched bracket; in general "[" ws* c for c starting no value and c <> "]" *)
  Theorem reject_array_first_byte f d r c r1 :
    drop_ws r = c :: r1 -> c <> 93 -> value_start_byte c = false -> value_l strtod f d (91 :: r) = None.
  Proof.
    intros Hd Hc Hs. destruct f as [|f]; [reflexivity|]. rewrite value_l_array.
    destruct (_ <=? _); [reflexivity|].
    eapply array_of_elems; [exact Hd|exact Hc|]. apply elems_no_value.
    assert (Hw : drop_ws (c :: r1) = c :: r1).
    { cbn [drop_ws]. destruct (Z.leb_spec c 32) as [Hle|]; [|reflexivity].
      exfalso. clear -Hd Hle. induction r as [|x r IH]; [discriminate|].
      cbn [drop_ws] in Hd. destruct (Z.leb_spec x 32); [auto|]. inversion Hd; subst. lia. }
    rewrite Hw. apply reject_bad_first_byte. exact Hs.
  Qed.

  (* "[" ws* end of input *)
  Theorem reject_array_unclosed f d r : drop_ws r = [] -> value_l strtod f d (91 :: r) = None.
  Proof. intro H. apply reject_array. intro vl. apply array_truncated. exact H. Qed.
  Theorem reject_object_unclosed f d r : drop_ws r = [] -> value_l strtod f d (123 :: r) = None.
  Proof. intro H. apply reject_object. intro vl. apply object_truncated. exact H. Qed.

  (* "{" ws* c for c other than the quote and "}": unquoted or non-string key, "{," "{]" "{1:2}" *)
  Theorem reject_object_nonstring_key f d r c r1 :
    drop_ws r = c :: r1 -> c <> 125 -> c <> 34 -> value_l strtod f d (123 :: r) = None.
  Proof.
    intros Hd Hc Hq. apply reject_object. intro vl.
    eapply object_of_members; [exact Hd|exact Hc|].
    assert (Hw : drop_ws (c :: r1) = c :: r1).
    { cbn [drop_ws]. destruct (Z.leb_spec c 32) as [Hle|]; [|reflexivity].
      exfalso. clear -Hd Hle. induction r as [|x r IH]; [discriminate|].
      cbn [drop_ws] in Hd. destruct (Z.leb_spec x 32); [auto|]. inversion Hd; subst. lia. }
    eapply members_nonstring_key; [exact Hw|exact Hq].
  Qed.

  (** * nesting *)
  Theorem reject_too_deep_array f d r : c_CJSON_NESTING_LIMIT <= d -> value_l strtod f d (91 :: r) = None.
  Proof.
    intro H. destruct f as [|f]; [reflexivity|]. rewrite value_l_array.
    apply Z.leb_le in H. rewrite H. reflexivity.
  Qed.
  Theorem reject_too_deep_object f d r : c_CJSON_NESTING_LIMIT <= d -> value_l strtod f d (123 :: r) = None.
  Proof.
    intro H. destruct f as [|f]; [reflexivity|]. rewrite value_l_object.
    apply Z.leb_le in H. rewrite H. reflexivity.
  Qed.
End Reject2.

(** * nesting deeper than the limit *)

Lemma drop_ws_app_nonws w c r : ws len_ws w -> 32 < c -> drop_ws (w ++ c :: r) = c :: r.
Proof.
  unfold ws. induction w as [|x w IH]; intros Hw Hc.
  - cbn [app drop_ws]. destruct (Z.leb_spec c 32); [lia|reflexivity].
  - cbn [forallb] in Hw. apply andb_true_iff in Hw as [Hx Hw]. unfold len_ws in Hx.
    cbn [app drop_ws]. rewrite Hx. apply IH; assumption.
Qed.

(** n opening brackets, each followed by arbitrary lenient whitespace *)
Definition open_brackets (wl : list bytes) : bytes := concat (map (fun w => 91 :: w) wl).

Theorem reject_deep_brackets strtod : forall wl f d l,
  Forall (ws len_ws) wl -> wl <> [] -> c_CJSON_NESTING_LIMIT < d + Z.of_nat (length wl) ->
  value_l strtod f d (open_brackets wl ++ l) = None.
Proof.
  induction wl as [|w wl IH]; intros f d l Hws Hne Hd; [congruence|].
  inversion Hws as [|? ? Hw Hws']; subst.
  unfold open_brackets. cbn [map concat]. cbn [app]. rewrite <- app_assoc.
  destruct f as [|f]; [reflexivity|]. rewrite value_l_array.
  destruct (Z.leb_spec c_CJSON_NESTING_LIMIT d) as [Hle|Hgt]; [reflexivity|].
  destruct wl as [|w' wl'].
  - cbn [length] in Hd. lia.
  - fold (open_brackets (w' :: wl')).
    assert (Hrest : exists rest, open_brackets (w' :: wl') ++ l = 91 :: rest).
    { unfold open_brackets. cbn [map concat app]. eexists. reflexivity. }
    destruct Hrest as (rest & Hrest).
    eapply array_of_elems.
    + rewrite Hrest. apply drop_ws_app_nonws; [exact Hw|lia].
    + lia.
    + apply elems_no_value. cbn [drop_ws]. cbn [Z.leb Z.compare Pos.compare Pos.compare_cont].
      rewrite <- Hrest. apply IH; [exact Hws'|discriminate|].
      cbn [length] in Hd |- *. lia.
Qed.

(** * the tree of an accepted text nests within the limit *)

Section JvInd.
  Variable P : jv -> Prop.
  Hypothesis Hnull : P JNull.
  Hypothesis Hbool : forall b, P (JBool b).
  Hypothesis Hnum : forall t, P (JNum t).
  Hypothesis Hstr : forall s, P (JStr s).
  Hypothesis Harr : forall l, Forall P l -> P (JArr l).
  Hypothesis Hobj : forall m, Forall (fun kv => P (snd kv)) m -> P (JObj m).
  Fixpoint jv_ind' (v : jv) : P v :=
    match v with
    | JNull => Hnull
    | JBool b => Hbool b
    | JNum t => Hnum t
    | JStr s => Hstr s
    | JArr l => Harr l ((fix go (l : list jv) : Forall P l :=
                           match l with [] => Forall_nil P | x :: r => Forall_cons x (jv_ind' x) (go r) end) l)
    | JObj m => Hobj m ((fix go (m : list (bytes * jv)) : Forall (fun kv => P (snd kv)) m :=
                           match m with
                           | [] => Forall_nil _
                           | (k, x) :: r => Forall_cons (k, x) (jv_ind' x : P (snd (k, x))) (go r)
                           end) m)
    end.
End JvInd.

Lemma node_depth_set_key k n : node_depth (set_key k n) = node_depth n.
Proof. destruct n. reflexivity. Qed.

Lemma node_depth_tree_of strtod v : (node_depth (tree_of strtod v) <= S (depth_of v))%nat.
Proof.
  induction v as [|b|t|s|l IH|m IH] using jv_ind'.
  - cbn. lia.
  - destruct b; cbn; lia.
  - cbn. lia.
  - cbn. lia.
  - cbn [tree_of depth_of node_depth]. apply le_n_S.
    induction IH as [|x r Hx Hr IHr]; [lia|]. cbn [depth_of] in *. lia.
  - cbn [tree_of depth_of node_depth]. apply le_n_S.
    induction IH as [|[k x] r Hx Hr IHr]; [lia|]. cbn [snd] in Hx. rewrite node_depth_set_key. lia.
Qed.

Theorem accepted_depth strtod l rnt t rest :
  strtod_ok strtod -> strtod_stable strtod ->
  text_l strtod l rnt = Some (t, rest) -> (node_depth t <= S nesting_limit)%nat.
Proof.
  intros Hok Hst H.
  destruct (sound_text _ _ _ _ _ Hok Hst H) as (pre & v & _ & Htxt & -> & _).
  apply text_depth in Htxt. pose proof (node_depth_tree_of strtod v). lia.
Qed.

(** * whole texts *)

(** the value is refused, so is the text *)
Lemma text_l_reject strtod l rnt :
  (forall f, value_l strtod f 0 (drop_ws (match starts [239; 187; 191] l with Some r => r | None => l end)) = None) ->
  text_l strtod l rnt = None.
Proof. intro H. unfold text_l. rewrite H. reflexivity. Qed.

(** termination required: after the value and nonzero whitespace comes a byte other than zero,
    or the declared input ends *)
Lemma text_l_reject_unterminated strtod l t rest0 :
  value_l strtod (S (length l)) 0 (drop_ws (match starts [239; 187; 191] l with Some r => r | None => l end)) = Some (t, rest0) ->
  (forall r, drop_ws_nz rest0 <> 0 :: r) -> text_l strtod l true = None.
Proof.
  intros Hv Hz. unfold text_l. rewrite Hv.
  destruct (drop_ws_nz rest0) as [|c r]; [reflexivity|].
  destruct (Z.eqb_spec c 0) as [->|N]; [exfalso; exact (Hz r eq_refl)|reflexivity].
Qed.
