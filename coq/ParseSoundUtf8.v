(** ParseSoundUtf8.v — the C code's hex-digit / UTF-8 / surrogate-pair arithmetic (shifts and
    masks, ParseDefs.v) agrees with the grammar's (tables, division and remainder, Grammar.v).
    Bit operations are reduced to division and remainder by the standard lemmas
    ([Z.shiftr_div_pow2], [Z.land_ones], [Z.land_lor_distr_l]); what remains are facts about
    single bytes, checked exhaustively on at most 256 values each. *)
From CJ Require Import Base Dbl Tree ParseDefs Grammar.
Require Import ZifyBool.
Local Open Scope Z_scope.
Local Ltac Zify.zify_post_hook ::= Z.div_mod_to_equations.

Fixpoint sweep (f : Z -> bool) (n : nat) (base : Z) : bool :=
  match n with O => true | S k => f base && sweep f k (base + 1) end.

Lemma sweep_spec f n : forall base, sweep f n base = true ->
  forall z, base <= z < base + Z.of_nat n -> f z = true.
Proof.
  induction n as [|n IH]; intros base H z Hz.
  - simpl in Hz. lia.
  - cbn [sweep] in H. apply andb_true_iff in H as [H0 H1].
    destruct (Z.eq_dec z base) as [->|Hne]; [exact H0|].
    apply (IH (base + 1) H1). lia.
Qed.

(** hex digits *)
Lemma hex_val_hexv c : hex_val c = hexv c.
Proof.
  unfold hex_val, hexv.
  destruct ((48 <=? c) && (c <=? 57)); [reflexivity|].
  destruct ((65 <=? c) && (c <=? 70)); [f_equal; lia|].
  destruct ((97 <=? c) && (c <=? 102)); [f_equal; lia|reflexivity].
Qed.

Lemma hexv_range c v : hexv c = Some v -> 0 <= v < 16.
Proof.
  unfold hexv.
  destruct ((48 <=? c) && (c <=? 57)) eqn:E1.
  { intro H; inversion H; subst. apply andb_true_iff in E1 as [A B]. lia. }
  destruct ((65 <=? c) && (c <=? 70)) eqn:E2.
  { intro H; inversion H; subst. apply andb_true_iff in E2 as [A B]. lia. }
  destruct ((97 <=? c) && (c <=? 102)) eqn:E3.
  { intro H; inversion H; subst. apply andb_true_iff in E3 as [A B]. lia. }
  discriminate.
Qed.

Lemma hex4v_range a b c d u : hex4v a b c d = Some u -> 0 <= u < 65536.
Proof.
  unfold hex4v.
  destruct (hexv a) as [x|] eqn:Ea; [|discriminate].
  destruct (hexv b) as [y|] eqn:Eb; [|discriminate].
  destruct (hexv c) as [z|] eqn:Ec; [|discriminate].
  destruct (hexv d) as [w|] eqn:Ed; [|discriminate].
  intro H; inversion H; subst.
  apply hexv_range in Ea, Eb, Ec, Ed. lia.
Qed.

(* continuation byte: depends only on the low 8 bits *)
Definition cont (x : Z) : Z := Z.land (Z.lor x 128) 191.

Lemma cont_mod256 x : cont x = cont (x mod 256).
Proof.
  unfold cont.
  change 256 with (2 ^ 8). rewrite <- (Z.land_ones x 8) by lia. change (Z.ones 8) with 255.
  change 191 with (Z.land 255 191) at 1. rewrite Z.land_assoc.
  rewrite Z.land_lor_distr_l. change (Z.land 128 255) with 128. reflexivity.
Qed.

Lemma cont_small : sweep (fun y => cont y =? 128 + y mod 64) 256 0 = true.
Proof. vm_compute. reflexivity. Qed.

Lemma cont_spec x : cont x = 128 + x mod 64.
Proof.
  rewrite cont_mod256.
  assert (H : (cont (x mod 256) =? 128 + (x mod 256) mod 64) = true).
  { apply (sweep_spec _ _ _ cont_small). change (Z.of_nat 256) with 256. lia. }
  apply Z.eqb_eq in H. rewrite H. lia.
Qed.

(* leading bytes *)
Lemma lead2_small : sweep (fun y => Z.land (Z.lor y 192) 255 =? 192 + y) 32 0 = true.
Proof. vm_compute. reflexivity. Qed.
Lemma lead3_small : sweep (fun y => Z.land (Z.lor y 224) 255 =? 224 + y) 16 0 = true.
Proof. vm_compute. reflexivity. Qed.
Lemma lead4_small : sweep (fun y => Z.land (Z.lor y 240) 255 =? 240 + y) 8 0 = true.
Proof. vm_compute. reflexivity. Qed.
Lemma lead1_small : sweep (fun y => Z.land y 127 =? y) 128 0 = true.
Proof. vm_compute. reflexivity. Qed.

Lemma utf8_encode_agrees cp :
  0 <= cp <= 1114111 -> utf8_encode_c cp = Some (utf8_of_codepoint cp).
Proof.
  intro Hcp. unfold utf8_encode_c, utf8_of_codepoint.
  fold (cont cp). fold (cont (Z.shiftr cp 6)). fold (cont (Z.shiftr cp 12)).
  rewrite !cont_spec. rewrite !Z.shiftr_div_pow2 by lia.
  change (2 ^ 6) with 64. change (2 ^ 12) with 4096. change (2 ^ 18) with 262144.
  destruct (Z.ltb_spec cp 128) as [H1|H1].
  { assert (H : (Z.land cp 127 =? cp) = true).
    { apply (sweep_spec _ _ _ lead1_small). change (Z.of_nat 128) with 128. lia. }
    apply Z.eqb_eq in H. rewrite H. reflexivity. }
  destruct (Z.ltb_spec cp 2048) as [H2|H2].
  { assert (H : (Z.land (Z.lor (cp / 64) 192) 255 =? 192 + cp / 64) = true).
    { apply (sweep_spec _ _ _ lead2_small). change (Z.of_nat 32) with 32. lia. }
    apply Z.eqb_eq in H. rewrite H. reflexivity. }
  destruct (Z.ltb_spec cp 65536) as [H3|H3].
  { assert (H : (Z.land (Z.lor (cp / 4096) 224) 255 =? 224 + cp / 4096) = true).
    { apply (sweep_spec _ _ _ lead3_small). change (Z.of_nat 16) with 16. lia. }
    apply Z.eqb_eq in H. rewrite H. reflexivity. }
  destruct (Z.leb_spec cp 1114111) as [H4|H4]; [|lia].
  assert (H : (Z.land (Z.lor (cp / 262144) 240) 255 =? 240 + cp / 262144) = true).
  { apply (sweep_spec _ _ _ lead4_small). change (Z.of_nat 8) with 8. lia. }
  apply Z.eqb_eq in H. rewrite H. reflexivity.
Qed.

(* surrogate pairs *)
Lemma lor_shift10 a b : 0 <= a -> 0 <= b < 1024 -> Z.lor (Z.shiftl a 10) b = a * 1024 + b.
Proof.
  intros Ha Hb. set (z := Z.lor (Z.shiftl a 10) b).
  assert (Hq : z / 1024 = a).
  { change 1024 with (2 ^ 10). rewrite <- Z.shiftr_div_pow2 by lia. unfold z.
    rewrite Z.shiftr_lor, Z.shiftr_shiftl_l by lia. change (10 - 10) with 0. rewrite Z.shiftl_0_r.
    rewrite (Z.shiftr_div_pow2 b) by lia. change (2 ^ 10) with 1024.
    rewrite (Z.div_small b 1024) by lia. apply Z.lor_0_r. }
  assert (Hr : z mod 1024 = b).
  { change 1024 with (2 ^ 10). rewrite <- Z.land_ones by lia. unfold z.
    rewrite Z.land_lor_distr_l, !Z.land_ones by lia. rewrite Z.shiftl_mul_pow2 by lia.
    rewrite Z.mod_mul by lia. rewrite Z.lor_0_l. change (2 ^ 10) with 1024. apply Z.mod_small. lia. }
  pose proof (Z.div_mod z 1024 ltac:(lia)) as Hdm. rewrite Hq, Hr in Hdm. lia.
Qed.

Lemma pair_formula hi lo :
  is_high_surrogate hi = true -> is_low_surrogate lo = true ->
  65536 + Z.lor (Z.shiftl (Z.land hi 1023) 10) (Z.land lo 1023) = pair_codepoint hi lo.
Proof.
  unfold is_high_surrogate, is_low_surrogate, pair_codepoint. intros Hh Hl.
  apply andb_true_iff in Hh as [Hh1 Hh2]. apply andb_true_iff in Hl as [Hl1 Hl2].
  apply Z.leb_le in Hh1, Hh2, Hl1, Hl2.
  change 1023 with (Z.ones 10). rewrite !Z.land_ones by lia. change (2 ^ 10) with 1024.
  rewrite lor_shift10 by lia. lia.
Qed.

Lemma pair_codepoint_range hi lo :
  is_high_surrogate hi = true -> is_low_surrogate lo = true ->
  65536 <= pair_codepoint hi lo <= 1114111.
Proof.
  unfold is_high_surrogate, is_low_surrogate, pair_codepoint. intros Hh Hl.
  apply andb_true_iff in Hh as [Hh1 Hh2]. apply andb_true_iff in Hl as [Hl1 Hl2]. lia.
Qed.
