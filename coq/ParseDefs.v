(** ParseDefs.v — transliteration of the parser of cJSON.c: buffer_skip_whitespace,
    skip_utf8_bom, parse_value, parse_number, is_hex4/parse_hex4, utf16_literal_to_utf8,
    parse_string (both passes), parse_array, parse_object, cJSON_ParseWithLengthOpts
    (including the failure block that publishes the error position), cJSON_ParseWithOpts,
    cJSON_Parse, cJSON_ParseWithLength.

    The input is [content] (everything addressable from the pointer) and the declared
    length [len]; the ONLY way the model touches the input is [rdb], which yields [OOB] for
    an index >= len.  The string output block has an explicit capacity and writes beyond it
    yield [OOB].  Every loop runs on fuel.  Allocation requests are numbered; [oracle k]
    says whether request k fails; [live] counts the blocks currently owned.  No proofs here. *)
From CJ Require Import Base Dbl Tree.
Local Open Scope Z_scope.

Record pst : Type := mkpst {
  off : nat;      (* buffer.offset *)
  dep : Z;        (* buffer.depth *)
  req : nat;      (* number of allocation requests made so far *)
  live : Z        (* blocks allocated by this call and not yet released *)
}.
Definition set_off (s : pst) (o : nat) : pst := mkpst o (dep s) (req s) (live s).
Definition add_off (s : pst) (k : nat) : pst := set_off s (off s + k).
Definition set_dep (s : pst) (d : Z) : pst := mkpst (off s) d (req s) (live s).
Definition release (s : pst) (k : Z) : pst := mkpst (off s) (dep s) (req s) (live s - k).

(** number of blocks cJSON_Delete releases for a parsed tree: the node, its string, its key,
    and everything below it (the parser never sets a reference or constant-key flag) *)
Fixpoint blocks (n : node) : Z :=
  match n with Node _ vs _ _ k ch =>
    1 + (match vs with Some _ => 1 | None => 0 end) + (match k with Some _ => 1 | None => 0 end)
      + (fix go l := match l with [] => 0 | c :: r => blocks c + go r end) ch end.
Definition blocks_list (l : list node) : Z := fold_right (fun c a => blocks c + a) 0 l.

Section Parser.
  (** strtod on the zero-terminated copy made by parse_number: the value and the number of
      bytes consumed, or None when no conversion could be performed *)
  Variable strtod : bytes -> option (dbl * nat).
  (** allocation failure schedule *)
  Variable oracle : nat -> bool.
  Variable content : bytes.
  Variable len : nat.

  Definition rdb (i : nat) : res Z := if (i <? len)%nat then rd content i else OOB.
  Definition can_read (s : pst) (size : nat) : bool := (off s + size <=? len)%nat.
  Definition can_access (s : pst) (index : nat) : bool := (off s + index <? len)%nat.

  (* hooks.allocate: Some s' = success, None = the request failed (state still advances) *)
  Definition alloc (s : pst) : bool * pst :=
    if oracle (req s) then (false, mkpst (off s) (dep s) (S (req s)) (live s))
    else (true, mkpst (off s) (dep s) (S (req s)) (live s + 1)).

  (* buffer_skip_whitespace *)
  Fixpoint skip_ws_loop (fuel : nat) (s : pst) : res pst :=
    match fuel with
    | O => OutOfFuel
    | S f =>
        if can_access s 0 then
          c <- rdb (off s) ;;
          if c <=? 32 then skip_ws_loop f (add_off s 1) else Ok s
        else Ok s
    end.
  Definition buffer_skip_whitespace (s : pst) : res pst :=
    if negb (can_access s 0) then Ok s
    else
      s' <- skip_ws_loop (S len) s ;;
      if (off s' =? len)%nat then Ok (set_off s' (off s' - 1)) else Ok s'.

  (* strncmp(buffer_at_offset, literal, n) == 0, reading one byte at a time and stopping at
     the first difference (the literals contain no zero byte) *)
  Fixpoint match_lit (i : nat) (lit : bytes) : res bool :=
    match lit with
    | [] => Ok true
    | l :: r => c <- rdb i ;; if c =? l then match_lit (S i) r else Ok false
    end.

  (* skip_utf8_bom (offset is 0 when it is called) *)
  Definition skip_utf8_bom (s : pst) : res pst :=
    if can_access s 2 then
      m <- match_lit (off s) [239; 187; 191] ;;
      if m then Ok (add_off s 3) else Ok s
    else Ok s.

  (* parse_number: the copy loop; returns the copied bytes *)
  Definition number_byte (c : Z) : bool :=
    ((48 <=? c) && (c <=? 57)) || (c =? 43) || (c =? 45) || (c =? 101) || (c =? 69) || (c =? 46).
  Fixpoint number_copy (fuel : nat) (s : pst) (i : nat) : res bytes :=
    match fuel with
    | O => Ok []          (* i reached sizeof(number_c_string) - 1 *)
    | S f =>
        if can_access s i then
          c <- rdb (off s + i) ;;
          if number_byte c then r <- number_copy f s (S i) ;; Ok (c :: r) else Ok []
        else Ok []
    end.
  Definition parse_number (s : pst) : res (option node * pst) :=
    copy <- number_copy (Z.to_nat (c_NUMBER_C_STRING_SIZE - 1)) s 0 ;;
    match strtod copy with
    | None => Ok (None, s)
    | Some (d, consumed) =>
        Ok (Some (Node c_cJSON_Number None (sat_int d) d None []), add_off s consumed)
    end.

  (* is_hex4 / parse_hex4 on the four bytes at index i *)
  Definition hex_val (c : Z) : option Z :=
    if (48 <=? c) && (c <=? 57) then Some (c - 48)
    else if (65 <=? c) && (c <=? 70) then Some (10 + c - 65)
    else if (97 <=? c) && (c <=? 102) then Some (10 + c - 97)
    else None.
  Definition is_hex4 (i : nat) : res bool :=
    a <- rdb i ;; b <- rdb (i + 1) ;; c <- rdb (i + 2) ;; d <- rdb (i + 3) ;;
    Ok (match hex_val a, hex_val b, hex_val c, hex_val d with
        | Some _, Some _, Some _, Some _ => true | _, _, _, _ => false end).
  (* parse_hex4: 0 as soon as a digit is invalid *)
  Definition parse_hex4 (i : nat) : res Z :=
    a <- rdb i ;;
    match hex_val a with None => Ok 0 | Some ha =>
      b <- rdb (i + 1) ;;
      match hex_val b with None => Ok 0 | Some hb =>
        c <- rdb (i + 2) ;;
        match hex_val c with None => Ok 0 | Some hc =>
          d <- rdb (i + 3) ;;
          match hex_val d with None => Ok 0 | Some hd =>
            Ok (((ha * 16 + hb) * 16 + hc) * 16 + hd) end end end end.

  (* the UTF-8 encoding arithmetic of utf16_literal_to_utf8, as the C code computes it *)
  Definition utf8_encode_c (codepoint : Z) : option bytes :=
    let cont (cp : Z) := Z.land (Z.lor cp 128) 191 in
    if codepoint <? 128 then Some [Z.land codepoint 127]
    else if codepoint <? 2048 then
      Some [Z.land (Z.lor (Z.shiftr codepoint 6) 192) 255; cont codepoint]
    else if codepoint <? 65536 then
      Some [Z.land (Z.lor (Z.shiftr codepoint 12) 224) 255; cont (Z.shiftr codepoint 6); cont codepoint]
    else if codepoint <=? 1114111 then
      Some [Z.land (Z.lor (Z.shiftr codepoint 18) 240) 255; cont (Z.shiftr codepoint 12);
            cont (Z.shiftr codepoint 6); cont codepoint]
    else None.

  (* utf16_literal_to_utf8(input_pointer = ip, input_end): (sequence_length, bytes) or None *)
  Definition utf16_literal_to_utf8 (ip input_end : nat) : res (option (nat * bytes)) :=
    if (input_end - ip <? 6)%nat then Ok None
    else
      h <- is_hex4 (ip + 2) ;;
      if negb h then Ok None
      else
        first_code <- parse_hex4 (ip + 2) ;;
        if (56320 <=? first_code) && (first_code <=? 57343) then Ok None
        else if (55296 <=? first_code) && (first_code <=? 56319) then
          let second := (ip + 6)%nat in
          if (input_end - second <? 6)%nat then Ok None
          else
            c0 <- rdb second ;;
            if negb (c0 =? 92) then Ok None
            else
              c1 <- rdb (second + 1) ;;
              if negb (c1 =? 117) then Ok None
              else
                second_code <- parse_hex4 (second + 2) ;;
                if (second_code <? 56320) || (second_code >? 57343) then Ok None
                else
                  let codepoint := 65536 + Z.lor (Z.shiftl (Z.land first_code 1023) 10) (Z.land second_code 1023) in
                  Ok (match utf8_encode_c codepoint with Some b => Some (12%nat, b) | None => None end)
        else Ok (match utf8_encode_c first_code with Some b => Some (6%nat, b) | None => None end).

  (* parse_string, first pass: find the closing quote; returns (input_end, skipped_bytes) or None *)
  Fixpoint string_scan (fuel : nat) (input_end skipped : nat) : res (option (nat * nat)) :=
    match fuel with
    | O => OutOfFuel
    | S f =>
        if (input_end <? len)%nat then
          c <- rdb input_end ;;
          if c =? 34 then Ok (Some (input_end, skipped))
          else if c =? 92 then
            if (len <=? input_end + 1)%nat then Ok None       (* last input character is a backslash *)
            else string_scan f (input_end + 2) (S skipped)
          else string_scan f (input_end + 1) skipped
        else Ok None                                            (* string ended unexpectedly *)
    end.

  (* second pass: decode into a block of [cap] bytes.  Result: Some out = success,
     None with the failure position = a bad escape *)
  Definition put (cap : nat) (out : bytes) (b : bytes) : res bytes :=
    if (length out + length b <=? cap)%nat then Ok (out ++ b) else OOB.
  Fixpoint string_decode (fuel : nat) (cap : nat) (ip input_end : nat) (out : bytes) : res (bytes + nat) :=
    match fuel with
    | O => OutOfFuel
    | S f =>
        if (ip <? input_end)%nat then
          c <- rdb ip ;;
          if negb (c =? 92) then o <- put cap out [c] ;; string_decode f cap (S ip) input_end o
          else
            e <- rdb (ip + 1) ;;
            if e =? 98 then o <- put cap out [8] ;; string_decode f cap (ip + 2) input_end o
            else if e =? 102 then o <- put cap out [12] ;; string_decode f cap (ip + 2) input_end o
            else if e =? 110 then o <- put cap out [10] ;; string_decode f cap (ip + 2) input_end o
            else if e =? 114 then o <- put cap out [13] ;; string_decode f cap (ip + 2) input_end o
            else if e =? 116 then o <- put cap out [9] ;; string_decode f cap (ip + 2) input_end o
            else if (e =? 34) || (e =? 92) || (e =? 47) then o <- put cap out [e] ;; string_decode f cap (ip + 2) input_end o
            else if e =? 117 then
              u <- utf16_literal_to_utf8 ip input_end ;;
              match u with
              | None => Ok (inr ip)
              | Some (seq, b) => o <- put cap out b ;; string_decode f cap (ip + seq) input_end o
              end
            else Ok (inr ip)
        else
          (* zero terminate the output *)
          o <- put cap out [0] ;; Ok (inl out)
    end.

  (* parse_string: returns the decoded C string (bytes before the first zero) *)
  Definition parse_string (s : pst) : res (option bytes * pst) :=
    c0 <- rdb (off s) ;;
    if negb (c0 =? 34) then Ok (None, set_off s (off s + 1))
    else
      sc <- string_scan (S len) (off s + 1) 0 ;;
      match sc with
      | None => Ok (None, set_off s (off s + 1))
      | Some (input_end, skipped) =>
          let allocation_length := (input_end - off s - skipped)%nat in
          let '(ok, s1) := alloc s in
          if negb ok then Ok (None, set_off s1 (off s + 1))
          else
            d <- string_decode (S len) (allocation_length + 1) (off s + 1) input_end [] ;;
            match d with
            | inl out => Ok (Some (cstr (out ++ [0])), set_off s1 (input_end + 1))
            | inr ip => Ok (None, set_off (release s1 1) ip)         (* deallocate(output) *)
            end
      end.

  (* the element loop of parse_array (do ... while): [acc] = items linked so far, in reverse;
     on failure every linked item, including the one being filled, is released *)
  Section Containers.
    Variable pv : pst -> res (option node * pst).     (* parse_value one level down *)

    Definition empty_item : node := Node 0 None 0 dzero None [].

    Fixpoint array_loop (fuel : nat) (s : pst) (acc : list node) : res (option (list node) * pst) :=
      match fuel with
      | O => OutOfFuel
      | S f =>
          let '(ok, s1) := alloc s in                      (* cJSON_New_Item *)
          if negb ok then Ok (None, release s1 (blocks_list acc))
          else
            s2 <- buffer_skip_whitespace (add_off s1 1) ;;
            '(r, s3) <- pv s2 ;;
            match r with
            | None => Ok (None, release s3 (blocks_list acc + 1))
            | Some v =>
                s4 <- buffer_skip_whitespace s3 ;;
                if can_access s4 0 then
                  c <- rdb (off s4) ;;
                  if c =? 44 then array_loop f s4 (v :: acc)
                  else if c =? 93 then Ok (Some (rev (v :: acc)), s4)
                  else Ok (None, release s4 (blocks_list (v :: acc)))
                else Ok (None, release s4 (blocks_list (v :: acc)))
            end
      end.

    Definition parse_array (s : pst) : res (option node * pst) :=
      if c_CJSON_NESTING_LIMIT <=? dep s then Ok (None, s)
      else
        let s := set_dep s (dep s + 1) in
        c0 <- rdb (off s) ;;
        if negb (c0 =? 91) then Ok (None, s)
        else
          s1 <- buffer_skip_whitespace (add_off s 1) ;;
          if can_access s1 0 then
            c <- rdb (off s1) ;;
            if c =? 93 then Ok (Some (Node c_cJSON_Array None 0 dzero None []), add_off (set_dep s1 (dep s1 - 1)) 1)
            else
              '(r, s2) <- array_loop (S len) (set_off s1 (off s1 - 1)) [] ;;
              match r with
              | None => Ok (None, s2)
              | Some items => Ok (Some (Node c_cJSON_Array None 0 dzero None items), add_off (set_dep s2 (dep s2 - 1)) 1)
              end
          else Ok (None, set_off s1 (off s1 - 1))
    .

    (* with the key set on the value's item *)
    Definition with_key (k : bytes) (v : node) : node :=
      match v with Node t vs vi vd _ ch => Node t vs vi vd (Some k) ch end.

    Fixpoint object_loop (fuel : nat) (s : pst) (acc : list node) : res (option (list node) * pst) :=
      match fuel with
      | O => OutOfFuel
      | S f =>
          let '(ok, s1) := alloc s in                      (* cJSON_New_Item *)
          if negb ok then Ok (None, release s1 (blocks_list acc))
          else if negb (can_access s1 1) then Ok (None, release s1 (blocks_list acc + 1))
          else
            s2 <- buffer_skip_whitespace (add_off s1 1) ;;
            '(k, s3) <- parse_string s2 ;;
            match k with
            | None => Ok (None, release s3 (blocks_list acc + 1))
            | Some key =>
                s4 <- buffer_skip_whitespace s3 ;;
                if negb (can_access s4 0) then Ok (None, release s4 (blocks_list acc + 2))
                else
                  c <- rdb (off s4) ;;
                  if negb (c =? 58) then Ok (None, release s4 (blocks_list acc + 2))
                  else
                    s5 <- buffer_skip_whitespace (add_off s4 1) ;;
                    '(r, s6) <- pv s5 ;;
                    match r with
                    | None => Ok (None, release s6 (blocks_list acc + 2))
                    | Some v0 =>
                        let v := with_key key v0 in
                        s7 <- buffer_skip_whitespace s6 ;;
                        if can_access s7 0 then
                          c2 <- rdb (off s7) ;;
                          if c2 =? 44 then object_loop f s7 (v :: acc)
                          else if c2 =? 125 then Ok (Some (rev (v :: acc)), s7)
                          else Ok (None, release s7 (blocks_list (v :: acc)))
                        else Ok (None, release s7 (blocks_list (v :: acc)))
                    end
            end
      end.

    Definition parse_object (s : pst) : res (option node * pst) :=
      if c_CJSON_NESTING_LIMIT <=? dep s then Ok (None, s)
      else
        let s := set_dep s (dep s + 1) in
        if negb (can_access s 0) then Ok (None, s)
        else
          c0 <- rdb (off s) ;;
          if negb (c0 =? 123) then Ok (None, s)
          else
            s1 <- buffer_skip_whitespace (add_off s 1) ;;
            if can_access s1 0 then
              c <- rdb (off s1) ;;
              if c =? 125 then Ok (Some (Node c_cJSON_Object None 0 dzero None []), add_off (set_dep s1 (dep s1 - 1)) 1)
              else
                '(r, s2) <- object_loop (S len) (set_off s1 (off s1 - 1)) [] ;;
                match r with
                | None => Ok (None, s2)
                | Some items => Ok (Some (Node c_cJSON_Object None 0 dzero None items), add_off (set_dep s2 (dep s2 - 1)) 1)
                end
            else Ok (None, set_off s1 (off s1 - 1)).
  End Containers.

  (* parse_value *)
  Fixpoint parse_value (fuel : nat) (s : pst) : res (option node * pst) :=
    match fuel with
    | O => OutOfFuel
    | S f =>
        m1 <- (if can_read s 4 then match_lit (off s) [110; 117; 108; 108] else Ok false) ;;
        if m1 then Ok (Some (Node c_cJSON_NULL None 0 dzero None []), add_off s 4)
        else
          m2 <- (if can_read s 5 then match_lit (off s) [102; 97; 108; 115; 101] else Ok false) ;;
          if m2 then Ok (Some (Node c_cJSON_False None 0 dzero None []), add_off s 5)
          else
            m3 <- (if can_read s 4 then match_lit (off s) [116; 114; 117; 101] else Ok false) ;;
            if m3 then Ok (Some (Node c_cJSON_True None 1 dzero None []), add_off s 4)
            else if negb (can_access s 0) then Ok (None, s)
            else
              c <- rdb (off s) ;;
              if c =? 34 then
                '(r, s') <- parse_string s ;;
                Ok (match r with Some str => Some (Node c_cJSON_String (Some str) 0 dzero None []) | None => None end, s')
              else if (c =? 45) || ((48 <=? c) && (c <=? 57)) then parse_number s
              else if c =? 91 then parse_array (parse_value f) s
              else if c =? 123 then parse_object (parse_value f) s
              else Ok (None, s)
    end.

  (** result of a parse entry point *)
  Record parse_result : Type := mkpr {
    pr_tree : option node;          (* NULL or the tree *)
    pr_end : option nat;            (* offset published through return_parse_end (buffer != NULL) *)
    pr_error : option nat;          (* global_error afterwards: None = {NULL, 0}, Some p = json + p *)
    pr_live : Z;                    (* blocks still allocated when the call returns *)
    pr_requests : nat               (* allocation requests made *)
  }.

  (* cJSON_ParseWithLengthOpts(value != NULL, buffer_length = len, &end, require_null_terminated) *)
  Definition fail_result (s : pst) : parse_result :=
    let position := if (off s <? len)%nat then off s else if (0 <? len)%nat then (len - 1)%nat else 0%nat in
    mkpr None (Some position) (Some position) (live s) (req s).

  Fixpoint rnt_skip (fuel : nat) (s : pst) : res pst :=
    match fuel with
    | O => OutOfFuel
    | S f =>
        if can_access s 0 then
          c <- rdb (off s) ;;
          if negb (c =? 0) && (c <=? 32) then rnt_skip f (add_off s 1) else Ok s
        else Ok s
    end.

  Definition cJSON_ParseWithLengthOpts (require_null_terminated : bool) : res parse_result :=
    let s0 := mkpst 0 0 0 0 in
    if (len =? 0)%nat then Ok (fail_result s0)
    else
      let '(ok, s1) := alloc s0 in                             (* cJSON_New_Item for the root *)
      if negb ok then Ok (fail_result s1)
      else
        s2 <- skip_utf8_bom s1 ;;
        s3 <- buffer_skip_whitespace s2 ;;
        '(r, s4) <- parse_value (S len) s3 ;;
        match r with
        | None => Ok (fail_result (release s4 1))              (* cJSON_Delete(item): the bare root *)
        | Some v =>
            if require_null_terminated then
              s5 <- rnt_skip (S len) s4 ;;
              if negb (can_access s5 0) then Ok (fail_result (release s5 (blocks v)))
              else
                c <- rdb (off s5) ;;
                if negb (c =? 0) then Ok (fail_result (release s5 (blocks v)))
                else Ok (mkpr (Some v) (Some (off s5)) None (live s5) (req s5))
            else Ok (mkpr (Some v) (Some (off s4)) None (live s4) (req s4))
        end.
End Parser.

(** the zero-terminated entry points: strlen on the raw memory, then the length-based parser
    with strlen + 1 *)
Fixpoint strlen_mem (fuel : nat) (content : bytes) (i : nat) : res nat :=
  match fuel with
  | O => OOB
  | S f => c <- rd content i ;; if c =? 0 then Ok i else strlen_mem f content (S i)
  end.

Definition cJSON_ParseWithOpts strtod oracle (content : bytes) (rnt : bool) : res parse_result :=
  n <- strlen_mem (S (length content)) content 0 ;;
  cJSON_ParseWithLengthOpts strtod oracle content (n + 1) rnt.
Definition cJSON_Parse strtod oracle (content : bytes) : res parse_result :=
  cJSON_ParseWithOpts strtod oracle content false.
Definition cJSON_ParseWithLength strtod oracle (content : bytes) (len : nat) : res parse_result :=
  cJSON_ParseWithLengthOpts strtod oracle content len false.

(** what the proofs assume about strtod (an external function): when it converts, it consumes
    a non-empty prefix of its argument *)
Definition strtod_ok (strtod : bytes -> option (dbl * nat)) : Prop :=
  forall s d k, strtod s = Some (d, k) -> (0 < k <= length s)%nat.

Definition never_fails : nat -> bool := fun _ => false.

(** ... and the converted prefix converts, by itself, to the same value *)
Definition strtod_stable (strtod : bytes -> option (dbl * nat)) : Prop :=
  forall s d k, strtod s = Some (d, k) -> strtod (firstn k s) = Some (d, k).
