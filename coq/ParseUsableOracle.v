(** ParseUsableOracle.v — property C01, "usable result" for EVERY allocation schedule.

    A parse that returns a tree was granted every request it made: each refused request leads
    straight to a NULL result (the failure paths of parse_string, of the two element loops and of
    the entry point).  Hence ([PrintFailParseExt.parse_length_unrefused]) the result is the result
    of the failure-free run, and everything proved of that run's tree (ParseUsable*.v) holds for
    the tree returned under any schedule.  Also the zero-terminated entry points, which are the
    length-based one on [strlen + 1] bytes. *)
From CJ Require Import Base Dbl Tree LibcNum ParseDefs ParseSafe PrintFail PrintFailExt PrintFailParseExt.
From Coq Require Import Lia ZArith List Bool.
Import ListNotations.
Local Open Scope Z_scope.

Section Granted.
  Variable strtod : bytes -> option (dbl * nat).
  Variable oracle : nat -> bool.
  Variable content : bytes.
  Variable len : nat.

  (** between two states: the request counter does not go back, and every request made in
      between was granted *)
  Definition granted (s s' : pst) : Prop :=
    (req s <= req s')%nat /\ forall k, (req s <= k < req s')%nat -> oracle k = false.

  Lemma granted_refl s s' : req s' = req s -> granted s s'.
  Proof. intro H. split; [lia|]. intros k Hk. lia. Qed.
  Lemma granted_trans s1 s2 s3 : granted s1 s2 -> granted s2 s3 -> granted s1 s3.
  Proof.
    intros [L1 G1] [L2 G2]. split; [lia|]. intros k Hk.
    destruct (Nat.lt_ge_cases k (req s2)); [apply G1|apply G2]; lia.
  Qed.
  Lemma granted_req s1 s2 s2' : granted s1 s2 -> req s2' = req s2 -> granted s1 s2'.
  Proof. intros [L G] E. split; rewrite E; assumption. Qed.
  Lemma granted_req_l s1 s1' s2 : req s1' = req s1 -> granted s1' s2 -> granted s1 s2.
  Proof. intros E [L G]. rewrite E in *. split; assumption. Qed.

  (** a function whose success ([Some]) implies that all its requests were granted *)
  Definition pgr {A} (f : pst -> res (option A * pst)) : Prop :=
    forall s a s', f s = Ok (Some a, s') -> granted s s'.

  Lemma alloc_granted s s1 : alloc oracle s = (true, s1) -> granted s s1.
  Proof.
    unfold alloc. destruct (oracle (req s)) eqn:O; intros [= <-]. split; cbn [req]; [lia|].
    intros k Hk. assert (k = req s) as -> by lia. exact O.
  Qed.

  Lemma parse_string_granted : pgr (parse_string oracle content len).
  Proof.
    intros s r s' E. unfold parse_string in E.
    bind_inv E c0 Ec0. destruct (negb (c0 =? 34)); [discriminate|].
    bind_inv E sc Esc. destruct sc as [(input_end & skipped)|]; [|discriminate].
    destruct (alloc oracle s) as (ok & s1) eqn:Ea.
    destruct ok; cbn [negb] in E; [|discriminate].
    apply alloc_granted in Ea.
    bind_inv E d Ed. destruct d as [out|ip]; [|discriminate]. injection E as _ <-.
    eapply granted_req; [exact Ea|reflexivity].
  Qed.

  Lemma parse_number_granted : pgr (parse_number strtod content len).
  Proof. intros s r s' E. apply granted_refl. exact (parse_number_req _ _ _ _ _ _ E). Qed.

  Section Containers.
    Variable pv : pst -> res (option node * pst).
    Hypothesis Hpv : pgr pv.

    Lemma array_loop_granted fuel : forall acc, pgr (fun s => array_loop oracle content len pv fuel s acc).
    Proof.
      induction fuel as [|f IH]; intros acc s r s' E; cbn beta in *; cbn [array_loop] in E; [discriminate|].
      destruct (alloc oracle s) as (ok & s1) eqn:Ea.
      destruct ok; cbn [negb] in E; [|discriminate]. apply alloc_granted in Ea.
      bind_inv E s2 E2. pose proof (bsw_req _ _ _ _ E2) as R2. cbn [req add_off set_off] in R2.
      bind_inv E x E3. destruct x as (rv & s3). destruct rv as [v|]; [|discriminate].
      pose proof (Hpv _ _ _ E3) as G3.
      bind_inv E s4 E4. pose proof (bsw_req _ _ _ _ E4) as R4.
      assert (G4 : granted s s4).
      { eapply granted_req; [|exact R4]. eapply granted_trans; [exact Ea|].
        eapply granted_req_l; [|exact G3]. exact R2. }
      destruct (can_access len s4 0); [|discriminate].
      bind_inv E c Ec.
      destruct (c =? 44).
      { eapply granted_trans; [exact G4|]. exact (IH _ _ _ _ E). }
      destruct (c =? 93); [|discriminate]. injection E as _ <-. exact G4.
    Qed.

    Lemma parse_array_granted : pgr (parse_array oracle content len pv).
    Proof.
      intros s r s' E. unfold parse_array in E.
      destruct (c_CJSON_NESTING_LIMIT <=? dep s); [discriminate|].
      bind_inv E c0 Ec0. destruct (negb (c0 =? 91)); [discriminate|].
      bind_inv E s1 E1. pose proof (bsw_req _ _ _ _ E1) as R1. cbn [req add_off set_off set_dep] in R1.
      destruct (can_access len s1 0); [|discriminate].
      bind_inv E c Ec. destruct (c =? 93).
      { injection E as _ <-. apply granted_refl. cbn [req add_off set_off set_dep]. exact R1. }
      bind_inv E x E2. destruct x as (ritems & s2). destruct ritems as [items|]; [|discriminate].
      injection E as _ <-. pose proof (array_loop_granted _ _ _ _ _ E2) as G2. cbn beta in G2.
      eapply granted_req; [|reflexivity]. eapply granted_req_l; [|exact G2]. cbn [req set_off]. exact R1.
    Qed.

    Lemma object_loop_granted fuel : forall acc, pgr (fun s => object_loop oracle content len pv fuel s acc).
    Proof.
      induction fuel as [|f IH]; intros acc s r s' E; cbn beta in *; cbn [object_loop] in E; [discriminate|].
      destruct (alloc oracle s) as (ok & s1) eqn:Ea.
      destruct ok; cbn [negb] in E; [|discriminate]. apply alloc_granted in Ea.
      destruct (negb (can_access len s1 1)); [discriminate|].
      bind_inv E s2 E2. pose proof (bsw_req _ _ _ _ E2) as R2. cbn [req add_off set_off] in R2.
      bind_inv E x E3. destruct x as (rk & s3). destruct rk as [key|]; [|discriminate].
      pose proof (parse_string_granted _ _ _ E3) as G3.
      bind_inv E s4 E4. pose proof (bsw_req _ _ _ _ E4) as R4.
      destruct (negb (can_access len s4 0)); [discriminate|].
      bind_inv E c Ec. destruct (negb (c =? 58)); [discriminate|].
      bind_inv E s5 E5. pose proof (bsw_req _ _ _ _ E5) as R5. cbn [req add_off set_off] in R5.
      bind_inv E y E6. destruct y as (rv & s6). destruct rv as [v0|]; [|discriminate].
      pose proof (Hpv _ _ _ E6) as G6.
      bind_inv E s7 E7. pose proof (bsw_req _ _ _ _ E7) as R7.
      assert (G7 : granted s s7).
      { eapply granted_req; [|exact R7]. eapply granted_trans; [exact Ea|].
        eapply granted_trans; [eapply granted_req_l; [|exact G3]; exact R2|].
        eapply granted_req_l; [|exact G6]. rewrite R5. exact R4. }
      destruct (can_access len s7 0); [|discriminate].
      bind_inv E c2 Ec2.
      destruct (c2 =? 44).
      { eapply granted_trans; [exact G7|]. exact (IH _ _ _ _ E). }
      destruct (c2 =? 125); [|discriminate]. injection E as _ <-. exact G7.
    Qed.

    Lemma parse_object_granted : pgr (parse_object oracle content len pv).
    Proof.
      intros s r s' E. unfold parse_object in E.
      destruct (c_CJSON_NESTING_LIMIT <=? dep s); [discriminate|].
      destruct (negb (can_access len (set_dep s (dep s + 1)) 0)); [discriminate|].
      bind_inv E c0 Ec0. destruct (negb (c0 =? 123)); [discriminate|].
      bind_inv E s1 E1. pose proof (bsw_req _ _ _ _ E1) as R1. cbn [req add_off set_off set_dep] in R1.
      destruct (can_access len s1 0); [|discriminate].
      bind_inv E c Ec. destruct (c =? 125).
      { injection E as _ <-. apply granted_refl. cbn [req add_off set_off set_dep]. exact R1. }
      bind_inv E x E2. destruct x as (ritems & s2). destruct ritems as [items|]; [|discriminate].
      injection E as _ <-. pose proof (object_loop_granted _ _ _ _ _ E2) as G2. cbn beta in G2.
      eapply granted_req; [|reflexivity]. eapply granted_req_l; [|exact G2]. cbn [req set_off]. exact R1.
    Qed.
  End Containers.

  Lemma parse_value_granted : forall fuel, pgr (parse_value strtod oracle content len fuel).
  Proof.
    induction fuel as [|f IH]; intros s r s' E; cbn [parse_value] in E; [discriminate|].
    bind_inv E m1 Em1. destruct m1.
    { injection E as _ <-. apply granted_refl. reflexivity. }
    bind_inv E m2 Em2. destruct m2.
    { injection E as _ <-. apply granted_refl. reflexivity. }
    bind_inv E m3 Em3. destruct m3.
    { injection E as _ <-. apply granted_refl. reflexivity. }
    destruct (negb (can_access len s 0)); [discriminate|].
    bind_inv E c Ec.
    destruct (c =? 34).
    { bind_inv E x E1. destruct x as (rs & s1). destruct rs as [str|]; [|discriminate].
      injection E as _ <-. exact (parse_string_granted _ _ _ E1). }
    destruct ((c =? 45) || ((48 <=? c) && (c <=? 57))).
    { exact (parse_number_granted _ _ _ E). }
    destruct (c =? 91).
    { exact (parse_array_granted _ IH _ _ _ E). }
    destruct (c =? 123).
    { exact (parse_object_granted _ IH _ _ _ E). }
    discriminate.
  Qed.

  (** the entry point: a returned tree means every request of the call was granted *)
  Theorem parse_tree_granted rnt r t :
    cJSON_ParseWithLengthOpts strtod oracle content len rnt = Ok r -> pr_tree r = Some t ->
    forall k, (k < pr_requests r)%nat -> oracle k = false.
  Proof.
    unfold cJSON_ParseWithLengthOpts. intros E Ht.
    destruct (len =? 0)%nat. { injection E as <-. discriminate Ht. }
    destruct (alloc oracle (mkpst 0 0 0 0)) as (ok & s1) eqn:Ea.
    destruct ok; cbn [negb] in E. 2:{ injection E as <-. discriminate Ht. }
    apply alloc_granted in Ea.
    bind_inv E s2 E2. pose proof (bom_req _ _ _ _ E2) as R2.
    bind_inv E s3 E3. pose proof (bsw_req _ _ _ _ E3) as R3.
    bind_inv E x E4. destruct x as (rv & s4). destruct rv as [v|]. 2:{ injection E as <-. discriminate Ht. }
    pose proof (parse_value_granted _ _ _ _ E4) as G4.
    assert (G : granted (mkpst 0 0 0 0) s4).
    { eapply granted_trans; [exact Ea|]. eapply granted_req_l; [|exact G4]. rewrite R3. exact R2. }
    destruct G as [_ G]. cbn [req] in G.
    destruct rnt.
    - bind_inv E s5 E5. pose proof (rnt_skip_req _ _ _ _ _ E5) as R5.
      destruct (negb (can_access len s5 0)). { injection E as <-. discriminate Ht. }
      bind_inv E c Ec. destruct (negb (c =? 0)). { injection E as <-. discriminate Ht. }
      injection E as <-. cbn [pr_requests]. intros k Hk. apply G. lia.
    - injection E as <-. cbn [pr_requests]. intros k Hk. apply G. lia.
  Qed.
End Granted.

(** a returned tree is the failure-free run's result, whatever the schedule *)
Theorem parse_tree_any_oracle strtod oracle content len rnt r t :
  cJSON_ParseWithLengthOpts strtod oracle content len rnt = Ok r -> pr_tree r = Some t ->
  cJSON_ParseWithLengthOpts strtod never_fails content len rnt = Ok r.
Proof.
  intros E Ht. apply (parse_length_unrefused strtod oracle content len rnt r E).
  exact (parse_tree_granted strtod oracle content len rnt r t E Ht).
Qed.

(** the zero-terminated entry points are the length-based one on strlen + 1 declared bytes *)
Lemma strlen_mem_bound : forall fuel content i n, strlen_mem fuel content i = Ok n -> (n < length content)%nat.
Proof.
  induction fuel as [|f IH]; intros content i n E; cbn [strlen_mem] in E; [discriminate|].
  bind_inv E c Ec. unfold rd in Ec. destruct (nth_error content i) eqn:En; [|discriminate].
  destruct (c =? 0).
  - injection E as <-. apply nth_error_Some. congruence.
  - exact (IH _ _ _ E).
Qed.

Theorem parse_with_opts_as_length strtod oracle content rnt r :
  cJSON_ParseWithOpts strtod oracle content rnt = Ok r ->
  exists n, (n + 1 <= length content)%nat /\
            cJSON_ParseWithLengthOpts strtod oracle content (n + 1) rnt = Ok r.
Proof.
  unfold cJSON_ParseWithOpts. intros E. bind_inv E n En. exists n. split; [|exact E].
  apply strlen_mem_bound in En. lia.
Qed.
