"""C18 — Merge Patch application and generation follow RFC 7396."""
import sys
sys.setrecursionlimit(30000)
import random, copy
from .common import *

AREA = 'merge'
MODEL_FILES = ('MergeDefs.v (merge_patch, generate_merge_patch, compare_json, sort_list/sort_object, compare_strings and the '
               'value-level cJSON_Duplicate / Detach / Delete / AddItemToObject), Rfc7396.v (MergePatch pseudo-code, doc_eq)')
RULE = ('(target, patch) pairs: random documents with nested objects, patches derived from the target (members set to null / replaced / '
        'recursively patched / added at every level, arrays containing nulls and objects, non-object roots on either side, NULL target) and '
        'independent patches; keys differing only by case, the empty key, duplicate keys and both case modes (robustness only), reference / '
        'constant-key flags on the target; (from, to) pairs: a document and a mutation of it (member added / removed / changed / retyped at '
        'depth <= 3, numbers moved by one ulp), independent pairs, `to` with and without null members; the generated patch is applied by the '
        'library and by an independent python RFC 7396 implementation; verdict: result doc_eq the RFC result (case-sensitive, distinct keys), '
        'round trip from+patch = to (no null member in `to`), NULL patch exactly for equal objects, inputs unchanged up to member order, patch operand untouched, links healthy, '
        'ledger balanced; also keys differing only by case below the first level, numbers within compare_double tolerance with different integer '
        'views, raw / NaN / invalid-type nodes (robustness), patches nested beyond CJSON_CIRCULAR_LIMIT (failed recursion -> NULL); non-trivial = both operands present and at least one of them an object')
ASSUMPTIONS = ['C locale (tolower)', 'hand-written value-level transliteration validated by this differential run; for merge_patch a heap-level transliteration is proved to refine it (Properties_C18_Heap.v)',
               'allocation failures inside merge/generate are not modelled at this tier (C08 covers failure cleanliness of the primitives)',
               'python float arithmetic is IEEE binary64 (used by the verdict)']
EPS = 2.220446049250313e-16
MKEYS = ['a', 'A', 'b', 'B', 'ab', 'aB', 'Ab', '', 'c', 'k1', 'K1', 'é', 'a/b', 'z', 'Z', 'x y']
MNUMS = [0, 1, -1, 2, 7, 42, 2147483647, -2147483648, 1e15, 0.5, -0.25, 0.1, 1.5, 1e100, 1.0000000000000002, 0.9999999999999999, 123.456, -0.0, 3]
MSTRS = ['', 'x', 'y', 'hello', 'X', 'null', 'a\\b', 'é€', '{}', 'x ']

# ---------------------------------------------------------------- normal form of documents
# ('z',) null | ('b', bool) | ('n', valueint, double) | ('s', bytes) | ('r', bytes) raw | ('a', [..]) | ('o', [(keybytes|None, v)..]) | ('?', ty)
def nf(v):
    if v is None: return ('z',)
    if v is True or v is False: return ('b', v)
    if isinstance(v, (int, float)): return ('n', sat_int(v), float(v))
    if isinstance(v, str): return ('s', v.encode('utf-8'))
    if isinstance(v, Obj): return ('o', [(k.encode('utf-8'), nf(e)) for k, e in v])
    return ('a', [nf(e) for e in v])

def parse_dump(tok, pos=0):
    """tokens "N ty vs vi vd key k child…" -> (normal form with the key, next position); 'NULL' -> None"""
    if tok[pos] == 'NULL': return None, None, pos + 1
    assert tok[pos] == 'N', tok[pos:pos + 3]
    ty = int(tok[pos + 1]) & 255; vs = tok[pos + 2]; vi = int(tok[pos + 3]); vd = tok[pos + 4]; key = tok[pos + 5]; k = int(tok[pos + 6])
    pos += 7; ch = []
    for _ in range(k):
        ck, cv, pos = parse_dump(tok, pos); ch.append((ck, cv))
    kb = None if key == '-' else unhx(key)
    if ty == T_NULL: v = ('z',)
    elif ty == T_TRUE: v = ('b', True)
    elif ty == T_FALSE: v = ('b', False)
    elif ty == T_NUMBER: v = ('n', vi, float('nan') if vd == 'nan' else bits_dbl(int(vd, 16)))
    elif ty == T_STRING: v = ('s', None if vs == '-' else unhx(vs))
    elif ty == T_RAW: v = ('r', None if vs == '-' else unhx(vs))
    elif ty == T_ARRAY: v = ('a', [c for _, c in ch])
    elif ty == T_OBJECT: v = ('o', ch)
    else: v = ('?', ty)
    return kb, v, pos

def num_eq(a, b):
    if a != a or b != b: return False
    m = max(abs(a), abs(b))
    if m == float('inf'): return a == b
    return abs(a - b) <= m * EPS

def doc_eq(a, b):
    if a is None or b is None or a[0] != b[0]: return False
    t = a[0]
    if t == 'z': return True
    if t == 'b': return a[1] == b[1]
    if t == 'n': return a[1] == b[1] and num_eq(a[2], b[2])
    if t in ('s', 'r'): return a[1] is not None and a[1] == b[1]
    if t == 'a': return len(a[1]) == len(b[1]) and all(doc_eq(x, y) for x, y in zip(a[1], b[1]))
    if t == 'o':
        da = dict(a[1]); db = dict(b[1])
        return da.keys() == db.keys() and all(doc_eq(da[k], db[k]) for k in da)
    return False

def distinct_keys(v):
    if v[0] == 'o':
        ks = [k for k, _ in v[1]]
        return None not in ks and len(set(ks)) == len(ks) and all(distinct_keys(e) for _, e in v[1])
    if v[0] == 'a': return all(distinct_keys(e) for e in v[1])
    if v[0] == 'n': return v[2] == v[2]                      # NaN is not a JSON number (and is not equal to itself)
    if v[0] == 's': return v[1] is not None
    return v[0] != '?' and v[0] != 'r'

def no_null_member(v):
    """no null member reachable through objects only (below an array the patch replaces wholesale)"""
    if v[0] == 'o': return all(e[0] != 'z' and no_null_member(e) for _, e in v[1])
    return True

def rfc7396(target, patch):
    """RFC 7396 section 2, on normal forms; an absent target is None"""
    if patch[0] == 'o':
        tm = dict(target[1]) if (target is not None and target[0] == 'o') else {}
        for name, value in patch[1]:
            if value[0] == 'z':
                if name in tm: del tm[name]
            else:
                tm[name] = rfc7396(tm.get(name), value)
        return ('o', list(tm.items()))
    return patch

def same_value(a, b):
    """equal up to the order of object members (members with the same name keep their relative order); exact doubles"""
    if a is None or b is None: return a is b
    if a[0] != b[0]: return False
    if a[0] == 'n': return a[1] == b[1] and (dbl_bits(a[2]) == dbl_bits(b[2]) or (a[2] != a[2] and b[2] != b[2]))
    if a[0] == 'a': return len(a[1]) == len(b[1]) and all(same_value(x, y) for x, y in zip(a[1], b[1]))
    if a[0] == 'o':
        key = lambda m: (m[0] is None, m[0] or b'')
        la = sorted(a[1], key=key); lb = sorted(b[1], key=key)
        return len(la) == len(lb) and all(x[0] == y[0] and same_value(x[1], y[1]) for x, y in zip(la, lb))
    return a == b

CIRC = [10000]          # CJSON_CIRCULAR_LIMIT of the source under test (set by generate / corpus)

def nf_depth(v):
    """nesting depth of a normal form (iterative: the oracle must not depend on python's recursion limit)"""
    best = 0; stack = [(v, 1)]
    while stack:
        x, d = stack.pop()
        if x is None: continue
        best = max(best, d)
        if x[0] == 'a': stack += [(e, d + 1) for e in x[1]]
        elif x[0] == 'o': stack += [(e, d + 1) for _, e in x[1]]
    return best

def decode_case(line):
    """(kind, cs, first operand, second operand, claim) from the case line itself (operands as normal forms, None = NULL);
    claim = the conformance statement of C18 applies: case-sensitive, JSON documents with distinct member names
    (and no null member in `to` for generation)"""
    t = line.split(); kind = t[0]; cs = int(t[1])
    _, a, pos = parse_dump(t, 2); _, b, pos = parse_dump(t, pos)
    if kind == 'mergepatch':
        claim = bool(cs) and b is not None and (a is None or distinct_keys(a)) and distinct_keys(b)
        claim = claim and nf_depth(b) <= CIRC[0]           # cJSON_Duplicate refuses deeper values: outside the conformance claim (robustness only)
    else:
        claim = bool(cs) and a is not None and b is not None and distinct_keys(a) and distinct_keys(b) and no_null_member(b)
        claim = claim and nf_depth(a) <= CIRC[0] and nf_depth(b) <= CIRC[0]
    return kind, cs, a, b, claim

# ---------------------------------------------------------------- generators
class RawV(str): pass            # a cJSON_Raw node
class NumD:                      # a number node with an explicit double (nan / inf allowed)
    def __init__(self, d): self.d = d
class Inval: pass                # a node whose type is cJSON_Invalid

def toks(v, rng, key=None, flags=True):
    if isinstance(v, RawV): return node_tokens(T_RAW, vs=str(v), key=key)
    if isinstance(v, NumD): return node_tokens(T_NUMBER, vi=sat_int(v.d), vd=v.d, key=key)
    if isinstance(v, Inval): return node_tokens(0, key=key)
    fl = rng.choice([0, 0, 0, F_REF, F_CONST, F_REF | F_CONST]) if (rng and flags) else 0
    if key is None: fl &= ~F_CONST
    if v is None: return node_tokens(T_NULL | (fl & ~F_REF), key=key)
    if v is True: return node_tokens(T_TRUE | (fl & ~F_REF), key=key)
    if v is False: return node_tokens(T_FALSE | (fl & ~F_REF), key=key)
    if isinstance(v, (int, float)): return node_tokens(T_NUMBER | (fl & ~F_REF), vi=sat_int(v), vd=float(v), key=key)
    if isinstance(v, str): return node_tokens(T_STRING | fl, vs=v, key=key)
    if isinstance(v, Obj): return node_tokens(T_OBJECT | (fl & ~F_REF), key=key, children=[toks(e, rng, key=k, flags=flags) for k, e in v])
    return node_tokens(T_ARRAY | (fl & ~F_REF), key=key, children=[toks(e, rng, flags=flags) for e in v])

def rand_doc(rng, depth, keys=MKEYS, nulls=True, dup=False, objbias=0.55):
    r = rng.random()
    if depth <= 0 or r < 0.3:
        k = rng.randrange(7 if nulls else 6)
        if k == 0: return rng.random() < 0.5
        if k in (1, 2): return rng.choice(MNUMS)
        if k in (3, 4): return rng.choice(MSTRS)
        if k == 5: return [] if rng.random() < 0.5 else Obj()
        return None
    if r < 0.3 + (1 - 0.3) * (1 - objbias):
        return [rand_doc(rng, depth - 1, keys, True, dup, objbias) for _ in range(rng.choice([0, 1, 2, 3]))]   # arrays may contain nulls
    n = rng.choice([0, 1, 2, 2, 3, 4, 5])
    ks = [rng.choice(keys) for _ in range(n)] if dup else rng.sample(keys, min(n, len(keys)))
    return Obj([(k, rand_doc(rng, depth - 1, keys, nulls, dup, objbias)) for k in ks])

def derive_patch(rng, target, depth, keys=MKEYS):
    """a patch aimed at the members of `target`"""
    if not isinstance(target, Obj) or rng.random() < 0.12:
        return rand_doc(rng, depth, keys)
    p = []
    for k, v in target:
        r = rng.random()
        if r < 0.2: p.append((k, None))
        elif r < 0.35: p.append((k, rand_doc(rng, max(0, depth - 1), keys)))
        elif r < 0.6 and isinstance(v, Obj): p.append((k, derive_patch(rng, v, depth - 1, keys)))
        elif r < 0.66: p.append((k.swapcase(), rng.choice([None, 1, Obj([('q', None)])])))     # a key differing only by case
    for _ in range(rng.choice([0, 0, 1, 2])):
        k = rng.choice(keys)
        if all(k != q for q, _ in p):
            p.append((k, rng.choice([None, rand_doc(rng, max(0, depth - 1), keys), Obj([(rng.choice(keys), None), ('n', Obj([('m', None), ('v', 1)]))])])))
    rng.shuffle(p)
    return Obj(p)

def strip_nulls(v):
    if isinstance(v, Obj): return Obj([(k, strip_nulls(e)) for k, e in v if e is not None])
    return v

def mutate(rng, v, depth=0, keys=MKEYS):
    """one mutation of v at depth <= 3 (returns a new value)"""
    v = copy.deepcopy(v)
    if isinstance(v, Obj) and v and depth < 3 and rng.random() < 0.6:
        i = rng.randrange(len(v)); v[i] = (v[i][0], mutate(rng, v[i][1], depth + 1, keys)); return v
    if isinstance(v, Obj):
        k = rng.randrange(6)
        if k == 0 and v: del v[rng.randrange(len(v))]
        elif k == 1:
            free = [q for q in keys if all(q != x for x, _ in v)]
            if free: v.append((rng.choice(free), rand_doc(rng, 2, keys, nulls=False)))
        elif k == 2 and v: i = rng.randrange(len(v)); v[i] = (v[i][0], rand_doc(rng, 1, keys, nulls=False))
        elif k == 3 and v:
            i = rng.randrange(len(v)); nk = v[i][0].swapcase()
            if all(nk != x for x, _ in v): v[i] = (nk, v[i][1])            # renamed by case only
        elif k == 4: rng.shuffle(v)
        else: return rng.choice([1, 'x', [], True])                          # object -> scalar
        return v
    if isinstance(v, list):
        k = rng.randrange(4)
        if k == 0 and v: del v[rng.randrange(len(v))]
        elif k == 1: v.append(rng.choice([None, 1, Obj([('a', None)])]))
        elif k == 2 and v: i = rng.randrange(len(v)); v[i] = mutate(rng, v[i], depth + 1, keys)
        else: return Obj([('a', 1)])
        return v
    if isinstance(v, (int, float)) and not isinstance(v, bool):
        k = rng.randrange(5); d = float(v)
        if k == 4 and d == int(d) and 1 <= abs(d) < 2 ** 31:
            return bits_dbl(dbl_bits(d) - 1)             # within compare_double's tolerance, but (int) differs
        if k == 0 or k == 4: return bits_dbl((dbl_bits(d) + 1) & (2 ** 64 - 1)) if d == d and abs(d) < 1e300 else 1
        if k == 1: return d + 1 if abs(d) < 1e15 else 0
        if k == 2: return Obj([('a', v)])                                     # scalar -> object
        return 'x'
    return rng.choice([1, 'y', Obj(), Obj([('b', Obj([('c', 2)]))]), False, [None]])

def corpus(ctx):
    CIRC[0] = circular_limit(ctx['repo'])
    return load_corpus(ctx['verif'], 'C18')

def generate(ctx):
    rng = random.Random(ctx['seed'] * 7368787 + 18)
    CIRC[0] = circular_limit(ctx['repo'])
    quick = ctx['tier'] == 'quick'
    cases = []
    def add_apply(target, patch, cs, tags, flags=True):
        tt = 'NULL' if target == 'NULLARG' else ' '.join(toks(target, rng if flags else None))
        pt = ' '.join(toks(patch, rng if flags else None))
        line = 'mergepatch %d %s %s' % (cs, tt, pt)
        claim = decode_case(line)[4]
        cases.append(Case(line, {'tags': ['apply', 'cs' if cs else 'ci'] + tags + (['claim'] if claim else ['robustness'])}))
    def add_gen(frm, to, cs, tags, flags=True):
        ft = 'NULL' if frm == 'NULLARG' else ' '.join(toks(frm, rng if flags else None))
        tt = 'NULL' if to == 'NULLARG' else ' '.join(toks(to, rng if flags else None))
        line = 'genmerge %d %s %s' % (cs, ft, tt)
        claim = decode_case(line)[4]
        cases.append(Case(line, {'tags': ['generate', 'cs' if cs else 'ci'] + tags + (['claim'] if claim else ['robustness'])}))
    # --- fixed cases: the RFC's own examples (appendix A of RFC 7396) and the case splits of the code
    N = None
    rfc = [(Obj([('a', 'b')]), Obj([('a', 'c')])), (Obj([('a', 'b')]), Obj([('b', 'c')])), (Obj([('a', 'b')]), Obj([('a', N)])),
           (Obj([('a', 'b'), ('b', 'c')]), Obj([('a', N)])), (Obj([('a', ['b'])]), Obj([('a', 'c')])), (Obj([('a', 'c')]), Obj([('a', ['b'])])),
           (Obj([('a', Obj([('b', 'c')]))]), Obj([('a', Obj([('b', 'd'), ('c', N)]))])), (Obj([('a', [Obj([('b', 'c')])])]), Obj([('a', [1])])),
           (['a', 'b'], ['c', 'd']), (Obj([('a', 'b')]), ['c']), (Obj([('a', 'foo')]), N), (Obj([('a', 'foo')]), 'bar'), (Obj([('e', N)]), Obj([('a', 1)])),
           ([1, 2], Obj([('a', 'b'), ('c', N)])), (Obj(), Obj([('a', Obj([('bb', Obj([('ccc', N)]))]))])),
           (Obj([('a', 1), ('A', 2)]), Obj([('A', N)])), (Obj([('a', 1), ('A', 2)]), Obj([('a', Obj([('x', N)])), ('A', 3)])),
           (Obj([('A', Obj([('k', 1), ('K', 2)]))]), Obj([('A', Obj([('K', N)]))])), (Obj([('', 1)]), Obj([('', N), ('b', 2)])),
           (Obj([('a', Obj([('b', Obj([('c', 1), ('d', 2)]))]))]), Obj([('a', Obj([('b', Obj([('c', N)]))]))])),
           (Obj([('a', 1), ('a', 2)]), Obj([('a', N)])), (Obj([('a', 1)]), Obj([('a', 2), ('a', N), ('a', Obj([('z', N)]))])),
           (3, Obj([('a', Obj([('b', N), ('c', [N, Obj([('d', N)])])]))]))]
    for t, p in rfc:
        for cs in (1, 0):
            add_apply(t, p, cs, ['fixed'], flags=False); add_apply('NULLARG', p, cs, ['fixed', 'null-target'], flags=False)
            add_gen(t, p, cs, ['fixed'], flags=False); add_gen(p, t, cs, ['fixed'], flags=False)
            add_gen(t, rfc7396_value(t, p), cs, ['fixed', 'to=merge'], flags=False)
    for v in [N, 1, 'x', [], Obj(), Obj([('a', N)])]:
        add_gen('NULLARG', v, 1, ['null-from']); add_gen(v, 'NULLARG', 1, ['null-to']); add_gen(v, v, 1, ['identical'])
    # --- cJSON_Duplicate gives up at CJSON_CIRCULAR_LIMIT: the failed recursion deletes the target and returns NULL
    def deep_array(levels):
        t = node_tokens(T_NULL)
        for _ in range(levels): t = node_tokens(T_ARRAY, children=[t])
        return t
    deep = deep_array(circular_limit(ctx['repo']) + 1)       # one level more than cJSON_Duplicate accepts
    tgt = ' '.join(toks(Obj([('b', 1), ('a', Obj([('x', 'y')]))]), None))
    keyed = lambda key, t: t[:5] + [htok(key)] + t[6:]
    for cs in (1, 0):
        cases.append(Case('mergepatch %d %s %s' % (cs, tgt, ' '.join(deep)), {'tags': ['apply', 'dup-depth-limit', 'robustness']}))
        p = node_tokens(T_OBJECT, children=[node_tokens(T_NUMBER, vi=1, vd=1.0, key='b'), node_tokens(T_OBJECT, key='a', children=[keyed('d', deep)])])
        cases.append(Case('mergepatch %d %s %s' % (cs, tgt, ' '.join(p)), {'tags': ['apply', 'dup-depth-limit', 'robustness']}))
    # --- values nested about as deep as the parser accepts, under an object member (arrays: merge patch replaces them wholesale)
    if ctx.get('seed_index', 0) == 0:
        NL = nesting_limit(ctx['repo'])
        for depth in (NL - 3, NL - 2, NL - 1, NL):
            a = 1; b = 2
            for _ in range(depth - 1): a = [a]; b = [b]
            add_apply(Obj([('k', a), ('z', 0)]), Obj([('k', b)]), 1, ['deep'], flags=False)
            add_gen(Obj([('k', a), ('z', 0)]), Obj([('k', b), ('z', 0)]), 1, ['deep'], flags=False)
            add_gen(Obj([('k', a)]), Obj([('k', copy.deepcopy(a))]), 1, ['deep', 'identical'], flags=False)
    # --- (target, patch)
    n = 1200 if quick else 12000
    for i in range(n):
        cs = 1 if rng.random() < 0.75 else 0
        depth = rng.choice([1, 2, 3, 4])
        dup = rng.random() < 0.06
        target = rand_doc(rng, depth, dup=dup)
        if rng.random() < 0.1: target = rng.choice([1, 'x', [1, None], None, True])          # non-object target
        r = rng.random()
        if r < 0.7: patch = derive_patch(rng, target, depth); tag = 'derived'
        elif r < 0.9: patch = rand_doc(rng, depth, dup=(rng.random() < 0.1)); tag = 'independent'
        else: patch = rng.choice([None, 1, 'x', [None, Obj([('a', None)])], Obj(), True]); tag = 'non-object-patch'
        add_apply(target, patch, cs, [tag] + (['dup-keys'] if dup else []))
        if i % 9 == 0: add_apply('NULLARG', patch, cs, [tag, 'null-target'])
    # --- (from, to)
    n = 1200 if quick else 12000
    for i in range(n):
        cs = 1 if rng.random() < 0.75 else 0
        depth = rng.choice([1, 2, 3, 4])
        dup = rng.random() < 0.05
        frm = rand_doc(rng, depth, dup=dup)
        r = rng.random()
        if r < 0.65:
            to = frm
            for _ in range(rng.choice([1, 1, 2, 3])): to = mutate(rng, to)
            tag = 'mutation'
        elif r < 0.9: to = rand_doc(rng, depth, dup=(rng.random() < 0.05)); tag = 'independent'
        else: to = copy.deepcopy(frm); tag = 'equal'
        if rng.random() < 0.8: to = strip_nulls(to)
        else: tag += '+null-members'
        add_gen(frm, to, cs, [tag] + (['dup-keys'] if dup else []))
    # --- keys that differ only by case, below the first level (the recursion must keep its case sensitivity)
    CK = [('a', 'A'), ('k1', 'K1'), ('ab', 'aB'), ('z', 'Z'), ('ab', 'Ab')]
    for i in range(60 if quick else 600):
        lo, up = rng.choice(CK)
        inner_f = Obj([(lo, rand_doc(rng, 1, nulls=False)), (up, rand_doc(rng, 1, nulls=False))])
        if rng.random() < 0.5: inner_f.append((rng.choice(['m', 'q']), rng.choice(MNUMS)))
        inner_t = Obj([(k, v) for k, v in inner_f])
        r = rng.randrange(4)
        if r == 0: inner_t = Obj([(up, inner_f[0][1]), (lo, inner_f[1][1])] + list(inner_f[2:]))          # values swapped between the two spellings
        elif r == 1: inner_t = Obj([(k, v) for k, v in inner_f if k != lo])                               # one spelling removed
        elif r == 2: inner_t = Obj([(k, (rand_doc(rng, 1, nulls=False) if k == up else v)) for k, v in inner_f])
        else: inner_t = Obj([(k.swapcase() if k in (lo, up) else k, v) for k, v in inner_f][::-1])
        wrap = rng.choice([1, 2, 3])
        f, t = inner_f, inner_t
        for _ in range(wrap):
            key = rng.choice(['o', 'O', 'n'])
            f = Obj([(key, f), ('s', 1)]); t = Obj([('s', 1), (key, t)])
        rng.shuffle(f)
        cs = 1 if rng.random() < 0.8 else 0
        add_gen(f, t, cs, ['case-nested']); add_apply(f, derive_patch(rng, f, 3), cs, ['case-nested'])
    # --- values outside JSON (raw, NaN, infinities, invalid type): robustness and model correspondence only
    EX = [RawV('x'), RawV('y'), NumD(float('nan')), NumD(float('inf')), NumD(float('-inf')), Inval(), 1, None, 'x']
    for i in range(50 if quick else 500):
        def exo(d):
            if d <= 0 or rng.random() < 0.4: return rng.choice(EX)
            if rng.random() < 0.3: return [exo(d - 1) for _ in range(rng.choice([1, 2]))]
            return Obj([(k, exo(d - 1)) for k in rng.sample(['a', 'b', 'c', 'A'], rng.choice([1, 2, 3]))])
        a = exo(3); b = exo(3) if rng.random() < 0.5 else copy.deepcopy(a)
        cs = rng.choice([1, 1, 0])
        add_gen(a, b, cs, ['non-json-values'], flags=False); add_apply(a, b, cs, ['non-json-values'], flags=False)
    # --- numbers equal within the tolerance of compare_double whose integer views differ, at depth
    for i in range(40 if quick else 400):
        x = float(rng.choice([1, 2, 3, 7, 42, 100, 65536, 2147483647, -1, -5]))
        y = rng.choice([bits_dbl(dbl_bits(x) - 1), bits_dbl(dbl_bits(x) + 1), x])
        f = Obj([('n', x), ('o', Obj([('n', x), ('l', [x])]))]); t = Obj([('n', y), ('o', Obj([('n', y), ('l', [y])]))])
        add_gen(f, t, 1, ['number-tolerance']); add_gen(t, f, 1, ['number-tolerance'])
    return cases

def rfc7396_value(t, p):
    """python-side values (Obj / list / scalars): MergePatch(t, p), used only to build `to` documents"""
    if isinstance(p, Obj):
        tm = [(k, v) for k, v in t] if isinstance(t, Obj) else []
        for k, v in p:
            old = [x for q, x in tm if q == k]
            tm = [(q, x) for q, x in tm if q != k]
            if v is not None: tm.append((k, rfc7396_value(old[0] if old else None, v)))
        return Obj(tm)
    return copy.deepcopy(p)

# ---------------------------------------------------------------- projection / verdict
def project(c, out): return strip_suffix(out)

def _segments(out):
    o = strip_suffix(out)
    return [s.split() for s in o.split(' | ')]

def verdict(c, out, ctx):
    if is_crash(out): return 'crash / memory error: ' + out
    if out.startswith('UNKNOWNKIND') or out.startswith('BADCASE'): return 'harness: ' + out
    ap = alloc_problem(out)
    if ap: return ap
    try:
        try: kind, cs, op1, op2, claim = decode_case(c.line)
        except RecursionError:                      # nesting beyond what the python oracle walks: health checks only
            kind = c.line.split(' ', 1)[0]; cs = 0; op1 = op2 = None; claim = False
            if kind == 'mergepatch': return None if strip_suffix(out).split()[-1] == 'U' else 'merge_patch modified its patch operand'
            return None
        if kind == 'mergepatch':
            t = strip_suffix(out).split()
            if t[-1] != 'U': return 'merge_patch modified its patch operand'
            _, r, _ = parse_dump(t, 0)
            if claim:
                exp = rfc7396(op1, op2)
                if r is None: return 'merge_patch returned NULL, RFC 7396 gives a document'
                if not doc_eq(r, exp): return 'result of MergePatchCaseSensitive differs from RFC 7396 MergePatch(target, patch)'
                if not distinct_keys(r): return 'result of MergePatchCaseSensitive has duplicate or missing member names'
            return None
        seg = _segments(out)
        if len(seg) != 4: return 'malformed output'
        _, patch, _ = parse_dump(seg[0], 0); _, fa, _ = parse_dump(seg[1], 0); _, ta, _ = parse_dump(seg[2], 0)
        applied_ok = seg[3][0]; _, applied, _ = parse_dump(seg[3], 1)
        if not same_value(op1, fa): return 'generate_merge_patch changed the value of `from`'
        if not same_value(op2, ta): return 'generate_merge_patch changed the value of `to`'
        if claim:
            frm, to = op1, op2
            res = frm if patch is None else rfc7396(frm, patch)
            if not doc_eq(res, to): return 'RFC 7396 MergePatch(from, generated patch) differs from `to`' + (' (no patch generated)' if patch is None else '')
            if applied_ok != 'apply=1' or not doc_eq(applied, to): return 'applying the generated patch with the library does not give `to`'
            if patch is not None and frm[0] == 'o' and to[0] == 'o' and doc_eq(frm, to): return 'a patch was generated for two equal objects'
        return None
    except Exception as e:
        return 'malformed output (%r)' % (e,)

def nontrivial(c, out):
    return 'NULL' not in c.line.split()[2:3] and ' 64 ' in c.line and not is_crash(out)


# ---------------------------------------------------------------------------------------------------------------------------------
# The HEAP-LEVEL transliterations the companion file Properties_C18_Heap.v is about are executed against the library too
# (area uheap, tools/props/uheap.py): same operand trees, results, operand trees afterwards and allocator ledger compared.
from . import uheap as _UH
AREAS = ['merge', 'uheap']
MODEL_FILES = MODEL_FILES + '; heap-level: ' + _UH.MODEL_FILES
RULE = RULE + ' || area uheap (heap-level transliterations, kinds %s): ' % '/'.join(_UH.KINDS_OF['C18']) + _UH.RULE
_generate0, _project0, _verdict0, _nontrivial0 = generate, project, verdict, nontrivial
def generate(ctx): return _generate0(ctx) + _UH.generate(ctx, kinds=_UH.KINDS_OF['C18'])
def project(c, out): return _UH.project(c, out) if c.info.get('area') == 'uheap' else _project0(c, out)
def verdict(c, out, ctx): return _UH.verdict(c, out, ctx) if c.info.get('area') == 'uheap' else _verdict0(c, out, ctx)
def nontrivial(c, out): return _UH.nontrivial(c, out) if c.info.get('area') == 'uheap' else _nontrivial0(c, out)
