"""C16 — JSON Patch application follows RFC 6902 and survives any patch document."""
import sys
sys.setrecursionlimit(30000)
import random, copy
from .common import *
from .common import F_CONST
from . import patchgen as G

AREA = 'patch'
MODEL_FILES = ('PatchDefs.v (apply_patch, detach_path, decode_pointer_inplace, compare_json with in-place sorting, sort_list, cJSON_Duplicate, '
               'cJSONUtils_ApplyPatches[CaseSensitive]), PointerDefs.v (get_item_from_pointer, decode_array_index_from_pointer), Rfc6902.v (eval, doc_eqb, ops_of)')
RULE = ('documents over keys {"", "/", "~", "~0", "~1", "a/b", "m~n", "0", "01", "a", "A", "foo", "Foo"} (distinct per object), nested arrays/objects; three patch '
        'streams: (1) RFC-shaped operations: every op x object/array/root targets x indices 0/size-1/size/size+1/-/01/escaped x existing and new keys needing escapes, '
        'move/copy from every node incl. into own child and array-shift; (2) sequences repeating operations on a container after a test (equal value with permuted members); '
        '(3) arbitrary JSON values as patch (non-array, non-object elements, wrong types / missing op, path, from, value, unknown op, nested junk, odd pointers); (4) a sample of all of these with cJSON_StringIsConst on keys of patch and document members (members added with cJSON_AddItemToObjectCS: keys backed by caller memory whose release or modification is reported); both case modes. '
        'verdict = independent python RFC 6902 evaluator (status 0 iff it succeeds, result equal as documents), no crash, allocator balanced, ledger delta = blocks gained, '
        'sibling chains healthy; non-trivial = distinct (doc, patch) with a non-empty patch array')
ASSUMPTIONS = ['C locale', 'hand-written value-level transliteration (Tier B) validated by this differential run; that the primitives act on values as Tier B assumes is proved against the heap-level models (companion Properties_C16_TierBridge.v) and observed by the structural walk',
               'documents have distinct keys per object; conformance claimed for case-sensitive application, syntactically valid pointers, operation objects with distinct member names; '
               'removal of the whole document excluded', 'allocation failures are not part of this property', 'nesting below CJSON_CIRCULAR_LIMIT (cJSON_Duplicate)']

def corpus(ctx): return load_corpus(ctx['verif'], 'C16')

def case(cs, doc, patch, tags):
    line = 'applypatch %d %s %s' % (cs, ' '.join(value_tokens(doc)), ' '.join(value_tokens(patch)))
    return Case(line, {'tags': tags + (['cs'] if cs else ['ci']), 'doc': doc, 'patch': patch, 'cs': cs})

def constified(c, rng, tag='constant-keys'):
    """the same case with cJSON_StringIsConst on keys (as if the members had been added with cJSON_AddItemToObjectCS): the flag says who owns
    the key, it is not part of the JSON value, so status and resulting document are the same; the harness backs such keys by caller memory"""
    tok = c.line.split(' '); i = 2
    while i + 6 < len(tok):
        if tok[i] == 'N':
            if tok[i + 5] != '-' and rng.random() < 0.7: tok[i + 1] = str(int(tok[i + 1]) | F_CONST)
            i += 7
        else: i += 1
    info = dict(c.info); info['tags'] = list(info.get('tags', [])) + [tag]
    return Case(' '.join(tok), info)

def index_tokens(n):
    return list(dict.fromkeys(['0', str(max(n - 1, 0)), str(n), str(n + 1), '-', '01', '00', '1~1x', '0~0', '', '1e0', '-1', '18446744073709551616', '4294967296']))

def valid_stream(rng, doc, quick):
    """single RFC-shaped operations aimed at every target kind"""
    out = []
    ns = list(G.nodes(doc))
    conts = [(t, v) for t, v in ns if isinstance(v, (list, Obj))]
    some = lambda l, k: l if len(l) <= k else rng.sample(l, k)
    val = lambda: rng.choice([G.rand_scalar(rng), G.rand_doc(rng, 2, G.PKEYS, False), Obj([('b', 1), ('a', [1, Obj([('z', 1), ('y', 2)])])])])
    for toks, c in some(conts, 3 if quick else 8):
        base = G.ptr(toks)
        if isinstance(c, list):
            lasts = index_tokens(len(c)); lasts = some(lasts, 6 if quick else 20)
        else:
            have = [k for k, _ in c]; new = [k for k in G.PKEYS if k not in have]
            lasts = [G.esc(k) for k in some(have, 3) + some(new, 3 if quick else 6)] + ['a~2', '~']
        for last in lasts:
            p = base + '/' + last
            ops = [G.mk_op('add', p, val(), rng=rng), G.mk_op('remove', p, rng=rng), G.mk_op('replace', p, val(), rng=rng)]
            try: cur = G.get(doc, G.parse_pointer(p)); ops += [G.mk_op('test', p, G.shuffled(copy.deepcopy(cur), rng), rng=rng)]
            except Exception: pass
            ops += [G.mk_op('test', p, val(), rng=rng)]
            if ns:
                ft, _ = rng.choice(ns)
                ops += [G.mk_op('move', p, frm=G.ptr(ft), rng=rng), G.mk_op('copy', p, frm=G.ptr(ft), rng=rng)]
            for o in (ops if not quick else rng.sample(ops, min(len(ops), 4))): out.append(([o], ['valid', o_kind(o)]))
    # root targets
    for o in [G.mk_op('add', '', val()), G.mk_op('replace', '', val()), G.mk_op('test', '', G.shuffled(copy.deepcopy(doc), rng)), G.mk_op('test', '', val()),
              G.mk_op('remove', ''), G.mk_op('copy', '', frm=G.ptr(rng.choice(ns)[0])), G.mk_op('move', '', frm=G.ptr(rng.choice(ns)[0])),
              G.mk_op('copy', G.ptr(rng.choice(conts)[0]) + '/a' if conts else '/a', frm='')]:
        out.append(([o], ['valid', 'root', o_kind(o)]))
    # move / copy between arbitrary nodes, into own children, array shift
    for _ in range(4 if quick else 12):
        (ft, _), (tt, tv) = rng.choice(ns), rng.choice(ns)
        for opn in ('move', 'copy'):
            out.append(([G.mk_op(opn, G.ptr(tt), frm=G.ptr(ft), rng=rng)], ['valid', opn]))
            out.append(([G.mk_op(opn, G.ptr(ft) + '/' + rng.choice(['x', '0', '-', 'a~1b']), frm=G.ptr(ft), rng=rng)], ['valid', opn, 'own-child']))
            if isinstance(tv, list): out.append(([G.mk_op(opn, G.ptr(tt) + '/' + rng.choice(index_tokens(len(tv))), frm=G.ptr(ft), rng=rng)], ['valid', opn]))
    return out

def o_kind(o):
    for k, v in o:
        if k == 'op' and isinstance(v, str): return 'op:' + v
    return 'op:?'

def seq_stream(rng, doc, quick):
    """test on a container (equal value, members permuted) followed by more operations on the same container;
    mostly sequences that succeed as a whole (checked with the python evaluator while building)"""
    out = []
    conts = [(t, v) for t, v in G.nodes(doc) if isinstance(v, (list, Obj))]
    for _ in range(3 if quick else 8):
        if not conts: break
        toks, c = rng.choice(conts); base = G.ptr(toks)
        ops = [G.mk_op('test', base, G.shuffled(copy.deepcopy(c), rng))]
        def current():
            k, r = G.apply_patch_doc(doc, ops)
            if k != 'ok': return None
            try: return G.get(r, list(toks))
            except Exception: return None
        for _ in range(rng.choice([1, 2, 3, 5, 8])):
            cur = current()
            if cur is None: break
            k = rng.randrange(7)
            if isinstance(cur, Obj):
                key = rng.choice(G.PKEYS); have = [a for a, _ in cur]
                if k <= 1: o = G.mk_op('add', base + '/' + G.esc(key), rng.choice([1, 'v', [1], Obj([('q', 1), ('p', 2)])]))
                elif k == 2 and have: o = G.mk_op('remove', base + '/' + G.esc(rng.choice(have)))
                elif k == 3 and have: o = G.mk_op('replace', base + '/' + G.esc(rng.choice(have)), Obj([('b', 1), ('a', 2)]))
                elif k == 4 and have: o = G.mk_op('move', base + '/' + G.esc(key), frm=base + '/' + G.esc(rng.choice(have)))
                elif k == 5 and have: o = G.mk_op('copy', base + '/' + G.esc(key), frm=base + '/' + G.esc(rng.choice(have)))
                else: o = G.mk_op('test', base, G.shuffled(copy.deepcopy(cur), rng))
            elif isinstance(cur, list):
                n = len(cur)
                if k <= 1: o = G.mk_op('add', base + '/' + rng.choice(['-', '0', str(n)]), rng.choice([1, 'v', Obj([('q', 1), ('p', 2)])]))
                elif k == 2 and n: o = G.mk_op('remove', base + '/' + str(rng.randrange(n)))
                elif k == 3 and n: o = G.mk_op('replace', base + '/' + str(rng.randrange(n)), Obj([('b', 1), ('a', 2)]))
                elif k == 4 and n: o = G.mk_op('move', base + '/' + str(rng.randrange(n)), frm=base + '/' + str(rng.randrange(n)))
                elif k == 5: o = G.mk_op('copy', base + '/-', frm=base + ('/0' if n else ''))
                else: o = G.mk_op('test', base, G.shuffled(copy.deepcopy(cur), rng))
            else: break
            ops.append(o)
        if rng.random() < 0.15: ops.append(G.mk_op('test', base, rng.choice([1, Obj(), G.shuffled(copy.deepcopy(c), rng)])))
        elif rng.random() < 0.15: ops.insert(rng.randrange(len(ops) + 1), copy.deepcopy(rng.choice(JUNK_ELEMS)))
        out.append((ops, ['sequence', 'len=%d' % len(ops)]))
    return out

JUNK_ELEMS = [None, True, 0, 1.5, 'add', [], [1, 2], Obj(), Obj([('op', 'add')]), Obj([('path', '/a')]), Obj([('op', 1), ('path', '/a')]), Obj([('op', None), ('path', '')]),
              Obj([('op', ['add']), ('path', '/a'), ('value', 1)]), Obj([('op', 'ADD'), ('path', '/a'), ('value', 1)]), Obj([('op', 'foo'), ('path', '/a')]), Obj([('op', ''), ('path', '')]),
              Obj([('op', 'add'), ('path', 1), ('value', 1)]), Obj([('op', 'add'), ('path', None)]), Obj([('op', 'add'), ('path', ['/a']), ('value', 1)]), Obj([('op', 'add'), ('path', Obj([('a', 1)]))]),
              Obj([('op', 'add'), ('path', '/a')]), Obj([('op', 'replace'), ('path', '/a')]), Obj([('op', 'replace'), ('path', '')]), Obj([('op', 'test'), ('path', '')]), Obj([('op', 'test'), ('path', '/a')]),
              Obj([('op', 'move'), ('path', '/a')]), Obj([('op', 'copy'), ('path', '/a')]), Obj([('op', 'move'), ('path', '/a'), ('from', 3)]), Obj([('op', 'copy'), ('path', '/a'), ('from', 3)]),
              Obj([('op', 'move'), ('path', '/a'), ('from', None)]), Obj([('op', 'copy'), ('path', '/a'), ('from', ['/a'])]), Obj([('op', 'move'), ('path', ''), ('from', Obj())]),
              Obj([('op', 'move'), ('path', '/b'), ('from', '/nope')]), Obj([('op', 'copy'), ('path', '/b'), ('from', '/nope')]), Obj([('op', 'move'), ('path', ''), ('from', '')]),
              Obj([('op', 'copy'), ('path', ''), ('from', '')]), Obj([('op', 'add'), ('path', 'a'), ('value', 1)]), Obj([('op', 'remove'), ('path', 'a')]), Obj([('op', 'remove'), ('path', '/')]),
              Obj([('op', 'add'), ('path', '/a~'), ('value', 1)]), Obj([('op', 'add'), ('path', '/~2'), ('value', 1)]), Obj([('op', 'remove'), ('path', '/~1x~2')]), Obj([('op', 'add'), ('path', '/~0~'), ('value', 1)]),
              Obj([('op', 'test'), ('path', 'x'), ('value', 1)]), Obj([('op', 'add'), ('path', '//'), ('value', 1)]), Obj([('op', 'add'), ('path', '/a/b/c/d'), ('value', 1)]),
              Obj([('Op', 'add'), ('Path', '/a'), ('Value', 1)]), Obj([('OP', 'remove'), ('PATH', '/a')]), Obj([('op', 'add'), ('path', '/a'), ('VALUE', 1)]),
              Obj([('op', 'add'), ('path', '/a'), ('value', 1), ('extra', [1, Obj([('x', None)])])]), Obj([('value', Obj([('op', 'add')])), ('op', 'add'), ('path', '/v')]),
              Obj([('op', 'remove'), ('path', '/a'), ('op2', 'add')]), Obj([('op', 'add'), ('op', 'remove'), ('path', '/a'), ('value', 1)]), Obj([('op', 'add'), ('path', '/a'), ('path', '/b'), ('value', 2)])]

def junk_stream(rng, doc, quick):
    out = []
    ns = list(G.nodes(doc))
    for p in [None, True, 7, 'patch', Obj(), Obj([('op', 'add'), ('path', '/a'), ('value', 1)]), Obj([('0', Obj([('op', 'remove'), ('path', '/a')]))])]:
        if rng.random() < (0.3 if quick else 1): out.append((p, ['junk', 'non-array']))
    good = lambda: G.mk_op('add', G.ptr(rng.choice(ns)[0]) + '/' + rng.choice(['a', '-', '0']), 1)
    for _ in range(6 if quick else 25):
        n = rng.choice([1, 1, 2, 3])
        els = []
        for _ in range(n):
            r = rng.random()
            if r < 0.55: els.append(copy.deepcopy(rng.choice(JUNK_ELEMS)))
            elif r < 0.75: els.append(good())
            else: els.append(rand_json_value(rng, depth=3, keys=['op', 'path', 'value', 'from', 'a', 'x'], strs=['add', 'remove', 'test', '/a', '', '/0', 'move', 'copy', 'replace']))
        out.append((els, ['junk', 'elements']))
    return out

FIXED_DOCS = [Obj([('foo', 1), ('Foo', 2), ('a/b', [10, 11, 12]), ('m~n', Obj([('~', 1), ('/', 2)])), ('', Obj([('', 0)]))]),
              [Obj([('a', 1)]), Obj([('b', 2)]), [1, 2, 3]], Obj([('b', 1), ('a', 2)]), Obj([('a', Obj([('b', Obj([('c', 1)]))]))]), [], Obj(), 5, 'str', None,
              Obj([('arr', [10, 11, 12]), ('0', 'zero'), ('01', 'zero-one')])]

def generate(ctx):
    rng = random.Random(ctx['seed'] * 7919 + 16)
    quick = ctx['tier'] == 'quick'
    cases = []
    docs = [copy.deepcopy(d) for d in FIXED_DOCS] + [G.rand_doc(rng, rng.choice([1, 2, 3, 3])) for _ in range(60 if quick else 600)]
    for doc in docs:
        for ops, tags in valid_stream(rng, doc, quick) + seq_stream(rng, doc, quick):
            cs = 1 if rng.random() < 0.85 else 0
            cases.append(case(cs, doc, list(ops), tags))
        for patch, tags in junk_stream(rng, doc, quick):
            cs = 1 if rng.random() < 0.7 else 0
            cases.append(case(cs, doc, patch, tags))
    # `test` without a "value" member, on paths that designate nothing and on paths that designate something (both sides absent must not
    # count as equal), alone and guarding a destructive operation
    if ctx.get('seed_index', 0) == 0:
        for doc in (Obj([('keep', 1), ('l', [1, 2])]), [1, 2], Obj()):
            for path in ('/lock', '/l/7', '/keep', '/l/0', '', '/keep/x', '/-'):
                t = Obj([('op', 'test'), ('path', path)])
                for ops in ([t], [t, G.mk_op('remove', '/keep')], [t, G.mk_op('add', '/new', 1)]):
                    cases.append(case(1, copy.deepcopy(doc), copy.deepcopy(ops), ['test-without-value']))
    # the number comparison of `test`: pairs on both sides of the relative tolerance at every magnitude (tiny, subnormal, around 1, huge)
    if ctx.get('seed_index', 0) == 0:
        for x, y in G.NUM_PAIRS + [(1e-20, 2e-20), (1e-20, 0), (1e-17, -1e-17), (0.25, 0.25000000000000006), (1e-5, 1.0000000000000002e-5)]:
            for a, b in ((x, y), (y, x), (x, x)):
                doc = Obj([('n', a), ('l', [1, a])])
                for ops in ([G.mk_op('test', '/n', b)], [G.mk_op('test', '/l/1', b)], [G.mk_op('test', '/l', [1, b])], [G.mk_op('test', '', Obj([('l', [1, b]), ('n', b)]))],
                            [G.mk_op('test', '/n', b), G.mk_op('remove', '/l')]):
                    cases.append(case(1, copy.deepcopy(doc), ops, ['test-number-pairs']))
    # patch documents and documents whose members were added with cJSON_AddItemToObjectCS (constant keys are borrowed memory)
    for c in rng.sample(cases, min(len(cases), 600 if quick else 3000)) + [c for c in cases if 'root' in c.info['tags']]:
        cases.append(constified(c, rng))
    # documents nested about as deep as the parser accepts: operations at the bottom, and test on deep values
    if ctx.get('seed_index', 0) == 0:
        NL = nesting_limit(ctx['repo'])
        for depth in (NL - 3, NL - 2, NL - 1):
            d = [1, 2]
            for _ in range(depth): d = [d]
            bottom = '/0' * depth
            for ops in ([G.mk_op('test', '', copy.deepcopy(d))], [G.mk_op('test', bottom, [1, 2])], [G.mk_op('replace', bottom + '/1', 5)], [G.mk_op('add', bottom + '/-', 3)],
                        [G.mk_op('remove', bottom + '/0')], [G.mk_op('copy', bottom + '/2', frm=bottom + '/0')], [G.mk_op('move', bottom + '/1', frm=bottom + '/0')],
                        [G.mk_op('test', bottom + '/0', 2)]):
                cases.append(case(1, copy.deepcopy(d), ops, ['deep']))
    # pointer texts of every length around 64 / 128 / 256 bytes (boundaries of any fixed-size scratch copy of a pointer)
    if ctx.get('seed_index', 0) == 0:
        for L in list(range(58, 70)) + [126, 127, 128, 129, 254, 255, 256, 257, 258]:
            key = 'k' * (L - 1); doc = Obj([(key, 1), ('z', [1, 2])])
            for ops in ([G.mk_op('remove', '/' + key)], [G.mk_op('replace', '/' + key, 5)], [G.mk_op('move', '/m', frm='/' + key)], [G.mk_op('copy', '/' + key, frm='/z')],
                        [G.mk_op('add', '/' + key + 'x', True)], [G.mk_op('test', '/' + key, 1)]):
                cases.append(case(1, copy.deepcopy(doc), ops, ['pointer-length', 'len=%d' % L]))
    return cases

def project(c, out):
    # the property fixes: status zero / non-zero, and on success the resulting document (as a value); WHICH non-zero code is returned and
    # what a failed application leaves behind (beyond a well-formed tree, which the verdict checks) are not fixed
    o = strip_suffix(out)
    if is_crash(o): return 'CRASH'
    tok = o.split()
    if not tok or not tok[0].lstrip('-').isdigit(): return o
    if tok[0] != '0': return 'FAILED'
    return o

def verdict(c, out, ctx):
    if is_crash(out): return 'crash / memory error: ' + out
    ap = alloc_problem(out)
    if ap: return ap
    tok = strip_suffix(out).split()
    try:
        st = int(tok[0]); assert tok[1] == 'D'
        dlen = G.tree_len(tok, 2); ppos = 2 + dlen; assert tok[ppos] == 'P'
        plen = G.tree_len(tok, ppos + 1)
        delta = [t for t in tok if t.startswith('delta=')][0]
        after, _, _ = G.parse_dump(tok, 2)
    except Exception as e:
        return 'malformed output (%r): %s' % (e, out[:120])
    # the ledger grew exactly by what document and patch gained
    intok = c.line.split()
    before = G.count_blocks(intok, 2, len(intok))
    now = G.count_blocks(tok, 2, ppos) + G.count_blocks(tok, ppos + 1, ppos + 1 + plen)
    if int(delta[6:]) != now - before: return 'allocation ledger changed by %s but the trees gained %d blocks (leak or lost block)' % (delta[6:], now - before)
    if 'doc' in c.info: doc, patch, cs = c.info['doc'], c.info['patch'], c.info['cs']
    else:   # corpus / replay line: read the inputs back from the case line
        cs = int(intok[1]); doc, _, p2 = G.parse_dump(intok, 2); patch, _, _ = G.parse_dump(intok, p2)
    if not cs: return None
    kind, res = G.apply_patch_doc(doc, patch)
    if kind == 'noclaim': return None
    if kind == 'fail':
        if st == 0: return 'status 0 but RFC 6902 evaluation fails (%s)' % res
        return None
    if st != 0: return 'status %d but RFC 6902 evaluation succeeds' % st
    if not G.doc_eq(after, res): return 'status 0 but the document differs from the RFC 6902 result'
    return None

def nontrivial(c, out):
    p = c.info.get('patch')
    return isinstance(p, list) and not isinstance(p, Obj) and len(p) > 0 and not is_crash(out)


# ---------------------------------------------------------------------------------------------------------------------------------
# The HEAP-LEVEL transliterations the companion file Properties_C16_Heap.v is about are executed against the library too
# (area uheap, tools/props/uheap.py): same operand trees, results, operand trees afterwards and allocator ledger compared.
from . import uheap as _UH
AREAS = ['patch', 'uheap']
MODEL_FILES = MODEL_FILES + '; heap-level: ' + _UH.MODEL_FILES
RULE = RULE + ' || area uheap (heap-level transliterations, kinds %s): ' % '/'.join(_UH.KINDS_OF['C16']) + _UH.RULE
_generate0, _project0, _verdict0, _nontrivial0 = generate, project, verdict, nontrivial
def generate(ctx): return _generate0(ctx) + _UH.generate(ctx, kinds=_UH.KINDS_OF['C16'])
def project(c, out): return _UH.project(c, out) if c.info.get('area') == 'uheap' else _project0(c, out)
def verdict(c, out, ctx): return _UH.verdict(c, out, ctx) if c.info.get('area') == 'uheap' else _verdict0(c, out, ctx)
def nontrivial(c, out): return _UH.nontrivial(c, out) if c.info.get('area') == 'uheap' else _nontrivial0(c, out)
