(** RoundTripEvidence.v — property C04: evidence about the libc contract [LibcRoundTripSpec]
    and non-vacuity, with the executable reference implementations (LibcNum.strtod_ref,
    LibcPrint.fmt_d / fmt_g15 / fmt_g17 / sscanf_lg).

    * what is PROVED for the reference implementations here: clause S (clause N2 is in
      RoundTripRef.v, clause V in RoundTripRefValid.v; joint satisfiability of all clauses, by an
      artificial library, in RoundTripModel.v);
    * TESTS (labelled [test_...]): every clause of the contract written as a boolean check and
      evaluated by [vm_compute] on a table of boundary doubles / ints.  These are tests, not
      proofs: they validate the contract on samples; the correspondence check compares the
      reference implementations with the real C library on every number of every run;
    * the pinned defect F3 ([compare_double] without the non-finite guard accepts a 15-digit
      text that reads back as infinity) re-derived as a theorem;
    * a concrete nested tree satisfying all tree hypotheses of the C04 theorems, with the
      whole print / parse / print cycle evaluated. *)
From CJ Require Import Base Dbl Tree LibcNum LibcPrint Grammar ParseDefs ParseSpec ParseComplete
  ParseListStrtod PrintDefs PrintStrict CompareProofs RoundTripNum RoundTrip RoundTripModel.
Local Open Scope Z_scope.

(** * Proved for the reference implementations *)

(** clause S: the reference sscanf "%lg" IS the reference strtod *)
Lemma ref_scan t d : sscanf_lg t = Some d <-> exists k, strtod_ref t = Some (d, k).
Proof.
  unfold sscanf_lg. destruct (strtod_ref t) as [[d0 k0]|]; split.
  - intros H. injection H as <-. exists k0. reflexivity.
  - intros [k H]. injection H as <- _. reflexivity.
  - discriminate.
  - intros [k H]. discriminate.
Qed.

(** * The clauses as boolean checks *)

(** [sf_same] (RoundTripModel.v): identical representation *)

(* V, on the conversions the printer's texts go through *)
Definition chk_valid (t : bytes) : bool :=
  match strtod_ref t with Some (d, _) => valid_dbl d | None => true end.
(* N2, with the consumed length *)
Definition chk_d (z : Z) : bool :=
  match strtod_ref (fmt_d z) with
  | Some (t, k) => sf_same t (dbl_of_int z) && (k =? length (fmt_d z))%nat
  | None => false
  end.
(* N3, with the consumed length *)
Definition chk_g17 (d : dbl) : bool :=
  match strtod_ref (fmt_g17 d) with
  | Some (t, k) => sf_same t d && (k =? length (fmt_g17 d))%nat
  | None => false
  end.
(* the 15-digit text is converted completely to a well-formed double *)
Definition chk_g15_complete (d : dbl) : bool :=
  match strtod_ref (fmt_g15 d) with
  | Some (t, k) => (k =? length (fmt_g15 d))%nat && valid_dbl t
  | None => false
  end.
(* N4 *)
Definition chk_g15_stable (d : dbl) : bool :=
  match strtod_ref (fmt_g15 d) with
  | Some (t, _) => if is_finite t then bytes_eqb (fmt_g15 t) (fmt_g15 d) else true
  | None => true
  end.
(* N4z *)
Definition chk_g15_nonzero (d : dbl) : bool :=
  match strtod_ref (fmt_g15 d) with
  | Some (t, _) => if is_zero t then is_zero d else true
  | None => true
  end.
(* N5a *)
Definition chk_g15_int (z : Z) : bool := bytes_eqb (fmt_g15 (dbl_of_int z)) (fmt_d z).
(* N5b *)
Definition chk_g15_exact (z : Z) : bool :=
  match strtod_ref (fmt_g15 (dbl_of_int z)) with
  | Some (t, _) => sf_same t (dbl_of_int z)
  | None => false
  end.
(* the contract of PrintStrict on the same samples: RFC 8259 spelling and length *)
Definition chk_strict_d (z : Z) : bool :=
  rfc_number (fmt_d z) && (zlen (fmt_d z) <=? c_NUMBER_BUFFER_SIZE - 1).
Definition chk_strict_g (d : dbl) : bool :=
  rfc_number (fmt_g15 d) && (zlen (fmt_g15 d) <=? c_NUMBER_BUFFER_SIZE - 1) &&
  rfc_number (fmt_g17 d) && (zlen (fmt_g17 d) <=? c_NUMBER_BUFFER_SIZE - 1).

(** the whole cycle of one number, as [number_roundtrip] states it *)
Definition chk_number (d : dbl) : bool :=
  let vi := sat_int d in
  let txt := number_text fmt_d fmt_g15 fmt_g17 sscanf_lg vi d in
  match strtod_ref txt with
  | Some (d', k) =>
      (k =? length txt)%nat && is_finite d' && valid_dbl d' && compare_double d' d &&
      bytes_eqb (number_text fmt_d fmt_g15 fmt_g17 sscanf_lg (sat_int d') d') txt
  | None => false
  end.

(** * The tables *)

(** IEEE 754 binary64 bit patterns: 0, -0, 1, -1, 0.1, 1/3, 0.30000000000000004, 1e15,
    999999999999999, 1e16, 123456789012345678, 1e-5, 1e-4, DBL_MAX, DBL_MIN (2.2250738585072014e-308),
    5e-324, 2^53+2, 1e21, 1e22, 1e23, 4.35, 2147483647, -2147483648, 2147483648, -2147483649,
    2.9999999999999996, 0.5, 1e-7, 123456.789, 2^53, 2^52+2, the largest subnormal, 1.5, 1e300,
    -1e-300, 299792458, 6.02214076e23, 100000000000000.5, 0.00012345678901234567, 1e-310 *)
Definition table_bits : list Z :=
 [0x0000000000000000; 0x8000000000000000; 0x3FF0000000000000; 0xBFF0000000000000; 0x3FB999999999999A;
  0x3FD5555555555555; 0x3FD3333333333334; 0x430C6BF526340000; 0x430C6BF52633FFF8; 0x4341C37937E08000;
  0x437B69B4BA630F35; 0x3EE4F8B588E368F1; 0x3F1A36E2EB1C432D; 0x7FEFFFFFFFFFFFFF; 0x0010000000000000;
  0x0000000000000001; 0x4340000000000001; 0x444B1AE4D6E2EF50; 0x4480F0CF064DD592; 0x44B52D02C7E14AF6;
  0x4011666666666666; 0x41DFFFFFFFC00000; 0xC1E0000000000000; 0x41E0000000000000; 0xC1E0000000200000;
  0x4007FFFFFFFFFFFF; 0x3FE0000000000000; 0x3E7AD7F29ABCAF48; 0x40FE240C9FBE76C9; 0x4340000000000000;
  0x4330000000000002; 0x000FFFFFFFFFFFFF; 0x3FF8000000000000; 0x7E37E43C8800759C; 0x81A56E1FC2F8F359;
  0x41B1DE784A000000; 0x44DFE185CA57C517; 0x42D6BCC41E900020; 0x3F202E85BE180B74; 0x000012688B70E62B].
Definition table : list dbl := map sf_of_bits table_bits.

Definition table_ints : list Z :=
  [0; 1; -1; 9; 10; -10; 99; 100; 12345; 2147483647; -2147483648; 2147483646; -2147483647;
   1000000000; 999999999; -1000000000; 65536; 4294967].
Definition table_ints15 : list Z :=
  table_ints ++ [2147483648; -2147483649; 4294967296; 999999999999999; -999999999999999;
                 100000000000000; 123456789012345; 9007199254740; 562949953421312; 999999999999998].

(** * TESTS (vm_compute on the tables; not proofs of the clauses) *)
Example test_table_wellformed : forallb valid_dbl table = true /\ forallb is_finite table = true.
Proof. vm_compute. split; reflexivity. Qed.
Example test_N2_d : forallb chk_d table_ints = true.
Proof. vm_compute. reflexivity. Qed.
Example test_N3_g17 : forallb chk_g17 table = true.
Proof. vm_compute. reflexivity. Qed.
Example test_C_g15_complete : forallb chk_g15_complete table = true.
Proof. vm_compute. reflexivity. Qed.
Example test_N4_g15_stable : forallb chk_g15_stable table = true.
Proof. vm_compute. reflexivity. Qed.
Example test_N4z_g15_nonzero : forallb chk_g15_nonzero table = true.
Proof. vm_compute. reflexivity. Qed.
Example test_N5a_g15_int : forallb chk_g15_int table_ints = true.
Proof. vm_compute. reflexivity. Qed.
Example test_N5b_g15_exact : forallb chk_g15_exact table_ints15 = true.
Proof. vm_compute. reflexivity. Qed.
Example test_V_valid :
  forallb (fun d => chk_valid (fmt_g15 d) && chk_valid (fmt_g17 d)) table = true /\
  forallb (fun z => chk_valid (fmt_d z)) table_ints = true.
Proof. vm_compute. split; reflexivity. Qed.
Example test_strict : forallb chk_strict_g table = true /\ forallb chk_strict_d table_ints = true.
Proof. vm_compute. split; reflexivity. Qed.
Example test_number_cycle : forallb chk_number table = true.
Proof. vm_compute. reflexivity. Qed.

(** which branch print_number takes on the table (1 = %d, 15, 17): documents that all three
    branches are exercised, and where *)
Definition branch (d : dbl) : Z :=
  let vi := sat_int d in
  if deq d (dbl_of_int vi) then 1
  else match sscanf_lg (fmt_g15 d) with
       | Some t => if compare_double t d then 15 else 17
       | None => 17
       end.
Example test_branches :
  map branch table =
  [1; 1; 1; 1; 15; 17; 15; 15; 15; 15; 17; 15; 15; 17; 17; 15; 17; 15; 15; 15; 15; 1; 1; 15; 15;
   15; 15; 15; 15; 15; 17; 17; 15; 15; 15; 1; 15; 17; 17; 15].
Proof. vm_compute. reflexivity. Qed.

(** * F3: the pinned tolerance comparison accepted a text that reads back as infinity *)

(** print_number's decision with the old compare_double (no guard for non-finite operands) *)
Definition number_text_pinned (vint : Z) (d : dbl) : bytes :=
  if is_nan d || is_inf d then lit_null
  else if deq d (dbl_of_int vint) then fmt_d vint
  else
    let t15 := fmt_g15 d in
    match sscanf_lg t15 with
    | Some test => if compare_double_pinned test d then t15 else fmt_g17 d
    | None => fmt_g17 d
    end.

(** with the pinned comparison DBL_MAX is printed as 1.79769313486232e+308, which strtod reads
    back as +infinity: the number is not preserved, and the re-parsed tree then prints as
    null; with the current comparison the 17-digit text is chosen and reads back exactly *)
Theorem roundtrip_number_refuted_pinned :
  exists d, is_finite d = true /\ valid_dbl d = true /\
    read_back strtod_ref (number_text_pinned (sat_int d) d) = S754_infinity false /\
    compare_double (read_back strtod_ref (number_text_pinned (sat_int d) d)) d = false /\
    read_back strtod_ref (number_text fmt_d fmt_g15 fmt_g17 sscanf_lg (sat_int d) d) = d.
Proof. exists DBL_MAX. vm_compute. repeat split. Qed.

(** * Non-vacuity: a concrete tree through the whole cycle *)
Definition ex_num (d : dbl) : node := Node c_cJSON_Number None (sat_int d) d None [].
Definition ex_str (s : bytes) : node := Node c_cJSON_String (Some s) 0 dzero None [].
Definition ex_key (k : bytes) (n : node) : node :=
  match n with Node t s i d _ c => Node t s i d (Some k) c end.
Definition ex_lit (t : Z) : node := Node t None 0 dzero None [].

(** an object with the members
      a : [0.1, 1/3, 42, -7, -0.0, DBL_MAX, 5e-324, 1e15, 2147483648, null, false, true]
      (name with a quote, a newline, byte 01, byte C8) : string with backslash, tab, FF, 1F
      (empty name) : empty object
      c : empty array
      d : object with the duplicate members  e : [[]]  and  e : 2.9999999999999996
    — with a StringIsConst flag on one member, a reference flag on another, and a stale name
    on an array element (all ignored by the printer, all legal for the construction API) *)
Definition ex_tree : node :=
  Node c_cJSON_Object None 0 dzero None
    [ ex_key [97] (Node c_cJSON_Array None 0 dzero None
        [ ex_num (sf_of_bits 0x3FB999999999999A); ex_num (sf_of_bits 0x3FD5555555555555);
          ex_num (dbl_of_int 42); ex_key [120] (ex_num (dbl_of_int (-7)));
          ex_num (sf_of_bits 0x8000000000000000); ex_num DBL_MAX; ex_num (sf_of_bits 1);
          ex_num (sf_of_bits 0x430C6BF526340000); ex_num (sf_of_bits 0x41E0000000000000);
          ex_lit c_cJSON_NULL; ex_lit c_cJSON_False; ex_lit c_cJSON_True ]);
      ex_key [98; 34; 10; 1; 200] (ex_str [104; 92; 9; 255; 31]);
      ex_key [] (ex_lit c_cJSON_Object);
      Node (c_cJSON_Array + c_cJSON_StringIsConst) None 0 dzero (Some [99]) [];
      ex_key [100] (Node (c_cJSON_Object + c_cJSON_IsReference) None 0 dzero None
        [ ex_key [101] (Node c_cJSON_Array None 0 dzero None [ex_lit c_cJSON_Array]);
          ex_key [101] (ex_num (sf_of_bits 0x4007FFFFFFFFFFFF)) ]) ].

(** boolean version of [same_shape] without the integer clause, for evaluation only *)
Fixpoint same_shape_b (n n' : node) : bool :=
  match n, n' with
  | Node ty vs vi vd _ ch, Node ty' vs' vi' vd' _ ch' =>
    let t := tymask ty in
    (tymask ty' =? t) &&
    (if t =? c_cJSON_Number then compare_double vd' vd && (vi' =? sat_int vd')
     else if t =? c_cJSON_String then
       match vs' with Some s' => bytes_eqb s' (str_bytes vs) | None => false end
     else if t =? c_cJSON_Array then
       (fix go (l l' : list node) : bool :=
          match l, l' with
          | [], [] => true
          | c :: r, c' :: r' => same_shape_b c c' && go r r'
          | _, _ => false
          end) ch ch'
     else if t =? c_cJSON_Object then
       (fix go (l l' : list node) : bool :=
          match l, l' with
          | [], [] => true
          | c :: r, c' :: r' =>
              match n_key c' with Some k' => bytes_eqb k' (str_bytes (n_key c)) | None => false end
              && same_shape_b c c' && go r r'
          | _, _ => false
          end) ch ch'
     else true)
  end.

Definition ref_render := render fmt_d fmt_g15 fmt_g17 sscanf_lg.
Definition ref_reparsed := reparsed strtod_ref fmt_d fmt_g15 fmt_g17 sscanf_lg.

(** the tree hypotheses of the C04 theorems hold for the example *)
Theorem roundtrip_nonvacuous_tree :
  printable ex_tree = true /\ rt_ok ex_tree = true /\ (cdepth ex_tree <= nesting_limit)%nat /\
  cdepth ex_tree = 4%nat /\ strtod_ok strtod_ref /\ strtod_rfc strtod_ref.
Proof.
  split; [vm_compute; reflexivity|]. split; [vm_compute; reflexivity|].
  split; [apply Nat.leb_le; vm_compute; reflexivity|]. split; [vm_compute; reflexivity|].
  split; [exact strtod_ref_ok|exact strtod_ref_rfc].
Qed.

(** TEST: the conclusions of [roundtrip_value] / [print_fixed_point] evaluated on the example
    with the reference C library, for both formats: the text is accepted up to its last byte,
    the tree is [reparsed ex_tree], it has the shape of the example, and it prints to the same
    bytes again *)
Example test_roundtrip_example :
  forall fmt, exists txt t',
    ref_render fmt 0 ex_tree = Some txt /\
    text_l strtod_ref txt false = Some (t', []) /\
    text_l strtod_ref (txt ++ [0]) true = Some (t', [0]) /\
    t' = ref_reparsed ex_tree /\ same_shape_b ex_tree t' = true /\
    ref_render true 0 t' = ref_render true 0 ex_tree /\
    ref_render false 0 t' = ref_render false 0 ex_tree.
Proof.
  intros [|]; eexists; eexists; (split; [vm_compute; reflexivity|]);
    (split; [vm_compute; reflexivity|]); (split; [vm_compute; reflexivity|]);
    (split; [vm_compute; reflexivity|]); (split; [vm_compute; reflexivity|]);
    split; vm_compute; reflexivity.
Qed.

(** TEST: the same through the transliterated entry point cJSON_Parse *)
Example test_roundtrip_example_parse :
  forall fmt, exists txt r,
    ref_render fmt 0 ex_tree = Some txt /\
    cJSON_Parse strtod_ref never_fails (txt ++ [0]) = Ok r /\
    pr_tree r = Some (ref_reparsed ex_tree).
Proof.
  intros [|]; eexists; eexists; (split; [vm_compute; reflexivity|]);
    (split; [vm_compute; reflexivity|]); vm_compute; reflexivity.
Qed.

(** the additional hypotheses of the buffer-level theorems (RoundTripPrint.v) hold for the
    example, and — TEST — the transliterated cJSON_Print / cJSON_PrintBuffered return exactly the
    rendered text and its terminator, with and without realloc, for several prebuffer sizes *)
Theorem roundtrip_nonvacuous_fields :
  fields_ok ex_tree = true /\
  forall fmt txt, ref_render fmt 0 ex_tree = Some txt -> zlen txt + 2 <= c_INT_MAX.
Proof.
  split; [vm_compute; reflexivity|].
  intros [|] txt H; vm_compute in H; injection H as <-; vm_compute; intro C; discriminate C.
Qed.

Definition ref_print (junk : nat -> Z) (n : node) (fmt hr : bool) :=
  print fmt_d fmt_g15 fmt_g17 sscanf_lg (fun _ => false) junk n fmt hr.
Definition ref_print_buffered (junk : nat -> Z) (n : node) (pre : Z) (fmt hr : bool) :=
  cJSON_PrintBuffered fmt_d fmt_g15 fmt_g17 sscanf_lg (fun _ => false) junk n pre fmt hr.
Definition block_of (r : res print_result) : option bytes :=
  match r with Ok r => prr_block r | _ => None end.
Definition starts_with (txt : bytes) (o : option bytes) : bool :=
  match o with Some b => bytes_eqb (firstn (length txt) b) txt | None => false end.

Example test_print_example :
  forall fmt hr, exists txt,
    ref_render fmt 0 ex_tree = Some txt /\
    block_of (ref_print (fun _ => 165) ex_tree fmt hr) = Some (txt ++ [0]) /\
    block_of (ref_print (fun i => Z.of_nat i mod 256) (ref_reparsed ex_tree) fmt hr) = Some (txt ++ [0]) /\
    forallb (fun pre => starts_with (txt ++ [0]) (block_of (ref_print_buffered (fun _ => 165) ex_tree pre fmt hr)))
            [0; 1; 17; 255; 256; 257; 1000] = true.
Proof.
  intros [|] [|]; eexists; (split; [vm_compute; reflexivity|]); (split; [vm_compute; reflexivity|]);
    split; vm_compute; reflexivity.
Qed.
