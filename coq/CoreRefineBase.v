(** CoreRefineBase.v — stepping lemmas for the heap primitives of Heap.v, used by the
    simulation proofs (CoreRefine*.v).

    Heaps are kept in the NORMAL FORM [upd_maps h L D]: the heap [h] with its link map
    replaced by [L] and its data map by [D] (everything else — strings, ownership, liveness,
    allocator state, trace — as in [h]).  Every primitive that touches nodes maps a normal
    form to a normal form: [set_next] does [upd_next] on [L], [set_child] an insertion on [D].
    Each primitive has a lemma [run_X] (the bare call) and [run_X_bind] (the call under
    [bindM], for rewriting the program text from left to right). *)
From CJ Require Import Base Dbl Heap Forest ForestLemmas.
From stdpp Require Import gmap.

Implicit Types (h : heap) (L : gmap positive (ptr * ptr)) (D : gmap positive ndata) (i : positive).

Definition upd_maps h L D : heap :=
  mkHeap L D (h_str h) (h_own h) (h_live h) (h_next h) (h_req h) (h_hooks h) (h_trace h).

Lemma upd_maps_id h : upd_maps h (h_lnk h) (h_dat h) = h.
Proof. by destruct h. Qed.
Lemma upd_maps_upd_maps h L D L' D' : upd_maps (upd_maps h L D) L' D' = upd_maps h L' D'.
Proof. reflexivity. Qed.

Lemma bindM_Ret {A B} (m : M A) (f : A -> M B) h a h' : m h = Ret (a, h') -> bindM m f h = f a h'.
Proof. unfold bindM. by intros ->. Qed.
Lemma bindM_ret {A B} (a : A) (f : A -> M B) h : bindM (ret a) f h = f a h.
Proof. reflexivity. Qed.
Lemma bindM_assoc {A B C} (m : M A) (f : A -> M B) (g : B -> M C) h :
  bindM (bindM m f) g h = bindM m (fun a => bindM (f a) g) h.
Proof. unfold bindM. destruct (m h) as [[a h']|e]; reflexivity. Qed.

(** ** loads *)
Lemma run_chk h L D i : i ∈ h_live h -> chk (Some i) (upd_maps h L D) = Ret (i, upd_maps h L D).
Proof. intros H. unfold chk. cbn. by rewrite decide_True. Qed.

Lemma run_ld_lnk h L D i e : i ∈ h_live h -> L !! i = Some e ->
  ld_lnk (Some i) (upd_maps h L D) = Ret (e, upd_maps h L D).
Proof. intros H1 H2. unfold ld_lnk. rewrite (bindM_Ret _ _ _ _ _ (run_chk _ _ _ _ H1)). cbn. by rewrite H2. Qed.
Lemma run_ld_dat h L D i nd : i ∈ h_live h -> D !! i = Some nd ->
  ld_dat (Some i) (upd_maps h L D) = Ret (nd, upd_maps h L D).
Proof. intros H1 H2. unfold ld_dat. rewrite (bindM_Ret _ _ _ _ _ (run_chk _ _ _ _ H1)). cbn. by rewrite H2. Qed.

Lemma run_get_next h L D i e : i ∈ h_live h -> L !! i = Some e ->
  get_next (Some i) (upd_maps h L D) = Ret (e.1, upd_maps h L D).
Proof. intros H1 H2. unfold get_next. by rewrite (bindM_Ret _ _ _ _ _ (run_ld_lnk _ _ _ _ _ H1 H2)). Qed.
Lemma run_get_prev h L D i e : i ∈ h_live h -> L !! i = Some e ->
  get_prev (Some i) (upd_maps h L D) = Ret (e.2, upd_maps h L D).
Proof. intros H1 H2. unfold get_prev. by rewrite (bindM_Ret _ _ _ _ _ (run_ld_lnk _ _ _ _ _ H1 H2)). Qed.
Lemma run_get_child h L D i nd : i ∈ h_live h -> D !! i = Some nd ->
  get_child (Some i) (upd_maps h L D) = Ret (nd_child nd, upd_maps h L D).
Proof. intros H1 H2. unfold get_child. by rewrite (bindM_Ret _ _ _ _ _ (run_ld_dat _ _ _ _ _ H1 H2)). Qed.
Lemma run_get_type h L D i nd : i ∈ h_live h -> D !! i = Some nd ->
  get_type (Some i) (upd_maps h L D) = Ret (nd_type nd, upd_maps h L D).
Proof. intros H1 H2. unfold get_type. by rewrite (bindM_Ret _ _ _ _ _ (run_ld_dat _ _ _ _ _ H1 H2)). Qed.
Lemma run_get_vstr h L D i nd : i ∈ h_live h -> D !! i = Some nd ->
  get_vstr (Some i) (upd_maps h L D) = Ret (nd_vstr nd, upd_maps h L D).
Proof. intros H1 H2. unfold get_vstr. by rewrite (bindM_Ret _ _ _ _ _ (run_ld_dat _ _ _ _ _ H1 H2)). Qed.
Lemma run_get_key h L D i nd : i ∈ h_live h -> D !! i = Some nd ->
  get_key (Some i) (upd_maps h L D) = Ret (nd_key nd, upd_maps h L D).
Proof. intros H1 H2. unfold get_key. by rewrite (bindM_Ret _ _ _ _ _ (run_ld_dat _ _ _ _ _ H1 H2)). Qed.

(** ** stores *)
Lemma run_st_lnk h L D i e : i ∈ h_live h -> is_Some (L !! i) ->
  st_lnk (Some i) e (upd_maps h L D) = Ret (tt, upd_maps h (<[i := e]> L) D).
Proof.
  intros H1 [e0 H2]. unfold st_lnk. rewrite (bindM_Ret _ _ _ _ _ (run_chk _ _ _ _ H1)). cbn. by rewrite H2.
Qed.
Lemma run_st_dat h L D i nd : i ∈ h_live h -> is_Some (D !! i) ->
  st_dat (Some i) nd (upd_maps h L D) = Ret (tt, upd_maps h L (<[i := nd]> D)).
Proof.
  intros H1 [e0 H2]. unfold st_dat. rewrite (bindM_Ret _ _ _ _ _ (run_chk _ _ _ _ H1)). cbn. by rewrite H2.
Qed.

Lemma run_set_next h L D i v : i ∈ h_live h -> is_Some (L !! i) ->
  set_next (Some i) v (upd_maps h L D) = Ret (tt, upd_maps h (upd_next i v L) D).
Proof.
  intros H1 [e H2]. unfold set_next. rewrite (bindM_Ret _ _ _ _ _ (run_ld_lnk _ _ _ _ _ H1 H2)).
  rewrite run_st_lnk by eauto. by rewrite (upd_next_insert _ _ _ _ H2).
Qed.
Lemma run_set_prev h L D i v : i ∈ h_live h -> is_Some (L !! i) ->
  set_prev (Some i) v (upd_maps h L D) = Ret (tt, upd_maps h (upd_prev i v L) D).
Proof.
  intros H1 [e H2]. unfold set_prev. rewrite (bindM_Ret _ _ _ _ _ (run_ld_lnk _ _ _ _ _ H1 H2)).
  rewrite run_st_lnk by eauto. by rewrite (upd_prev_insert _ _ _ _ H2).
Qed.

Definition nd_set_child (nd : ndata) (v : ptr) : ndata :=
  mkND (nd_type nd) (nd_vstr nd) (nd_vint nd) (nd_vdbl nd) (nd_key nd) v.
Lemma run_set_child h L D i nd v : i ∈ h_live h -> D !! i = Some nd ->
  set_child (Some i) v (upd_maps h L D) = Ret (tt, upd_maps h L (<[i := nd_set_child nd v]> D)).
Proof.
  intros H1 H2. unfold set_child. rewrite (bindM_Ret _ _ _ _ _ (run_ld_dat _ _ _ _ _ H1 H2)).
  by rewrite run_st_dat by eauto.
Qed.
Lemma nd_set_child_mk_dat d (cs cs' : list positive) :
  nd_set_child (mk_dat d cs) (child_of d cs') = mk_dat d cs'.
Proof. reflexivity. Qed.

(** ** under [bindM] *)
Section Bind.
  Context {B : Type} (f : ptr -> M B) (g : unit -> M B).
  Lemma run_get_next_bind h L D i e : i ∈ h_live h -> L !! i = Some e ->
    bindM (get_next (Some i)) f (upd_maps h L D) = f e.1 (upd_maps h L D).
  Proof. intros. by erewrite bindM_Ret by (by eapply run_get_next). Qed.
  Lemma run_get_prev_bind h L D i e : i ∈ h_live h -> L !! i = Some e ->
    bindM (get_prev (Some i)) f (upd_maps h L D) = f e.2 (upd_maps h L D).
  Proof. intros. by erewrite bindM_Ret by (by eapply run_get_prev). Qed.
  Lemma run_get_child_bind h L D i nd : i ∈ h_live h -> D !! i = Some nd ->
    bindM (get_child (Some i)) f (upd_maps h L D) = f (nd_child nd) (upd_maps h L D).
  Proof. intros. by erewrite bindM_Ret by (by eapply run_get_child). Qed.
  Lemma run_get_vstr_bind h L D i nd : i ∈ h_live h -> D !! i = Some nd ->
    bindM (get_vstr (Some i)) f (upd_maps h L D) = f (nd_vstr nd) (upd_maps h L D).
  Proof. intros. by erewrite bindM_Ret by (by eapply run_get_vstr). Qed.
  Lemma run_get_key_bind h L D i nd : i ∈ h_live h -> D !! i = Some nd ->
    bindM (get_key (Some i)) f (upd_maps h L D) = f (nd_key nd) (upd_maps h L D).
  Proof. intros. by erewrite bindM_Ret by (by eapply run_get_key). Qed.
  Lemma run_set_next_bind h L D i v : i ∈ h_live h -> is_Some (L !! i) ->
    bindM (set_next (Some i) v) g (upd_maps h L D) = g tt (upd_maps h (upd_next i v L) D).
  Proof. intros. by erewrite bindM_Ret by (by eapply run_set_next). Qed.
  Lemma run_set_prev_bind h L D i v : i ∈ h_live h -> is_Some (L !! i) ->
    bindM (set_prev (Some i) v) g (upd_maps h L D) = g tt (upd_maps h (upd_prev i v L) D).
  Proof. intros. by erewrite bindM_Ret by (by eapply run_set_prev). Qed.
  Lemma run_set_child_bind h L D i nd v : i ∈ h_live h -> D !! i = Some nd ->
    bindM (set_child (Some i) v) g (upd_maps h L D) = g tt (upd_maps h L (<[i := nd_set_child nd v]> D)).
  Proof. intros. by erewrite bindM_Ret by (by eapply run_set_child). Qed.
End Bind.
Lemma run_get_type_bind {B} (f : Z -> M B) h L D i nd : i ∈ h_live h -> D !! i = Some nd ->
  bindM (get_type (Some i)) f (upd_maps h L D) = f (nd_type nd) (upd_maps h L D).
Proof. intros. by erewrite bindM_Ret by (by eapply run_get_type). Qed.

(** ** presence of entries survives field updates *)
Lemma is_Some_upd_next i j v L : is_Some (upd_next i v L !! j) <-> is_Some (L !! j).
Proof.
  unfold upd_next. destruct (decide (i = j)) as [->|Hne].
  - rewrite lookup_alter. by rewrite fmap_is_Some.
  - by rewrite lookup_alter_ne.
Qed.
Lemma is_Some_upd_prev i j v L : is_Some (upd_prev i v L !! j) <-> is_Some (L !! j).
Proof.
  unfold upd_prev. destruct (decide (i = j)) as [->|Hne].
  - rewrite lookup_alter. by rewrite fmap_is_Some.
  - by rewrite lookup_alter_ne.
Qed.

(** ** fuel: a chain of distinct blocks with identities below [n] has fewer than [n] elements *)
Lemma NoDup_length_lt_pos (l : list positive) (n : positive) :
  NoDup l -> (forall x, x ∈ l -> (x < n)%positive) -> length l < Pos.to_nat n.
Proof.
  intros ND Hlt.
  assert (H : Pos.to_nat <$> l ⊆+ seq 1 (Pos.to_nat n - 1)).
  { apply NoDup_submseteq.
    - apply NoDup_fmap_2_strong; [|done]. intros ?? _ _. apply Pos2Nat.inj.
    - intros k Hk. apply elem_of_list_fmap in Hk as (x & -> & Hx). apply elem_of_seq.
      pose proof (Hlt _ Hx). lia. }
  apply submseteq_length in H. rewrite fmap_length, seq_length in H. lia.
Qed.

Lemma NoDup_length_le_size (l : list positive) (X : gset positive) :
  NoDup l -> (forall x, x ∈ l -> x ∈ X) -> length l <= size X.
Proof.
  intros ND Hsub. rewrite <- (size_list_to_set (C := gset positive) l ND).
  apply subseteq_size. intros x Hx. apply elem_of_list_to_set in Hx. by apply Hsub.
Qed.

(** ** the same on an arbitrary heap (not in normal form) *)
Definition set_dat h D : heap := upd_maps h (h_lnk h) D.

Lemma run_get_next_plain h i e : i ∈ h_live h -> h_lnk h !! i = Some e -> get_next (Some i) h = Ret (e.1, h).
Proof. intros H1 H2. pose proof (run_get_next h _ (h_dat h) i _ H1 H2) as H. by rewrite upd_maps_id in H. Qed.
Lemma run_get_prev_plain h i e : i ∈ h_live h -> h_lnk h !! i = Some e -> get_prev (Some i) h = Ret (e.2, h).
Proof. intros H1 H2. pose proof (run_get_prev h _ (h_dat h) i _ H1 H2) as H. by rewrite upd_maps_id in H. Qed.
Lemma run_get_child_plain h i nd : i ∈ h_live h -> h_dat h !! i = Some nd -> get_child (Some i) h = Ret (nd_child nd, h).
Proof. intros H1 H2. pose proof (run_get_child h (h_lnk h) _ i _ H1 H2) as H. by rewrite upd_maps_id in H. Qed.
Lemma run_get_type_plain h i nd : i ∈ h_live h -> h_dat h !! i = Some nd -> get_type (Some i) h = Ret (nd_type nd, h).
Proof. intros H1 H2. pose proof (run_get_type h (h_lnk h) _ i _ H1 H2) as H. by rewrite upd_maps_id in H. Qed.
Lemma run_get_vstr_plain h i nd : i ∈ h_live h -> h_dat h !! i = Some nd -> get_vstr (Some i) h = Ret (nd_vstr nd, h).
Proof. intros H1 H2. pose proof (run_get_vstr h (h_lnk h) _ i _ H1 H2) as H. by rewrite upd_maps_id in H. Qed.
Lemma run_get_key_plain h i nd : i ∈ h_live h -> h_dat h !! i = Some nd -> get_key (Some i) h = Ret (nd_key nd, h).
Proof. intros H1 H2. pose proof (run_get_key h (h_lnk h) _ i _ H1 H2) as H. by rewrite upd_maps_id in H. Qed.

Definition nd_set_vstr (nd : ndata) (v : ptr) : ndata :=
  mkND (nd_type nd) v (nd_vint nd) (nd_vdbl nd) (nd_key nd) (nd_child nd).
Definition nd_set_key (nd : ndata) (v : ptr) : ndata :=
  mkND (nd_type nd) (nd_vstr nd) (nd_vint nd) (nd_vdbl nd) v (nd_child nd).
Definition nd_set_type (nd : ndata) (t : Z) : ndata :=
  mkND t (nd_vstr nd) (nd_vint nd) (nd_vdbl nd) (nd_key nd) (nd_child nd).

Lemma run_set_vstr_plain h i nd v : i ∈ h_live h -> h_dat h !! i = Some nd ->
  set_vstr (Some i) v h = Ret (tt, set_dat h (<[i := nd_set_vstr nd v]> (h_dat h))).
Proof.
  intros H1 H2. rewrite <- (upd_maps_id h) at 1. unfold set_vstr.
  rewrite (bindM_Ret _ _ _ _ _ (run_ld_dat _ _ _ _ _ H1 H2)). by rewrite run_st_dat by eauto.
Qed.
Lemma run_set_key_plain h i nd v : i ∈ h_live h -> h_dat h !! i = Some nd ->
  set_key (Some i) v h = Ret (tt, set_dat h (<[i := nd_set_key nd v]> (h_dat h))).
Proof.
  intros H1 H2. rewrite <- (upd_maps_id h) at 1. unfold set_key.
  rewrite (bindM_Ret _ _ _ _ _ (run_ld_dat _ _ _ _ _ H1 H2)). by rewrite run_st_dat by eauto.
Qed.
Lemma run_set_type_plain h i nd v : i ∈ h_live h -> h_dat h !! i = Some nd ->
  set_type (Some i) v h = Ret (tt, set_dat h (<[i := nd_set_type nd v]> (h_dat h))).
Proof.
  intros H1 H2. rewrite <- (upd_maps_id h) at 1. unfold set_type.
  rewrite (bindM_Ret _ _ _ _ _ (run_ld_dat _ _ _ _ _ H1 H2)). by rewrite run_st_dat by eauto.
Qed.

(** ** releasing a block *)
Definition free1 (b : positive) (h : heap) : heap :=
  mkHeap (delete b (h_lnk h)) (delete b (h_dat h)) (delete b (h_str h)) (h_own h)
         (h_live h ∖ {[b]}) (h_next h) (h_req h) (h_hooks h) (EvFree b (via_free h) :: h_trace h).
Definition free_all (bs : list positive) (h : heap) : heap := fold_left (fun h b => free1 b h) bs h.

Lemma run_free_block h b : b ∈ h_live h -> h_own h !! b = Some Lib ->
  free_block (Some b) h = Ret (tt, free1 b h).
Proof. intros H1 H2. unfold free_block. rewrite H2. by rewrite decide_True. Qed.

Lemma free_all_app bs1 bs2 h : free_all (bs1 ++ bs2) h = free_all bs2 (free_all bs1 h).
Proof. apply fold_left_app. Qed.
Lemma free_all_cons b bs h : free_all (b :: bs) h = free_all bs (free1 b h).
Proof. reflexivity. Qed.
