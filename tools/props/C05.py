"""C05 — printed text is strict JSON and all print variants agree."""
import random, re, json
from .printgen import *

RULE = ('trees whose strings are valid UTF-8 (every escape class: quote, backslash, \\b \\f \\n \\r \\t, every other byte below 0x20 as \\u00xx, 0x7f, '
        '2/3/4-byte sequences) with finite and non-finite numbers (the %g style-switch boundaries, ints around +-2^31, -0.0, DBL_MAX, 5e-324), empty containers, '
        'nesting, plus a stream of trees outside the precondition (invalid UTF-8, raw, NULL strings, invalid types; correspondence only); every tree through '
        'cJSON_Print, cJSON_PrintUnformatted, cJSON_PrintBuffered(prebuffer in {0,1,len-1,len,len+1,255,256,257}, both formats) and '
        'cJSON_PrintPreallocated(len+2, both formats), under custom hooks (no realloc) and the default allocator (realloc, via --wrap); '
        'verdict (python): an independent strict RFC 8259 reader (json with NaN/Infinity and control characters rejected) accepts each text and decodes it '
        'to the tree\'s value (order, duplicate keys, string bytes; non-finite numbers as null); formatted text minus whitespace outside strings == '
        'unformatted text; buffered / preallocated bytes == plain bytes; integer-valued numbers in the int range appear as -?[0-9]+; no leak; '
        'non-trivial = distinct printable tree with at least one container or escape')
ASSUMPTIONS = ['C locale (decimal point)', 'hand-written transliteration validated by this differential run',
               'glibc printf/scanf agree with the reference conversions of LibcPrint.v (checked on every number in the run)',
               'python json (strict mode, constants rejected) is the independent RFC 8259 reader']

def corpus(ctx):
    cs = load_corpus(ctx['verif'], 'C05')
    for c in cs:
        if c.line.startswith('printall '):
            t = tree_of_line(c.line, 4); c.info.update({'tree': t, 'ok': printable(t) and utf8_tree(t)})
    return cs

def add_all(cases, tree, rng, tag, prebuffers=None, allocs=('hooks', 'realloc')):
    line = pline(tree)
    tf = py_render(tree, True); tu = py_render(tree, False)
    L = len(tf) if tf is not None else 20
    if prebuffers is None: prebuffers = [rng.choice([0, 1, L - 1, L, L + 1, 255, 256, 257, len(tu) if tu is not None else 3, (len(tu) + 1) if tu is not None else 2])]
    for pre in prebuffers:
        for al in allocs:
            cases.append(Case('printall %d %d %s %s' % (max(pre, 0), L + 2, al, line),
                              {'tags': [tag, al, 'pre=%s' % ('len%+d' % (pre - L) if abs(pre - L) <= 1 else pre)], 'tree': tree,
                               'ok': printable(tree) and utf8_tree(tree)}))

def generate(ctx):
    rng = random.Random(ctx['seed'] * 6151 + 5)
    quick = ctx['tier'] == 'quick'
    cases = []
    for i in range(300 if quick else 4000):
        t = rand_tree(rng, depth=rng.choice([1, 2, 3, 4]), wf=True)
        if not utf8_tree(t):
            for x in all_nodes(t):
                if x.vs is not None and not is_utf8(x.vs): x.vs = rand_utf8(rng)
                if x.key is not None and not is_utf8(x.key): x.key = rand_utf8(rng, 4)
        if i % 4 == 0:   # non-finite numbers print as null
            nums = [x for x in all_nodes(t) if (x.ty & 0xFF) == T_NUMBER]
            if nums: rng.choice(nums).vd = rng.choice([float('inf'), float('-inf'), float('nan')])
        add_all(cases, t, rng, 'utf8-tree', allocs=('hooks', 'realloc') if i % 3 == 0 else (rng.choice(['hooks', 'realloc']),))
    for i in range(80 if quick else 1000):
        add_all(cases, rand_tree(rng, depth=rng.choice([1, 2, 3]), wf=False), rng, 'outside-precondition', allocs=(rng.choice(['hooks', 'realloc']),))
    # every prebuffer boundary on a few fixed trees
    fixed = [PN(T_ARRAY, ch=[PN(T_STRING, vs=b'a"\x01\n' + 'é'.encode()), PN(T_NUMBER, vi=1, vd=1.5), PN(T_OBJECT, ch=[PN(T_ARRAY, key=b'k'), PN(T_OBJECT, key=b'')])]),
             PN(T_OBJECT, ch=[PN(T_STRING, vs=b'x' * 250, key=b'long'), PN(T_NUMBER, vi=0, vd=1e-5, key=b'n')]),
             PN(T_STRING, vs=bytes(range(1, 0x80))), PN(T_ARRAY), PN(T_OBJECT), PN(T_NULL), nested(12, 0), PN(T_ARRAY, ch=[PN(T_STRING, vs=b'y' * 254)])]
    for t in fixed:
        L = len(py_render(t, True)); U = len(py_render(t, False))
        add_all(cases, t, rng, 'prebuffer-boundaries', prebuffers=sorted({0, 1, L - 1, L, L + 1, U - 1, U, U + 1, 255, 256, 257}))
    # numbers: one node each
    for d in number_stream(rng, 300 if quick else 2000):
        add_all(cases, PN(T_ARRAY, ch=[num_node(rng, d, consistent=(rng.random() < 0.8))]), rng, 'number', prebuffers=[rng.choice([0, 5, 256])], allocs=(rng.choice(['hooks', 'realloc']),))
    for s in STR_BYTES + [rand_utf8(rng, 20) for _ in range(20 if quick else 300)]:
        if is_utf8(s): add_all(cases, PN(T_OBJECT, ch=[PN(T_STRING, vs=s, key=s[:6] if is_utf8(s[:6]) else b'k')]), rng, 'string', prebuffers=[rng.choice([0, len(s), 256])], allocs=('hooks',))
    return cases

FIELDS = ('P', 'U', 'B1', 'B0', 'A1', 'A0')

def fields(out):
    d = {}
    for t in out.split(' '):
        k, eq, v = t.partition('=')
        if eq and k in FIELDS: d[k] = v if v else '='
    return d

def project(c, out):
    return ' '.join(t for t in out.split(' ') if t != 'SPECDIFF' and not t.startswith('reqs='))   # request counts: internal (growth policy)

def _txt(v):
    return None if v == 'NULL' else unhx(v)

def int_plain_problem(tree, text):
    """integer-valued numbers in the int range with consistent valueint must be printed as -?[0-9]+"""
    lits = []
    def grab(kind):
        return lambda s: (lits.append((kind, s)), float(s))[1]
    try: json.loads(text.decode('utf-8'), parse_int=grab('I'), parse_float=grab('F'), parse_constant=lambda s: None)
    except Exception: return None
    nums = [x for x in all_nodes(tree) if (x.ty & 0xFF) == T_NUMBER and x.vd == x.vd and abs(x.vd) != float('inf')]
    if len(nums) != len(lits): return None
    for x, (kind, s) in zip(nums, lits):
        if x.vd == float(x.vi) and INT_MIN <= x.vd <= INT_MAX and (kind != 'I' or not re.fullmatch(r'-?[0-9]+', s)):
            return 'integer-valued number %r printed as %s' % (x.vd, s)
    return None

def verdict(c, out, ctx):
    if is_crash(out): return 'crash / memory error: ' + out
    for t in out.split(' '):
        if t.startswith('LEAK') or t.startswith('DOUBLEFREE') or t.startswith('FOREIGNFREE') or t in ('FOREIGNDAMAGED', 'CANARYBAD'): return 'allocator / buffer misuse: ' + t
    tree = c.info.get('tree')
    if tree is None: return None
    f = fields(out)
    if set(f) != set(FIELDS): return 'malformed output ' + out[:80]
    P, U, B1, B0 = _txt(f['P']), _txt(f['U']), _txt(f['B1']), _txt(f['B0'])
    # all entry points agree (for every tree, printable or not)
    if B1 != P: return 'cJSON_PrintBuffered(fmt=1) returned %r, cJSON_Print %r' % (B1 and B1[:50], P and P[:50])
    if B0 != U: return 'cJSON_PrintBuffered(fmt=0) returned %r, cJSON_PrintUnformatted %r' % (B0 and B0[:50], U and U[:50])
    for k, ref in (('A1', P), ('A0', U)):
        flag, _, h = f[k].partition(':')
        if flag == '1':
            if ref is None or h == 'UNTERMINATED' or unhx(h) != ref: return 'cJSON_PrintPreallocated returned true with bytes different from the allocating variant (%s)' % k
        elif ref is not None: return 'cJSON_PrintPreallocated failed with n = formatted length + 2 although printing succeeds (%s)' % k
    if (P is None) != (U is None): return 'formatted and unformatted printing disagree about success'
    if P is None:
        return 'printing failed for a printable tree' if printable(tree) else None
    # a raw node copies arbitrary bytes (possibly an unbalanced quote) into the text: the string-aware comparison only
    # makes sense without raw nodes; the agreement of the entry points above is checked for every tree
    has_raw = any((x.ty & 0xFF) == T_RAW for x in all_nodes(tree))
    if not has_raw and strip_ws(P) != strip_ws(U): return 'formatted and unformatted text differ outside whitespace'
    if not c.info.get('ok'): return None
    if strip_ws(P) != U: return 'formatted text minus whitespace outside strings is not the unformatted text'
    for name, txt in (('formatted', P), ('unformatted', U)):
        try: v = strict_loads(txt)
        except NotStrict as e: return '%s output is not strict JSON: %s: %r' % (name, e, txt[:80])
        r = value_matches(v, tree)
        if r: return '%s output decodes to a different value: %s' % (name, r)
    return int_plain_problem(tree, U)

def nontrivial(c, out):
    t = c.info.get('tree')
    return t is not None and c.info.get('ok') and (len(t.ch) > 0 or b'\\' in (py_render(t, False) or b'')) and not is_crash(out)
