"""C09 — printing into a caller buffer never writes outside it."""
import random
from .printgen import *

RULE = ('trees with every token kind (null/true/false, %d / %1.15g / %1.17g numbers, NaN -> null, plain / escaped / \\u00xx / NULL strings, raw, '
        'empty and non-empty arrays and objects, invalid types) as the LAST token and before every kind of closer, random trees, nesting up to 40; '
        'each tree x {formatted, unformatted} x EVERY buffer length n from 0 to text length + 16 (plus n = -1); the n-byte buffer ends flush against a '
        'PROT_NONE page, is preceded by a 16-byte canary and pre-filled with one of three patterns (0xA5, a zero-free sequence, zeros); '
        'verdict (python, independent of the model): no crash / guard fault, canary intact, flag = 1 only if the buffer holds exactly the text an '
        'independent python renderer produces followed by its terminator (so n >= len + 1), flag = 1 whenever n >= len + 1 + 5, never 1 for an unprintable '
        'tree, success monotone in n, no allocation requested; non-trivial = distinct (tree, n, fmt) with n > 0')
ASSUMPTIONS = ['C locale (decimal point)', 'hand-written transliteration validated by this differential run',
               'glibc printf/scanf agree with the reference conversions of LibcPrint.v (checked on every number in the run)',
               'python % formatting is correctly rounded (used by the verdict renderer)']
TRUSTED_EXTRA = ['libc contract LibcPrintSpec (outputs of %d / %1.15g / %1.17g are zero-free and at most 25 bytes): hypothesis of the theorems; proved for the reference library (Properties_C05_Ref.v) and validated against glibc by execution']

def corpus(ctx):
    cs = load_corpus(ctx['verif'], 'C09')
    for c in cs:
        a = c.line.split(' ')
        if a[0] == 'prealloc':
            c.info.update({'tree': tree_of_line(c.line, 4), 'n': int(a[1]), 'fmt': int(a[2]), 'tid': 'corpus|' + ' '.join(a[2:])})
    return cs

def sweep(cases, tree, rng, tag, extra=16, fmts=(1, 0), pats=None):
    line = pline(tree)
    for fmt in fmts:
        txt = py_render(tree, bool(fmt))
        L = len(txt) if txt is not None else 8
        pat = rng.randrange(3) if pats is None else pats
        tid = '%s|%d|%d' % (line, fmt, pat)
        for n in [-1] + list(range(0, L + extra + 1)):
            cfmt = fmt if not fmt or (n * 7 + pat) % 5 else [4, 255, 256, -1, 2][(n + pat) % 5]    # cJSON_bool is an int: every non-zero value means 'formatted'
            cases.append(Case('prealloc %d %d %d %s' % (n, cfmt, pat, line),
                              {'tags': [tag, 'fmt' if fmt else 'unfmt', 'printable' if txt is not None else 'unprintable'], 'tid': tid, 'n': n, 'fmt': fmt, 'tree': tree}))

def generate(ctx):
    rng = random.Random(ctx['seed'] * 7919 + 9)
    quick = ctx['tier'] == 'quick'
    cases = []
    lt = last_token_trees()
    if quick: lt = [t for i, t in enumerate(lt) if i % 8 in (0, 1, 4, 5) or rng.random() < 0.25]
    for t in lt: sweep(cases, t, rng, 'last-token', fmts=((1, 0) if not quick else (rng.choice([0, 1]),)))
    ntrees = 120 if quick else 5000
    for i in range(ntrees):
        wf = rng.random() < 0.8
        t = rand_tree(rng, depth=rng.choice([1, 2, 2, 3]), wf=wf, width=3)
        txt = py_render(t, True)
        if txt is not None and len(txt) > (70 if quick else 300): continue
        sweep(cases, t, rng, 'random-tree', fmts=((1, 0) if not quick else (rng.choice([0, 1]),)))
    for d in number_stream(rng, 60 if quick else 600)[:: (3 if quick else 1)]:
        sweep(cases, num_node(rng, d, consistent=True), rng, 'number', extra=7, fmts=(0,))
    for depth, kind in ((6, T_ARRAY), (5, T_OBJECT), (7, 0)) + (() if quick else ((40, T_ARRAY), (25, T_OBJECT), (30, 0))):
        sweep(cases, nested(depth, kind), rng, 'nested', fmts=(1,) if quick else (1, 0))
    for s in STR_BYTES[:: (4 if quick else 1)]:
        sweep(cases, PN(T_ARRAY, ch=[PN(T_STRING, vs=s)]), rng, 'string', extra=7, fmts=(0,))
    return cases

def project(c, out):
    # the observables of C09: flag, text, the n bytes of the buffer, canary, allocator use
    return ' '.join(t for t in out.split(' ') if t != 'SPECDIFF')

def verdict(c, out, ctx):
    if is_crash(out): return 'crash / guard-page fault / sanitizer report: ' + out
    o = out.split(' ')
    if len(o) < 6 or o[0] not in ('0', '1'): return 'malformed output ' + out[:80]
    for t in o:
        if t.startswith('LEAK') or t.startswith('DOUBLEFREE') or t.startswith('FOREIGNFREE') or t == 'FOREIGNDAMAGED': return 'allocator misuse: ' + t
    if 'canary=ok' not in o: return 'bytes before the buffer were modified'
    if 'reqs=0' not in o or 'live=0' not in o: return 'cJSON_PrintPreallocated used the allocator (%s)' % out[-40:]
    tree = c.info.get('tree')
    if tree is None: return None
    n = c.info['n']; fmt = bool(c.info['fmt']); flag = o[0] == '1'
    txt = py_render(tree, fmt)
    if flag:
        if txt is None: return 'returned true for a tree that cannot be printed'
        if o[1] == 'UNTERMINATED': return 'returned true but the buffer holds no terminator'
        got = unhx(o[1])
        if got != txt: return 'returned true but the buffer holds %r, the print functions produce %r' % (got[:60], txt[:60])
        if n < len(txt) + 1: return 'returned true with n smaller than the text and its terminator'
    else:
        if txt is not None and n >= len(txt) + 1 + 5: return 'returned false although n = %d >= text length %d + 1 + 5' % (n, len(txt))
    # monotonicity in n (cases of one tree are generated in increasing n)
    seen = ctx.setdefault('c09_first_success', {})
    tid = c.info.get('tid')
    if flag: seen.setdefault(tid, n)
    elif tid in seen and n > seen[tid]: return 'success is not monotone in n: true for n = %d, false for n = %d' % (seen[tid], n)
    return None

def nontrivial(c, out):
    return c.info.get('n', 0) > 0 and not is_crash(out)
