(** CoreOpsBridgeDupSim.v — the EXACT simulation of [cJSON_Duplicate] with the allocator that never
    refuses: the copy is the FUNCTION [CoreOpsBridgeDupDefs.dupm] of the source and of the allocator
    counter (the identities of its blocks included), and so is the counter after the call — also
    when the call is refused at the depth limit CJSON_CIRCULAR_LIMIT and releases what it has built.

    The heap-shape reasoning is that of CoreRefineDup*.v ([Partial], [link_step_sim], [close_sim],
    [Partial_delete]); what is added is the bookkeeping of [h_next] / [h_req] through every
    statement of the body ([dup_k0X] … [dup_prefixX], [dup_loopX], [dup_recX]).

    * [PostX g t g']: after the call on source [t] from heap [g]: [h_next g' = (dupm t (h_next g)).2],
      the request counter advanced by as much as [h_next] ([ctr] equal), and EITHER [dupm] gives the
      copy [tc] and [Done never g t tc g'] (the statement of C11: frame, encoding of [tc] as a
      detached tree, [copy_of], nothing cut off) OR [dupm] gives [None] and [Ext [] [] g g'];
    * [cJSON_DuplicateX]: the entry point, recursive; [cJSON_Duplicate_flatX]: non-recursive. *)
From CJ Require Import Base Dbl Heap Forest ForestLemmas CoreSpec CoreDefs CoreRefineBase CoreRefine CoreRefineDelete
  CoreRefineCreate CoreRefineDupBase CoreRefineDupTree CoreRefineDupNode CoreRefineDupLoop CoreRefineDup CoreOpsBridgeDupDefs.
From CJ.gen Require Import Constants.
From stdpp Require Import gmap.
From Coq Require Import Lia.

Implicit Types (g h : heap) (i n b a : positive) (d : rdata) (ts cs : list tree).

Ltac mn := cbv beta; rewrite ?bindM_assoc.

(** * the allocator counters *)
Definition ctr g : Z := (Z.pos (h_next g) - Z.of_nat (h_req g))%Z.

Lemma ctr_same g g' : h_next g' = h_next g -> h_req g' = h_req g -> ctr g' = ctr g.
Proof. unfold ctr. by intros -> ->. Qed.
Lemma ctr_succ g g' : h_next g' = Pos.succ (h_next g) -> h_req g' = S (h_req g) -> ctr g' = ctr g.
Proof. unfold ctr. intros -> ->. lia. Qed.

(** computations that neither request nor release *)
Definition Keeps {A} (m : M A) : Prop :=
  forall h x h', m h = Ret (x, h') -> h_next h' = h_next h /\ h_req h' = h_req h.

Lemma Keeps_ret {A} (x : A) : Keeps (ret x).
Proof. by intros h y h' [= _ <-]. Qed.
Lemma Keeps_bind {A B} (m : M A) (f : A -> M B) : Keeps m -> (forall x, Keeps (f x)) -> Keeps (bindM m f).
Proof.
  intros Hm Hf h y h' E. unfold bindM in E. destruct (m h) as [[x h1]|e] eqn:E1; [|done].
  destruct (Hm _ _ _ E1) as [H1 H2]. destruct (Hf x _ _ _ E) as [H3 H4]. split; congruence.
Qed.
Lemma Keeps_ld_lnk p : Keeps (ld_lnk p).
Proof.
  intros h x h'. unfold ld_lnk, bindM, chk. destruct p as [i|]; [|done]. destruct (decide _); [|done].
  destruct (h_lnk h !! i); [|done]. by intros [= _ <-].
Qed.
Lemma Keeps_ld_dat p : Keeps (ld_dat p).
Proof.
  intros h x h'. unfold ld_dat, bindM, chk. destruct p as [i|]; [|done]. destruct (decide _); [|done].
  destruct (h_dat h !! i); [|done]. by intros [= _ <-].
Qed.
Lemma Keeps_st_lnk p l : Keeps (st_lnk p l).
Proof.
  intros h x h'. unfold st_lnk, bindM, chk. destruct p as [i|]; [|done]. destruct (decide _); [|done].
  destruct (h_lnk h !! i); [|done]. by intros [= _ <-].
Qed.
Lemma Keeps_st_dat p nd : Keeps (st_dat p nd).
Proof.
  intros h x h'. unfold st_dat, bindM, chk. destruct p as [i|]; [|done]. destruct (decide _); [|done].
  destruct (h_dat h !! i); [|done]. by intros [= _ <-].
Qed.
Lemma Keeps_set_next p v : Keeps (set_next p v).
Proof. apply Keeps_bind; [apply Keeps_ld_lnk|intros; apply Keeps_st_lnk]. Qed.
Lemma Keeps_set_prev p v : Keeps (set_prev p v).
Proof. apply Keeps_bind; [apply Keeps_ld_lnk|intros; apply Keeps_st_lnk]. Qed.
Lemma Keeps_set_child p v : Keeps (set_child p v).
Proof. apply Keeps_bind; [apply Keeps_ld_dat|intros; apply Keeps_st_dat]. Qed.
Lemma Keeps_get_child p : Keeps (get_child p).
Proof. apply Keeps_bind; [apply Keeps_ld_dat|intros; apply Keeps_ret]. Qed.
Lemma Keeps_when (c : bool) (m : M unit) : Keeps m -> Keeps (when c m).
Proof. intros H. destruct c; [done|apply Keeps_ret]. Qed.

(** * one node: allocation and fields, with the counters *)
Definition vnew d gc : ptr := match rd_vstr d with Some _ => Some (h_next gc) | None => None end.
Definition knew d gc : ptr :=
  match rd_key d with None => None | Some b => if is_const d then Some b else Some (h_next gc) end.

Lemma dup_k0X (K : M ptr) g gc item n d (ks : list positive) :
  Partial g gc n rd0 [] -> nd_at g item (mk_dat d ks) ->
  exists gc0, dup_k0 K (Some item) (Some n) gc = K gc0 /\
    Partial g gc0 n (cp_data d None None) [] /\ h_next gc0 = h_next gc /\ h_req gc0 = h_req gc.
Proof.
  intros P Hsrc. pose proof (Partial_leaf_frame _ _ _ _ P) as Fr.
  assert (Hne : item <> n).
  { destruct Hsrc as [Hl _]. destruct (Ext_old _ _ _ _ _ Fr Hl) as [Hn _]. intros ->. apply Hn. by left. }
  pose proof (nd_at_frame _ _ _ _ _ _ Fr Hsrc) as Hi.
  pose proof (pa_node _ _ _ _ _ P) as Hn. change (mk_dat rd0 (tid <$> [])) with nd0 in Hn.
  unfold dup_k0.
  rewrite (bindM_Ret _ _ _ _ _ (run_get_type_plain _ _ _ (proj1 Hi) (proj2 Hi))).
  rewrite (bindM_Ret _ _ _ _ _ (run_set_type_plain _ _ _ _ (proj1 Hn) (proj2 Hn))).
  set (x1 := nd_set_type nd0 _). set (h1 := set_dat gc _).
  assert (Hi1 : nd_at h1 item (mk_dat d ks)) by (by apply nd_at_set_dat_ne).
  assert (Hn1 : nd_at h1 n x1) by (apply nd_at_set_dat_eq; [apply Hn|by rewrite lookup_insert]).
  rewrite (bindM_Ret _ _ _ _ _ (run_get_vint_plain _ _ _ Hi1)).
  rewrite (bindM_Ret _ _ _ _ _ (run_set_vint_plain _ _ _ _ Hn1)).
  set (x2 := nd_set_vint x1 _). set (h2 := set_dat h1 _).
  assert (Hi2 : nd_at h2 item (mk_dat d ks)) by (by apply nd_at_set_dat_ne).
  assert (Hn2 : nd_at h2 n x2) by (apply nd_at_set_dat_eq; [apply Hn|by rewrite lookup_insert]).
  rewrite (bindM_Ret _ _ _ _ _ (run_get_vdbl_plain _ _ _ Hi2)).
  rewrite (bindM_Ret _ _ _ _ _ (run_set_vdbl_plain _ _ _ _ Hn2)).
  exists (set_dat gc (<[n := mk_dat (cp_data d None None) []]> (h_dat gc))). split; [|split; [|split]].
  - f_equal. unfold h2, h1. rewrite !set_dat_set_dat. cbn [h_dat set_dat upd_maps]. by rewrite !insert_insert.
  - apply (Partial_set_dat _ _ _ rd0); [done| |apply cp_data_is_ref|reflexivity].
    rewrite cp_data_owned. cbn. by destruct (is_const d).
  - reflexivity.
  - reflexivity.
Qed.

Lemma dup_k1X (K : M ptr) g gc lf item n d (ks : list positive) :
  Partial g gc n (cp_data d None None) [] -> src_node g lf item d ks ->
  exists gc1, dup_k1 never K (Some item) (Some n) gc = K gc1 /\
    Partial g gc1 n (cp_data d (vnew d gc) None) [] /\
    h_next gc1 = match rd_vstr d with Some _ => Pos.succ (h_next gc) | None => h_next gc end /\
    ctr gc1 = ctr gc /\
    match rd_vstr d with None => True | Some b => str_copy gc1 b (h_next gc) end.
Proof.
  intros P Hsrc. pose proof (Partial_leaf_frame _ _ _ _ P) as Fr.
  pose proof (src_node_mono _ _ _ _ _ _ (pt_mono_frame _ _ _ _ Fr) Hsrc) as (Hi & _ & Hvs & _).
  pose proof (pa_node _ _ _ _ _ P) as Hn. change (tid <$> []) with (@nil positive) in Hn.
  set (d0 := cp_data d None None) in *.
  unfold dup_k1, vnew.
  rewrite (bindM_Ret _ _ _ _ _ (run_get_vstr_plain _ _ _ (proj1 Hi) (proj2 Hi))).
  change (nd_vstr (mk_dat d ks)) with (rd_vstr d).
  destruct (rd_vstr d) as [b|] eqn:Ev.
  2:{ exists gc. split; [reflexivity|]. done. }
  cbn [is_null]. mn.
  rewrite (bindM_Ret _ _ _ _ _ (run_get_vstr_plain _ _ _ (proj1 Hi) (proj2 Hi))).
  change (nd_vstr (mk_dat d ks)) with (rd_vstr d). rewrite Ev. mn.
  destruct (Hvs b eq_refl) as (s & Hs & Hz).
  rewrite (bindM_Ret _ _ _ _ _ (run_strdup_ok never _ _ _ Hs Hz eq_refl)). mn.
  set (b' := h_next gc). set (ha := alloc_str_h gc _).
  assert (Hna : nd_at ha n (mk_dat d0 [])).
  { destruct Hn as [H1 H2]. split; [|exact H2]. cbn. set_solver. }
  rewrite (bindM_Ret _ _ _ _ _ (run_set_vstr_plain _ _ _ (Some b') (proj1 Hna) (proj2 Hna))). mn.
  change (nd_set_vstr (mk_dat d0 []) (Some b')) with (mk_dat (cp_data d (Some b') None) []).
  assert (P2 : Partial g (set_dat ha (<[n := mk_dat (cp_data d (Some b') None) []]> (h_dat gc))) n
                 (cp_data d (Some b') None) []).
  { apply (Partial_add_str _ _ _ d0); [done| |apply cp_data_is_ref|done].
    unfold d0. rewrite !cp_data_owned. cbn [opt_list]. by destruct (is_const d). }
  change (h_dat ha) with (h_dat gc). set (h2 := set_dat ha _) in *.
  pose proof (pa_node _ _ _ _ _ P2) as Hn2.
  rewrite (bindM_Ret _ _ _ _ _ (run_get_vstr_plain _ _ _ (proj1 Hn2) (proj2 Hn2))).
  exists h2. split; [reflexivity|]. split; [done|]. split; [reflexivity|]. split; [by apply ctr_succ|].
  exists s. split.
  - apply str_is_set_dat. eapply str_is_frame; [|exact Hs]. apply Ext_alloc_str. apply Fr.
  - split; cbn; [set_solver|by rewrite lookup_insert].
Qed.

Lemma dup_k2X (K : M ptr) g gc lf item n d (ks : list positive) v :
  Partial g gc n (cp_data d v None) [] -> src_node g lf item d ks ->
  exists gc2, dup_k2 never K (Some item) (Some n) gc = K gc2 /\
    Partial g gc2 n (cp_data d v (knew d gc)) [] /\
    h_next gc2 = match rd_key d with
                 | Some _ => if is_const d then h_next gc else Pos.succ (h_next gc)
                 | None => h_next gc
                 end /\
    ctr gc2 = ctr gc /\ str_mono gc gc2 /\
    match rd_key d with
    | None => True
    | Some b => if is_const d then True else str_copy gc2 b (h_next gc)
    end.
Proof.
  intros P Hsrc. pose proof (Partial_leaf_frame _ _ _ _ P) as Fr.
  pose proof (src_node_mono _ _ _ _ _ _ (pt_mono_frame _ _ _ _ Fr) Hsrc) as (Hi & _ & _ & Hkr).
  pose proof (pa_node _ _ _ _ _ P) as Hn. change (tid <$> []) with (@nil positive) in Hn.
  set (d0 := cp_data d v None) in *.
  unfold dup_k2, knew.
  rewrite (bindM_Ret _ _ _ _ _ (run_get_key_plain _ _ _ (proj1 Hi) (proj2 Hi))).
  change (nd_key (mk_dat d ks)) with (rd_key d).
  destruct (rd_key d) as [b|] eqn:Ek.
  2:{ exists gc. split; [reflexivity|]. split_and!; [done|done|done|by intros ? ? ?|done]. }
  cbn [is_null]. mn.
  rewrite (bindM_Ret _ _ _ _ _ (run_get_type_plain _ _ _ (proj1 Hi) (proj2 Hi))).
  change (nd_type (mk_dat d ks)) with (rd_type d). rewrite has_flag_is_const. mn.
  destruct (is_const d) eqn:Hc.
  { (* constant key: shared *)
    rewrite (bindM_Ret _ _ _ _ _ (run_get_key_plain _ _ _ (proj1 Hi) (proj2 Hi))).
    change (nd_key (mk_dat d ks)) with (rd_key d). rewrite Ek. mn.
    rewrite (bindM_Ret _ _ _ _ _ (run_set_key_plain _ _ _ (Some b) (proj1 Hn) (proj2 Hn))). mn.
    change (nd_set_key (mk_dat d0 []) (Some b)) with (mk_dat (cp_data d v (Some b)) []).
    assert (P2 : Partial g (set_dat gc (<[n := mk_dat (cp_data d v (Some b)) []]> (h_dat gc))) n
                   (cp_data d v (Some b)) []).
    { apply (Partial_set_dat _ _ _ d0); [done| |apply cp_data_is_ref|done].
      unfold d0. rewrite !cp_data_owned. by rewrite Hc. }
    set (h2 := set_dat gc _) in *.
    pose proof (pa_node _ _ _ _ _ P2) as Hn2.
    rewrite (bindM_Ret _ _ _ _ _ (run_get_key_plain _ _ _ (proj1 Hn2) (proj2 Hn2))).
    exists h2. split; [reflexivity|]. split; [done|]. split; [reflexivity|]. split; [reflexivity|]. split; [|done].
    intros b0 s0 H0. by apply str_is_set_dat. }
  mn. rewrite (bindM_Ret _ _ _ _ _ (run_get_key_plain _ _ _ (proj1 Hi) (proj2 Hi))).
  change (nd_key (mk_dat d ks)) with (rd_key d). rewrite Ek. mn.
  destruct (Hkr b eq_refl eq_refl) as (s & Hs & Hz).
  rewrite (bindM_Ret _ _ _ _ _ (run_strdup_ok never _ _ _ Hs Hz eq_refl)). mn.
  set (b' := h_next gc). set (ha := alloc_str_h gc _).
  assert (Hna : nd_at ha n (mk_dat d0 [])).
  { destruct Hn as [H1 H2]. split; [|exact H2]. cbn. set_solver. }
  rewrite (bindM_Ret _ _ _ _ _ (run_set_key_plain _ _ _ (Some b') (proj1 Hna) (proj2 Hna))). mn.
  change (nd_set_key (mk_dat d0 []) (Some b')) with (mk_dat (cp_data d v (Some b')) []).
  assert (P2 : Partial g (set_dat ha (<[n := mk_dat (cp_data d v (Some b')) []]> (h_dat gc))) n
                 (cp_data d v (Some b')) []).
  { apply (Partial_add_str _ _ _ d0); [done| |apply cp_data_is_ref|done].
    unfold d0. rewrite !cp_data_owned. rewrite Hc. cbn [opt_list]. rewrite app_nil_r.
    symmetry. apply Permutation_cons_append. }
  change (h_dat ha) with (h_dat gc). set (h2 := set_dat ha _) in *.
  pose proof (pa_node _ _ _ _ _ P2) as Hn2.
  rewrite (bindM_Ret _ _ _ _ _ (run_get_key_plain _ _ _ (proj1 Hn2) (proj2 Hn2))).
  assert (Hmono : str_mono gc h2).
  { intros b0 s0 H0. apply str_is_set_dat. eapply str_is_frame; [|exact H0]. apply Ext_alloc_str. apply Fr. }
  exists h2. split; [reflexivity|]. split; [done|]. split; [reflexivity|]. split; [by apply ctr_succ|]. split; [done|].
  exists s. split; [by apply Hmono|]. split; cbn; [set_solver|by rewrite lookup_insert].
Qed.

(** allocation and fields of one node *)
Lemma dup_prefixX (K : ptr -> M ptr) g lf i d (ks : list positive) :
  Closed g -> src_node g lf i d ks ->
  exists gc,
    (newitem <~ cJSON_New_Item never ;;
     if is_null newitem then dup_fail newitem else
     dup_k0 (dup_k1 never (dup_k2 never (K newitem) (Some i) newitem) (Some i) newitem) (Some i) newitem) g
    = K (Some (h_next g)) gc /\
    Partial g gc (h_next g) (dup_data d (h_next g)) [] /\ data_copy gc d (dup_data d (h_next g)) /\
    h_next gc = after_key d (h_next g) /\ ctr gc = ctr g.
Proof.
  intros C Hsrc. rewrite (bindM_Ret _ _ _ _ _ (run_New_Item_ok never g eq_refl)). cbn [is_null].
  set (a := h_next g). pose proof (Partial_alloc g C) as P0. fold a in P0.
  destruct (dup_k0X (dup_k1 never (dup_k2 never (K (Some a)) (Some i) (Some a)) (Some i) (Some a))
              _ _ i a d ks P0 (proj1 Hsrc)) as (gc0 & -> & P1 & Hn0 & Hr0).
  destruct (dup_k1X (dup_k2 never (K (Some a)) (Some i) (Some a)) _ _ lf i a d ks P1 Hsrc)
    as (gc1 & -> & P2 & Hn1 & Hc1 & Hv).
  destruct (dup_k2X (K (Some a)) _ _ lf i a d ks _ P2 Hsrc) as (gc2 & -> & P3 & Hn2 & Hc2 & Hs2 & Hk).
  assert (E0 : h_next gc0 = Pos.succ a) by (rewrite Hn0; reflexivity).
  assert (Ev : vnew d gc0 = dup_vstr d a) by (unfold vnew, dup_vstr; by rewrite E0).
  assert (E1 : h_next gc1 = after_vstr d a) by (rewrite Hn1, E0; reflexivity).
  assert (Ek : knew d gc1 = dup_key d a) by (unfold knew, dup_key; by rewrite E1).
  rewrite Ev, Ek in P3. rewrite Ev in P2.
  exists gc2. split; [reflexivity|]. split; [exact P3|]. split; [|split].
  - unfold dup_data. split_and!; try reflexivity.
    + cbn [cp_data rd_vstr]. unfold dup_vstr. destruct (rd_vstr d) as [b|]; [|done].
      exists (Pos.succ a). split; [done|]. rewrite <- E0. by eapply str_copy_mono.
    + cbn [cp_data rd_key]. unfold dup_key. destruct (rd_key d) as [b|]; [|done]. destruct (is_const d); [done|].
      exists (after_vstr d a). split; [done|]. by rewrite <- E1.
  - rewrite Hn2, E1. reflexivity.
  - rewrite Hc2, Hc1. apply ctr_succ; [rewrite Hn0|rewrite Hr0]; reflexivity.
Qed.

(** * the exact statement *)
Definition resX (t : tree) (a : positive) : ptr := option_map tid (dupm t a).1.

Definition PostX g (t : tree) g' : Prop :=
  h_next g' = (dupm t (h_next g)).2 /\ ctr g' = ctr g /\
  match (dupm t (h_next g)).1 with
  | Some tc => Done never g t tc g'
  | None => Ext [] [] g g'
  end.

Definition RecX (rec : ptr -> M ptr) (lf k : nat) : Prop :=
  forall c g1, Closed g1 -> src_t g1 lf k c ->
    exists g2, rec (Some (tid c)) g1 = Ret (resX c (h_next g1), g2) /\ PostX g1 c g2.

Lemma dupm_unfold i d cs a :
  dupm (T i d cs) a =
  match (dupl cs (after_key d a)).1 with
  | Some tcs => if is_cut d cs then (None, (dupl cs (after_key d a)).2)
                else (Some (T a (dup_data d a) tcs), (dupl cs (after_key d a)).2)
  | None => (None, (dupl cs (after_key d a)).2)
  end.
Proof. reflexivity. Qed.
Lemma dupl_cons c r a :
  dupl (c :: r) a =
  match dupm c a with
  | (Some tc, a1) => match dupl r a1 with (Some tcs, a2) => (Some (tc :: tcs), a2) | (None, a2) => (None, a2) end
  | (None, a1) => (None, a1)
  end.
Proof. reflexivity. Qed.
Lemma dupm_tid t a tc : (dupm t a).1 = Some tc -> tid tc = a.
Proof.
  destruct t as [i d cs]. rewrite dupm_unfold. destruct (dupl cs (after_key d a)).1; [|done].
  destruct (is_cut d cs); [done|]. by intros [= <-].
Qed.

Lemma oclean_never g g' : oclean never g g'.
Proof. by intros j _. Qed.

Lemma Partial_fail g gc n d tcs :
  Partial g gc n d tcs ->
  exists g', dup_fail (Some n) gc = Ret (None, g') /\ Ext [] [] g g' /\ h_next g' = h_next gc /\ h_req g' = h_req gc.
Proof.
  intros P. destruct (Partial_delete _ _ _ _ _ P) as [Hrun Hfr].
  exists (free_all (free_order [T n d tcs]) gc). split; [|split; [done|split; [apply free_all_next|apply fa_req]]].
  unfold dup_fail. cbn [is_null negb when]. by rewrite (bindM_Ret _ _ _ _ _ Hrun).
Qed.

(** closing the chain, with the counters *)
Lemma closeX g g1 n d tcs :
  Partial g g1 n d tcs ->
  exists g2,
    (nc <~ get_child (Some n) ;;
     when (negb (is_null nc)) (nc2 <~ get_child (Some n) ;; set_prev nc2 (last (tid <$> tcs))) ;;;
     ret (Some n)) g1 = Ret (Some n, g2) /\
    Ext (nids (flat_t (T n d tcs))) (sids (flat_t (T n d tcs))) g g2 /\
    Chain_ok g2 [T n d tcs] None /\ str_mono g1 g2 /\ h_next g2 = h_next g1 /\ h_req g2 = h_req g1.
Proof.
  intros P. destruct (close_sim _ _ _ _ _ P) as (g2 & Hrun & Fr & Ch & Hs & Hreq).
  exists g2. split_and!; try done.
  eapply (Keeps_bind (get_child (Some n))); [apply Keeps_get_child| |exact Hrun].
  intros nc. apply Keeps_bind; [|intros; apply Keeps_ret].
  apply Keeps_when. apply Keeps_bind; [apply Keeps_get_child|intros; apply Keeps_set_prev].
Qed.

(** linking one more child, with the counters *)
Lemma linkX g gc g2 n d tcs tc :
  Partial g gc n d tcs -> Ext (nids (flat_t tc)) (sids (flat_t tc)) gc g2 ->
  NoDup (nids (flat_t tc) ++ sids (flat_t tc)) -> Chain_ok g2 [tc] None -> Forall ref_ok (flat_t tc) ->
  exists g3,
    (forall (K : M (bool * ptr)),
      ((if negb (is_null (last (tid <$> tcs))) then
          set_next (last (tid <$> tcs)) (Some (tid tc)) ;;; set_prev (Some (tid tc)) (last (tid <$> tcs))
        else set_child (Some n) (Some (tid tc))) ;;; K) g2 = K g3) /\
    Partial g g3 n d (tcs ++ [tc]) /\ str_mono g2 g3 /\ h_next g3 = h_next g2 /\ h_req g3 = h_req g2.
Proof.
  intros P Fr2 ND2 C2 R2. destruct (link_step_sim _ _ _ _ _ _ _ P Fr2 ND2 C2 R2) as (g3 & Hlink & P3 & Hs3 & Hreq3).
  exists g3. split_and!; try done.
  pose proof (Hlink (ret (true, None))) as E.
  assert (HK : Keeps ((if negb (is_null (last (tid <$> tcs))) then
          set_next (last (tid <$> tcs)) (Some (tid tc)) ;;; set_prev (Some (tid tc)) (last (tid <$> tcs))
        else set_child (Some n) (Some (tid tc))) ;;; ret (true, @None positive))).
  { apply Keeps_bind; [|intros; apply Keeps_ret]. destruct (negb _).
    - apply Keeps_bind; [apply Keeps_set_next|intros; apply Keeps_set_prev].
    - apply Keeps_set_child. }
  by destruct (HK _ _ _ E).
Qed.

Section LoopX.
  Variable rec : ptr -> M ptr.

  Lemma dup_loopX lf k n d depth :
    (c_CJSON_CIRCULAR_LIMIT <=? depth)%Z = false -> RecX rec lf k ->
    forall rs fuel g gc tcs, length rs < fuel -> Partial g gc n d tcs -> src_list g lf k rs ->
    exists g',
      h_next g' = (dupl rs (h_next gc)).2 /\ ctr g' = ctr gc /\
      match (dupl rs (h_next gc)).1 with
      | Some tcs2 =>
          dup_loop rec (Some n) depth fuel (head (tid <$> rs)) (last (tid <$> tcs)) (last (tid <$> tcs)) gc
          = Ret ((true, last (tid <$> (tcs ++ tcs2))), g') /\
          Partial g g' n d (tcs ++ tcs2) /\ copy_list g' rs tcs2 /\ Forall complete rs /\ str_mono gc g'
      | None =>
          exists nc tcs2,
            dup_loop rec (Some n) depth fuel (head (tid <$> rs)) (last (tid <$> tcs)) (last (tid <$> tcs)) gc
            = Ret ((false, nc), g') /\
            Partial g g' n d (tcs ++ tcs2)
      end.
  Proof.
    intros Hd Hrec rs. induction rs as [|c r IH]; intros fuel g gc tcs Hf P Hsrc.
    - destruct fuel as [|fuel]; [cbn in Hf; lia|]. cbn [dup_loop fmap list_fmap head is_null dupl fst snd].
      exists gc. split; [done|]. split; [done|]. rewrite app_nil_r. split_and!; try done. by intros ? ? ?.
    - destruct fuel as [|fuel]; [cbn in Hf; lia|]. cbn [dup_loop fmap list_fmap head is_null]. rewrite Hd.
      rewrite src_list_cons in Hsrc. destruct Hsrc as ((pv & Hlk) & Hc & Hr).
      pose proof (pa_frame _ _ _ _ _ P) as Frg. pose proof (pt_mono_frame _ _ _ _ Frg) as Hm.
      pose proof (src_t_mono _ _ _ _ _ Hm Hc) as Hc'.
      destruct (Hrec c gc (xt_closed _ _ _ _ Frg) Hc') as (g2 & Hrun & Hn2 & Hc2 & HP).
      rewrite dupl_cons. unfold resX in Hrun.
      destruct (dupm c (h_next gc)) as [[tc|] a1] eqn:Edc; cbn [fst snd option_map] in *.
      + destruct HP as (Fr2 & ND2 & C2 & R2 & Hcp & Hcomp & _).
        rewrite (bindM_Ret _ _ _ _ _ Hrun). cbn [is_null].
        destruct (linkX _ _ _ _ _ _ _ P Fr2 ND2 C2 R2) as (g3 & Hlink & P3 & Hs3 & Hn3 & Hr3).
        rewrite Hlink.
        pose proof (lk_at_frame _ _ _ _ _ _ (pa_frame _ _ _ _ _ P3) Hlk) as Hlk3.
        rewrite (bindM_Ret _ _ _ _ _ (run_get_next_plain _ _ _ (proj1 Hlk3) (proj2 Hlk3))). cbn [fst].
        assert (Hlast : last (tid <$> (tcs ++ [tc])) = Some (tid tc)) by (rewrite fmap_app; apply last_snoc).
        rewrite <- Hlast.
        destruct (IH fuel g g3 (tcs ++ [tc]) ltac:(cbn in Hf; lia) P3 Hr) as (g' & Hn' & Hctr' & Hcase).
        assert (E3 : h_next g3 = a1) by (by rewrite Hn3).
        rewrite E3 in Hn', Hcase.
        assert (Hctr : ctr g' = ctr gc).
        { rewrite Hctr'. rewrite <- Hc2. by apply ctr_same. }
        exists g'. destruct (dupl r a1) as [[tcs2|] a2] eqn:Edl; cbn [fst snd] in *.
        * split; [done|]. split; [done|]. rewrite <- app_assoc in Hcase. cbn [app] in Hcase.
          destruct Hcase as (Hrun' & P' & Hcpl & HF & Hs').
          assert (Hs2 : str_mono g2 g') by (intros b s H; by apply Hs', Hs3).
          split_and!; try done.
          -- rewrite copy_list_cons. split; [by eapply copy_of_mono|done].
          -- by apply Forall_cons.
          -- intros b s H. apply Hs2. by eapply str_is_frame.
        * split; [done|]. split; [done|]. destruct Hcase as (nc & tcs2 & Hrun' & P').
          exists nc, (tc :: tcs2). rewrite <- app_assoc in P'. by split.
      + rewrite (bindM_Ret _ _ _ _ _ Hrun). cbn [is_null].
        exists g2. split; [done|]. split; [done|]. exists None, []. rewrite app_nil_r.
        split; [reflexivity|]. by eapply Partial_frame_nil.
  Qed.
End LoopX.

Lemma dup_recX k : forall df lf g t,
  k <= df -> Closed g -> src_t g lf k t ->
  exists g',
    cJSON_Duplicate_rec never (S df) lf (Some (tid t)) (c_CJSON_CIRCULAR_LIMIT - Z.of_nat k) true g
    = Ret (resX t (h_next g), g') /\ PostX g t g'.
Proof.
  induction k as [|k IH]; intros df lf g [i d cs] Hdf C Hsrc; rewrite dup_rec_S; cbn [tid is_null].
  - (* at the depth limit *)
    rewrite src_t_O in Hsrc. destruct Hsrc as [Hnode ->]. cbn [fmap list_fmap] in Hnode.
    set (depth := (c_CJSON_CIRCULAR_LIMIT - Z.of_nat 0)%Z).
    set (rec := fun c => cJSON_Duplicate_rec never df lf c (depth + 1) true).
    destruct (dup_prefixX (fun newitem => dup_k3 rec lf (Some i) depth true newitem) g lf i d [] C Hnode)
      as (gc & Hrun & P & Hdc & Hn & Hc).
    set (a := h_next g) in *. set (d2 := dup_data d a) in *.
    unfold resX, PostX. fold a. rewrite dupm_unfold. cbn [dupl fst snd]. unfold is_cut.
    match goal with |- exists g', _ = Ret (option_map tid (?X).1, g') /\ _ => set (R := X) end.
    cut (exists g', dup_k3 rec lf (Some i) depth true (Some a) gc = Ret (option_map tid R.1, g') /\
           h_next g' = R.2 /\ ctr g' = ctr g /\
           match R.1 with Some tc => Done never g (T i d []) tc g' | None => Ext [] [] g g' end).
    { intros (g' & H1 & H2). exists g'. split; [exact (eq_trans Hrun H1)|exact H2]. }
    unfold dup_k3. cbn [negb].
    pose proof (nd_at_frame _ _ _ _ _ _ (pa_frame _ _ _ _ _ P) (proj1 Hnode)) as Hi.
    rewrite (bindM_Ret _ _ _ _ _ (run_get_child_plain _ _ _ (proj1 Hi) (proj2 Hi))).
    change (nd_child (mk_dat d [])) with (rd_ref d).
    destruct lf as [|lf]; [destruct Hnode as (_ & Hlen & _); cbn in Hlen; lia|]. cbn [dup_loop].
    unfold R. destruct (rd_ref d) as [c|] eqn:Eref; cbn [is_null fst snd option_map].
    + assert (Hlim : (c_CJSON_CIRCULAR_LIMIT <=? depth)%Z = true) by (apply Z.leb_le; unfold depth; lia).
      rewrite Hlim. rewrite bindM_ret. cbn [negb].
      destruct (Partial_fail _ _ _ _ _ P) as (g' & Hrun' & Hfr & Hn' & Hr').
      exists g'. split; [exact Hrun'|]. split; [by rewrite Hn'|]. split; [|done].
      rewrite <- Hc. by apply ctr_same.
    + rewrite bindM_ret. cbn [negb].
      destruct (closeX _ _ _ _ _ P) as (g2 & Hrun2 & Fr2 & C2 & Hs2 & Hn2 & Hr2).
      destruct (Partial_done_facts _ _ _ _ _ P) as [ND2 R2].
      exists g2. split; [exact Hrun2|]. split; [by rewrite Hn2|]. split; [rewrite <- Hc; by apply ctr_same|].
      split_and!; try done.
      * rewrite copy_of_unfold. split; [by eapply data_copy_mono|done].
      * apply complete_node; [done|constructor].
  - (* below the limit *)
    rewrite src_t_S in Hsrc. destruct Hsrc as (Hnode & Href & Hlist).
    set (depth := (c_CJSON_CIRCULAR_LIMIT - Z.of_nat (S k))%Z).
    destruct df as [|df]; [lia|].
    set (rec := fun c => cJSON_Duplicate_rec never (S df) lf c (depth + 1) true).
    assert (HRec : RecX rec lf k).
    { intros c g1 C1 Hc. unfold rec.
      replace (depth + 1)%Z with (c_CJSON_CIRCULAR_LIMIT - Z.of_nat k)%Z by (unfold depth; lia).
      apply IH; [lia|done|done]. }
    assert (Hd : (c_CJSON_CIRCULAR_LIMIT <=? depth)%Z = false) by (apply Z.leb_gt; unfold depth; lia).
    destruct (dup_prefixX (fun newitem => dup_k3 rec lf (Some i) depth true newitem) g lf i d (tid <$> cs) C Hnode)
      as (gc & Hrun & P & Hdc & Hn & Hc).
    set (a := h_next g) in *. set (d2 := dup_data d a) in *.
    unfold resX, PostX. fold a. rewrite dupm_unfold.
    assert (Hcut : is_cut d cs = false).
    { unfold is_cut. destruct cs; [|done]. by rewrite Href. }
    rewrite Hcut.
    set (R := match (dupl cs (after_key d a)).1 with
              | Some tcs => (Some (T a (dup_data d a) tcs), (dupl cs (after_key d a)).2)
              | None => (None, (dupl cs (after_key d a)).2)
              end).
    cut (exists g', dup_k3 rec lf (Some i) depth true (Some a) gc = Ret (option_map tid R.1, g') /\
           h_next g' = R.2 /\ ctr g' = ctr g /\
           match R.1 with Some tc => Done never g (T i d cs) tc g' | None => Ext [] [] g g' end).
    { intros (g' & H1 & H2). exists g'. split; [exact (eq_trans Hrun H1)|exact H2]. }
    unfold dup_k3. cbn [negb].
    pose proof (nd_at_frame _ _ _ _ _ _ (pa_frame _ _ _ _ _ P) (proj1 Hnode)) as Hi.
    rewrite (bindM_Ret _ _ _ _ _ (run_get_child_plain _ _ _ (proj1 Hi) (proj2 Hi))).
    change (nd_child (mk_dat d (tid <$> cs))) with (child_of d (tid <$> cs)).
    rewrite child_of_head_or by (intros E; apply Href; by apply fmap_nil_inv in E).
    assert (Hlen : length cs < lf).
    { destruct Hnode as (_ & Hlen & _). by rewrite fmap_length in Hlen. }
    destruct (dup_loopX rec lf k a d2 depth Hd HRec cs lf g gc [] Hlen P Hlist) as (g1 & Hn1 & Hc1 & Hcase).
    rewrite Hn in Hn1, Hcase. unfold R. cbn [app] in Hcase.
    destruct (dupl cs (after_key d a)) as [[tcs|] a2] eqn:Edl; cbn [fst snd option_map tid] in *.
    + destruct Hcase as (Hrun1 & P1 & Hcp & HF & Hs1).
      erewrite bindM_Ret; [|exact Hrun1]. cbn [negb].
      destruct (closeX _ _ _ _ _ P1) as (g2 & Hrun2 & Fr2 & C2 & Hs2 & Hn2 & Hr2).
      destruct (Partial_done_facts _ _ _ _ _ P1) as [ND2 R2].
      exists g2. split; [exact Hrun2|]. split; [by rewrite Hn2|].
      split; [rewrite <- Hc, <- Hc1; by apply ctr_same|].
      split_and!; try done.
      * rewrite copy_of_unfold. split.
        -- eapply data_copy_mono; [|exact Hdc]. intros b s H. by apply Hs2, Hs1.
        -- by eapply copy_list_mono.
      * by apply complete_node.
    + destruct Hcase as (nc & tcs2 & Hrun1 & P1).
      erewrite bindM_Ret; [|exact Hrun1]. cbn [negb].
      destruct (Partial_fail _ _ _ _ _ P1) as (g' & Hrun' & Hfr & Hn' & Hr').
      exists g'. split; [exact Hrun'|]. split; [by rewrite Hn'|]. split; [|done].
      rewrite <- Hc, <- Hc1. by apply ctr_same.
Qed.

(** * the entry points *)
Theorem cJSON_DuplicateX h t :
  Closed h -> src_t h (Pos.to_nat (h_next h)) (Z.to_nat c_CJSON_CIRCULAR_LIMIT) t ->
  exists h', cJSON_Duplicate never (Some (tid t)) true h = Ret (resX t (h_next h), h') /\ PostX h t h'.
Proof.
  intros C Hsrc. unfold cJSON_Duplicate, heap_fuel. unfold bindM at 1.
  pose proof limit_nonneg as HL.
  destruct (dup_recX (Z.to_nat c_CJSON_CIRCULAR_LIMIT) (S (Z.to_nat c_CJSON_CIRCULAR_LIMIT))
              (Pos.to_nat (h_next h)) h t ltac:(lia) C Hsrc) as (h' & Hrun & HP).
  rewrite Z2Nat.id in Hrun by done. rewrite Z.sub_diag in Hrun. by exists h'.
Qed.

(** the non-recursive call: the node alone *)
Theorem cJSON_Duplicate_flatX h i d (ks : list positive) :
  Closed h -> src_node h (Pos.to_nat (h_next h)) i d ks ->
  let tc := T (h_next h) (dup_data d (h_next h)) [] in
  exists h',
    cJSON_Duplicate never (Some i) false h = Ret (Some (h_next h), h') /\
    h_next h' = after_key d (h_next h) /\ ctr h' = ctr h /\
    Ext (nids (flat_t tc)) (sids (flat_t tc)) h h' /\ NoDup (nids (flat_t tc) ++ sids (flat_t tc)) /\
    Chain_ok h' [tc] None /\ Forall ref_ok (flat_t tc) /\ data_copy h' d (dup_data d (h_next h)).
Proof.
  intros C Hnode tc. unfold cJSON_Duplicate, heap_fuel. unfold bindM at 1. rewrite dup_rec_S. cbn [is_null].
  set (rec := fun c => cJSON_Duplicate_rec never (S (Z.to_nat c_CJSON_CIRCULAR_LIMIT)) (Pos.to_nat (h_next h)) c (0 + 1) true).
  destruct (dup_prefixX (fun newitem => dup_k3 rec (Pos.to_nat (h_next h)) (Some i) 0 false newitem) h _ i d ks C Hnode)
    as (gc & Hrun & P & Hdc & Hn & Hc).
  exists gc. split; [exact Hrun|]. split; [done|]. split; [done|].
  destruct (closeX _ _ _ _ _ P) as (g2 & Hrun2 & Fr2 & C2 & Hs2 & _).
  assert (g2 = gc) as ->.
  { revert Hrun2. pose proof (pa_node _ _ _ _ _ P) as Hnd.
    rewrite (bindM_Ret _ _ _ _ _ (run_get_child_plain _ _ _ (proj1 Hnd) (proj2 Hnd))).
    cbn. intros [= <-]. done. }
  destruct (Partial_done_facts _ _ _ _ _ P) as [ND2 R2]. by split_and!.
Qed.
