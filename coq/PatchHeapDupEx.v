(** PatchHeapDupEx.v — non-vacuity of PatchHeapDup.v / PatchHeapDupLoop.v: a concrete heap on which the statuses 8
    and 6 arise without any allocation failure.

    Document {"a":1,"d":D}, patch array
       [ replace /a D ;  copy /d to /e ;  add "" D ]
    where D = [[[ … [] … ]]] is nested 10002 arrays deep (CJSON_CIRCULAR_LIMIT = 10000; [cJSON_Duplicate] refuses a
    value with more than 10000 levels below it).  The heap is the canonical encoding [heap_at] of the forest obtained
    from these values by [PatchHeapEx.enc] (30 019 nodes); the invariant is established from boolean checks on the
    FOREST (identities increasing, strings owned and terminated …) that are evaluated by [vm_compute]; the heap-level
    interpreter is NOT run on it: what it does is the CONSEQUENCE of [apply_patch_refines_all] /
    [apply_patches_refines_all] and of the value-level model, which is evaluated ([pd_values]). *)
From CJ Require Import Base Dbl Heap Forest ForestLemmas CoreSpec CoreDefs CoreRefineFrame CoreRefineDupValue CoreLedgerGen.
From CJ Require Import TierBridgeDefs MergeHeapDefs MergeHeapInv MergeHeapEx PatchHeapDefs PatchHeapPath PatchHeapPointer PatchHeapStr PatchHeapSteps PatchHeapDetach
  PatchHeapApplyDefs PatchHeapOps PatchHeapFinish PatchHeapApply PatchHeapTest PatchHeapLoop PatchHeapEx PatchHeapDup PatchHeapDupLoop.
From CJ Require Tree PointerDefs PatchDefs CompareDefs.
From CJ.gen Require Import Constants.
From stdpp Require Import gmap.
From Coq Require Import Lia.
Local Open Scope Z_scope.

(** * the canonical heap of a forest, allocator pointer [N] *)
Definition heap_at (N : positive) (F : forest) (St : gmap positive bytes) : heap :=
  mkHeap (heap_lnk_of F) (heap_dat_of F) St
         (list_to_map ((fun b => (b, Lib)) <$> owned F))
         (list_to_set (owned F))
         N 0 default_hooks [].

(** strictly increasing lists have no duplicates (a linear check) *)
Fixpoint incrb (l : list positive) : bool :=
  match l with
  | a :: r => match r with b :: _ => (a <? b)%positive && incrb r | [] => true end
  | [] => true
  end.
Lemma incrb_lt l : forall a, incrb (a :: l) = true -> Forall (fun b => (a < b)%positive) l /\ incrb l = true.
Proof.
  induction l as [|b r IH]; intros a H; [done|]. cbn [incrb] in H. apply andb_true_iff in H as [H1 H2].
  apply Pos.ltb_lt in H1. destruct (IH b H2) as [H3 _]. split; [|exact H2].
  constructor; [done|]. eapply Forall_impl; [exact H3|]. intros c Hc. cbn in Hc. lia.
Qed.
Lemma incrb_NoDup l : incrb l = true -> NoDup l.
Proof.
  induction l as [|a r IH]; intros H; [constructor|]. destruct (incrb_lt r a H) as [H1 H2].
  constructor; [|by apply IH]. intros Hin. rewrite Forall_forall in H1. specialize (H1 a Hin). lia.
Qed.

(** membership in a list of positives, as a boolean; the checks below compute [owned F] / [ids F] ONCE *)
Definition memb (x : positive) (l : list positive) : bool := existsb (Pos.eqb x) l.
Lemma memb_elem x l : memb x l = true <-> x ∈ l.
Proof.
  unfold memb. rewrite existsb_exists. split.
  - intros (y & Hy & E). apply Pos.eqb_eq in E as ->. by apply elem_of_list_In.
  - intros H. exists x. split; [by apply elem_of_list_In|apply Pos.eqb_refl].
Qed.
Definition okb (o : list positive) (St : gmap positive bytes) (p : ptr) : bool :=
  match p with
  | None => true
  | Some b => memb b o && match St !! b with Some s => existsb (Z.eqb 0) s | None => false end
  end.

Lemma heap_at_MInv N F St :
  incrb (ids F) = true -> incrb (owned F) = true ->
  forallb (fun b => bool_decide (b < N)%positive) (owned F) = true ->
  forallb (fun n : fnode => bool_decide (is_ref (fn_data n) = true -> fn_cids n = []) &&
                            bool_decide (rd_ref (fn_data n) <> None -> is_ref (fn_data n) = true)) (flat F) = true ->
  (let o := owned F in let i := ids F in
   forallb (fun kv : positive * bytes => memb kv.1 o && negb (memb kv.1 i)) (map_to_list St)) = true ->
  (let o := owned F in
   forallb (fun e : positive * rdata => negb (is_ref e.2) && negb (is_const e.2) &&
                                        okb o St (rd_vstr e.2) && okb o St (rd_key e.2)) (datas F)) = true ->
  MInv (heap_at N F St) F.
Proof.
  intros H1 H2 H3 H4 H5 H6. cbv zeta in H5, H6. apply incrb_NoDup in H1, H2. rewrite forallb_forall in H3, H4, H5, H6.
  assert (Hok : forall p b, okb (owned F) St p = true -> p = Some b -> str_ok (heap_at N F St) b).
  { intros p b Hp ->. cbn in Hp. apply andb_true_iff in Hp as [A B]. apply memb_elem in A.
    split; [cbn; by apply elem_of_list_to_set|]. cbn. destruct (St !! b) as [s|]; [|done]. by exists s. }
  assert (Hlt : forall b, b ∈ owned F -> (b < N)%positive).
  { intros b Hb. specialize (H3 b ltac:(by apply elem_of_list_In)). by apply bool_decide_eq_true in H3. }
  constructor.
  - constructor; cbn; try done.
    + intros b Hb. by apply elem_of_list_to_set.
    + intros b Hb. apply elem_of_list_to_map_1.
      * rewrite <- list_fmap_compose. cbn. by rewrite list_fmap_id.
      * apply elem_of_list_fmap. by exists b.
    + apply Forall_forall. intros n Hn. specialize (H4 n ltac:(by apply elem_of_list_In)).
      apply andb_true_iff in H4 as [A B]. apply bool_decide_eq_true in A, B. by split.
  - constructor; cbn.
    + intros b Hb. cbn in Hb. apply elem_of_list_to_set in Hb. by apply Hlt.
    + intros b [s Hs]. specialize (H5 (b, s) ltac:(apply elem_of_list_In; by apply elem_of_map_to_list)).
      apply andb_true_iff in H5 as [A B]. apply memb_elem in A. apply negb_true_iff in B. cbn in A, B.
      split; [by apply elem_of_list_to_set|]. apply heap_dat_of_lookup_None. intros Hin. apply memb_elem in Hin. congruence.
    + intros b Hb. rewrite <- elem_of_dom, dom_heap_dat_of, elem_of_list_to_set in Hb.
      apply ids_subseteq_owned in Hb. by apply Hlt.
  - intros e He. specialize (H6 e ltac:(by apply elem_of_list_In)).
    apply andb_true_iff in H6 as [H6 _]. apply andb_true_iff in H6 as [H6 _]. apply andb_true_iff in H6 as [A B].
    split; [by apply negb_true_iff in A|by apply negb_true_iff in B].
  - intros e He. specialize (H6 e ltac:(by apply elem_of_list_In)).
    apply andb_true_iff in H6 as [H6 Hk]. apply andb_true_iff in H6 as [_ Hv].
    split; intros b Hb; [exact (Hok _ b Hv Hb)|exact (Hok _ b Hk Hb)].
Qed.
Lemma heap_at_NoLeak N F St : NoLeak (heap_at N F St) F.
Proof. intros b Hb. apply elem_of_filter in Hb as [_ Hb]. cbn [heap_at h_live] in Hb. by apply elem_of_list_to_set in Hb. Qed.

(** * the values *)
Fixpoint nest (n : nat) (v : Tree.node) : Tree.node :=
  match n with O => v | S k => varr None [nest k v] end.
Definition pd_levels : nat := Z.to_nat c_CJSON_CIRCULAR_LIMIT.
(** an array with [pd_levels + 1] levels of arrays below it *)
Definition pd_deep (k : option bytes) : Tree.node := varr k [nest pd_levels (varr None [])].
Definition pd_doc_v : Tree.node := vobj None [vnum 1 (Some [97]); pd_deep (Some [100])].          (* {"a":1,"d":D} *)
Definition pd_ops : list Tree.node :=
  [ pa_op PatchDefs.s_replace [47;97] [pd_deep (Some PatchDefs.s_value)];                          (* 0: replace /a D *)
    pa_op PatchDefs.s_copy [47;101] [vstr [47;100] (Some PatchDefs.s_from)];                       (* 1: copy /d to /e *)
    pa_op PatchDefs.s_add [] [pd_deep (Some PatchDefs.s_value)] ].                                 (* 2: add "" D (the root) *)
Definition pd_patches_v : Tree.node := varr None pd_ops.
Definition pd_e1 := enc pd_patches_v 1.
Definition pd_e2 := enc pd_doc_v (pd_e1.2).
Definition pd_patches : tree := pd_e1.1.1.
Definition pd_doc : tree := pd_e2.1.1.
Definition pd_G : forest := [pd_patches].
Definition pd_St : gmap positive bytes := list_to_map (pd_e1.1.2 ++ pd_e2.1.2).
Definition pd_next : positive := pd_e2.2.
Definition pd_heap : heap := heap_at pd_next (pd_G ++ [pd_doc]) pd_St.

Lemma pd_str : h_str pd_heap = pd_St.
Proof. reflexivity. Qed.

Lemma pd_MInv : MInv pd_heap (pd_G ++ [pd_doc]).
Proof. apply heap_at_MInv; vm_compute; reflexivity. Qed.
Lemma pd_NoLeak : NoLeak pd_heap (pd_G ++ [pd_doc]).
Proof. apply heap_at_NoLeak. Qed.

(** the size of the example, and the reified values *)
Lemma pd_size : length (ids (pd_G ++ [pd_doc])) = 30019%nat /\ (Z.to_nat c_CJSON_CIRCULAR_LIMIT < CoreRefineDupForest.height pd_doc)%nat.
Proof. split; [vm_compute; reflexivity|]. apply Nat.ltb_lt. vm_compute. reflexivity. Qed.
Lemma pd_reify : reify pd_St pd_doc = pd_doc_v /\ reify pd_St pd_patches = pd_patches_v.
Proof. split; vm_compute; reflexivity. Qed.

(** * the value-level model on the three operations: statuses 8, 6, 8; the refused replace has removed "a" *)
Definition pd_model (k : nat) : option (Z * Tree.node) :=
  match PatchDefs.apply_patch pd_doc_v (default pd_doc_v (pd_ops !! k)) true with
  | Ok (st, d, _) => Some (st, d)
  | _ => None
  end.
Lemma pd_values :
  pd_model 0 = Some (8, vobj None [pd_deep (Some [100])]) /\
  pd_model 1 = Some (6, pd_doc_v) /\
  pd_model 2 = Some (8, pd_doc_v) /\
  PatchDefs.cJSON_Duplicate (pd_deep None) = None /\
  match PatchDefs.cJSONUtils_ApplyPatchesCaseSensitive pd_doc_v pd_patches_v with
  | Ok (st, d, _) => st = 8 /\ d = vobj None [pd_deep (Some [100])]
  | _ => False
  end.
Proof. split_and!; vm_compute; try reflexivity. split; reflexivity. Qed.

(** * the theorem applies: one operation *)
Lemma pd_pt_node (k : nat) t : tchildren pd_patches !! k = Some t -> t ∈ nodes pd_G.
Proof.
  intros Hk. destruct pd_patches as [i d cs] eqn:E. cbn [tchildren] in Hk.
  eapply (TierBridgeForest.child_in_nodes pd_G i d cs t).
  - apply roots_in_nodes. unfold pd_G. rewrite E. by left.
  - by eapply elem_of_list_lookup_2.
Qed.

Lemma pd_stage (k : nat) t :
  tchildren pd_patches !! k = Some t ->
  PatchDefs.decode_patch_operation (reify (h_str pd_heap) t) true <> Ok PatchDefs.TEST ->
  MInv pd_heap (pd_G ++ [pd_doc]) /\ NoLeak pd_heap (pd_G ++ [pd_doc]) /\ t ∈ nodes pd_G /\
  match PatchDefs.apply_patch (reify (h_str pd_heap) pd_doc) (reify (h_str pd_heap) t) true with
  | Ok (st, doc', pt') =>
      exists h' docT,
        apply_patch nofail (Some (tid pd_doc)) (Some (tid t)) true pd_heap = Ret (st, h') /\
        MInv h' (pd_G ++ [docT]) /\ reify (h_str h') docT = doc' /\ NoLeak h' (pd_G ++ [docT])
  | _ => True
  end.
Proof.
  intros Hk Hnt. pose proof (pd_pt_node k t Hk) as Hn. split; [exact pd_MInv|]. split; [exact pd_NoLeak|]. split; [exact Hn|].
  destruct t as [pid dpt cpt].
  pose proof (apply_patch_refines_all pd_heap pd_G pd_doc pid dpt cpt true pd_MInv Hn Hnt) as H. unfold apply_post_all in H.
  destruct (PatchDefs.apply_patch (reify (h_str pd_heap) pd_doc) (reify (h_str pd_heap) (T pid dpt cpt)) true) as [[[st doc'] pt']| |]; [|done|done].
  destruct H as (h' & docT & E & I' & _ & Hre & _ & _ & NL & _).
  exists h', docT. split; [exact E|]. split; [exact I'|]. split; [exact Hre|]. apply NL, pd_NoLeak.
Qed.

(** the three elements, their opcodes, and what the model says on the REIFIED operands *)
Definition pd_el (k : nat) : tree := default pd_doc (tchildren pd_patches !! k).
Lemma pd_els :
  (forall k, (k < 3)%nat -> tchildren pd_patches !! k = Some (pd_el k)) /\
  (forall k, (k < 3)%nat -> PatchDefs.decode_patch_operation (reify pd_St (pd_el k)) true <> Ok PatchDefs.TEST) /\
  (forall k, (k < 3)%nat -> reify pd_St (pd_el k) = default pd_doc_v (pd_ops !! k)).
Proof.
  split_and!; intros k Hk; (destruct k as [|[|[|k]]]; [| | |lia]); try (vm_compute; reflexivity);
    (intros E; revert E; vm_compute; discriminate).
Qed.

(** the heap-level run on each of the three operations returns 8 / 6 / 8, re-establishes the invariant, leaks nothing,
    and leaves the document the model predicts *)
Lemma pd_observed :
  (exists h' docT, apply_patch nofail (Some (tid pd_doc)) (Some (tid (pd_el 0))) true pd_heap = Ret (8, h') /\
     MInv h' (pd_G ++ [docT]) /\ NoLeak h' (pd_G ++ [docT]) /\ reify (h_str h') docT = vobj None [pd_deep (Some [100])]) /\
  (exists h' docT, apply_patch nofail (Some (tid pd_doc)) (Some (tid (pd_el 1))) true pd_heap = Ret (6, h') /\
     MInv h' (pd_G ++ [docT]) /\ NoLeak h' (pd_G ++ [docT]) /\ reify (h_str h') docT = pd_doc_v) /\
  (exists h' docT, apply_patch nofail (Some (tid pd_doc)) (Some (tid (pd_el 2))) true pd_heap = Ret (8, h') /\
     MInv h' (pd_G ++ [docT]) /\ NoLeak h' (pd_G ++ [docT]) /\ reify (h_str h') docT = pd_doc_v).
Proof.
  destruct pd_els as (E1 & E2 & E3). destruct pd_values as (V0 & V1 & V2 & _). destruct pd_reify as [Rd _].
  assert (Hall : forall k st d, (k < 3)%nat -> pd_model k = Some (st, d) ->
    exists h' docT, apply_patch nofail (Some (tid pd_doc)) (Some (tid (pd_el k))) true pd_heap = Ret (st, h') /\
      MInv h' (pd_G ++ [docT]) /\ NoLeak h' (pd_G ++ [docT]) /\ reify (h_str h') docT = d).
  { intros k st d Hk Hm. destruct (pd_stage k (pd_el k) (E1 k Hk) ltac:(rewrite pd_str; exact (E2 k Hk))) as (_ & _ & _ & H).
    rewrite pd_str, Rd, (E3 k Hk) in H. unfold pd_model in Hm.
    destruct (PatchDefs.apply_patch pd_doc_v (default pd_doc_v (pd_ops !! k)) true) as [[[st' d'] p']| |]; [|done|done].
    injection Hm as -> ->. destruct H as (h' & docT & H1 & H2 & H3 & H4). exists h', docT. split; [exact H1|]. split; [exact H2|]. split; [exact H4|exact H3]. }
  split_and!; [exact (Hall 0%nat _ _ ltac:(lia) V0)|exact (Hall 1%nat _ _ ltac:(lia) V1)|exact (Hall 2%nat _ _ ltac:(lia) V2)].
Qed.

(** * the theorem applies: the entry point *)
Definition value_keyedb (p : Tree.node) (cs : bool) : bool :=
  match PatchDefs.decode_patch_operation p cs with
  | Ok PatchDefs.TEST =>
      match CompareDefs.get_object_item p (Some PatchDefs.s_value) cs with
      | Some (_, v) => vkeyedb v
      | None => true
      end
  | _ => true
  end.
Lemma value_keyedb_sound p cs : value_keyedb p cs = true -> value_keyed p cs.
Proof.
  unfold value_keyedb, value_keyed. intros H E. rewrite E in H.
  destruct (CompareDefs.get_object_item p (Some PatchDefs.s_value) cs) as [[j v]|]; [|done]. by apply vkeyedb_sound.
Qed.
Fixpoint run_keyedb (object : Tree.node) (ps : list Tree.node) (cs : bool) : bool :=
  match ps with
  | [] => true
  | p :: r =>
      vkeyedb object && value_keyedb p cs &&
      match PatchDefs.apply_patch object p cs with
      | Ok (st, o, _) => if st =? 0 then run_keyedb o r cs else true
      | _ => false
      end
  end.
Lemma run_keyedb_sound ps : forall object cs, run_keyedb object ps cs = true -> run_keyed object ps cs.
Proof.
  induction ps as [|p r IH]; intros object cs; [done|]. cbn [run_keyedb run_keyed]. intros H.
  apply andb_true_iff in H as [H H3]. apply andb_true_iff in H as [H1 H2].
  split; [by apply vkeyedb_sound|]. split; [by apply value_keyedb_sound|].
  destruct (PatchDefs.apply_patch object p cs) as [[[st o] p']| |]; [|done|done].
  intros ->. cbn in H3. by apply IH.
Qed.

Lemma pd_MInv2 : MInv pd_heap (F2 [] [] [] pd_doc pd_patches).
Proof. exact pd_MInv. Qed.
Lemma pd_NoLeak2 : NoLeak pd_heap (F2 [] [] [] pd_doc pd_patches).
Proof. exact pd_NoLeak. Qed.

Lemma pd_entry :
  run_keyed pd_doc_v pd_ops true /\
  exists h' docT arrT,
    cJSONUtils_ApplyPatchesCaseSensitive nofail (Some (tid pd_doc)) (Some (tid pd_patches)) pd_heap = Ret (8, h') /\
    MInv h' (F2 [] [] [] docT (put_t pd_patches [] arrT)) /\ NoLeak h' (F2 [] [] [] docT (put_t pd_patches [] arrT)) /\
    reify (h_str h') docT = vobj None [pd_deep (Some [100])].
Proof.
  assert (Hrk : run_keyed pd_doc_v pd_ops true) by (apply run_keyedb_sound; vm_compute; reflexivity).
  split; [exact Hrk|]. destruct pd_reify as [Rd Rp]. destruct pd_values as (_ & _ & _ & _ & V).
  assert (Ep : pd_patches = T (tid pd_patches) (tdata pd_patches) (tchildren pd_patches)) by (vm_compute; reflexivity).
  assert (Harr : subtree_t pd_patches [] = Some (T (tid pd_patches) (tdata pd_patches) (tchildren pd_patches))) by (exact (f_equal Some Ep)).
  assert (Hmap : map (reify pd_St) (tchildren pd_patches) = pd_ops) by (vm_compute; reflexivity).
  rewrite Ep in Rp.
  pose proof (apply_patches_refines_all pd_heap [] [] pd_doc pd_patches [] (tid pd_patches) (tdata pd_patches) (tchildren pd_patches) true
                pd_MInv2 Harr) as H.
  rewrite pd_str, Rd, Rp, Hmap in H. specialize (H (fun _ => Hrk)).
  unfold PatchDefs.cJSONUtils_ApplyPatchesCaseSensitive in V.
  destruct (PatchDefs.apply_patches pd_doc_v pd_patches_v true) as [[[st d] p']| |]; [|destruct V|destruct V]. destruct V as [-> ->].
  destruct H as (h' & docT & arrT & E & I' & _ & _ & Hre & _ & NL & _).
  exists h', docT, arrT. split; [exact E|]. split; [exact I'|]. split; [exact (NL pd_NoLeak2)|exact Hre].
Qed.
