(** GenPatchHeapValue.v — VALUE-level facts the heap-level round trip of C17 needs beyond Properties_C17.v:

    [create_patches_vk]   every operation object that [PatchDefs.create_patches] appends is keyed ([vkeyed], the
                          hypothesis of the heap-level sort inside [test]) when the values taken from [to] are
                          well-formed documents;
    [run_ok_of_eval]      along a run of the model's own [apply_loop] that conforms to a successful RFC 6902
                          evaluation, every document met is a well-formed document, no status is 6 or 8: the run is
                          [PatchHeapLoop.run_ok] — derived, not decided by running;
    [roundtrip_any]       [PatchSeq2Round.roundtrip_model] for ANY well-formed document [v] that is the same document
                          as [from] up to member order ([doc_same]) — a duplicate, the re-ordered [from] — together
                          with [run_ok] of that run. *)
From Coq Require Import Lia ZArith List Bool Permutation.
From CJ Require Import Base Dbl Tree PointerDefs PointerProofs CompareDefs PatchDefs PatchProofs PatchRobust Rfc6902
  PatchConform PatchOps PatchApply PatchSort PatchTest PatchMove PatchSeq PatchGen PatchEq PatchRound PatchObj PatchRoundAll
  PatchExact PatchSeq2Rfc PatchSeq2Op PatchSeqAll PatchSeq2Fit PatchSeq2Gen PatchSeq2Round.
From CJ Require PatchHeapLoop.
From CJ.gen Require Import Constants.
Import ListNotations.
Local Open Scope Z_scope.

Notation vkeyed := PatchHeapLoop.vkeyed.
Notation run_ok := PatchHeapLoop.run_ok.

(** * well-formed documents are keyed *)
Lemma dwf_vkeyed : forall n, dwf n -> vkeyed n.
Proof.
  induction n as [ty vs vi vd k cs IH] using node_ind'. rewrite dwf_unfold. intros [(_ & _ & _ & _ & Ho) Hc].
  apply PatchHeapLoop.vkeyed_unfold. split.
  - intros Eo. destruct (Ho Eo) as [_ Hk]. unfold keyed_children in Hk. eapply Forall_impl; [|exact Hk].
    intros c (kc & Ek & _). rewrite Ek. eexists. reflexivity.
  - rewrite Forall_forall in *. intros c Hin. apply (IH c Hin). apply Hc. exact Hin.
Qed.

Lemma vkeyed_keyed v k : vkeyed v -> vkeyed (keyed v k).
Proof.
  destruct v as [ty vs vi vd kk cs]. unfold keyed. cbn [set_key set_ty n_ty].
  rewrite !PatchHeapLoop.vkeyed_unfold. intros [H1 H2]. split; [|exact H2]. intros E. apply H1.
  rewrite <- E. symmetry. exact (tymask_ldiff ty c_cJSON_StringIsConst eq_refl).
Qed.

(** * the operation objects are keyed *)
Lemma compose_vk ps op path sfx value :
  Forall vkeyed ps -> (forall y, value = Some y -> dwf y) -> Forall vkeyed (compose_patch ps op path sfx value).
Proof.
  intros Hps Hv. unfold compose_patch. apply Forall_app. split; [exact Hps|]. constructor; [|constructor].
  unfold create_object, set_children. apply PatchHeapLoop.vkeyed_unfold. split.
  - intros _. apply Forall_app. split.
    + constructor; [eexists; reflexivity|]. constructor; [eexists; reflexivity|constructor].
    + destruct value as [y|]; [|constructor]. destruct (cJSON_Duplicate y) as [d|]; [|constructor].
      constructor; [|constructor]. destruct d. eexists. reflexivity.
  - apply Forall_app. split.
    + constructor; [apply PatchHeapLoop.vkeyed_unfold; split; [intros E; discriminate E|constructor]|].
      constructor; [apply PatchHeapLoop.vkeyed_unfold; split; [intros E; discriminate E|constructor]|constructor].
    + destruct value as [y|]; [|constructor]. destruct (cJSON_Duplicate y) as [d|] eqn:Ed; [|constructor].
      constructor; [|constructor]. apply vkeyed_keyed. apply dwf_vkeyed.
      unfold cJSON_Duplicate in Ed. destruct (dup_same _ _ _ Ed) as [Sd _].
      eapply doc_same_dwf; [apply (Hv y eq_refl)|apply doc_same_sym; exact Sd].
Qed.

Section Loops.
  Variable rec : list node -> bytes -> node -> node -> res (list node * node * node).
  Variable path : bytes.
  Variable cs : bool.

  Lemma removes_vk index : forall (lf : list node) ps, Forall vkeyed ps ->
    Forall vkeyed (fold_left (fun acc _ => compose_patch acc s_remove path (Some (print_lu index)) None) lf ps).
  Proof. induction lf as [|x lf IH]; intros ps H; [exact H|]. cbn [fold_left]. apply IH. apply compose_vk; [exact H|]. intros y E. discriminate E. Qed.
  Lemma adds_vk : forall (lt : list node) ps, Forall dwf lt -> Forall vkeyed ps ->
    Forall vkeyed (fold_left (fun acc y => compose_patch acc s_add path (Some s_dash) (Some y)) lt ps).
  Proof.
    induction lt as [|y lt IH]; intros ps Ht H; [exact H|]. inversion Ht; subst. cbn [fold_left]. apply IH; [assumption|].
    apply compose_vk; [exact H|]. intros y0 E. inversion E; subst. assumption.
  Qed.

  Lemma cp_arr_vk : forall lf lt ps index ps' lf' lt',
    (forall ps p x y ps' x' y', In y lt -> Forall vkeyed ps -> rec ps p x y = Ok (ps', x', y') -> Forall vkeyed ps') ->
    Forall dwf lt -> Forall vkeyed ps -> cp_arr rec path ps index lf lt = Ok (ps', lf', lt') -> Forall vkeyed ps'.
  Proof.
    induction lf as [|x lf IH]; intros lt ps index ps' lf' lt' Hr Ht Hps E.
    - assert (E' : cp_arr rec path ps index [] lt =
                   Ok (fold_left (fun acc y => compose_patch acc s_add path (Some s_dash) (Some y)) lt
                         (fold_left (fun acc _ => compose_patch acc s_remove path (Some (print_lu index)) None) (@nil node) ps), [], lt))
        by (destruct lt; reflexivity).
      rewrite E' in E. injection E as <- _ _. apply adds_vk; [exact Ht|]. first [exact Hps|apply removes_vk; exact Hps].
    - destruct lt as [|y lt]; cbn [cp_arr] in E.
      + injection E as <- _ _. exact (removes_vk index (x :: lf) ps Hps).
      + destruct (rec ps (path ++ [47] ++ print_lu index) x y) as [[[ps1 x1] y1]| |] eqn:Er; cbn [bind] in E; try discriminate.
        destruct (cp_arr rec path ps1 (index + 1) lf lt) as [[[ps2 lf2] lt2]| |] eqn:Ec; cbn [bind] in E; try discriminate.
        inversion E; subst. inversion Ht; subst.
        eapply IH; [| |eapply Hr; [left; reflexivity|exact Hps|exact Er]|exact Ec]; [|assumption].
        intros ps0 p0 x0 y0 ps0' x0' y0' Hy0. apply Hr. right. exact Hy0.
  Qed.

  Lemma cp_walk_vk : forall g lf lt ps ps' lf' lt',
    (forall ps p x y ps' x' y', In y lt -> Forall vkeyed ps -> rec ps p x y = Ok (ps', x', y') -> Forall vkeyed ps') ->
    Forall dwf lt -> Forall vkeyed ps -> cp_walk rec path cs g ps lf lt = Ok (ps', lf', lt') -> Forall vkeyed ps'.
  Proof.
    induction g as [|g IH]; intros lf lt ps ps' lf' lt' Hr Ht Hps E; cbn [cp_walk] in E; [discriminate|].
    assert (Hadd : forall y, In y lt -> Forall vkeyed (compose_patch ps s_add path (n_key y) (Some y))).
    { intros y Hy. apply compose_vk; [exact Hps|]. intros y0 E0. inversion E0; subst. rewrite Forall_forall in Ht. apply Ht. exact Hy. }
    assert (Hrem : forall x, Forall vkeyed (compose_patch ps s_remove path (n_key x) None)).
    { intros x. apply compose_vk; [exact Hps|]. intros y0 E0. discriminate E0. }
    destruct lf as [|x lf]; destruct lt as [|y lt].
    - inversion E; subst. exact Hps.
    - cbn [Z.eqb Z.ltb Z.compare] in E.
      destruct (cp_walk rec path cs g (compose_patch ps s_add path (n_key y) (Some y)) [] lt) as [[[ps2 lf2] lt2]| |] eqn:Ec; cbn [bind] in E; try discriminate.
      inversion E; subst. inversion Ht; subst. eapply IH; [| |apply Hadd; left; reflexivity|exact Ec]; [|assumption].
      intros ps0 p0 x0 y0 ps0' x0' y0' Hy0. apply Hr. right. exact Hy0.
    - cbn [Z.eqb Z.ltb Z.compare] in E.
      destruct (cp_walk rec path cs g (compose_patch ps s_remove path (n_key x) None) lf []) as [[[ps2 lf2] lt2]| |] eqn:Ec; cbn [bind] in E; try discriminate.
      inversion E; subst. eapply IH; [exact Hr|exact Ht|apply Hrem|exact Ec].
    - destruct (compare_strings (n_key x) (n_key y) cs =? 0).
      + destruct (n_key x) as [kx|]; [|discriminate].
        destruct (rec ps (path ++ [47] ++ encode_string_as_pointer kx) x y) as [[[ps1 x1] y1]| |] eqn:Er; cbn [bind] in E; try discriminate.
        destruct (cp_walk rec path cs g ps1 lf lt) as [[[ps2 lf2] lt2]| |] eqn:Ec; cbn [bind] in E; try discriminate.
        inversion E; subst. inversion Ht; subst.
        eapply IH; [| |eapply Hr; [left; reflexivity|exact Hps|exact Er]|exact Ec]; [|assumption].
        intros ps0 p0 x0 y0 ps0' x0' y0' Hy0. apply Hr. right. exact Hy0.
      + destruct (compare_strings (n_key x) (n_key y) cs <? 0).
        * destruct (cp_walk rec path cs g (compose_patch ps s_remove path (n_key x) None) lf (y :: lt)) as [[[ps2 lf2] lt2]| |] eqn:Ec; cbn [bind] in E; try discriminate.
          inversion E; subst. eapply IH; [exact Hr|exact Ht|apply Hrem|exact Ec].
        * destruct (cp_walk rec path cs g (compose_patch ps s_add path (n_key y) (Some y)) (x :: lf) lt) as [[[ps2 lf2] lt2]| |] eqn:Ec; cbn [bind] in E; try discriminate.
          inversion E; subst. inversion Ht; subst. eapply IH; [| |apply Hadd; left; reflexivity|exact Ec]; [|assumption].
          intros ps0 p0 x0 y0 ps0' x0' y0' Hy0. apply Hr. right. exact Hy0.
  Qed.
End Loops.

Theorem create_patches_vk : forall fuel ps path from to cs ps' f' t',
  dwf to -> Forall vkeyed ps -> create_patches fuel ps path from to cs = Ok (ps', f', t') -> Forall vkeyed ps'.
Proof.
  induction fuel as [|f IH]; intros ps path from to cs ps' f' t' Ht Hps E; cbn [create_patches] in E; [discriminate|].
  assert (REP : Forall vkeyed (compose_patch ps s_replace path None (Some to))).
  { apply compose_vk; [exact Hps|]. intros y E0. inversion E0; subst. exact Ht. }
  destruct (negb (tymask (n_ty from) =? tymask (n_ty to))); [inversion E; subst; exact REP|].
  destruct (tymask (n_ty from) =? c_cJSON_Number).
  { destruct (negb (n_vint from =? n_vint to) || negb (compare_double (n_vdbl from) (n_vdbl to))); inversion E; subst; assumption. }
  destruct (tymask (n_ty from) =? c_cJSON_String).
  { destruct (n_vstr from) as [x|]; [|discriminate]. destruct (n_vstr to) as [y|]; [|discriminate].
    destruct (negb (strcmp x y =? 0)); inversion E; subst; assumption. }
  destruct (tymask (n_ty from) =? c_cJSON_Array).
  { destruct (cp_arr (fun ps p x y => create_patches f ps p x y cs) path ps 0 (n_children from) (n_children to)) as [[[ps1 fc] tc]| |] eqn:C;
      cbn [bind] in E; try discriminate.
    inversion E; subst. eapply cp_arr_vk; [|apply dwf_children; exact Ht|exact Hps|exact C].
    intros ps0 p0 x y ps0' x' y' Hy Hps0 Er. eapply IH; [|exact Hps0|exact Er]. eapply dwf_child; [exact Ht|exact Hy]. }
  destruct (tymask (n_ty from) =? c_cJSON_Object); [|inversion E; subst; assumption].
  destruct (sort_object_ok from cs) as (ra & Hra & Pa). destruct (sort_object_ok to cs) as (rb & Hrb & Pb).
  rewrite Hra in E. cbn [bind] in E. rewrite Hrb in E. cbn [bind] in E. rewrite !n_children_set in E.
  destruct (cp_walk (fun ps p x y => create_patches f ps p x y cs) path cs (S (length ra + length rb)) ps ra rb) as [[[ps1 fc] tc]| |] eqn:C;
    cbn [bind] in E; try discriminate.
  inversion E; subst. eapply cp_walk_vk; [| |exact Hps|exact C].
  - intros ps0 p0 x y ps0' x' y' Hy Hps0 Er. eapply IH; [|exact Hps0|exact Er]. eapply dwf_child; [exact Ht|].
    eapply Permutation_in; [apply Permutation_sym; exact Pb|exact Hy].
  - eapply Forall_perm; [exact Pb|apply dwf_children; exact Ht].
Qed.

(** * a conforming, successful run of the model's loop is [run_ok] *)
Theorem run_ok_of_eval : forall ps ops d1 d2 e, dwf d1 -> dwf d2 -> doc_same d1 d2 -> Forall2 op_ok ps ops -> fits d2 ops ->
  eval d2 ops = Some e -> Forall vkeyed ps -> run_ok d1 ps true.
Proof.
  induction ps as [|p r IH]; intros ops d1 d2 e H1 H2 S F Hf Ev Hk; [exact I|].
  inversion F as [|? o ? ops' Hpo F']; subst. inversion Hk as [|? ? Hkp Hkr]; subst.
  cbn [fits] in Hf. destruct Hf as [Hc Hf].
  destruct (step_same d1 d2 p o H1 H2 S Hpo Hc) as (st & d1' & p' & E & R).
  { intros e0 Ee. rewrite Ee in Hf. apply Hf. }
  cbn [eval] in Ev. destruct (eval1 d2 o) as [e1|] eqn:E2; [|discriminate].
  destruct R as (-> & S' & H1' & H2'). destruct Hf as [_ Hf].
  cbn [PatchHeapLoop.run_ok]. split; [apply dwf_vkeyed; exact H1|]. split; [exact Hkp|]. rewrite E.
  split; [discriminate|]. split; [discriminate|]. intros _. exact (IH ops' d1' e1 e H1' H2' S' F' Hf Ev Hkr).
Qed.

(** * the round trip through the model, for any document that is [from] up to member order *)
Theorem roundtrip_any from to v : dwf from -> dwf to -> shallow to ->
  2 * Z.of_nat (node_size from + node_size to) <= SIZE_MAX ->
  dwf v -> doc_same v from ->
  exists patches f' t',
    cJSONUtils_GeneratePatchesCaseSensitive from to = Ok (patches, f', t') /\
    doc_same f' from /\ is_array patches = true /\
    (exists d p1, cJSONUtils_ApplyPatchesCaseSensitive v patches = Ok (0, d, p1) /\ doc_eq d to /\ dwf d) /\
    run_ok v (n_children patches) true.
Proof.
  intros Hf Ht Hs Hsz Hv Sv.
  destruct (roundtrip_all from to Hf Ht Hs) as (patches & f' & t' & ops & d & Eg & Eo & Ev & Dd).
  exists patches, f', t'. split; [exact Eg|].
  unfold cJSONUtils_GeneratePatchesCaseSensitive, generate_patches in Eg.
  destruct (create_patches (node_depth from) [] [] from to true) as [[[new f1] t1]| |] eqn:C; cbn [bind] in Eg; try discriminate.
  inversion Eg; subst patches f1 t1. clear Eg.
  destruct (create_patches_keeps _ _ _ _ _ _ _ _ _ C) as [Sf _].
  assert (Hp0 : pathok []) by (split; [constructor | exists []; reflexivity]).
  destruct (create_patches_gen (width to) _ _ _ _ _ _ _ _ Hf (conj Ht (conj Hs (le_n _))) Hp0 C) as (new0 & En & Gn & Ln).
  cbn [app] in En. subst new0.
  destruct (ops_of_Forall2 _ _ Eo) as [Ha F]. cbn [set_children create_array n_children] in F.
  destruct (gen_ops (width to) new ops Gn F) as (Fok & Fnc & Fw).
  assert (Hfit : fits from ops).
  { apply fits_of_width; [apply copies_ok_no_copy; exact Fnc|].
    pose proof (width_le_size from). pose proof (width_le_size to).
    rewrite <- (Forall2_len _ _ _ F). lia. }
  assert (Hvk : Forall vkeyed new) by (exact (create_patches_vk _ _ _ _ _ _ _ _ _ Ht (Forall_nil _) C)).
  split; [exact Sf|]. split; [reflexivity|]. split.
  - destruct (apply_loop_same new ops v from Hv Hf Sv Fok Hfit) as (st & d1 & ps' & E & R).
    rewrite Ev in R. destruct R as (-> & Sd & Hd1 & _).
    exists d1, (set_children (set_children create_array new) ps'). split; [|split; [|exact Hd1]].
    + unfold cJSONUtils_ApplyPatchesCaseSensitive, apply_patches. rewrite Ha. cbn [negb set_children create_array n_children]. rewrite E. reflexivity.
    + eapply doc_eq_same_l; [apply doc_same_sym; exact Sd | exact Dd].
  - cbn [set_children create_array n_children]. exact (run_ok_of_eval new ops v from d Hv Hf Sv Fok Hfit Ev Hvk).
Qed.
