#!/usr/bin/env python3
"""validate.py — validates MANIFEST.json and every evidence file against the schemas in /root/.vp (needs jsonschema: run with python3-vt)"""
import json, sys, os, glob
import jsonschema
V = os.path.dirname(os.path.dirname(os.path.abspath(__file__)))
jsonschema.validate(json.load(open(V + '/MANIFEST.json')), json.load(open('/root/.vp/MANIFEST.schema.json'))); print('MANIFEST ok')
s = json.load(open('/root/.vp/EVIDENCE.schema.json'))
m = json.load(open(V + '/MANIFEST.json'))
for c in m['checks']:
    f = os.path.join(V, c['evidence_file'])
    try: jsonschema.validate(json.load(open(f)), s); print(c['property_id'], 'evidence ok')
    except Exception as e: print(c['property_id'], 'EVIDENCE INVALID:', str(e)[:300])
