(** CoreRefineDupTree.v — the tree-level predicates of the [cJSON_Duplicate] simulation.

    * [src_t h lf k t]: the heap [h] READS as the tree [t] from its root, following [child] and
      [next] down to [k] levels ([t] is the unrolling of the heap: its identities need not be
      distinct, the children of a reference node are the chain its [child] points into; a node
      on level [k] is not unrolled: it has no children in [t] and its real child pointer is
      kept in [rd_ref]); every sibling chain is shorter than [lf]; strings are readable;
    * [complete t]: nothing was cut off;
    * [copy_of h t tc]: [tc] has the shape of [t], node data equal up to the cleared reference
      bit and the string blocks, which hold equal C strings (constant keys: the same block);
    * [Chain_ok h ts hp]: the encoding of a chain of trees under construction (sibling links
      in place, the head's back link is [hp]);
    * [Partial g gc n d tcs]: heap [gc] is heap [g] plus the partial copy [T n d tcs];
    * what [cJSON_Delete] does to a partial copy ([Partial_delete]). *)
From CJ Require Import Base Dbl Heap Forest ForestLemmas CoreSpec CoreDefs CoreRefineBase CoreRefine CoreRefineDelete CoreRefineDupBase.
From CJ.gen Require Import Constants.
From stdpp Require Import gmap.
From Coq Require Import Lia.

Implicit Types (g h : heap) (i n b : positive) (d : rdata) (ts cs : list tree).

(** * node blocks and owned string blocks of a flat list *)
Definition nids (FL : list fnode) : list positive := fn_id <$> FL.
Definition sids (FL : list fnode) : list positive := FL ≫= (fun e => owned_strs (fn_data e)).

Lemma nids_app FL1 FL2 : nids (FL1 ++ FL2) = nids FL1 ++ nids FL2.
Proof. apply fmap_app. Qed.
Lemma sids_app FL1 FL2 : sids (FL1 ++ FL2) = sids FL1 ++ sids FL2.
Proof. apply bind_app. Qed.
Lemma nids_cons (e : fnode) FL : nids (e :: FL) = fn_id e :: nids FL.
Proof. reflexivity. Qed.
Lemma sids_cons (e : fnode) FL : sids (e :: FL) = owned_strs (fn_data e) ++ sids FL.
Proof. reflexivity. Qed.
Lemma nids_flat ts : nids (flat ts) = ids ts.
Proof. by rewrite ids_flat. Qed.

Lemma owned_fl_split FL : owned_fl FL ≡ₚ nids FL ++ sids FL.
Proof.
  induction FL as [|e FL IH]; [done|]. rewrite owned_fl_cons, nids_cons, sids_cons. unfold owned_fn. cbn.
  apply Permutation_skip. rewrite IH. rewrite !app_assoc. apply Permutation_app_tail. apply Permutation_app_comm.
Qed.

Lemma elem_of_nids FL i d (ks : list positive) : (i, d, ks) ∈ FL -> i ∈ nids FL.
Proof. intros H. apply elem_of_list_fmap. by exists (i, d, ks). Qed.
Lemma elem_of_sids FL i d (ks : list positive) b : (i, d, ks) ∈ FL -> b ∈ owned_strs d -> b ∈ sids FL.
Proof. intros H Hb. apply elem_of_list_bind. by exists (i, d, ks). Qed.

(** children are not roots *)
Lemma child_not_root ts i d (ks : list positive) c :
  NoDup (ids ts) -> (i, d, ks) ∈ flat ts -> c ∈ ks -> c ∉ roots ts.
Proof.
  intros ND He Hc Hr. rewrite <- lnk_keys_ids in ND. unfold lnk_keys in ND.
  apply NoDup_app in ND as (_ & ND & _). apply (ND c Hr). apply elem_of_list_bind. by exists (i, d, ks).
Qed.

(** * the source: what the duplication reads *)
Definition readable h b : Prop := exists s, str_is h b s /\ existsb (Z.eqb 0) s = true.
Definition src_node h (lf : nat) i d (ks : list positive) : Prop :=
  nd_at h i (mk_dat d ks) /\ length ks < lf /\
  (forall b, rd_vstr d = Some b -> readable h b) /\
  (forall b, rd_key d = Some b -> is_const d = false -> readable h b).

Fixpoint src_t h (lf k : nat) (t : tree) {struct k} : Prop :=
  match t with
  | T i d cs =>
      src_node h lf i d (tid <$> cs) /\
      match k with
      | O => cs = []
      | S k' =>
          (cs = [] -> rd_ref d = None) /\
          (fix sl (l : list tree) : Prop :=
             match l with
             | [] => True
             | c :: r => (exists pv, lk_at h (tid c) (head (tid <$> r), pv)) /\ src_t h lf k' c /\ sl r
             end) cs
      end
  end.
Definition src_list h (lf k : nat) : list tree -> Prop :=
  fix sl (l : list tree) : Prop :=
    match l with
    | [] => True
    | c :: r => (exists pv, lk_at h (tid c) (head (tid <$> r), pv)) /\ src_t h lf k c /\ sl r
    end.

Lemma src_t_O h lf i d cs : src_t h lf O (T i d cs) = (src_node h lf i d (tid <$> cs) /\ cs = []).
Proof. reflexivity. Qed.
Lemma src_t_S h lf k i d cs :
  src_t h lf (S k) (T i d cs) =
  (src_node h lf i d (tid <$> cs) /\ (cs = [] -> rd_ref d = None) /\ src_list h lf k cs).
Proof. reflexivity. Qed.
Lemma src_list_cons h lf k c r :
  src_list h lf k (c :: r) =
  ((exists pv, lk_at h (tid c) (head (tid <$> r), pv)) /\ src_t h lf k c /\ src_list h lf k r).
Proof. reflexivity. Qed.
Lemma src_t_node h lf k i d cs : src_t h lf k (T i d cs) -> src_node h lf i d (tid <$> cs).
Proof. destruct k; [rewrite src_t_O|rewrite src_t_S]; tauto. Qed.

Definition complete (t : tree) : Prop := forall i d, (i, d, []) ∈ flat_t t -> rd_ref d = None.

(** monotonicity in the point-wise facts *)
Definition pt_mono (h h' : heap) : Prop :=
  (forall i nd, nd_at h i nd -> nd_at h' i nd) /\ (forall i e, lk_at h i e -> lk_at h' i e) /\
  (forall b s, str_is h b s -> str_is h' b s).
Lemma pt_mono_frame ns ss g g' : Ext ns ss g g' -> pt_mono g g'.
Proof.
  intros Fr. split_and!; intros ? ? H.
  - exact (nd_at_frame _ _ _ _ _ _ Fr H).
  - exact (lk_at_frame _ _ _ _ _ _ Fr H).
  - exact (str_is_frame _ _ _ _ _ _ Fr H).
Qed.

Lemma readable_mono h h' b : pt_mono h h' -> readable h b -> readable h' b.
Proof. intros (_ & _ & Hs) (s & H1 & H2). exists s. split; [by apply Hs|done]. Qed.
Lemma src_node_mono h h' lf i d (ks : list positive) : pt_mono h h' -> src_node h lf i d ks -> src_node h' lf i d ks.
Proof.
  intros Hm (H1 & H2 & H3 & H4). split_and!; [by apply Hm|done| |].
  - intros b Hb. eapply readable_mono; eauto.
  - intros b Hb Hc. eapply readable_mono; eauto.
Qed.
Lemma src_list_mono_gen h h' lf k ts :
  pt_mono h h' -> (forall t, src_t h lf k t -> src_t h' lf k t) -> src_list h lf k ts -> src_list h' lf k ts.
Proof.
  intros Hm Ht. induction ts as [|c r IHr]; [done|]. rewrite !src_list_cons. intros ((pv & Hpv) & Hc & Hr).
  split_and!; [exists pv; by apply Hm|by apply Ht|by apply IHr].
Qed.
Lemma src_t_mono h h' lf k t : pt_mono h h' -> src_t h lf k t -> src_t h' lf k t.
Proof.
  intros Hm. revert t. induction k as [|k IH]; intros [i d cs].
  - rewrite !src_t_O. intros [H1 H2]. split; [by eapply src_node_mono|done].
  - rewrite !src_t_S. intros (H1 & H2 & H3). split_and!; [by eapply src_node_mono|done|].
    by apply (src_list_mono_gen h).
Qed.
Lemma src_list_mono h h' lf k ts : pt_mono h h' -> src_list h lf k ts -> src_list h' lf k ts.
Proof. intros Hm. apply src_list_mono_gen; [done|]. intros t. by apply src_t_mono. Qed.

(** * the copy relation *)
Definition str_copy h (b b' : positive) : Prop :=
  exists s, str_is h b s /\ str_is h b' (cstr s ++ [0%Z]).
Definition data_copy h d d' : Prop :=
  rd_type d' = clear_flag (rd_type d) c_cJSON_IsReference /\
  rd_vint d' = rd_vint d /\ rd_vdbl d' = rd_vdbl d /\ rd_ref d' = None /\
  match rd_vstr d with
  | None => rd_vstr d' = None
  | Some b => exists b', rd_vstr d' = Some b' /\ str_copy h b b'
  end /\
  match rd_key d with
  | None => rd_key d' = None
  | Some b => if is_const d then rd_key d' = Some b else exists b', rd_key d' = Some b' /\ str_copy h b b'
  end.

Fixpoint copy_of h (t tc : tree) {struct t} : Prop :=
  match t, tc with
  | T i d cs, T i' d' cs' =>
      data_copy h d d' /\
      (fix cl (l l' : list tree) : Prop :=
         match l, l' with
         | [], [] => True
         | a :: r, a' :: r' => copy_of h a a' /\ cl r r'
         | _, _ => False
         end) cs cs'
  end.
Definition copy_list h : list tree -> list tree -> Prop :=
  fix cl (l l' : list tree) : Prop :=
    match l, l' with
    | [], [] => True
    | a :: r, a' :: r' => copy_of h a a' /\ cl r r'
    | _, _ => False
    end.
Lemma copy_of_unfold h i d cs i' d' cs' :
  copy_of h (T i d cs) (T i' d' cs') = (data_copy h d d' /\ copy_list h cs cs').
Proof. reflexivity. Qed.
Lemma copy_list_cons h a r a' r' : copy_list h (a :: r) (a' :: r') = (copy_of h a a' /\ copy_list h r r').
Proof. reflexivity. Qed.

Lemma copy_list_app h l1 l1' l2 l2' :
  copy_list h l1 l1' -> copy_list h l2 l2' -> copy_list h (l1 ++ l2) (l1' ++ l2').
Proof.
  revert l1'. induction l1 as [|a r IH]; intros [|a' r'] H1 H2; try done.
  cbn [app]. rewrite copy_list_cons in *. destruct H1 as [Ha Hr]. split; [done|by apply IH].
Qed.

Lemma str_copy_mono h h' b b' : (forall b s, str_is h b s -> str_is h' b s) -> str_copy h b b' -> str_copy h' b b'.
Proof. intros Hm (s & H1 & H2). exists s. split; by apply Hm. Qed.
Lemma data_copy_mono h h' d d' : (forall b s, str_is h b s -> str_is h' b s) -> data_copy h d d' -> data_copy h' d d'.
Proof.
  intros Hm (H1 & H2 & H3 & H4 & H5 & H6). split_and!; try done.
  - destruct (rd_vstr d); [|done]. destruct H5 as (b' & ? & ?). exists b'. split; [done|by eapply str_copy_mono].
  - destruct (rd_key d); [|done]. destruct (is_const d); [done|].
    destruct H6 as (b' & ? & ?). exists b'. split; [done|by eapply str_copy_mono].
Qed.
Lemma copy_of_mono h h' t tc : (forall b s, str_is h b s -> str_is h' b s) -> copy_of h t tc -> copy_of h' t tc.
Proof.
  intros Hm. revert tc. induction t as [i d cs IH] using tree_ind'. intros [i' d' cs'].
  rewrite !copy_of_unfold. intros [H1 H2]. split; [by eapply data_copy_mono|].
  revert cs' H2. induction cs as [|a r IHr]; intros [|a' r'] H2; try done.
  rewrite copy_list_cons in *. apply Forall_cons in IH as [IHa IHr']. destruct H2 as [Ha Hr].
  split; [by apply IHa|by apply IHr].
Qed.
Lemma copy_list_mono h h' l l' : (forall b s, str_is h b s -> str_is h' b s) -> copy_list h l l' -> copy_list h' l l'.
Proof.
  intros Hm. revert l'. induction l as [|a r IHr]; intros [|a' r'] H; try done.
  rewrite copy_list_cons in *. destruct H as [Ha Hr]. split; [by eapply copy_of_mono|by apply IHr].
Qed.

(** * chains under construction *)
Fixpoint top_ok h (pv : ptr) (R : list positive) : Prop :=
  match R with
  | [] => True
  | c :: R' => lk_at h c (head R', pv) /\ top_ok h (Some c) R'
  end.

Lemma top_ok_mono_on h h' pv R :
  (forall c e, c ∈ R -> lk_at h c e -> lk_at h' c e) -> top_ok h pv R -> top_ok h' pv R.
Proof.
  revert pv. induction R as [|c R IH]; intros pv Hm H; [done|]. destruct H as [H1 H2]. split.
  - apply Hm; [by left|done].
  - apply IH; [|done]. intros c' e Hc'. apply Hm. by right.
Qed.

Lemma top_ok_lookup h pv R j c :
  top_ok h pv R -> R !! j = Some c -> lk_at h c (R !! S j, match j with O => pv | S j' => R !! j' end).
Proof.
  revert pv j. induction R as [|c0 R IH]; intros pv j H Hj; [done|]. destruct H as [H1 H2].
  destruct j as [|j].
  - injection Hj as <-. change ((c0 :: R) !! 1) with (R !! 0). by rewrite <- head_lookup.
  - cbn in Hj. pose proof (IH _ _ H2 Hj) as H. cbn. by destruct j.
Qed.
Lemma top_ok_link_at h R j c : top_ok h (last R) R -> R !! j = Some c -> lk_at h c (link_at R j).
Proof. intros H Hj. exact (top_ok_lookup _ _ _ _ _ H Hj). Qed.

Lemma top_ok_snoc h h' pv R l c' :
  top_ok h pv R -> last R = Some l -> NoDup R ->
  (forall c e, c ∈ R -> c <> l -> lk_at h c e -> lk_at h' c e) ->
  (forall pvl, lk_at h l (None, pvl) -> lk_at h' l (Some c', pvl)) ->
  lk_at h' c' (None, Some l) ->
  top_ok h' pv (R ++ [c']).
Proof.
  revert pv. induction R as [|c R IH]; intros pv H Hl ND Hm Hlst Hc'; [done|].
  destruct H as [H1 H2]. apply NoDup_cons in ND as [Hc ND]. destruct R as [|c2 R].
  - cbn in Hl. injection Hl as <-. cbn in H1. cbn. split_and!; [by apply Hlst|done|done].
  - assert (Hl' : last (c2 :: R) = Some l) by (by rewrite last_cons_cons in Hl).
    assert (Hlin : l ∈ c2 :: R).
    { apply last_Some in Hl' as [l' ->]. apply elem_of_app. right. by left. }
    cbn [app top_ok head]. split.
    + apply Hm; [by left| |done]. intros ->. done.
    + apply IH; try done. intros c0 e Hc0. apply Hm. by right.
Qed.

Lemma top_ok_close h h' c0 R :
  top_ok h None (c0 :: R) -> NoDup (c0 :: R) ->
  (forall c e, c ∈ R -> lk_at h c e -> lk_at h' c e) ->
  (forall nx, lk_at h c0 (nx, None) -> lk_at h' c0 (nx, last (c0 :: R))) ->
  top_ok h' (last (c0 :: R)) (c0 :: R).
Proof.
  intros [H1 H2] ND Hm Hc0. split; [by apply Hc0|]. by apply (top_ok_mono_on h).
Qed.

Record Chain_ok h ts (hp : ptr) : Prop := mkChain {
  ck_dat : forall i d (ks : list positive), (i, d, ks) ∈ flat ts -> nd_at h i (mk_dat d ks);
  ck_in : forall i d (ks : list positive) j c, (i, d, ks) ∈ flat ts -> ks !! j = Some c -> lk_at h c (link_at ks j);
  ck_top : top_ok h hp (tid <$> ts)
}.

Lemma Chain_ok_nil h hp : Chain_ok h [] hp.
Proof. constructor; [intros * H; by apply elem_of_nil in H..|done]. Qed.

Lemma Chain_ok_mono h h' ts hp : pt_mono h h' -> Chain_ok h ts hp -> Chain_ok h' ts hp.
Proof.
  intros (Hn & Hl & _) [C1 C2 C3]. constructor.
  - intros. by apply Hn, C1.
  - intros. apply Hl. by eapply C2.
  - apply (top_ok_mono_on h); [|done]. intros. by apply Hl.
Qed.

(** * the partial copy *)
Record Partial g gc n d tcs : Prop := mkPartial {
  pa_frame : Ext (n :: nids (flat tcs)) (owned_strs d ++ sids (flat tcs)) g gc;
  pa_nodup : NoDup ((n :: nids (flat tcs)) ++ owned_strs d ++ sids (flat tcs));
  pa_node : nd_at gc n (mk_dat d (tid <$> tcs));
  pa_root : lk_at gc n (None, None);
  pa_chain : Chain_ok gc tcs None;
  pa_refd : is_ref d = false /\ rd_ref d = None;
  pa_ref : Forall ref_ok (flat tcs)
}.

Lemma Partial_owned_perm n d tcs :
  owned_fl (flat [T n d tcs]) ≡ₚ (n :: nids (flat tcs)) ++ owned_strs d ++ sids (flat tcs).
Proof. rewrite owned_fl_split. rewrite flat_singleton, flat_t_unfold. reflexivity. Qed.

Lemma Partial_ids_nodup g gc n d tcs : Partial g gc n d tcs -> NoDup (n :: ids tcs).
Proof. intros P. pose proof (pa_nodup _ _ _ _ _ P) as ND. apply NoDup_app in ND as [ND _]. by rewrite nids_flat in ND. Qed.

(** the local encoding [cJSON_Delete] needs *)
Lemma Partial_Enc g gc n d tcs : Partial g gc n d tcs -> Enc gc [T n d tcs].
Proof.
  intros P. destruct (pa_chain _ _ _ _ _ P) as [C1 C2 C3].
  assert (Hfl : flat [T n d tcs] = (n, d, tid <$> tcs) :: flat tcs) by (by rewrite flat_singleton, flat_t_unfold).
  constructor.
  - intros i d' ks He. rewrite Hfl in He. apply elem_of_cons in He as [He|He].
    + injection He as -> -> ->. apply (pa_node _ _ _ _ _ P).
    + by apply (C1 i d' ks).
  - intros j c Hj. destruct j; [|done]. injection Hj as <-. exists None. apply (pa_root _ _ _ _ _ P).
  - intros i d' ks j c He Hj. rewrite Hfl in He. apply elem_of_cons in He as [He|He].
    + injection He as -> -> ->. pose proof (top_ok_lookup _ _ _ _ _ C3 Hj) as [_ H]. eauto.
    + destruct (C2 i d' ks j c He Hj) as [_ H]. exists (link_at ks j).2. by destruct j.
  - rewrite Partial_owned_perm. apply P.
  - intros b Hb. rewrite Partial_owned_perm in Hb.
    destruct (xt_new _ _ _ _ (pa_frame _ _ _ _ _ P) b Hb) as (_ & _ & ? & ?). done.
  - rewrite Hfl. apply Forall_cons. split; [|apply P]. destruct (pa_refd _ _ _ _ _ P) as [R1 R2].
    split; cbn; [by rewrite R1|by rewrite R2].
Qed.

(** more lookups after [free_all] *)
Lemma fa_str_lookup bs h i : i ∉ bs -> h_str (free_all bs h) !! i = h_str h !! i.
Proof.
  revert h. induction bs as [|b bs IH]; intros h Hi; [done|]. apply not_elem_of_cons in Hi as [H1 H2].
  rewrite free_all_cons, IH by done. cbn. by rewrite lookup_delete_ne.
Qed.
Lemma fa_str_lookup_in bs h i : i ∈ bs -> h_str (free_all bs h) !! i = None.
Proof.
  revert h. induction bs as [|b bs IH]; intros h Hi; [by apply elem_of_nil in Hi|].
  rewrite free_all_cons. destruct (decide (i ∈ bs)) as [Hin|Hnin]; [by apply IH|].
  apply elem_of_cons in Hi as [->|Hi]; [|done]. rewrite fa_str_lookup by done. cbn. by rewrite lookup_delete.
Qed.
Lemma fa_req bs h : h_req (free_all bs h) = h_req h.
Proof. revert h. induction bs as [|c bs IH]; intros h; [done|]. by rewrite free_all_cons, IH. Qed.
Lemma fa_hooks bs h : h_hooks (free_all bs h) = h_hooks h.
Proof. revert h. induction bs as [|c bs IH]; intros h; [done|]. by rewrite free_all_cons, IH. Qed.

(** releasing exactly the new blocks gives the old heap back (up to the allocator's counters) *)
Lemma Ext_free_all ns ss bs g g' :
  Ext ns ss g g' -> bs ≡ₚ ns ++ ss -> Ext [] [] g (free_all bs g').
Proof.
  intros Fr Hbs.
  assert (Hnew : forall k, k ∈ bs -> (h_next g <= k)%positive).
  { intros k Hk. rewrite Hbs in Hk. by destruct (xt_new _ _ _ _ Fr k Hk) as [? _]. }
  pose proof (xt_closed0 _ _ _ _ Fr) as C0.
  constructor.
  - intros k _. destruct (decide (k ∈ bs)) as [Hin|Hnin].
    + rewrite free_all_lnk_lookup_in by done. symmetry. by destruct (C0 k (Hnew k Hin)) as (_ & ? & _).
    + rewrite free_all_lnk_lookup by done. apply (xt_lnk _ _ _ _ Fr). intros Hk. apply Hnin. rewrite Hbs.
      apply elem_of_app. by left.
  - intros k _. destruct (decide (k ∈ bs)) as [Hin|Hnin].
    + rewrite free_all_dat_lookup_in by done. symmetry. by destruct (C0 k (Hnew k Hin)) as (_ & _ & ? & _).
    + rewrite free_all_dat_lookup by done. apply (xt_dat _ _ _ _ Fr). intros Hk. apply Hnin. rewrite Hbs.
      apply elem_of_app. by left.
  - intros k _. destruct (decide (k ∈ bs)) as [Hin|Hnin].
    + rewrite fa_str_lookup_in by done. symmetry. by destruct (C0 k (Hnew k Hin)) as (_ & _ & _ & ?).
    + rewrite fa_str_lookup by done. apply (xt_str _ _ _ _ Fr). intros Hk. apply Hnin. rewrite Hbs.
      apply elem_of_app. by right.
  - intros k _ _. rewrite free_all_live. destruct (decide (k ∈ bs)) as [Hin|Hnin].
    + split; [tauto|]. intros Hl. by destruct (C0 k (Hnew k Hin)) as (? & _).
    + rewrite (xt_live _ _ _ _ Fr); [tauto| |]; intros Hk; apply Hnin; rewrite Hbs; apply elem_of_app; eauto.
  - intros k Hk. rewrite free_all_own. by apply (xt_own _ _ _ _ Fr).
  - rewrite free_all_next. apply Fr.
  - rewrite fa_req. apply Fr.
  - rewrite fa_hooks. apply Fr.
  - intros b Hb. by apply elem_of_nil in Hb.
  - done.
  - intros k Hk. rewrite free_all_next in Hk. destruct (xt_closed _ _ _ _ Fr k Hk) as (C1 & C2 & C3 & C4).
    split_and!.
    + rewrite free_all_live. tauto.
    + destruct (decide (k ∈ bs)); [by rewrite free_all_lnk_lookup_in|by rewrite free_all_lnk_lookup].
    + destruct (decide (k ∈ bs)); [by rewrite free_all_dat_lookup_in|by rewrite free_all_dat_lookup].
    + destruct (decide (k ∈ bs)); [by rewrite fa_str_lookup_in|by rewrite fa_str_lookup].
Qed.

Lemma Partial_delete g gc n d tcs :
  Partial g gc n d tcs ->
  cJSON_Delete (Some n) gc = Ret (tt, free_all (free_order [T n d tcs]) gc) /\
  Ext [] [] g (free_all (free_order [T n d tcs]) gc).
Proof.
  intros P. split.
  - unfold cJSON_Delete, heap_fuel. unfold bindM at 1.
    change (Some n) with (head (tid <$> [T n d tcs])).
    apply cJSON_Delete_fuel_sim; [|by eapply Partial_Enc].
    assert (length (nodes [T n d tcs]) = length (n :: ids tcs)) as ->.
    { unfold nodes. cbn. rewrite app_nil_r. unfold ids. by rewrite fmap_length. }
    apply NoDup_length_lt_pos; [by eapply Partial_ids_nodup|].
    intros x Hx. rewrite <- nids_flat in Hx.
    destruct (xt_new _ _ _ _ (pa_frame _ _ _ _ _ P) x) as (_ & ? & _); [apply elem_of_app; by left|done].
  - eapply Ext_free_all; [apply P|]. by rewrite free_order_owned, Partial_owned_perm.
Qed.
