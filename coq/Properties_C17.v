(** Properties_C17.v — property C17: a generated patch transforms its source into its target.
    Only statements closed by [exact]; model: create_patches / compose_patch / sort_list of
    PatchDefs.v; specification: Rfc6902.v (ops_of, eval, doc_eqb / doc_eq). *)
From CJ Require Import Base Dbl Tree PointerDefs CompareDefs PatchDefs Rfc6902
  PatchProofs PatchRobust PatchConform PatchOps PatchApply PatchSort PatchTest PatchMove PatchSeq PatchGen PatchEq PatchRound PatchObj PatchRoundAll.
Local Open Scope Z_scope.

(** Termination for EVERY pair of trees and both case modes: create_patches gets the depth of 'from',
    its member walk gets |from members| + |to members| + 1, sort_list gets |members| + 1. *)
Theorem C17_total : forall from to cs, generate_patches from to cs <> OutOfFuel.
Proof. exact generate_patches_total. Qed.
Print Assumptions C17_total.

(** For all well-formed documents (JSON types, C strings, no NaN, distinct member names; any nesting):
    the call returns a patch array; the array is empty exactly when the documents are equal (the
    executable document equality [doc_eqb] of Rfc6902.v); and both inputs come back as documents equal
    to what they were, under the same member name ([doc_eq]: only member order may have changed). *)
Theorem C17_empty_iff_and_inputs_intact : forall from to, dwf from -> dwf to ->
  exists ps f' t', cJSONUtils_GeneratePatchesCaseSensitive from to = Ok (set_children create_array ps, f', t') /\
    (ps = [] <-> doc_eqb from to = true) /\
    doc_eq f' from /\ n_key f' = n_key from /\ doc_eq t' to /\ n_key t' = n_key to.
Proof. exact generate_patches_ok. Qed.
Print Assumptions C17_empty_iff_and_inputs_intact.

(** "Empty exactly when equal", with the declarative equality: same JSON type; numbers with equal integer
    view and doubles within the library's tolerance; strings byte-equal; arrays pointwise in order;
    objects as name -> value sets. *)
Theorem C17_empty_iff : forall from to, dwf from -> dwf to ->
  exists ps f' t', cJSONUtils_GeneratePatchesCaseSensitive from to = Ok (set_children create_array ps, f', t') /\
                   (ps = [] <-> doc_eq from to).
Proof. exact generate_empty_iff. Qed.
Print Assumptions C17_empty_iff.

(** The same facts for every recursive call (any accumulated patch list [ps], any path): the call only
    appends to [ps]; it appends nothing exactly when the two subdocuments are equal. *)
Theorem C17_create_patches : forall fuel ps path from to, (node_depth from <= fuel)%nat -> dwf from -> dwf to ->
  exists new f' t', create_patches fuel ps path from to true = Ok (ps ++ new, f', t') /\
    (new = [] <-> doc_eqb from to = true) /\
    (doc_eq f' from /\ n_key f' = n_key from) /\ (doc_eq t' to /\ n_key t' = n_key to).
Proof. exact create_patches_spec. Qed.
Print Assumptions C17_create_patches.

(** Round trip, for ALL well-formed documents (null, booleans, numbers, strings, arrays, objects with distinct
    member names — including names containing '/' and '~' —, nested to any depth; 'to' no deeper than
    CJSON_CIRCULAR_LIMIT so that cJSON_Duplicate succeeds): the generated array decodes as an RFC 6902 patch
    ([ops_of]: every element an object with "op", "path" and, where required, "value"; paths built with
    sprintf "%lu" and encode_string_as_pointer parse back to the intended reference tokens), and evaluating it
    with the RFC 6902 evaluator on the ORIGINAL 'from' (members in their original order) succeeds with a
    document equal to 'to' (arrays in order, objects as name/value sets).  Array tails are removed at the index
    of the first surplus element, appended at "-"; object members are removed / added / descended into in the
    sorted merge order.
    (The same through the model's own apply_patch is [C17_roundtrip_model] further down, built on the
    sequence theorem [C16_conform] of Properties_C16.v.) *)
Theorem C17_roundtrip : forall from to, dwf from -> dwf to -> shallow to ->
  exists patches f' t' ops d,
    cJSONUtils_GeneratePatchesCaseSensitive from to = Ok (patches, f', t') /\
    ops_of patches = Some ops /\ eval from ops = Some d /\ doc_eq d to.
Proof. exact roundtrip_all. Qed.
Print Assumptions C17_roundtrip.

(** The pieces the generator relies on: sort_list returns a sorted permutation of the members (so the
    inputs keep their members), and sorted lists of distinct names list the names in one order only. *)
Theorem C17_sort_sorted_perm : forall fuel l, (length l < fuel)%nat -> keyed_children l ->
  exists r, sort_list fuel l true = Ok r /\ Permutation.Permutation l r /\ Sorted.StronglySorted kle r.
Proof. exact sort_list_sorted. Qed.
Print Assumptions C17_sort_sorted_perm.

(** non-vacuity, and a round trip through an object and a nested array on a concrete pair (the witness of
    finding F14): {"b":1,"a":2} -> {"b":1,"a":2,"c":[3]}: hypotheses hold, the documents differ, 'from'
    comes back re-ordered but equal, the patch has one operation and evaluates to a document equal to 'to'. *)
Theorem C17_nonvacuous :
  dwf g_from /\ dwf g_to /\ shallow g_to /\ doc_eqb g_from g_to = false /\
  exists patches f' t' ops d,
    cJSONUtils_GeneratePatchesCaseSensitive g_from g_to = Ok (patches, f', t') /\
    f' <> g_from /\ doc_eqb f' g_from = true /\
    ops_of patches = Some ops /\ length ops = 1%nat /\ eval g_from ops = Some d /\ doc_eqb d g_to = true /\ doc_eqb g_to d = true.
Proof. exact gen_example. Qed.
Print Assumptions C17_nonvacuous.

(** ==================================================================================================
    The round trip through the MODEL's own apply_patch (round 3; by C16_conform for operation sequences,
    Properties_C16.v).  For all well-formed documents 'from' and 'to' ('to' no deeper than
    CJSON_CIRCULAR_LIMIT, as in [C17_roundtrip]; the two documents together below 2^63 nodes, so that no
    container of an intermediate document can exceed SIZE_MAX elements): the generated patch array, applied by
    cJSONUtils_ApplyPatchesCaseSensitive
      - to 'from' as it was before generation (the copy the harness takes; members in their original order), and
      - to 'from' as generation leaves it ([f'], members sorted in place — [doc_same] to 'from': exactly the same
        document up to member order),
    returns 0 and yields a document equal to 'to' ([doc_eq]: arrays in order, objects as name/value sets). *)
From CJ Require Import PatchExact PatchSeq2Rfc PatchSeq2Op PatchSeqAll PatchSeq2Fit PatchSeq2Gen PatchSeq2Round.

Theorem C17_roundtrip_model : forall from to, dwf from -> dwf to -> shallow to ->
  2 * Z.of_nat (node_size from + node_size to) <= SIZE_MAX ->
  exists patches f' t',
    cJSONUtils_GeneratePatchesCaseSensitive from to = Ok (patches, f', t') /\
    doc_same f' from /\
    (exists d p1, cJSONUtils_ApplyPatchesCaseSensitive from patches = Ok (0, d, p1) /\ doc_eq d to) /\
    (exists d p2, cJSONUtils_ApplyPatchesCaseSensitive f' patches = Ok (0, d, p2) /\ doc_eq d to).
Proof. exact roundtrip_model. Qed.
Print Assumptions C17_roundtrip_model.

(** Generation leaves 'from' exactly the same document under the same member name (any trees, both case
    modes): sorting member lists is all it does to it. *)
Theorem C17_from_intact_exact : forall fuel ps path from to cs ps' f' t',
  create_patches fuel ps path from to cs = Ok (ps', f', t') -> doc_same f' from /\ n_key f' = n_key from.
Proof. exact create_patches_keeps. Qed.
Print Assumptions C17_from_intact_exact.

(** What create_patches appends (for well-formed 'from', well-formed duplicable 'to' no wider than W, a pointer
    text [path] that is a C string of unsigned chars and parses): at most |from| + |to| operation objects, each
    with members named by C strings, read by RFC 6902 as an add / remove / replace that satisfies the hypotheses
    of [C16_conform] ([gen_ok]). *)
Theorem C17_generated_operations : forall W fuel ps path from to ps' f' t',
  dwf from -> dwf to /\ shallow to /\ (width to <= W)%nat -> pathok path ->
  create_patches fuel ps path from to true = Ok (ps', f', t') ->
  exists new, ps' = ps ++ new /\ Forall (gen_ok W) new /\ (length new <= node_size from + node_size to)%nat.
Proof. exact create_patches_gen. Qed.
Print Assumptions C17_generated_operations.

(** non-vacuity of [C17_roundtrip_model] on the witness of finding F14, {"b":1,"a":2} -> {"b":1,"a":2,"c":[3]}:
    hypotheses hold; generation re-orders 'from'; the patch applied by the model to the original and to the
    re-ordered 'from' returns 0 with two (different) documents both equal to 'to'. *)
Theorem C17_roundtrip_model_nonvacuous :
  dwf g_from /\ dwf g_to /\ shallow g_to /\ 2 * Z.of_nat (node_size g_from + node_size g_to) <= SIZE_MAX /\
  exists patches f' t' d p1,
    cJSONUtils_GeneratePatchesCaseSensitive g_from g_to = Ok (patches, f', t') /\ f' <> g_from /\
    cJSONUtils_ApplyPatchesCaseSensitive g_from patches = Ok (0, d, p1) /\ doc_eqb d g_to = true /\
    exists d2 p2, cJSONUtils_ApplyPatchesCaseSensitive f' patches = Ok (0, d2, p2) /\ doc_eqb d2 g_to = true /\ d2 <> d.
Proof. exact gen_example_model. Qed.
Print Assumptions C17_roundtrip_model_nonvacuous.
