(** LibcG15Text.v — what the reference strtod reads from the text of the reference "%1.15g".

    [g_text_read]: for a 15-digit D (10^14 <= D < 10^15) and a decimal exponent |X'| <= 400 the
    text [g_text 15 s D X'] (any of the three styles: %f with X' >= 0, %f with X' < 0, %e) is
    converted by [strtod_ref], completely, to
        dec_to_dbl_exact s (D / 10^j) (X' - 14 + j)
    where j <= 14 is the number of trailing zeros that were stripped (10^j divides D): the
    decimal D * 10^(X'-14) that was printed is the decimal that is read.
    Lists and integer arithmetic only. *)
From Coq Require Import ZArith List Bool Lia Floats.SpecFloat.
From CJ Require Import Base Dbl Tree LibcNum LibcPrint Grammar ParseDefs ParseComplete PrintDefs
  PrintStrict PrintStrictRef RoundTripNum RoundTripInt RoundTripRef LibcG15Scale LibcG15Int.
Import ListNotations.
Local Open Scope Z_scope.

(** * removal of trailing zeros *)
Lemma strip0_snoc0 l : strip0 (l ++ [48]) = strip0 l.
Proof.
  induction l as [|a l IH]; [reflexivity|]. cbn [app strip0]. rewrite IH. reflexivity.
Qed.

Lemma strip0_snoc l c : c <> 48 -> strip0 (l ++ [c]) = l ++ [c].
Proof.
  intro Hc. induction l as [|a l IH].
  - cbn [app strip0]. destruct (Z.eqb_spec c 48); [contradiction|reflexivity].
  - cbn [app strip0]. rewrite IH. destruct l; reflexivity.
Qed.

Lemma strip0_cons a l : strip0 l <> [] -> strip0 (a :: l) = a :: strip0 l.
Proof. intro H. cbn [strip0]. destruct (strip0 l); [contradiction|reflexivity]. Qed.

Lemma strip0_zeros_app n l : strip0 l <> [] -> strip0 (repeat 48 n ++ l) = repeat 48 n ++ strip0 l.
Proof.
  intro H. induction n as [|n IH]; [reflexivity|].
  cbn [repeat app]. rewrite strip0_cons; rewrite IH; [reflexivity|].
  destruct n; cbn [repeat app]; [exact H|discriminate].
Qed.

(** the stripped digits of z are the digits of z / 10^j, and 10^j divides z *)
Lemma strip0_dec_fixed : forall k z, 0 <= z ->
  exists j, (j <= k)%nat /\ strip0 (dec_fixed k z) = dec_fixed (k - j) (z / 10 ^ Z.of_nat j) /\
            z mod 10 ^ Z.of_nat j = 0.
Proof.
  induction k as [|k IH]; intros z Hz.
  - exists 0%nat. split; [lia|]. split; [reflexivity|]. change (10 ^ Z.of_nat 0) with 1. apply Z.mod_1_r.
  - cbn [dec_fixed]. destruct (Z.eq_dec (z mod 10) 0) as [E0|N0].
    + rewrite E0. change (48 + 0) with 48. rewrite strip0_snoc0.
      destruct (IH (z / 10) ltac:(apply Z.div_pos; lia)) as (j & Hj & Es & Em).
      exists (S j). split; [lia|]. rewrite Nat2Z.inj_succ, Z.pow_succ_r by lia.
      split.
      * rewrite Es. replace (S k - S j)%nat with (k - j)%nat by lia. rewrite Z.div_div by lia. reflexivity.
      * rewrite Z.rem_mul_r by lia. rewrite E0, Em. reflexivity.
    + exists 0%nat. split; [lia|]. rewrite strip0_snoc by lia.
      change (10 ^ Z.of_nat 0) with 1. rewrite Z.div_1_r, Z.mod_1_r. rewrite Nat.sub_0_r.
      split; reflexivity.
Qed.

(** * splitting a digit string *)
Lemma dec_fixed_mod k : forall z, dec_fixed k (z mod 10 ^ Z.of_nat k) = dec_fixed k z.
Proof.
  induction k as [|k IH]; intro z; [reflexivity|].
  cbn [dec_fixed]. rewrite Nat2Z.inj_succ, Z.pow_succ_r by lia.
  assert (P : 0 < 10 ^ Z.of_nat k) by (apply Z.pow_pos_nonneg; lia).
  f_equal.
  - rewrite <- (IH (z / 10)). rewrite <- (IH (z mod (10 * 10 ^ Z.of_nat k) / 10)). f_equal.
    rewrite Z.rem_mul_r by lia.
    rewrite (Z.mul_comm 10 ((z / 10) mod 10 ^ Z.of_nat k)), Z.div_add by lia.
    rewrite (Z.div_small (z mod 10) 10) by (apply Z.mod_pos_bound; lia).
    rewrite Z.add_0_l. rewrite Z.mod_mod by lia. reflexivity.
  - do 2 f_equal. rewrite Z.rem_mul_r by lia.
    rewrite (Z.mul_comm 10 ((z / 10) mod 10 ^ Z.of_nat k)), Z.mod_add by lia.
    apply Z.mod_mod. lia.
Qed.

Lemma dec_fixed_split h : forall k z, 0 <= z ->
  dec_fixed (h + k) z = dec_fixed h (z / 10 ^ Z.of_nat k) ++ dec_fixed k z.
Proof.
  induction k as [|k IH]; intros z Hz.
  - rewrite Nat.add_0_r. change (10 ^ Z.of_nat 0) with 1. rewrite Z.div_1_r, app_nil_r. reflexivity.
  - rewrite Nat.add_succ_r. cbn [dec_fixed]. rewrite (IH (z / 10)) by (apply Z.div_pos; lia).
    rewrite Nat2Z.inj_succ, Z.pow_succ_r by lia. rewrite Z.div_div by lia.
    rewrite app_assoc. reflexivity.
Qed.

Lemma dec_fixed_zeros n : forall k z, 0 <= z < 10 ^ Z.of_nat k ->
  dec_fixed (n + k) z = repeat 48 n ++ dec_fixed k z.
Proof.
  intros k z Hz. rewrite dec_fixed_split by lia. f_equal.
  rewrite Z.div_small by lia. clear. induction n as [|n IH]; [reflexivity|].
  rewrite repeat_snoc. cbn [dec_fixed]. change (0 / 10) with 0. rewrite IH. reflexivity.
Qed.

Lemma dec_fixed_nonnil k z : dec_fixed (S k) z <> [].
Proof. cbn [dec_fixed]. destruct (dec_fixed k (z / 10)); discriminate. Qed.

Lemma firstn_exact_n {A} (l r : list A) n : length l = n -> firstn n (l ++ r) = l.
Proof. intros <-. apply firstn_exact. Qed.
Lemma skipn_exact_n {A} (l r : list A) n : length l = n -> skipn n (l ++ r) = r.
Proof. intros <-. apply skipn_exact. Qed.

(** * strtod after the sign *)
Definition strtod_body (neg : bool) (s1 : bytes) (nsign : nat) : option (dbl * nat) :=
  let '(ip, nint, s2) := take_digits s1 0 0 in
  let '(m, nfrac, s3, ndot) := frac_part ip nint s2 in
  if (nint + nfrac =? 0)%nat then None
  else
    let '(e, nexp) := ParseComplete.exp_part s3 in
    Some (dec_to_dbl_exact neg m (e - Z.of_nat nfrac), (nsign + nint + ndot + nfrac + nexp)%nat).

Lemma strtod_ref_body s : strtod_ref s = let '(neg, s1, nsign) := sign_split s in strtod_body neg s1 nsign.
Proof. rewrite strtod_ref_eq. destruct (sign_split s) as [[neg s1] nsign]. reflexivity. Qed.

(** the exponent suffix: absent, or 'e', sign, digits *)
Definition exp_tail (EXP : bytes) (ev : Z) : Prop :=
  (EXP = [] /\ ev = 0) \/
  (exists r nexp, EXP = 101 :: r /\ ParseComplete.exp_part EXP = (ev, nexp)).

Lemma exp_tail_nondigit EXP ev : exp_tail EXP ev -> nondigit_start EXP.
Proof. intros [[-> _]|(r & nexp & -> & _)]; [exact I|reflexivity]. Qed.

Lemma exp_tail_part EXP ev : exp_tail EXP ev -> exists nexp, ParseComplete.exp_part EXP = (ev, nexp).
Proof. intros [[-> ->]|(r & nexp & _ & E)]; [exists 0%nat; reflexivity|exists nexp; exact E]. Qed.

Lemma exp_tail_frac EXP ev ip nint : exp_tail EXP ev -> frac_part ip nint EXP = (ip, 0%nat, EXP, 0%nat).
Proof. intros [[-> _]|(r & nexp & -> & _)]; reflexivity. Qed.

Definition opt_frac (f : nat) (B : Z) : bytes :=
  match f with O => [] | S _ => 46 :: dec_fixed f B end.

(** digits, optional fraction, optional exponent *)
Lemma read_body neg nsign h A f B EXP ev : (1 <= h)%nat ->
  0 <= A < 10 ^ Z.of_nat h -> 0 <= B < 10 ^ Z.of_nat f -> exp_tail EXP ev ->
  exists k, strtod_body neg (dec_fixed h A ++ opt_frac f B ++ EXP) nsign =
            Some (dec_to_dbl_exact neg (A * 10 ^ Z.of_nat f + B) (ev - Z.of_nat f), k).
Proof.
  intros Hh HA HB HE. unfold strtod_body.
  assert (Hnd : nondigit_start (opt_frac f B ++ EXP)).
  { destruct f as [|f]; [exact (exp_tail_nondigit EXP ev HE)|reflexivity]. }
  rewrite (take_digits_dec_fixed_app h _ Hnd A 0 0%nat ltac:(lia)).
  rewrite Z.mul_0_l, Z.add_0_l, Z.mod_small by lia. rewrite Nat.add_0_l.
  destruct (exp_tail_part EXP ev HE) as [nexp Ee].
  destruct f as [|f].
  - cbn [opt_frac app]. rewrite (exp_tail_frac EXP ev A h HE).
    destruct h as [|h']; [lia|]. cbn [Nat.add Nat.eqb]. rewrite Ee.
    change (10 ^ Z.of_nat 0) with 1. replace (A * 1 + B) with A by lia.
    eexists. reflexivity.
  - cbn [opt_frac app frac_part].
    rewrite (take_digits_dec_fixed_app (S f) EXP (exp_tail_nondigit EXP ev HE) B A 0%nat ltac:(lia)).
    rewrite (Z.mod_small B) by lia. rewrite Nat.add_0_l.
    destruct h as [|h']; [lia|]. cbn [Nat.eqb andb Nat.add]. rewrite Ee.
    eexists. reflexivity.
Qed.

(** * the exponent part that fmt_g writes, read by strtod *)
Lemma take_digits_dec_nat_n a n : 0 <= a -> a < 10 ^ 15 ->
  take_digits (dec_nat a) 0 n = (a, (n + length (dec_nat a))%nat, []).
Proof.
  intros Ha Hlt. unfold dec_nat. rewrite dec_fixed_length.
  rewrite take_digits_dec_fixed by exact Ha. rewrite Z.mul_0_l, Z.add_0_l. f_equal. f_equal.
  destruct (Z.eq_dec a 0) as [->|Hnz]; [apply Z.mod_0_l; apply Z.pow_nonzero; lia|].
  destruct (ndigits_spec 2000 a ltac:(lia) (big_2000 a Hlt)) as [Hk [Hlo Hhi]].
  set (k := ndigits 2000 a) in *.
  rewrite Z2Nat.id by lia. apply Z.mod_small. lia.
Qed.

Lemma exp_part_read X : -400 <= X <= 400 -> exp_tail (LibcPrint.exp_part X) X.
Proof.
  intro HX. right. unfold LibcPrint.exp_part.
  set (a := Z.abs X).
  assert (Ha : 0 <= a < 10 ^ 15) by (change (10 ^ 15) with 1000000000000000; lia).
  set (dd := if a <? 10 then 48 :: dec_nat a else dec_nat a).
  assert (Hdd : exists n, (n <> 0)%nat /\ take_digits dd 0 0 = (a, n, [])).
  { unfold dd. destruct (a <? 10).
    - cbn [take_digits]. change (is_digit 48) with true. cbv iota.
      change (10 * 0 + (48 - 48)) with 0.
      rewrite (take_digits_dec_nat_n a 1 ltac:(lia) ltac:(lia)). eexists. split; [|reflexivity]. lia.
    - rewrite (take_digits_dec_nat_n a 0 ltac:(lia) ltac:(lia)).
      destruct (take_digits_dec_nat15 a ltac:(lia) ltac:(lia)) as (_ & Hlen & _).
      eexists. split; [|reflexivity]. lia. }
  destruct Hdd as (n & Hn & Et).
  eexists _, _. split; [reflexivity|].
  unfold ParseComplete.exp_part. change ((101 =? 101) || (101 =? 69)) with true. cbv iota.
  destruct (Z.ltb_spec X 0) as [Hneg|Hpos].
  - cbn [sign_split]. rewrite Et. destruct n as [|n]; [contradiction|]. cbn [Nat.eqb].
    rewrite Z.min_l by lia. f_equal. unfold a. lia.
  - cbn [sign_split]. rewrite Et. destruct n as [|n]; [contradiction|]. cbn [Nat.eqb].
    rewrite Z.min_l by lia. f_equal. unfold a. lia.
Qed.

(** * the three styles *)
Lemma with_point_app ip f B EXP :
  with_point ip (dec_fixed f B) ++ EXP = ip ++ opt_frac f B ++ EXP.
Proof.
  destruct f as [|f].
  - cbn [dec_fixed with_point opt_frac app]. reflexivity.
  - unfold with_point, opt_frac. pose proof (dec_fixed_nonnil f B) as H.
    destruct (dec_fixed (S f) B) eqn:E; [contradiction|]. rewrite <- app_assoc. reflexivity.
Qed.

Lemma pow10_nat_pos k : 0 < 10 ^ Z.of_nat k.
Proof. apply Z.pow_pos_nonneg; lia. Qed.

(** a head of h digits, then the stripped rest of the 15 digits *)
Lemma read_split neg nsign D h k EXP ev : (1 <= h)%nat -> (h + k = 15)%nat ->
  10 ^ 14 <= D < 10 ^ 15 -> exp_tail EXP ev ->
  let ds := dec_fixed 15 D in
  exists j n, (j <= k)%nat /\ D mod 10 ^ Z.of_nat j = 0 /\
    strtod_body neg (with_point (firstn h ds) (strip0 (skipn h ds)) ++ EXP) nsign =
    Some (dec_to_dbl_exact neg (D / 10 ^ Z.of_nat j) (ev - Z.of_nat (k - j)), n).
Proof.
  intros Hh Hhk HD HE. cbv zeta.
  replace 15%nat with (h + k)%nat by exact Hhk.
  rewrite dec_fixed_split by lia.
  rewrite (firstn_exact_n _ _ _ (dec_fixed_length h (D / 10 ^ Z.of_nat k))).
  rewrite (skipn_exact_n _ _ _ (dec_fixed_length h (D / 10 ^ Z.of_nat k))).
  destruct (strip0_dec_fixed k D ltac:(lia)) as (j & Hj & Es & Em).
  rewrite Es. rewrite <- (dec_fixed_mod (k - j) (D / 10 ^ Z.of_nat j)). rewrite with_point_app.
  pose proof (pow10_nat_pos k) as Pk. pose proof (pow10_nat_pos j) as Pj.
  pose proof (pow10_nat_pos (k - j)) as Pkj. pose proof (pow10_nat_pos h) as Ph.
  assert (Ekj : 10 ^ Z.of_nat k = 10 ^ Z.of_nat j * 10 ^ Z.of_nat (k - j)).
  { rewrite <- Z.pow_add_r by lia. f_equal. lia. }
  assert (E15 : 10 ^ 15 = 10 ^ Z.of_nat k * 10 ^ Z.of_nat h).
  { rewrite <- Z.pow_add_r by lia. f_equal. lia. }
  destruct (read_body neg nsign h (D / 10 ^ Z.of_nat k) (k - j)
              ((D / 10 ^ Z.of_nat j) mod 10 ^ Z.of_nat (k - j)) EXP ev Hh) as [n En].
  - split; [apply Z.div_pos; lia|]. apply Z.div_lt_upper_bound; [lia|]. lia.
  - apply Z.mod_pos_bound. lia.
  - exact HE.
  - exists j, n. split; [exact Hj|]. split; [exact Em|]. rewrite En. f_equal. f_equal. f_equal.
    rewrite Ekj. rewrite <- Z.div_div by lia.
    set (D' := D / 10 ^ Z.of_nat j).
    pose proof (Z.div_mod D' (10 ^ Z.of_nat (k - j)) ltac:(lia)). lia.
Qed.

Lemma dec_fixed_first_digit D : 10 ^ 14 <= D < 10 ^ 15 ->
  exists c r, dec_fixed 15 D = c :: r /\ 49 <= c <= 57.
Proof.
  intro HD. change 15%nat with (S 14). rewrite dec_fixed_head by lia.
  eexists _, _. split; [reflexivity|]. change (Z.of_nat 14) with 14.
  assert (1 <= D / 10 ^ 14 < 10).
  { split; [apply Z.div_le_lower_bound; lia|apply Z.div_lt_upper_bound; [lia|]].
    change (10 ^ 14 * 10) with (10 ^ 15). lia. }
  rewrite Z.mod_small by lia. lia.
Qed.

(** the body (without sign) starts with a digit and reads back as the decimal it shows *)
Theorem g_body_read neg nsign D X' : 10 ^ 14 <= D < 10 ^ 15 -> -400 <= X' <= 400 ->
  (exists c r, g_body 15 D X' = c :: r /\ 48 <= c <= 57) /\
  exists j n, 0 <= j <= 14 /\ D mod 10 ^ j = 0 /\
    strtod_body neg (g_body 15 D X') nsign = Some (dec_to_dbl_exact neg (D / 10 ^ j) (X' - 14 + j), n).
Proof.
  intros HD HX.
  destruct (dec_fixed_first_digit D HD) as (c & r & Eds & Hc).
  unfold g_body. change (Z.to_nat 15) with 15%nat.
  destruct ((-4 <=? X') && (X' <? 15)) eqn:Estyle.
  - apply andb_true_iff in Estyle as [H1 H2]. apply Z.leb_le in H1. apply Z.ltb_lt in H2.
    destruct (Z.leb_spec 0 X') as [H0|H0].
    + (* %f, X' >= 0 *)
      split.
      * rewrite Eds. replace (Z.to_nat (X' + 1)) with (S (Z.to_nat X')) by lia. cbn [firstn].
        unfold with_point. destruct (strip0 _); eexists _, _; (split; [reflexivity|lia]).
      * destruct (read_split neg nsign D (Z.to_nat (X' + 1)) (Z.to_nat (14 - X')) [] 0
                    ltac:(lia) ltac:(lia) HD (or_introl (conj eq_refl eq_refl))) as (j & n & Hj & Em & E).
        cbv zeta in E. rewrite app_nil_r in E.
        exists (Z.of_nat j), n. split; [lia|]. split; [exact Em|]. rewrite E. f_equal. f_equal. f_equal. lia.
    + (* %f, X' < 0 *)
      destruct (strip0_dec_fixed 15 D ltac:(lia)) as (j & Hj & Es & Em).
      assert (Hj14 : (j <= 14)%nat).
      { destruct (Nat.eq_dec j 15) as [->|]; [|lia]. exfalso.
        change (10 ^ Z.of_nat 15) with (10 ^ 15) in Em. rewrite Z.mod_small in Em by lia. lia. }
      assert (Hne : strip0 (dec_fixed 15 D) <> []).
      { rewrite Es. replace (15 - j)%nat with (S (14 - j)) by lia. apply dec_fixed_nonnil. }
      rewrite strip0_zeros_app by exact Hne. rewrite Es.
      set (nz := Z.to_nat (- X' - 1)).
      pose proof (pow10_nat_pos j) as Pj.
      assert (E15 : 10 ^ 15 = 10 ^ Z.of_nat j * 10 ^ Z.of_nat (15 - j)).
      { rewrite <- Z.pow_add_r by lia. f_equal. lia. }
      assert (HD' : 0 <= D / 10 ^ Z.of_nat j < 10 ^ Z.of_nat (15 - j)).
      { split; [apply Z.div_pos; lia|]. apply Z.div_lt_upper_bound; lia. }
      rewrite <- (dec_fixed_zeros nz (15 - j) (D / 10 ^ Z.of_nat j) HD').
      split.
      * unfold with_point. destruct (dec_fixed (nz + (15 - j)) (D / 10 ^ Z.of_nat j)); cbn [app];
          eexists _, _; (split; [reflexivity|lia]).
      * pose proof (with_point_app [48] (nz + (15 - j)) (D / 10 ^ Z.of_nat j) []) as W.
        rewrite app_nil_r in W. rewrite W.
        assert (P : 0 < 10 ^ Z.of_nat (nz + (15 - j))) by apply pow10_nat_pos.
        destruct (read_body neg nsign 1 0 (nz + (15 - j)) (D / 10 ^ Z.of_nat j) [] 0 ltac:(lia))
          as [n En].
        -- change (10 ^ Z.of_nat 1) with 10. lia.
        -- split; [lia|]. eapply Z.lt_le_trans; [apply HD'|]. apply Z.pow_le_mono_r; lia.
        -- left. split; reflexivity.
        -- change (dec_fixed 1 0) with [48] in En.
           exists (Z.of_nat j), n. split; [lia|]. split; [exact Em|]. rewrite En. f_equal. f_equal.
           unfold nz. f_equal; lia.
  - (* %e *)
    split.
    + rewrite Eds. cbn [firstn skipn]. unfold with_point.
      destruct (strip0 r); eexists _, _; (split; [reflexivity|lia]).
    + destruct (read_split neg nsign D 1 14 (LibcPrint.exp_part X') X'
                  ltac:(lia) ltac:(lia) HD (exp_part_read X' HX)) as (j & n & Hj & Em & E).
      cbv zeta in E.
      exists (Z.of_nat j), n. split; [lia|]. split; [exact Em|]. rewrite E. f_equal. f_equal. f_equal. lia.
Qed.

(** with the sign *)
Theorem g_text_read s D X' : 10 ^ 14 <= D < 10 ^ 15 -> -400 <= X' <= 400 ->
  exists j n, 0 <= j <= 14 /\ D mod 10 ^ j = 0 /\
    strtod_ref (g_text 15 s D X') = Some (dec_to_dbl_exact s (D / 10 ^ j) (X' - 14 + j), n).
Proof.
  intros HD HX. rewrite strtod_ref_body. unfold g_text. destruct s.
  - cbn [app sign_split].
    destruct (g_body_read true 1 D X' HD HX) as (_ & j & n & Hj & Em & E).
    exists j, n. split; [exact Hj|]. split; [exact Em|exact E].
  - cbn [app].
    destruct (g_body_read false 0 D X' HD HX) as ((c & r & Eb & Hc) & j & n & Hj & Em & E).
    assert (Hs : sign_split (g_body 15 D X') = (false, g_body 15 D X', 0%nat))
      by (rewrite Eb; apply sign_split_other; lia).
    rewrite Hs.
    exists j, n. split; [exact Hj|]. split; [exact Em|exact E].
Qed.
