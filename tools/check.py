#!/usr/bin/env python3
"""check.py <property-id> [--tier quick|thorough] [--replay FILE]

Decides one property of /verif/properties.jsonl for the CURRENT working tree of /repo:

 1. regenerates the source facts (coq/gen/*.v) from /repo and re-checks the proof
    obligations of coq/Properties_<id>.v (full .vo build, incremental), recording the
    `Print Assumptions` of every theorem;
 2. rebuilds the implementation driver from /repo (ASan+UBSan, guard pages, tracking
    allocator) in a scratch directory outside /repo and /verif;
 3. runs corpus + generated cases through the extracted Coq model (ocaml/driver) and the
    implementation, compares the observables of the property, and applies the property's
    own verdict to what the implementation did;
 4. writes evidence/<id>.json, prints VIOLATION / KNOWN-FINDING lines, exits 0 or 1.
"""
import sys, os, time, subprocess, tempfile, shutil, hashlib, importlib, re, fcntl, random

import json as _json
class json:  # json with a fallback for generator objects kept in Case.info
    load = staticmethod(_json.load); loads = staticmethod(_json.loads)
    @staticmethod
    def dump(o, f, **kw): kw.setdefault("default", repr); return _json.dump(o, f, **kw)

VERIF = os.path.dirname(os.path.dirname(os.path.abspath(__file__)))
REPLAYS = os.environ.get('VERIF_REPLAY_DIR') or os.path.join(VERIF, 'replays')
REPO = os.environ.get('VERIF_REPO', '/repo')
COQ = os.environ.get('VERIF_COQ_DIR', os.path.join(VERIF, 'coq'))       # scratch copies are used when a seeded change is tried
OCAML = os.environ.get('VERIF_OCAML_DIR', os.path.join(VERIF, 'ocaml'))
sys.path.insert(0, os.path.join(VERIF, 'tools'))

ALLOWED_AXIOMS = {
    # standard-library axioms that may appear (named in DESIGN.md section 8)
    'functional_extensionality_dep', 'Eqdep.Eq_rect_eq.eq_rect_eq', 'eq_rect_eq',
    'ClassicalDedekindReals.sig_forall_dec', 'ClassicalDedekindReals.sig_not_dec',
    'FunctionalExtensionality.functional_extensionality_dep', 'Classical_Prop.classic',
    'proof_irrelevance', 'JMeq_eq', 'propositional_extensionality',
    'ClassicalDedekindReals.sig_forall_dec', 'ClassicalDedekindReals.sig_not_dec', 'FunctionalExtensionality.functional_extensionality_dep',
    'sig_forall_dec', 'sig_not_dec', 'classic',
}
FORBIDDEN = re.compile(r'\b(Admitted|admit|Axiom|Parameter|Conjecture|Admit Obligations)\b|Unset Guard|bypass_check|type-in-type|impredicative-set')


def sh(cmd, cwd=None, timeout=3600, env=None, stdin=None):
    p = subprocess.run(cmd, shell=isinstance(cmd, str), cwd=cwd, stdout=subprocess.PIPE, stderr=subprocess.STDOUT,
                       timeout=timeout, env=env, input=stdin)
    return p.returncode, p.stdout.decode(errors='replace')


class Lock:
    def __init__(self, path): self.path = path
    def __enter__(self):
        self.f = open(self.path, 'w'); fcntl.flock(self.f, fcntl.LOCK_EX); return self
    def __exit__(self, *a):
        fcntl.flock(self.f, fcntl.LOCK_UN); self.f.close()


def strip_comments(src):
    out = []; depth = 0; i = 0
    while i < len(src):
        if src.startswith('(*', i): depth += 1; i += 2; continue
        if src.startswith('*)', i) and depth > 0: depth -= 1; i += 2; continue
        if depth == 0: out.append(src[i])
        i += 1
    return ''.join(out)


def proof_step(pid, log, areas=('base',)):
    """returns dict(obligations, discharged, theorems=[(name, assumptions)], ok, errors)"""
    import gen_facts
    res = {'obligations': 0, 'discharged': 0, 'theorems': [], 'ok': False, 'errors': []}
    with Lock(os.path.join(COQ, '..', '.coq.lock') if COQ.startswith(VERIF) else os.path.join(COQ, '.coq.lock')):
        try:
            gen_facts.generate(REPO, os.path.join(COQ, 'gen'))
        except Exception as e:
            res['errors'].append('gen_facts failed: %r' % (e,))
        sh('sh %s/tools/coqproject.sh %s' % (VERIF, COQ))
        # forbidden constructs anywhere in the development
        for fn in sorted(os.listdir(COQ)) + ['gen/' + x for x in sorted(os.listdir(os.path.join(COQ, 'gen')))]:
            if fn.endswith('.v'):
                src = strip_comments(open(os.path.join(COQ, fn)).read())
                m = FORBIDDEN.search(src)
                if m: res['errors'].append('forbidden construct %r in %s' % (m.group(0), fn))
        t0 = time.time()
        import glob as _glob
        mods = ['Properties_%s' % pid] + sorted(os.path.basename(f)[:-2] for f in _glob.glob(os.path.join(COQ, 'Properties_%s_*.v' % pid)))
        rc, out = sh('timeout 3000 make -k -j16 COQC="timeout 1500 coqc" %s %s 2>&1 | grep -v "^COQC\\|^COQDEP\\|conda\\|pyenv\\|shims" | tail -40' % (' '.join(m + '.vo' for m in mods), ' '.join('Extract_%s.vo' % a for a in areas)), cwd=COQ)
        built = all(os.path.exists(os.path.join(COQ, m + '.vo')) and os.path.getmtime(os.path.join(COQ, m + '.vo')) >= os.path.getmtime(os.path.join(COQ, m + '.v')) for m in mods)
        if 'Error' in out or not built:
            res['errors'].append('coq build failed: ' + out[-1500:])
        # (re)build the OCaml driver when the extracted model or the driver sources changed
        for area in areas:
            drv = os.path.join(OCAML, 'driver_' + area)
            srcs = [os.path.join(COQ, 'model_%s.ml' % area)] + [os.path.join(OCAML, f) for f in ('driver.ml', 'h_%s.ml' % area, 'main.ml')]
            if os.path.exists(srcs[0]) and (not os.path.exists(drv) or any(os.path.getmtime(s) > os.path.getmtime(drv) for s in srcs)):
                rc2, out2 = sh('COQ_DIR=%s sh %s %s' % (COQ, os.path.join(OCAML, 'build.sh'), area))
                if rc2 != 0: res['errors'].append('ocaml driver build failed: ' + out2[-800:])
        # per-theorem assumptions: a generated file asks the kernel for the assumptions of every theorem of the property file
        names = []      # (module, theorem): the property file and its optional companions Properties_<id>_*.v
        for m in mods:
            names += [(m, t) for t in re.findall(r'^\s*Theorem\s+(\w+)', strip_comments(open(os.path.join(COQ, m + '.v')).read()), re.M)]
        res['obligations'] = len(names)
        tmpd = tempfile.mkdtemp(prefix='cjprop_')
        try:
            with open(os.path.join(tmpd, 'PA.v'), 'w') as f:
                f.write('From CJ Require %s.\n' % ' '.join(mods))
                for m, nme in names: f.write('Print Assumptions %s.%s.\n' % (m, nme))
            rc, out = sh('timeout 900 coqc -Q %s CJ PA.v' % COQ, cwd=tmpd) if built else (1, 'Properties_%s.vo was not built' % pid)
        finally:
            shutil.rmtree(tmpd, ignore_errors=True)
        if rc != 0:
            res['errors'].append('Properties_%s does not check: %s' % (pid, out[-1500:]))
        blocks = re.split(r'(?=Closed under the global context|Axioms:)', out)
        blocks = [b for b in blocks if b.startswith('Closed under') or b.startswith('Axioms:')]
        for i, (m_, nme) in enumerate(names):
            if i < len(blocks):
                b = blocks[i]
                if b.startswith('Closed under'):
                    ax = []
                else:
                    ax = [a for a in re.findall(r'^([\w.\']+)\s*:', b, re.M) if a != 'Axioms']
                bad = [a for a in ax if a.split('.')[-1] not in {x.split('.')[-1] for x in ALLOWED_AXIOMS}]
                res['theorems'].append({'name': nme, 'assumptions': ax or ['Closed under the global context']})
                if not bad and rc == 0: res['discharged'] += 1
                if bad: res['errors'].append('theorem %s depends on non-standard axioms %s' % (nme, bad))
            else:
                res['theorems'].append({'name': nme, 'assumptions': ['NOT CHECKED']})
        res['ok'] = (not res['errors']) and res['discharged'] == res['obligations'] and res['obligations'] > 0
    return res


def build_impl(tmp, log, extra_flags='', name='impl', sanitize=True, area='base'):
    t0 = time.time()
    if os.path.exists(os.path.join(VERIF, 'harness', 'h_%s.inc' % area)):
        extra_flags += ' -DAREA_INC=\'"h_%s.inc"\'' % area
    san = '-fsanitize=address,undefined -fno-sanitize-recover=all' if sanitize else ''
    cmd = ('gcc -O1 -g %s -fno-omit-frame-pointer -DENABLE_LOCALES -DCJSON_VERIF %s -I%s -I%s/harness '
           '%s/harness/impl_driver.c %s/cJSON.c %s/cJSON_Utils.c -lm -lpthread -o %s/%s'
           % (san, extra_flags, REPO, VERIF, VERIF, REPO, REPO, tmp, name))
    rc, out = sh(cmd, timeout=600)
    log.append('impl build: %.1fs' % (time.time() - t0))
    if rc != 0:
        raise RuntimeError('cannot build the implementation driver from %s:\n%s' % (REPO, out[-3000:]))
    return os.path.join(tmp, name)


def _run_one(exe, lines, tmp, env_extra=None, timeout=3000):
    env = dict(os.environ); env['ASAN_OPTIONS'] = 'detect_leaks=0:abort_on_error=0:log_path=%s/asan:allocator_may_return_null=1' % tmp
    env['UBSAN_OPTIONS'] = 'print_stacktrace=1:log_path=%s/ubsan' % tmp
    if env_extra: env.update(env_extra)
    data = ('\n'.join(lines) + '\n').encode()
    p = subprocess.run([exe], input=data, stdout=subprocess.PIPE, stderr=subprocess.PIPE, env=env, timeout=timeout)
    outs = {}
    for l in p.stdout.decode(errors='replace').splitlines():
        k, _, v = l.partition(' ')
        if k.isdigit(): outs[int(k)] = v
    return [outs.get(i, 'NOOUTPUT') for i in range(len(lines))], p.stderr.decode(errors='replace')


MODEL_TAGS = {}
def _strip_tags(outs):
    """a model driver may end a result with ' @tag' tokens (coverage information such as 'this case falls under theorem T');
    they are counted into MODEL_TAGS (-> evidence) and removed before any comparison"""
    res = []
    for o in outs:
        while o:
            m = re.search(r' @(\S+)$', o)
            if not m: break
            MODEL_TAGS[m.group(1)] = MODEL_TAGS.get(m.group(1), 0) + 1; o = o[:m.start()]
        res.append(o)
    return res

def run_driver(exe, lines, tmp, env_extra=None, timeout=3000, shards=None):
    """runs the case lines through a driver; large case files are split over the cores (cases are independent)"""
    n = len(lines)
    if shards is None: shards = 1 if n < 600 else min(14, (n + 299) // 300)
    if shards <= 1:
        o, e = _run_one(exe, lines, tmp, env_extra, timeout); return _strip_tags(o), e
    from concurrent.futures import ThreadPoolExecutor
    size = (n + shards - 1) // shards
    chunks = [lines[i:i + size] for i in range(0, n, size)]
    with ThreadPoolExecutor(max_workers=len(chunks)) as ex:
        res = list(ex.map(lambda ch: _run_one(exe, ch, tmp, env_extra, timeout), chunks))
    outs = []; errs = ''
    for o, e in res: outs += o; errs += e
    return _strip_tags(outs), errs


def sanitizer_logs(tmp):
    txt = ''
    for fn in sorted(os.listdir(tmp)):
        if fn.startswith('asan') or fn.startswith('ubsan'):
            try: txt += open(os.path.join(tmp, fn), errors='replace').read()[:3000] + '\n'
            except Exception: pass
    return txt


def load_known():
    p = os.path.join(VERIF, 'known_findings.json')
    return json.load(open(p)) if os.path.exists(p) else {'findings': [], 'fixed': []}


def main():
    if len(sys.argv) < 2: print(__doc__); sys.exit(2)
    pid = sys.argv[1]
    tier = os.environ.get('VERIF_TIER', 'quick'); replay = None
    args = sys.argv[2:]
    while args:
        a = args.pop(0)
        if a == '--tier': tier = args.pop(0)
        elif a == '--replay': replay = args.pop(0)
    seed = int(os.environ.get('VERIF_SEED', '1'))
    t_start = time.time(); log = []
    mod = importlib.import_module('props.' + pid)
    tmp = tempfile.mkdtemp(prefix='cjverif_%s_' % pid)
    evdir = os.environ.get('VERIF_EVIDENCE_DIR', os.path.join(VERIF, 'evidence'))
    evid_path = os.path.join(evdir, pid + '.json')
    os.makedirs(evdir, exist_ok=True)
    os.makedirs(REPLAYS, exist_ok=True)
    violations = []; known_hits = []; exit_code = 0
    try:
        # 1. proofs
        area = getattr(mod, 'AREA', 'base')
        areas = list(getattr(mod, 'AREAS', [area]))
        pr = proof_step(pid, log, areas)
        if tier == 'thorough' and pr['ok'] and not os.environ.get('VERIF_NO_COQCHK'):
            # independent re-check of the compiled property file and everything it depends on
            t0 = time.time()
            rc_chk, out_chk = sh('timeout 3000 coqchk -silent -o -Q . CJ CJ.Properties_%s 2>&1 | tail -25' % pid, cwd=COQ, timeout=3100)
            log.append('coqchk: %.1fs' % (time.time() - t0))
            m_ax = re.search(r'\* Axioms:(.*?)\n\s*\n\* Constants', out_chk, re.S)
            pr['coqchk'] = {'axioms': (m_ax.group(1).strip() if m_ax else 'unparsed'), 'ok': 'CONTEXT SUMMARY' in out_chk}
            if not pr['coqchk']['ok']:
                pr['ok'] = False; pr['errors'].append('coqchk failed: ' + out_chk[-800:])
        # 2. implementation (one driver per area: each area has its own handlers)
        flags = getattr(mod, 'IMPL_FLAGS', '')
        impls = {a: build_impl(tmp, log, area=a, name='impl_' + a, extra_flags=(flags.get(a, '') if isinstance(flags, dict) else flags)) for a in areas}
        models = {a: os.path.join(OCAML, 'driver_' + a) for a in areas}
        impl, model = impls[areas[0]], models[areas[0]]
        ctx = {'tmp': tmp, 'tier': tier, 'seed': seed, 'impl': impl, 'model': model, 'impls': impls, 'models': models, 'repo': REPO, 'verif': VERIF,
               'run_driver': run_driver, 'build_impl': build_impl, 'sh': sh, 'log': log}
        # 3. cases
        if replay:
            rp = json.load(open(replay))
            cases = [mod.Case(c['line'], c.get('info', {})) for c in rp.get('cases', [])]
            ctx['replay'] = rp
        else:
            cases = mod.corpus(ctx)
            nseeds = int(os.environ.get('VERIF_NSEEDS', '4' if tier == 'thorough' else '1'))
            for k in range(nseeds):     # several PRNG seeds in the thorough tier; every case carries its seed in the evidence histogram
                ctx['seed'] = seed + k; ctx['seed_index'] = k   # seed-independent (exhaustive) streams are generated for index 0 only
                cases += mod.generate(ctx)
            ctx['seed'] = seed
        lines = [c.line for c in cases]
        def run_by_area(exes, what):
            t0 = time.time(); outs = [None] * len(cases)
            for a in areas:
                idx = [i for i, c in enumerate(cases) if c.info.get('area', areas[0]) == a]
                if not idx: continue
                o, _ = run_driver(exes[a], [lines[i] for i in idx], tmp)
                for i, r in zip(idx, o): outs[i] = r
            log.append('%s run: %.1fs' % (what, time.time() - t0)); return [x if x is not None else 'NOOUTPUT' for x in outs]
        impl_out = run_by_area(impls, 'impl'); model_out = run_by_area(models, 'model')
        mism = []; failing = []; nontrivial = set(); hist = {}
        for i, c in enumerate(cases):
            io, mo = impl_out[i], model_out[i]
            pi, pm = mod.project(c, io), mod.project(c, mo)
            v = mod.verdict(c, io, ctx)
            if replay and not v and i == 0 and rp.get('kind') == 'failing-input' and rp.get('impl') == io:
                v = 'replay: the implementation still behaves as recorded: ' + str(rp.get('why'))
            if v: failing.append((i, v))
            elif pi != pm: mism.append(i)
            if mod.nontrivial(c, io): nontrivial.add(c.line)
            for h in c.info.get('tags', []): hist[h] = hist.get(h, 0) + 1
        # extra, property-specific checks that do not fit the line protocol (e.g. source facts, TSan)
        extra = mod.extra_checks(ctx) if hasattr(mod, 'extra_checks') else {'violations': [], 'coverage': {}}
        known = load_known()
        def is_known(c, why):
            for f in known.get('findings', []):
                if f['property'] == pid and hasattr(mod, 'matches_finding') and mod.matches_finding(f, c, why): return f
            return None
        rep_id = '%s_%s_%d' % (pid, tier, seed)
        # a) the property's own verdict fails on the implementation's behaviour
        unknown_fail = []
        for i, why in failing:
            f = is_known(cases[i], why)
            if f: known_hits.append((f, cases[i]))
            else: unknown_fail.append((i, why))
        if unknown_fail:
            i, why = unknown_fail[0]
            c = cases[i]
            if hasattr(mod, 'shrink'):
                try: c, why = mod.shrink(c, why, ctx)
                except Exception as e: log.append('shrink failed: %r' % (e,))
            path = os.path.join(REPLAYS, rep_id + '.json')
            json.dump({'property': pid, 'kind': 'failing-input', 'why': why, 'cases': [{'line': c.line, 'info': c.info}],
                       'impl': impl_out[i], 'model': model_out[i], 'others': len(unknown_fail) - 1,
                       'sanitizer': sanitizer_logs(tmp)[:4000],
                       'replay_cmd': 'python3 tools/check.py %s --replay %s' % (pid, path)}, open(path, 'w'), indent=1)
            violations.append((path, ''))
        for k_ev, ev in enumerate(extra.get('violations', [])):
            path = os.path.join(REPLAYS, rep_id + '_extra%d.json' % k_ev)
            json.dump({'property': pid, 'kind': ev.get('kind', 'extra'), 'why': ev['why'], 'detail': ev.get('detail'),
                       'replay_cmd': 'python3 tools/check.py %s --replay %s' % (pid, path)}, open(path, 'w'), indent=1)
            violations.append((path, '' if ev.get('has_input') else ' no-failing-input-found'))
        # b) correspondence broken without a verdict failure: search around the disagreement
        if not violations and mism:
            found = None
            if hasattr(mod, 'search'):
                try: found = mod.search([cases[i] for i in mism[:20]], ctx)
                except Exception as e: log.append('search failed: %r' % (e,))
            path = os.path.join(REPLAYS, rep_id + '.json')
            if found:
                c, why, io, mo = found
                json.dump({'property': pid, 'kind': 'failing-input', 'why': why, 'cases': [{'line': c.line, 'info': c.info}], 'impl': io, 'model': mo}, open(path, 'w'), indent=1)
                violations.append((path, ''))
            else:
                i = mism[0]
                json.dump({'property': pid, 'kind': 'correspondence-broken',
                           'what': 'correspondence model/implementation for %s no longer checks: the implementation differs from the '
                                   'Coq model (coq/%s) on the observables of the property, so the theorems of coq/Properties_%s.v no '
                                   'longer speak about this code; the property verdict found no failing input' % (pid, mod.MODEL_FILES, pid),
                           'cases': [{'line': cases[j].line, 'info': cases[j].info} for j in mism[:5]],
                           'impl': [impl_out[j] for j in mism[:5]], 'model': [model_out[j] for j in mism[:5]],
                           'disagreements': len(mism)}, open(path, 'w'), indent=1)
                violations.append((path, ' no-failing-input-found'))
        # c) a proof obligation no longer checks and nothing failed
        if not pr['ok'] and not violations:
            path = os.path.join(REPLAYS, rep_id + '_proof.json')
            json.dump({'property': pid, 'kind': 'proof-obligation-broken', 'theorems': pr['theorems'], 'errors': pr['errors'],
                       'what': 'a theorem of coq/Properties_%s.v (or a generated source fact it depends on) no longer checks' % pid},
                      open(path, 'w'), indent=1)
            violations.append((path, ' no-failing-input-found'))
        seen = set()
        for f, c in known_hits:
            if f['id'] in seen: continue
            seen.add(f['id']); print('KNOWN-FINDING: property=%s %s' % (pid, f['what']))
        for path, suffix in violations:
            print('VIOLATION property=%s replay=%s%s' % (pid, path, suffix))
        exit_code = 1 if violations else 0
        # 4. evidence
        cov = {
            'obligations': pr['obligations'], 'discharged': pr['discharged'],
            'checker_cmd': 'cd coq && make -k -j16 Properties_%s.vo  (Coq 8.16.1 kernel, full .vo build), then a generated file `From CJ Require Import Properties_%s. Print Assumptions <theorem>.` for every theorem; thorough tier: coqchk -silent -o -Q . CJ CJ.Properties_%s' % (pid, pid, pid),
            'trusted_base': [
                'Coq 8.16.1 kernel (coqc; vm_compute used for finite sweeps/witnesses; no native_compute)',
                'per-theorem Print Assumptions: ' + '; '.join('%s: %s' % (t['name'], ','.join(t['assumptions'])) for t in pr['theorems']),
                'hand-written Gallina transliteration (%s) tied to /repo by this correspondence run' % mod.MODEL_FILES,
                'extraction with ExtrOcamlBasic only; OCaml 4.13.1; ocaml/driver.ml',
                'harness/impl_driver.c, gcc 12 -fsanitize=address,undefined, glibc',
                'tools/gen_facts.py (constants and source facts regenerated from /repo)',
            ] + getattr(mod, 'TRUSTED_EXTRA', []),
            'theorems': pr['theorems'], 'proof_errors': pr['errors'], 'coqchk': pr.get('coqchk', 'not run in the quick tier'),
            'evaluations': len(cases), 'distinct_nontrivial': len(nontrivial),
            'traces_validated_against_impl': len(cases) - len(mism) - len(failing),
            'disagreements': len(mism), 'verdict_failures': len(failing),
            'rule': mod.RULE, 'histogram': hist,
            'samples': [{'case': c.line[:300], 'impl': impl_out[i][:200]} for i, c in list(enumerate(cases))[:: max(1, len(cases) // 6)][:6]],
            'timing': log,
        }
        cov.update(extra.get('coverage', {}))
        if MODEL_TAGS: cov['cases_by_theorem_hypothesis'] = dict(MODEL_TAGS)   # reported by the extracted model (e.g. accepted_rules of C06_history_extracted)
        ev = {'property_id': pid, 'tier': tier if tier in ('quick', 'thorough') else 'quick', 'seed': seed, 'level': 'proof', 'coverage': cov,
              'assumptions': mod.ASSUMPTIONS, 'wall_s': round(time.time() - t_start, 2), 'violations': len(violations)}
        # a replay re-runs recorded cases only: it must not replace the evidence of the property's check
        json.dump(ev, open(evid_path if not replay else os.path.join(REPLAYS, 'replay_evidence_%s.json' % pid), 'w'), indent=1)
    finally:
        shutil.rmtree(tmp, ignore_errors=True)
    sys.exit(exit_code)


if __name__ == '__main__':
    main()
