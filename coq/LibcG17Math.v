(** LibcG17Math.v — the mathematical core of "17 significant digits identify a double", over
    Flocq's real-number model of binary64 (format FLT: precision 53, minimal exponent -1074, no
    upper bound on the exponent):

    * [format_gap]: two different numbers of the format, one of them v > 0, are at least
      v * 2^-53 apart — at a power of two the gap below is half the gap above, in the subnormal
      range the gap is the constant 2^-1074; v * 2^-53 is a lower bound in all cases;
    * [round_near]: every real w with |w - v| < v * 2^-54 rounds (to nearest, any tie rule) to v;
    * [round_decimal17]: so does every w within half a unit of the 17th significant decimal
      digit of v, because 2^53 < 10^16.

    Flocq is built on Coq's real numbers: Print Assumptions lists the axioms of the Reals
    library for these theorems. *)
From Coq Require Import ZArith Reals Lia Lra Floats.SpecFloat.
From Flocq Require Import Core.Core.
From CJ Require Import RoundTripFlocq LibcG17R.
Local Open Scope R_scope.

Notation fx := (SpecFloat.fexp 53 1024).
Notation fmt := (generic_format radix2 fx).

#[export] Instance fx_valid : Valid_exp fx.
Proof. apply BinarySingleNaN.fexp_correct. reflexivity. Qed.

Lemma fx_ge k : (k - 53 <= fx k)%Z.
Proof. unfold SpecFloat.fexp, SpecFloat.emin. lia. Qed.

Lemma bpow2_split a b : bpow radix2 (a + b) = bpow radix2 a * bpow radix2 b.
Proof. apply bpow_plus. Qed.

(** ulp v > v * 2^-53 *)
Lemma ulp_gt v : 0 < v -> v * bpow radix2 (-53) < ulp radix2 fx v.
Proof.
  intro Hv. rewrite ulp_neq_0 by lra. unfold cexp.
  apply Rlt_le_trans with (bpow radix2 (mag radix2 v - 53)).
  - replace (mag radix2 v - 53)%Z with (mag radix2 v + -53)%Z by lia. rewrite bpow_plus.
    apply Rmult_lt_compat_r; [apply bpow_gt_0|].
    pose proof (bpow_mag_gt radix2 v) as H. rewrite Rabs_pos_eq in H by lra. exact H.
  - apply bpow_le. apply fx_ge.
Qed.

Theorem format_gap v g : fmt v -> fmt g -> 0 < v -> g <> v -> v * bpow radix2 (-53) <= Rabs (g - v).
Proof.
  intros Fv Fg Hv Hne.
  destruct (Rtotal_order g v) as [Hlt | [Heq | Hgt]]; [|contradiction|].
  - (* g below v *)
    pose proof (pred_ge_gt radix2 fx g v Fg Fv Hlt) as Hp.
    rewrite pred_eq_pos in Hp by lra. unfold pred_pos in Hp.
    rewrite Rabs_left1 by lra.
    destruct (Req_bool_spec v (bpow radix2 (mag radix2 v - 1))) as [Hpow | Hnp].
    + assert (Hb : v * bpow radix2 (-53) <= bpow radix2 (fx (mag radix2 v - 1))).
      { rewrite Hpow at 1. rewrite <- bpow_plus. apply bpow_le.
        pose proof (fx_ge (mag radix2 v - 1)). lia. }
      lra.
    + pose proof (ulp_gt v Hv). lra.
  - (* g above v *)
    pose proof (succ_le_lt radix2 fx v g Fv Fg Hgt) as Hs.
    rewrite succ_eq_pos in Hs by lra.
    rewrite Rabs_pos_eq by lra.
    pose proof (ulp_gt v Hv). lra.
Qed.

Theorem round_near choice v w : fmt v -> 0 < v -> Rabs (w - v) < v * bpow radix2 (-54) ->
  round radix2 fx (Znearest choice) w = v.
Proof.
  intros Fv Hv Hw.
  set (f := round radix2 fx (Znearest choice) w).
  assert (Ff : fmt f) by (apply generic_format_round; [apply fx_valid|apply valid_rnd_N]).
  destruct (round_N_pt radix2 fx choice w) as [_ Hn]. fold f in Hn.
  pose proof (Hn v Fv) as Hfv.
  destruct (Req_dec f v) as [E|Hne]; [exact E|exfalso].
  pose proof (format_gap v f Fv Ff Hv Hne) as Hgap.
  assert (H54 : bpow radix2 (-53) = 2 * bpow radix2 (-54)).
  { change (-53)%Z with (1 + -54)%Z. rewrite bpow_plus. reflexivity. }
  rewrite H54 in Hgap.
  assert (Htri : Rabs (f - v) <= Rabs (f - w) + Rabs (w - v)).
  { replace (f - v) with ((f - w) + (w - v)) by ring. apply Rabs_triang. }
  rewrite (Rabs_minus_sym v w) in Hfv.
  lra.
Qed.

(** the decimal corollary: v > 0 in the format, 10^X <= v, w within half a unit of the 17th
    significant digit of v (i.e. of 10^(X-16)) — then w rounds to v *)
Theorem round_decimal17 choice v w X : fmt v -> bpow r10 X <= v ->
  Rabs (w - v) <= bpow r10 (X - 16) / 2 ->
  round radix2 fx (Znearest choice) w = v.
Proof.
  intros Fv HX Hw.
  assert (Hv : 0 < v) by (pose proof (bpow_gt_0 r10 X); lra).
  apply round_near; [exact Fv|exact Hv|].
  eapply Rle_lt_trans; [exact Hw|].
  replace (X - 16)%Z with (X + Z.opp 16)%Z by lia. rewrite bpow_plus.
  rewrite bpow_opp.
  change (-54)%Z with (Z.opp (1 + 53))%Z. rewrite bpow_opp, bpow_plus.
  pose proof pow2_53_lt_pow10_16 as H. pose proof (bpow_gt_0 radix2 53) as H2.
  pose proof (bpow_gt_0 r10 16) as H10. pose proof (bpow_gt_0 r10 X) as HX0.
  change (bpow radix2 1) with 2.
  assert (Hinv : / bpow r10 16 < / bpow radix2 53) by (apply Rinv_lt_contravar; [apply Rmult_lt_0_compat; lra|lra]).
  assert (Hi0 : 0 < / bpow r10 16) by (apply Rinv_0_lt_compat; lra).
  rewrite Rinv_mult.
  apply Rle_lt_trans with (v * / bpow r10 16 / 2).
  - apply Rmult_le_compat_r; [lra|]. apply Rmult_le_compat_r; lra.
  - assert (v * / bpow r10 16 < v * / bpow radix2 53) by (apply Rmult_lt_compat_l; lra). lra.
Qed.
