(** PatchSeq2Fit.v — checkable sufficient conditions for the side conditions of the sequence theorem
    (PatchSeqAll.v), on the RFC evaluator alone:
    (1) reference tokens parsed from a pointer text that is a C string of unsigned chars are such strings;
    (2) the width (largest number of elements of a container) of the documents along an evaluation grows by
        at most one per operation beyond the widths of the document and the value operands, so a static
        bound implies that every intermediate document has no container above SIZE_MAX elements. *)
From Coq Require Import Lia ZArith List Bool Permutation.
From CJ Require Import Base Dbl Tree PointerDefs PointerProofs CompareDefs PatchDefs PatchProofs PatchRobust Rfc6902
  PatchConform PatchOps PatchApply PatchSort PatchTest PatchMove PatchSeq PatchGen PatchEq PatchRound PatchObj
  PatchExact PatchSeq2Rfc PatchSeq2Op PatchSeqAll.
Import ListNotations.
Local Open Scope Z_scope.

(** ---------- (1) tokens of a C-string pointer ---------- *)
Lemma kb_cons c r : key_bytes_ok (c :: r) <-> 0 < c < 256 /\ key_bytes_ok r.
Proof. unfold key_bytes_ok. split; [intro H; inversion H; subst; split; assumption | intros [H1 H2]; constructor; assumption]. Qed.

Lemma unescape_kb : forall n t u, (length t <= n)%nat -> key_bytes_ok t -> unescape t = Some u -> key_bytes_ok u.
Proof.
  induction n as [|n IH]; intros t u L K U.
  - destruct t; [|cbn in L; lia]. cbn in U. inversion U. constructor.
  - destruct t as [|c r]; [cbn in U; inversion U; constructor|].
    apply kb_cons in K. destruct K as [Kc Kr]. cbn [unescape] in U. cbn [length] in L. zeq c 126.
    + destruct r as [|d r']; [discriminate|]. apply kb_cons in Kr. destruct Kr as [Kd Kr']. cbn [length] in L.
      zeq d 48.
      * destruct (unescape r') as [u'|] eqn:E; [|discriminate]. cbn in U. inversion U; subst.
        apply kb_cons. split; [lia | apply (IH r'); [lia | exact Kr' | exact E]].
      * zeq d 49; [|discriminate]. destruct (unescape r') as [u'|] eqn:E; [|discriminate]. cbn in U. inversion U; subst.
        apply kb_cons. split; [lia | apply (IH r'); [lia | exact Kr' | exact E]].
    + destruct (unescape r) as [u'|] eqn:E; [|discriminate]. cbn in U. inversion U; subst.
      apply kb_cons. split; [exact Kc | apply (IH r); [lia | exact Kr | exact E]].
Qed.

Lemma split_slash_kb : forall r cur, key_bytes_ok r -> key_bytes_ok cur -> Forall key_bytes_ok (split_slash r cur).
Proof.
  induction r as [|c r IH]; intros cur Kr Kc; cbn [split_slash].
  - constructor; [|constructor]. unfold key_bytes_ok in *. rewrite Forall_forall in *. intros x Hx. apply Kc. apply in_rev. exact Hx.
  - apply kb_cons in Kr. destruct Kr as [K1 K2]. zeq c 47.
    + constructor; [|apply IH; [exact K2 | constructor]].
      unfold key_bytes_ok in *. rewrite Forall_forall in *. intros x Hx. apply Kc. apply in_rev. exact Hx.
    + apply IH; [exact K2 | apply kb_cons; split; assumption].
Qed.

Lemma all_some_unescape_kb : forall l toks, Forall key_bytes_ok l -> all_some (map unescape l) = Some toks -> Forall key_bytes_ok toks.
Proof.
  induction l as [|t l IH]; intros toks K H; cbn [map all_some] in H.
  - inversion H. constructor.
  - inversion K; subst. destruct (unescape t) as [u|] eqn:U; [|discriminate].
    destruct (all_some (map unescape l)) as [us|] eqn:A; [|discriminate]. cbn in H. inversion H; subst.
    constructor; [apply (unescape_kb (length t) t u); [lia | assumption | exact U] | apply IH; [assumption | reflexivity]].
Qed.

Theorem parse_toks_ok s toks : key_bytes_ok s -> rfc_parse_pointer s = Some toks -> Forall key_bytes_ok toks.
Proof.
  intros K H. destruct s as [|c r]; cbn [rfc_parse_pointer] in H; [inversion H; constructor|].
  zeq c 47; [|discriminate]. apply kb_cons in K. destruct K as [_ K].
  eapply all_some_unescape_kb; [|exact H]. apply split_slash_kb; [exact K | constructor].
Qed.

(* an operation object whose strings are C strings of unsigned chars: the tokens of its operation are such *)
Definition op_cstr (p : node) : Prop := Forall (fun m => is_string m = true -> forall s, n_vstr m = Some s -> key_bytes_ok s) (n_children p).

Lemma ptr_member_toks p k toks : op_cstr p -> ptr_member p k = Some toks -> Forall key_bytes_ok toks.
Proof.
  intros Hc Hp. unfold ptr_member in Hp. destruct (str_member p k) as [s|] eqn:Es; [|discriminate].
  destruct (str_member_inv _ _ _ Es) as (m & Hm & Hs & Hv). destruct (member_find _ _ _ Hm) as (j & F).
  apply find_key_nth in F. unfold op_cstr in Hc. rewrite Forall_forall in Hc.
  eapply parse_toks_ok; [|exact Hp]. eapply Hc; [eapply nth_error_In; exact F | exact Hs | exact Hv].
Qed.

Theorem op_toks_of_cstr p o : op_cstr p -> op_of p = Some o -> op_toks_ok o.
Proof.
  intros Hc Ho. destruct (op_of_inv _ _ Ho) as (opname & toks & _ & Ept & H).
  pose proof (ptr_member_toks p k_path toks Hc Ept) as Kp.
  destruct o as [q v|q|q v|f q|f q|q v]; cbn [op_toks_ok].
  - destruct H as (_ & -> & _). exact Kp.
  - destruct H as (_ & ->). exact Kp.
  - destruct H as (_ & -> & _). exact Kp.
  - destruct H as (_ & -> & Ef). split; [eapply ptr_member_toks; eassumption | exact Kp].
  - destruct H as (_ & -> & Ef). split; [eapply ptr_member_toks; eassumption | exact Kp].
  - destruct H as (_ & -> & _). exact Kp.
Qed.

(** ---------- (2) widths ---------- *)
Fixpoint width_list (w : node -> nat) (l : list node) : nat :=
  match l with [] => O | c :: r => Nat.max (w c) (width_list w r) end.
Fixpoint width (n : node) : nat :=
  match n with Node _ _ _ _ _ cs => Nat.max (length cs) ((fix go l := match l with [] => O | c :: r => Nat.max (width c) (go r) end) cs) end.
Definition wl := width_list width.

Lemma width_eq t s i d k cs : width (Node t s i d k cs) = Nat.max (length cs) (wl cs).
Proof.
  cbn [width]. f_equal. unfold wl. induction cs as [|c r IH]; [reflexivity|]. cbn [width_list]. rewrite <- IH. reflexivity.
Qed.

Lemma wl_in x cs : In x cs -> (width x <= wl cs)%nat.
Proof.
  unfold wl. induction cs as [|c r IH]; intro H; [contradiction|]. cbn [width_list].
  destruct H as [->|H]; [lia|]. specialize (IH H). lia.
Qed.
Lemma wl_le cs m : (forall x, In x cs -> (width x <= m)%nat) -> (wl cs <= m)%nat.
Proof.
  unfold wl. induction cs as [|c r IH]; intro H; cbn [width_list]; [lia|].
  pose proof (H c (or_introl eq_refl)). assert (width_list width r <= m)%nat by (apply IH; intros; apply H; right; assumption). lia.
Qed.
Lemma wl_app a b : wl (a ++ b) = Nat.max (wl a) (wl b).
Proof. unfold wl. induction a as [|c r IH]; cbn [app width_list]; [reflexivity|]. rewrite IH. lia. Qed.

Lemma width_children n : (length (n_children n) <= width n)%nat /\ (wl (n_children n) <= width n)%nat.
Proof. destruct n as [t s i d k cs]. rewrite width_eq. cbn [n_children]. lia. Qed.
Lemma width_child n x : In x (n_children n) -> (width x <= width n)%nat.
Proof. intro H. pose proof (wl_in _ _ H). pose proof (width_children n). lia. Qed.

Lemma width_with_children c l : width (with_children c l) = Nat.max (length l) (wl l).
Proof. destruct c. cbn [with_children]. apply width_eq. Qed.
Lemma width_with_key v t : width (with_key v t) = width v.
Proof. destruct v. cbn [with_key]. rewrite !width_eq. reflexivity. Qed.

Lemma small_of_width : forall n, Z.of_nat (width n) <= SIZE_MAX -> small_arrays n.
Proof.
  induction n as [ty vs vi vd k cs IH] using node_ind'. rewrite width_eq. intro H. apply small_arrays_unfold. split; [lia|].
  rewrite Forall_forall in *. intros x Hx. apply IH; [exact Hx|]. pose proof (wl_in _ _ Hx). lia.
Qed.

Lemma width_le_size : forall n, (width n < node_size n)%nat.
Proof.
  induction n as [ty vs vi vd k cs IH] using node_ind'. rewrite width_eq. cbn [node_size].
  induction cs as [|c r IHr]; [cbn; lia|]. inversion IH as [|? ? Hc Hr]; subst. specialize (IHr Hr).
  unfold wl in *. cbn [length width_list]. lia.
Qed.

Lemma wl_firstn n l : (wl (firstn n l) <= wl l)%nat.
Proof. apply wl_le. intros x Hx. apply wl_in. eapply In_firstn; exact Hx. Qed.
Lemma wl_skipn n l : (wl (skipn n l) <= wl l)%nat.
Proof. apply wl_le. intros x Hx. apply wl_in. eapply In_skipn; exact Hx. Qed.

Lemma wl_upd j x l : (wl (upd_nth j x l) <= Nat.max (wl l) (width x))%nat.
Proof.
  unfold upd_nth. rewrite wl_app. unfold wl at 2. cbn [width_list]. fold wl.
  pose proof (wl_firstn j l). pose proof (wl_skipn (S j) l). lia.
Qed.
Lemma wl_ins j x l : (wl (ins_nth j x l) <= Nat.max (wl l) (width x))%nat.
Proof.
  unfold ins_nth. rewrite wl_app. unfold wl at 2. cbn [width_list]. fold wl.
  pose proof (wl_firstn j l). pose proof (wl_skipn j l). lia.
Qed.
Lemma wl_del j l : (wl (del_nth j l) <= wl l)%nat.
Proof. unfold del_nth. rewrite wl_app. pose proof (wl_firstn j l). pose proof (wl_skipn (S j) l). lia. Qed.

Lemma upd_nth_length {A} j (x : A) l : (j < length l)%nat -> length (upd_nth j x l) = length l.
Proof. intro H. rewrite upd_nth_replace by exact H. apply replace_nth_length. Qed.
Lemma ins_nth_length {A} j (x : A) l : (j <= length l)%nat -> length (ins_nth j x l) = S (length l).
Proof. intro H. unfold ins_nth. rewrite app_length. cbn [length]. rewrite firstn_length, skipn_length. lia. Qed.
Lemma del_nth_length_le {A} j (l : list A) : (length (del_nth j l) <= length l)%nat.
Proof. rewrite <- remove_nth_del. apply remove_nth_length_le. Qed.

(* functions applied at a location: the width grows to at most [max (S old) w] *)
Definition grows (w : nat) (f : node -> option node) : Prop := forall x x', f x = Some x' -> (width x' <= Nat.max (S (width x)) w)%nat.

Lemma at_location_width w f : grows w f -> forall toks d e, at_location d toks f = Some e -> (width e <= Nat.max (S (width d)) w)%nat.
Proof.
  intros Hf. induction toks as [|t ts IH]; intros d e E; cbn [at_location] in E; [apply Hf; exact E|].
  pose proof (width_children d) as [WL WC].
  destruct (is_array d).
  - destruct (rfc_array_index t) as [i|]; [|discriminate]. destruct (nth_z (n_children d) i) as [c|] eqn:N; [|discriminate].
    destruct (at_location c ts f) as [c'|] eqn:A; [|discriminate]. inversion E; subst e.
    specialize (IH _ _ A). pose proof (width_child d c (nth_z_in _ _ _ N)).
    rewrite width_with_children. pose proof (wl_upd (Z.to_nat i) c' (n_children d)).
    assert (length (upd_nth (Z.to_nat i) c' (n_children d)) = length (n_children d)).
    { apply upd_nth_length. apply nth_error_Some. rewrite (nth_z_nth _ _ _ N). discriminate. }
    lia.
  - destruct (is_object d); [|discriminate]. destruct (find_key (n_children d) t 0%nat) as [[j c]|] eqn:F; [|discriminate].
    destruct (at_location c ts f) as [c'|] eqn:A; [|discriminate]. inversion E; subst e.
    specialize (IH _ _ A). pose proof (width_child d c (proj1 (find_key_in _ _ _ _ F))).
    rewrite width_with_children. pose proof (wl_upd j c' (n_children d)).
    assert (length (upd_nth j c' (n_children d)) = length (n_children d)).
    { apply upd_nth_length. apply nth_error_Some. rewrite (find_key_nth _ _ _ _ F). discriminate. }
    lia.
Qed.

Lemma add_member_grows t v : grows (width v) (add_member t v).
Proof.
  intros c c' E. pose proof (width_children c) as [WL WC]. unfold add_member in E. destruct (is_array c).
  - destruct (bytes_eqb t [45]).
    { inversion E; subst. rewrite width_with_children, app_length, wl_app. unfold wl at 2. cbn [length width_list]. lia. }
    destruct (rfc_array_index t) as [i|]; [|discriminate].
    destruct (Z.leb_spec i (Z.of_nat (length (n_children c)))) as [Hle|]; [|discriminate].
    inversion E; subst. rewrite width_with_children. pose proof (wl_ins (Z.to_nat i) v (n_children c)).
    assert (0 <= i -> length (ins_nth (Z.to_nat i) v (n_children c)) = S (length (n_children c))) by (intro; apply ins_nth_length; lia).
    assert (i < 0 -> length (ins_nth (Z.to_nat i) v (n_children c)) = S (length (n_children c))).
    { intro Hneg. apply ins_nth_length. replace (Z.to_nat i) with 0%nat by lia. lia. }
    lia.
  - destruct (is_object c); [|discriminate]. destruct (find_key (n_children c) t 0%nat) as [[j x]|] eqn:F.
    + inversion E; subst. rewrite width_with_children. pose proof (wl_upd j (with_key v t) (n_children c)). rewrite width_with_key in *.
      assert (length (upd_nth j (with_key v t) (n_children c)) = length (n_children c)).
      { apply upd_nth_length. apply nth_error_Some. rewrite (find_key_nth _ _ _ _ F). discriminate. }
      lia.
    + inversion E; subst. rewrite width_with_children, app_length, wl_app. unfold wl at 2. cbn [length width_list]. rewrite width_with_key. lia.
Qed.

Lemma remove_member_grows t : grows 0 (remove_member t).
Proof.
  intros c c' E. pose proof (width_children c) as [WL WC]. unfold remove_member in E. destruct (is_array c).
  - destruct (rfc_array_index t) as [i|]; [|discriminate]. destruct (i <? Z.of_nat (length (n_children c))); [|discriminate].
    inversion E; subst. rewrite width_with_children. pose proof (wl_del (Z.to_nat i) (n_children c)).
    pose proof (del_nth_length_le (Z.to_nat i) (n_children c)). lia.
  - destruct (is_object c); [|discriminate]. destruct (find_key (n_children c) t 0%nat) as [[j x]|]; [|discriminate].
    inversion E; subst. rewrite width_with_children. pose proof (wl_del j (n_children c)).
    pose proof (del_nth_length_le j (n_children c)). lia.
Qed.

Lemma add_width d p v e : add d p v = Some e -> (width e <= Nat.max (S (width d)) (width v))%nat.
Proof.
  unfold add. destruct (split_last p) as [[pp t]|]; [|intro E; inversion E; subst; lia].
  apply at_location_width. apply add_member_grows.
Qed.
Lemma remove_width d p e : remove d p = Some e -> (width e <= S (width d))%nat.
Proof.
  unfold remove. destruct (split_last p) as [[pp t]|]; [|discriminate].
  intro E. pose proof (at_location_width 0 _ (remove_member_grows t) _ _ _ E). lia.
Qed.
(* removal does not even add one: at most the old width *)
Lemma at_location_width0 f : (forall x x', f x = Some x' -> (width x' <= width x)%nat) ->
  forall toks d e, at_location d toks f = Some e -> (width e <= width d)%nat.
Proof.
  intros Hf. induction toks as [|t ts IH]; intros d e E; cbn [at_location] in E; [apply Hf; exact E|].
  pose proof (width_children d) as [WL WC].
  destruct (is_array d).
  - destruct (rfc_array_index t) as [i|]; [|discriminate]. destruct (nth_z (n_children d) i) as [c|] eqn:N; [|discriminate].
    destruct (at_location c ts f) as [c'|] eqn:A; [|discriminate]. inversion E; subst e.
    specialize (IH _ _ A). pose proof (width_child d c (nth_z_in _ _ _ N)).
    rewrite width_with_children. pose proof (wl_upd (Z.to_nat i) c' (n_children d)).
    assert (length (upd_nth (Z.to_nat i) c' (n_children d)) = length (n_children d)).
    { apply upd_nth_length. apply nth_error_Some. rewrite (nth_z_nth _ _ _ N). discriminate. }
    lia.
  - destruct (is_object d); [|discriminate]. destruct (find_key (n_children d) t 0%nat) as [[j c]|] eqn:F; [|discriminate].
    destruct (at_location c ts f) as [c'|] eqn:A; [|discriminate]. inversion E; subst e.
    specialize (IH _ _ A). pose proof (width_child d c (proj1 (find_key_in _ _ _ _ F))).
    rewrite width_with_children. pose proof (wl_upd j c' (n_children d)).
    assert (length (upd_nth j c' (n_children d)) = length (n_children d)).
    { apply upd_nth_length. apply nth_error_Some. rewrite (find_key_nth _ _ _ _ F). discriminate. }
    lia.
Qed.
Lemma remove_width0 d p e : remove d p = Some e -> (width e <= width d)%nat.
Proof.
  unfold remove. destruct (split_last p) as [[pp t]|]; [|discriminate].
  apply at_location_width0. intros x x' E. pose proof (remove_member_grows t x x' E) as G.
  (* remove_member never lengthens *)
  clear G. pose proof (width_children x) as [WL WC]. unfold remove_member in E. destruct (is_array x).
  - destruct (rfc_array_index t) as [i|]; [|discriminate]. destruct (i <? Z.of_nat (length (n_children x))); [|discriminate].
    inversion E; subst. rewrite width_with_children. pose proof (wl_del (Z.to_nat i) (n_children x)).
    pose proof (del_nth_length_le (Z.to_nat i) (n_children x)). lia.
  - destruct (is_object x); [|discriminate]. destruct (find_key (n_children x) t 0%nat) as [[j y]|]; [|discriminate].
    inversion E; subst. rewrite width_with_children. pose proof (wl_del j (n_children x)).
    pose proof (del_nth_length_le j (n_children x)). lia.
Qed.

Lemma get_width : forall toks d v, get d toks = Some v -> (width v <= width d)%nat.
Proof.
  induction toks as [|t ts IH]; intros d v G; cbn [get] in G; [inversion G; subst; lia|].
  destruct (is_array d).
  - destruct (rfc_array_index t) as [i|]; [|discriminate]. destruct (nth_z (n_children d) i) as [c|] eqn:N; [|discriminate].
    specialize (IH _ _ G). pose proof (width_child d c (nth_z_in _ _ _ N)). lia.
  - destruct (is_object d); [|discriminate]. destruct (find_key (n_children d) t 0%nat) as [[j c]|] eqn:F; [|discriminate].
    specialize (IH _ _ G). pose proof (width_child d c (proj1 (find_key_in _ _ _ _ F))). lia.
Qed.

(* the width of the value operand of an operation *)
Definition opw (o : op) : nat := match o with Add _ v | Replace _ v => width v | _ => O end.
Fixpoint opsw (ops : list op) : nat := match ops with [] => O | o :: r => Nat.max (opw o) (opsw r) end.

Lemma eval1_width d o e : eval1 d o = Some e -> (width e <= Nat.max (S (width d)) (opw o))%nat.
Proof.
  destruct o as [p v|p|p v|f p|f p|p v]; cbn [eval1 opw]; intro E.
  - apply add_width in E. exact E.
  - apply remove_width0 in E. lia.
  - unfold replace in E. destruct p as [|t ts]; [inversion E; subst; lia|].
    destruct (remove d (t :: ts)) as [d'|] eqn:R; [|discriminate]. apply remove_width0 in R. apply add_width in E. lia.
  - destruct (proper_prefix f p); [discriminate|]. destruct (get d f) as [v|] eqn:G; [|discriminate].
    destruct (remove d f) as [d'|] eqn:R; [|discriminate]. apply remove_width0 in R. apply add_width in E. apply get_width in G. lia.
  - destruct (get d f) as [v|] eqn:G; [|discriminate]. apply add_width in E. apply get_width in G. lia.
  - destruct (get d p) as [x|]; [|discriminate]. destruct (doc_eqb x v); [|discriminate]. inversion E; subst. lia.
Qed.

(** the [copy] part of [fits] alone *)
Fixpoint copies_ok (d : node) (ops : list op) : Prop :=
  match ops with
  | [] => True
  | o :: r => copy_ok d o /\ match eval1 d o with Some e => copies_ok e r | None => True end
  end.
Definition no_copy (o : op) : Prop := match o with Copy _ _ => False | _ => True end.

Lemma copies_ok_no_copy : forall ops d, Forall no_copy ops -> copies_ok d ops.
Proof.
  induction ops as [|o r IH]; intros d H; cbn [copies_ok]; [exact I|]. inversion H; subst.
  split; [destruct o; try exact I; contradiction|]. destruct (eval1 d o); [apply IH; assumption | exact I].
Qed.

(** a static bound implies the size part of [fits] *)
Theorem fits_of_width : forall ops d, copies_ok d ops ->
  Z.of_nat (Nat.max (width d) (opsw ops) + length ops) <= SIZE_MAX -> fits d ops.
Proof.
  induction ops as [|o r IH]; intros d Hc Hb; cbn [fits copies_ok opsw length] in *; [exact I|].
  destruct Hc as [Hc1 Hc2]. split; [exact Hc1|]. destruct (eval1 d o) as [e|] eqn:E; [|exact I].
  pose proof (eval1_width _ _ _ E) as W. split.
  - apply small_of_width. lia.
  - apply IH; [exact Hc2 | lia].
Qed.

(** ---------- (3) depths: a static bound for the [copy] part of [fits] ---------- *)
Lemma depth_with_children c l : node_depth (with_children c l) = S (depth_list l).
Proof. destruct c. cbn [with_children]. apply node_depth_eq. Qed.
Lemma depth_children n : node_depth n = S (depth_list (n_children n)).
Proof. destruct n. apply node_depth_eq. Qed.
Lemma depth_with_key v t : node_depth (with_key v t) = node_depth v.
Proof. destruct v. cbn [with_key]. rewrite !node_depth_eq. reflexivity. Qed.

Lemma dl_app a b : depth_list (a ++ b) = Nat.max (depth_list a) (depth_list b).
Proof. induction a as [|c r IH]; cbn [app depth_list]; [reflexivity|]. rewrite IH. lia. Qed.
Lemma dl_firstn n l : (depth_list (firstn n l) <= depth_list l)%nat.
Proof. apply depth_list_le. intros x Hx. apply depth_list_in. eapply In_firstn; exact Hx. Qed.
Lemma dl_skipn n l : (depth_list (skipn n l) <= depth_list l)%nat.
Proof. apply depth_list_le. intros x Hx. apply depth_list_in. eapply In_skipn; exact Hx. Qed.
Lemma dl_upd j x l : (depth_list (upd_nth j x l) <= Nat.max (depth_list l) (node_depth x))%nat.
Proof. unfold upd_nth. rewrite dl_app. cbn [depth_list]. pose proof (dl_firstn j l). pose proof (dl_skipn (S j) l). lia. Qed.
Lemma dl_ins j x l : (depth_list (ins_nth j x l) <= Nat.max (depth_list l) (node_depth x))%nat.
Proof. unfold ins_nth. rewrite dl_app. cbn [depth_list]. pose proof (dl_firstn j l). pose proof (dl_skipn j l). lia. Qed.
Lemma dl_del j l : (depth_list (del_nth j l) <= depth_list l)%nat.
Proof. unfold del_nth. rewrite dl_app. pose proof (dl_firstn j l). pose proof (dl_skipn (S j) l). lia. Qed.

(* functions applied at a location: the depth grows by at most [w] *)
Definition deepens (w : nat) (f : node -> option node) : Prop := forall x x', f x = Some x' -> (node_depth x' <= node_depth x + w)%nat.

Lemma at_location_depth w f : deepens w f -> forall toks d e, at_location d toks f = Some e -> (node_depth e <= node_depth d + w)%nat.
Proof.
  intros Hf. induction toks as [|t ts IH]; intros d e E; cbn [at_location] in E; [apply Hf; exact E|].
  pose proof (depth_children d) as Dd.
  destruct (is_array d).
  - destruct (rfc_array_index t) as [i|]; [|discriminate]. destruct (nth_z (n_children d) i) as [c|] eqn:N; [|discriminate].
    destruct (at_location c ts f) as [c'|] eqn:A; [|discriminate]. inversion E; subst e.
    specialize (IH _ _ A). pose proof (depth_list_in _ _ (nth_z_in _ _ _ N)).
    rewrite depth_with_children. pose proof (dl_upd (Z.to_nat i) c' (n_children d)). lia.
  - destruct (is_object d); [|discriminate]. destruct (find_key (n_children d) t 0%nat) as [[j c]|] eqn:F; [|discriminate].
    destruct (at_location c ts f) as [c'|] eqn:A; [|discriminate]. inversion E; subst e.
    specialize (IH _ _ A). pose proof (depth_list_in _ _ (proj1 (find_key_in _ _ _ _ F))).
    rewrite depth_with_children. pose proof (dl_upd j c' (n_children d)). lia.
Qed.

Lemma add_member_deepens t v : deepens (node_depth v) (add_member t v).
Proof.
  intros c c' E. pose proof (depth_children c) as Dc. unfold add_member in E. destruct (is_array c).
  - destruct (bytes_eqb t [45]).
    { inversion E; subst. rewrite depth_with_children, dl_app. cbn [depth_list]. lia. }
    destruct (rfc_array_index t) as [i|]; [|discriminate]. destruct (i <=? Z.of_nat (length (n_children c))); [|discriminate].
    inversion E; subst. rewrite depth_with_children. pose proof (dl_ins (Z.to_nat i) v (n_children c)). lia.
  - destruct (is_object c); [|discriminate]. destruct (find_key (n_children c) t 0%nat) as [[j x]|] eqn:F.
    + inversion E; subst. rewrite depth_with_children. pose proof (dl_upd j (with_key v t) (n_children c)). rewrite depth_with_key in *. lia.
    + inversion E; subst. rewrite depth_with_children, dl_app. cbn [depth_list]. rewrite depth_with_key. lia.
Qed.
Lemma remove_member_deepens t : deepens 0 (remove_member t).
Proof.
  intros c c' E. pose proof (depth_children c) as Dc. unfold remove_member in E. destruct (is_array c).
  - destruct (rfc_array_index t) as [i|]; [|discriminate]. destruct (i <? Z.of_nat (length (n_children c))); [|discriminate].
    inversion E; subst. rewrite depth_with_children. pose proof (dl_del (Z.to_nat i) (n_children c)). lia.
  - destruct (is_object c); [|discriminate]. destruct (find_key (n_children c) t 0%nat) as [[j x]|]; [|discriminate].
    inversion E; subst. rewrite depth_with_children. pose proof (dl_del j (n_children c)). lia.
Qed.

Lemma add_depth d p v e : add d p v = Some e -> (node_depth e <= node_depth d + node_depth v)%nat.
Proof.
  unfold add. destruct (split_last p) as [[pp t]|]; [|intro E; inversion E; subst; lia].
  apply at_location_depth. apply add_member_deepens.
Qed.
Lemma remove_depth d p e : remove d p = Some e -> (node_depth e <= node_depth d)%nat.
Proof.
  unfold remove. destruct (split_last p) as [[pp t]|]; [|discriminate].
  intro E. pose proof (at_location_depth 0 _ (remove_member_deepens t) _ _ _ E). lia.
Qed.
Lemma get_depth d toks v : get d toks = Some v -> (node_depth v <= node_depth d)%nat.
Proof.
  rewrite get_resolve. destruct (rfc_resolve d toks) as [pp|]; [|discriminate]. apply subtree_depth.
Qed.

(* by how much an operation can deepen a document of depth D *)
Definition opd (D : nat) (o : op) : nat :=
  match o with Add _ v | Replace _ v => node_depth v | Move _ _ | Copy _ _ => D | _ => O end.
Fixpoint dbound (D : nat) (ops : list op) : nat :=
  match ops with [] => D | o :: r => dbound (D + opd D o) r end.

Lemma eval1_depth d o e : eval1 d o = Some e -> (node_depth e <= node_depth d + opd (node_depth d) o)%nat.
Proof.
  destruct o as [p v|p|p v|f p|f p|p v]; cbn [eval1 opd]; intro E.
  - apply add_depth in E. exact E.
  - apply remove_depth in E. lia.
  - unfold replace in E. destruct p as [|t ts]; [inversion E; subst; lia|].
    destruct (remove d (t :: ts)) as [d'|] eqn:R; [|discriminate]. apply remove_depth in R. apply add_depth in E. lia.
  - destruct (proper_prefix f p); [discriminate|]. destruct (get d f) as [v|] eqn:G; [|discriminate].
    destruct (remove d f) as [d'|] eqn:R; [|discriminate]. apply remove_depth in R. apply add_depth in E. apply get_depth in G. lia.
  - destruct (get d f) as [v|] eqn:G; [|discriminate]. apply add_depth in E. apply get_depth in G. lia.
  - destruct (get d p) as [x|]; [|discriminate]. destruct (doc_eqb x v); [|discriminate]. inversion E; subst. lia.
Qed.

Lemma opd_mono D D' o : (D <= D')%nat -> (opd D o <= opd D' o)%nat.
Proof. destruct o; cbn [opd]; lia. Qed.
Lemma dbound_mono : forall ops D D', (D <= D')%nat -> (dbound D ops <= dbound D' ops)%nat.
Proof. induction ops as [|o r IH]; intros D D' H; cbn [dbound]; [exact H|]. apply IH. pose proof (opd_mono D D' o H). lia. Qed.
Lemma dbound_ge : forall ops D, (D <= dbound D ops)%nat.
Proof. induction ops as [|o r IH]; intro D; cbn [dbound]; [lia|]. specialize (IH (D + opd D o)%nat). lia. Qed.

Theorem copies_ok_of_depth : forall ops d, Z.of_nat (dbound (node_depth d) ops) <= c_CJSON_CIRCULAR_LIMIT -> copies_ok d ops.
Proof.
  induction ops as [|o r IH]; intros d Hb; cbn [copies_ok dbound] in *; [exact I|].
  pose proof (dbound_ge r (node_depth d + opd (node_depth d) o)%nat) as G. split.
  - destruct o; cbn [copy_ok]; try exact I. intros v0 Gv. apply get_depth in Gv. unfold shallow. lia.
  - destruct (eval1 d o) as [e|] eqn:E; [|exact I]. apply IH. pose proof (eval1_depth _ _ _ E) as De.
    pose proof (dbound_mono r _ _ De). lia.
Qed.

(** ---------- the conformance theorem under static hypotheses only ---------- *)
Lemma op_good_of_static : forall ps ops, Forall2 (fun p o => op_of p = Some o) ps ops -> Forall op_cstr ps ->
  Forall op_values_ok ops -> ~ In (Remove []) ops -> Forall op_good ops.
Proof.
  induction 1 as [|p o ps ops H F IH]; intros Hc Hv Hn; [constructor|].
  inversion Hc; subst. inversion Hv; subst. constructor.
  - split; [assumption|]. split; [eapply op_toks_of_cstr; eassumption|]. intro E. apply Hn. left. exact E.
  - apply IH; try assumption. intro Hin. apply Hn. right. exact Hin.
Qed.

Theorem apply_patches_conform_static doc patches ops :
  dwf doc -> ops_of patches = Some ops ->
  Forall op_wf2 (n_children patches) -> Forall op_cstr (n_children patches) ->
  Forall op_values_ok ops -> ~ In (Remove []) ops ->
  Z.of_nat (Nat.max (width doc) (opsw ops) + length ops) <= SIZE_MAX ->
  Z.of_nat (dbound (node_depth doc) ops) <= c_CJSON_CIRCULAR_LIMIT ->
  exists st doc' patches', cJSONUtils_ApplyPatchesCaseSensitive doc patches = Ok (st, doc', patches') /\
    match eval doc ops with
    | Some d' => st = 0 /\ doc_same doc' d' /\ doc_eq doc' d' /\ dwf doc'
    | None => st <> 0
    end.
Proof.
  intros Hd Ho Hw Hc Hv Hn Hwd Hdp. destruct (ops_of_Forall2 _ _ Ho) as [_ F].
  apply apply_patches_conform; try assumption.
  - eapply op_good_of_static; eassumption.
  - apply fits_of_width; [apply copies_ok_of_depth; exact Hdp | exact Hwd].
Qed.

(** the static hypotheses hold on the five-operation example of PatchSeqAll.v *)
Definition op_cstrb (p : node) : bool :=
  forallb (fun m => if is_string m then match n_vstr m with Some s => kbb s | None => true end else true) (n_children p).
Lemma op_cstrb_sound p : op_cstrb p = true -> op_cstr p.
Proof.
  unfold op_cstrb, op_cstr. rewrite forallb_forall, Forall_forall. intros H m Hm Hs s Es. specialize (H m Hm).
  rewrite Hs, Es in H. apply kbb_sound. exact H.
Qed.

Lemma static_example :
  dwf y_doc /\ ops_of y_patch = Some y_ops /\
  Forall op_wf2 (n_children y_patch) /\ Forall op_cstr (n_children y_patch) /\
  Forall op_values_ok y_ops /\ ~ In (Remove []) y_ops /\
  Z.of_nat (Nat.max (width y_doc) (opsw y_ops) + length y_ops) <= SIZE_MAX /\
  Z.of_nat (dbound (node_depth y_doc) y_ops) <= c_CJSON_CIRCULAR_LIMIT /\
  exists d, eval y_doc y_ops = Some d.
Proof.
  destruct five_ops_example as (Hd & Ho & Hw & Hg & _ & (e & _ & _ & Ev & _)).
  split; [exact Hd|]. split; [exact Ho|]. split; [exact Hw|].
  split; [apply (forallb_Forall op_cstrb); [apply op_cstrb_sound | vm_compute; reflexivity]|].
  split; [eapply Forall_impl; [|exact Hg]; intros o H; apply H|].
  split; [intro H; cbn in H; repeat (destruct H as [H|H]; [discriminate H|]); exact H|].
  split; [vm_compute; discriminate|]. split; [vm_compute; discriminate|]. exists e. exact Ev.
Qed.
