"""C01 — Parsing arbitrary bytes is memory-safe, bounded and terminates."""
from .common import *
from . import parsegen as G

MODEL_FILES = 'ParseDefs.v (whole parser incl. entry points), LibcNum.v (reference strtod)'
RULE = ('grammar-directed valid RFC 8259 texts through all entry points (exact-length buffers flush against a PROT_NONE page in a read-only mapping, and '
        'zero-terminated ones whose terminator is the last accessible byte), EVERY prefix of such texts, single-byte edits, exhaustive token soups up to a '
        'length bound, all truncation shapes named in the property (backslash, bracket, comma, colon, number, \\u, \\uD83D, \\uD83D\\u, 1-3 BOM bytes at the end), '
        '62-66 character numbers, nesting 998-1002 and 10^5; non-trivial = distinct input with at least 2 bytes that reaches the value parser')
ASSUMPTIONS = ['C locale', 'hand-written transliteration validated by this differential run', 'strtod contract: consumes a non-empty prefix of its zero-terminated argument']

def corpus(ctx): return G.parse_corpus(ctx, 'C01', None)
def generate(ctx): return G.all_streams(ctx, 1)
def project(c, out):
    # the observables of THIS property: accepted or not, and the ledger (which tree, which error offset, how many requests: C02/C03/C10)
    tree, kv = G.fields(out)
    return ('NULL' if tree == 'NULL' else 'CRASH' if is_crash(out) else 'TREE') + ' live=' + kv.get('live', '?')

def verdict(c, out, ctx):
    if is_crash(out): return 'crash / out-of-bounds access / write to the input / timeout while parsing: ' + out
    tree, kv = G.fields(out)
    if 'DOUBLEFREE' in kv or 'FOREIGNFREE' in kv: return 'allocator misuse during parsing'
    if tree == 'NULL':
        if kv.get('live') != '0': return 'rejected input leaves %s block(s) allocated' % kv.get('live')
    else:
        if 'LINKS=BAD' in out or 'ROOTLINKS' in out: return 'returned tree cannot be walked (sibling links inconsistent)'
        if kv.get('printed') == 'NULL': return 'returned tree cannot be printed'
        if kv.get('live2') != '0': return 'deleting the returned tree leaves %s block(s)' % kv.get('live2')
    return None

def nontrivial(c, out): return len(c.info.get('content', b'')) >= 2 and not is_crash(out)
