(** GenPatchHeapEx.v — non-vacuity of GenPatchHeap*.v on a concrete heap, by computation.

    [gx_heap] encodes the forest [gx_F] = [from; to; arr]:
      from (root 1)  {"b":1,"a":[1,2,3],"s":"x","k/~":{"z":1}}                 nodes 1-9, string blocks 102-110
      to   (root 20) {"a":[1,5],"s":"y","k/~":{"z":2,"w":[true]},"n":null}      nodes 20-29, string blocks 121-129
      arr  (root 50) []                                                          an empty patches array
    allocator pointer 1000. *)
From CJ Require Import Base Dbl Heap Forest ForestLemmas CoreDefs CoreRefineBase CoreRefineAddObject CoreRefineFrame
  CoreRefineDupValue CoreRefineDupForest CoreRefineCreate CoreLedgerGen.
From CJ Require Import TierBridgeDefs TierBridgeEndToEndStr MergeHeapDefs MergeHeapInv MergeHeapProofs MergeHeapEx.
From CJ Require Import GenMergeHeapDefs GenMergeHeapForest GenMergeHeapEx PatchHeapDefs PatchHeapPointer PatchHeapSteps.
From CJ Require Import GenPatchHeapDefs GenPatchHeapBytes GenPatchHeapSteps GenPatchHeapCompose.
From CJ Require Tree CoreOps CompareDefs PointerDefs PatchDefs SortSpec.
From CJ.gen Require Import Constants.
From stdpp Require Import gmap.
From Coq Require Import Lia.
Local Open Scope Z_scope.

Definition gx_from : tree :=
  exh_mk 1 c_cJSON_Object None 0 None
   [exh_mk 2 c_cJSON_Number None 1 (Some 102%positive) [];
    exh_mk 3 c_cJSON_Array None 0 (Some 103%positive)
      [exh_mk 4 c_cJSON_Number None 1 None []; exh_mk 5 c_cJSON_Number None 2 None []; exh_mk 6 c_cJSON_Number None 3 None []];
    exh_mk 7 c_cJSON_String (Some 107%positive) 0 (Some 108%positive) [];
    exh_mk 8 c_cJSON_Object None 0 (Some 109%positive) [exh_mk 9 c_cJSON_Number None 1 (Some 110%positive) []]].
Definition gx_to : tree :=
  exh_mk 20 c_cJSON_Object None 0 None
   [exh_mk 21 c_cJSON_Array None 0 (Some 121%positive)
      [exh_mk 22 c_cJSON_Number None 1 None []; exh_mk 23 c_cJSON_Number None 5 None []];
    exh_mk 24 c_cJSON_String (Some 124%positive) 0 (Some 125%positive) [];
    exh_mk 25 c_cJSON_Object None 0 (Some 126%positive)
      [exh_mk 26 c_cJSON_Number None 2 (Some 127%positive) [];
       exh_mk 27 c_cJSON_Array None 0 (Some 128%positive) [exh_mk 28 c_cJSON_True None 0 None []]];
    exh_mk 29 c_cJSON_NULL None 0 (Some 129%positive) []].
Definition gx_arr : tree := exh_mk 50 c_cJSON_Array None 0 None [].
Definition gx_St : gmap positive bytes :=
  list_to_map [(102%positive, [98; 0]); (103%positive, [97; 0]); (107%positive, [120; 0]); (108%positive, [115; 0]);
               (109%positive, [107; 47; 126; 0]); (110%positive, [122; 0]);
               (121%positive, [97; 0]); (124%positive, [121; 0]); (125%positive, [115; 0]); (126%positive, [107; 47; 126; 0]);
               (127%positive, [122; 0]); (128%positive, [119; 0]); (129%positive, [110; 0])].
Definition gx_A : forest := [gx_from; gx_to].
Definition gx_F : forest := gx_A ++ [gx_arr].
Definition gx_heap : heap := heap_of_forest gx_F gx_St.

Lemma gx_MInv : MInv gx_heap gx_F.
Proof. apply heap_of_forest_MInv; vm_compute; reflexivity. Qed.
Lemma gx_NoLeak : NoLeak gx_heap gx_F.
Proof. apply heap_of_forest_NoLeak. Qed.

(** ** stage 1: the name "k/~" (block 109) encoded into a fresh block of exactly 6 bytes, at offset 0 *)
Definition gx_key : bytes := [107; 47; 126].
Definition gx_h1 : heap := alloc_str gx_heap (repeat junk 6).

Lemma gx_stage1_runs :
  out_val (pointer_encoded_length (CAt 109 0) gx_heap) = Some (PointerDefs.pointer_encoded_length gx_key) /\
  PointerDefs.pointer_encoded_length gx_key = 5%nat /\
  out_val ((encode_string_as_pointer (CAt 1000 0) (CAt 109 0) ;;; ld_str (Some 1000%positive)) gx_h1) =
    Some (PointerDefs.encode_string_as_pointer gx_key ++ [0]) /\
  PointerDefs.encode_string_as_pointer gx_key = [107; 126; 49; 126; 48] /\
  (* one byte less: the terminator does not fit *)
  out_err (encode_string_as_pointer (CAt 1000 0) (CAt 109 0) (alloc_str gx_heap (repeat junk 5))) = Some OutOfBounds /\
  (* at offset 1 of the 6-byte block: the same *)
  out_err (encode_string_as_pointer (CAt 1000 1) (CAt 109 0) gx_h1) = Some OutOfBounds.
Proof. split_and!; vm_compute; reflexivity. Qed.

Lemma gx_stage1_hypotheses :
  1000%positive ∈ h_live gx_h1 /\ h_own gx_h1 !! 1000%positive = Some Lib /\ h_str gx_h1 !! 1000%positive = Some (repeat junk 6) /\
  CsReads gx_h1 (CAt 109 0) gx_key /\ (forall o, CAt 109 0 <> CAt 1000 o) /\
  (0 + length (PointerDefs.encode_string_as_pointer gx_key) + 1 <= length (repeat junk 6))%nat.
Proof.
  split; [vm_compute; set_solver|]. split; [vm_compute; reflexivity|]. split; [vm_compute; reflexivity|].
  split.
  { split; [vm_compute; set_solver|]. exists [107; 47; 126; 0]. split; [vm_compute; reflexivity|]. split; vm_compute; reflexivity. }
  split; [done|]. vm_compute. lia.
Qed.

(** ** stage 2: compose_patch(arr, "add", "/a", "k/~", node 25) *)
Definition gx_compose_run : out (unit * heap) :=
  compose_patch nofail (Some 50%positive) (CLit PatchDefs.s_add) (CLit [47; 97]) (CAt 109 0) (Some 25%positive) gx_heap.
Definition gx_compose_after : heap := out_heap gx_compose_run gx_heap.
Definition gx_t25 : tree :=
  exh_mk 25 c_cJSON_Object None 0 (Some 126%positive)
    [exh_mk 26 c_cJSON_Number None 2 (Some 127%positive) [];
     exh_mk 27 c_cJSON_Array None 0 (Some 128%positive) [exh_mk 28 c_cJSON_True None 0 None []]].

Lemma gx_stage2_runs :
  out_val gx_compose_run = Some tt /\
  out_val (CoreOps.dump_node 50 (Some 50%positive) gx_compose_after) =
    Some (Some (PatchDefs.set_children PatchDefs.create_array
                  (PatchDefs.compose_patch [] PatchDefs.s_add [47; 97] (Some gx_key) (Some (reify gx_St gx_t25))), true)) /\
  (* the ledger: the forest and the 14 blocks of the new element (object; "op" and "path": node, text, name; "value": four nodes,
     two names, the new name); the full_path block 1004 and the name copy the duplicate brought along are gone *)
  length (elements (lib_live gx_compose_after ∖ lib_live gx_heap)) = 14%nat /\
  elements (lib_live gx_heap ∖ lib_live gx_compose_after) = [] /\
  forallb (fun b => bool_decide (b ∉ h_live gx_compose_after)) [1004]%positive = true.
Proof. split_and!; vm_compute; reflexivity. Qed.
