(** Properties_C04_Reals.v — property C04: the three statements whose proofs use Flocq and
    therefore depend on the standard axioms of Coq's Reals library (ClassicalDedekindReals,
    functional extensionality, excluded middle — all named in DESIGN.md section 8).  Same format
    as Properties_C04.v; kept apart from it so that every theorem of Properties_C04.v is closed
    under the global context. *)
From CJ Require Import Base Dbl Tree LibcNum PrintDefs RoundTripNum RoundTripRefValid RoundTripZero.
Local Open Scope Z_scope.

(** clause V holds for the reference strtod: whatever it returns is a well-formed double.
    (Flocq 4.1's theorems about SpecFloat's rounding and division.) *)
Theorem C04_ref_valid : forall t d k, strtod_ref t = Some (d, k) -> dbl_ok d.
Proof. exact ref_valid. Qed.
Print Assumptions C04_ref_valid.

(** compare_double never equates a zero with a nonzero well-formed double (the tolerance
    |d| * DBL_EPSILON, rounded, stays below |d| down to the smallest subnormal).  Hence clause N4z
    holds for every C library, and [LibcRoundTripSpec] follows from its seven clauses that speak
    about the C library alone.  (Flocq's error bound for rounding to nearest.  The theorems of
    Properties_C04.v keep N4z as a hypothesis so that they stay closed.) *)
Theorem C04_compare_double_zero : forall t d,
  is_finite d = true -> dbl_ok d -> is_zero t = true -> compare_double t d = true -> is_zero d = true.
Proof. exact compare_double_zero_l. Qed.
Print Assumptions C04_compare_double_zero.

Theorem C04_contract_from_libc_clauses : forall strtod fmt_d fmt_g15 fmt_g17 sscanf_lg,
  (forall t d, sscanf_lg t = Some d <-> exists k, strtod t = Some (d, k)) ->
  (forall t d k, strtod t = Some (d, k) -> dbl_ok d) ->
  (forall z, int_range z = true -> exists k, strtod (fmt_d z) = Some (dbl_of_int z, k)) ->
  (forall d, is_finite d = true -> dbl_ok d -> exists k, strtod (fmt_g17 d) = Some (d, k)) ->
  (forall d t k, is_finite d = true -> dbl_ok d ->
      strtod (fmt_g15 d) = Some (t, k) -> is_finite t = true -> fmt_g15 t = fmt_g15 d) ->
  (forall z, int_range z = true -> fmt_g15 (dbl_of_int z) = fmt_d z) ->
  (forall z, Z.abs z < 10 ^ 15 -> exists k, strtod (fmt_g15 (dbl_of_int z)) = Some (dbl_of_int z, k)) ->
  LibcRoundTripSpec strtod fmt_d fmt_g15 fmt_g17 sscanf_lg.
Proof. exact roundtrip_spec_intro. Qed.
Print Assumptions C04_contract_from_libc_clauses.

