(** MergeSort.v — the value-level sort_list of MergeDefs.v: the result is a permutation (both case modes,
    any member list), the supplied fuel suffices, and in the case-sensitive mode on named members the result is
    sorted by strcmp (strictly, when the names are pairwise distinct).  Also the order facts about strcmp. *)
From Coq Require Import Permutation Sorted.
From CJ Require Import Base Dbl Tree CompareDefs CompareProofs MergeDefs Rfc7396 MergeLemmas.
Local Open Scope Z_scope.

(** * strcmp as a strict total order on C strings *)
Lemma strcmp_refl a : strcmp a a = 0.
Proof. induction a as [|x a IH]; cbn [strcmp]; [reflexivity|]. rewrite Z.eqb_refl. exact IH. Qed.

Lemma strcmp_antisym a : forall b, nonzero_bytes a -> nonzero_bytes b ->
  (strcmp a b < 0 <-> 0 < strcmp b a) /\ (strcmp a b = 0 <-> strcmp b a = 0).
Proof.
  induction a as [|x a IH]; intros [|y b] Ha Hb; cbn [strcmp].
  - lia.
  - inversion Hb; subst. lia.
  - inversion Ha; subst. lia.
  - inversion Ha as [|? ? Hx Ha']; subst. inversion Hb as [|? ? Hy Hb']; subst.
    rewrite (Z.eqb_sym y x). destruct (Z.eqb_spec x y) as [->|N]; [apply IH; assumption|lia].
Qed.

Lemma strcmp_trans a : forall b c, nonzero_bytes a -> nonzero_bytes b -> nonzero_bytes c ->
  strcmp a b <= 0 -> strcmp b c <= 0 ->
  strcmp a c <= 0 /\ (strcmp a b < 0 \/ strcmp b c < 0 -> strcmp a c < 0).
Proof.
  induction a as [|x a IH]; intros [|y b] [|z c] Ha Hb Hc; cbn [strcmp];
    try (inversion Ha as [|? ? Hx Ha']; subst); try (inversion Hb as [|? ? Hy Hb']; subst); try (inversion Hc as [|? ? Hz Hc']; subst);
    try lia.
  destruct (Z.eqb_spec x y) as [E1|N1]; destruct (Z.eqb_spec y z) as [E2|N2]; destruct (Z.eqb_spec x z) as [E3|N3]; try lia.
  apply IH; assumption.
Qed.

(** * order on named members (case-sensitive) *)
Definition key_lt (x y : node) : Prop := mp_compare_strings (n_key x) (n_key y) true < 0.
Definition key_le (x y : node) : Prop := mp_compare_strings (n_key x) (n_key y) true <= 0.

(** * merging two runs *)
Lemma merge_runs_nil_r cs a : mp_merge_runs cs a [] = a.
Proof. destruct a; reflexivity. Qed.

Lemma merge_runs_cons cs x a y b : mp_merge_runs cs (x :: a) (y :: b) =
  if mp_compare_strings (n_key x) (n_key y) cs <=? 0 then x :: mp_merge_runs cs a (y :: b)
  else y :: mp_merge_runs cs (x :: a) b.
Proof. reflexivity. Qed.

Lemma merge_runs_perm cs : forall a b, Permutation (a ++ b) (mp_merge_runs cs a b).
Proof.
  induction a as [|x a IHa]; intro b; [reflexivity|].
  induction b as [|y b IHb].
  - rewrite merge_runs_nil_r, app_nil_r. reflexivity.
  - rewrite merge_runs_cons. destruct (mp_compare_strings (n_key x) (n_key y) cs <=? 0).
    + cbn [app]. constructor. apply IHa.
    + etransitivity; [|constructor; exact IHb]. cbn [app]. symmetry. apply Permutation_middle with (l1 := x :: a).
Qed.

(** * sort_list: permutation and fuel *)
Lemma div2_le n : (Nat.div2 n <= n)%nat.
Proof. apply Nat.div2_decr. lia. Qed.
Lemma div2_S_lt n : (2 <= n)%nat -> (Nat.div2 (S n) < n)%nat.
Proof.
  intro H. destruct n as [|[|m]]; try lia. change (Nat.div2 (S (S (S m)))) with (S (Nat.div2 (S m))).
  pose proof (Nat.div2_decr (S m) m (Nat.le_refl _)). lia.
Qed.
Lemma div2_S_pos n : (1 <= n)%nat -> (0 < Nat.div2 (S n))%nat.
Proof. intro H. destruct n as [|m]; [lia|]. cbn [Nat.div2]. lia. Qed.

Lemma sort_list_perm cs : forall fuel l l', mp_sort_list fuel cs l = Ok l' -> Permutation l l'.
Proof.
  induction fuel as [|f IH]; intros l l' H; [discriminate|].
  cbn [mp_sort_list] in H. destruct l as [|x [|y r]]; try (injection H as <-; reflexivity).
  destruct (mp_strictly_sorted cs (x :: y :: r)); [injection H as <-; reflexivity|].
  set (h := Nat.div2 (S (length (x :: y :: r)))) in *.
  destruct (mp_sort_list f cs (firstn h (x :: y :: r))) as [s1| |] eqn:E1; cbn [bind] in H; try discriminate.
  destruct (mp_sort_list f cs (skipn h (x :: y :: r))) as [s2| |] eqn:E2; cbn [bind] in H; try discriminate.
  injection H as <-. apply IH in E1. apply IH in E2.
  rewrite <- (firstn_skipn h (x :: y :: r)) at 1.
  etransitivity; [apply Permutation_app; eassumption|]. apply merge_runs_perm.
Qed.

Lemma sort_list_total cs : forall fuel l, (length l < fuel)%nat -> exists l', mp_sort_list fuel cs l = Ok l'.
Proof.
  induction fuel as [|f IH]; intros l Hl; [lia|].
  cbn [mp_sort_list]. destruct l as [|x [|y r]]; try (eexists; reflexivity).
  destruct (mp_strictly_sorted cs (x :: y :: r)); [eexists; reflexivity|].
  set (l := x :: y :: r) in *. set (h := Nat.div2 (S (length l))).
  assert (Hlen : (2 <= length l)%nat) by (subst l; cbn [length]; lia).
  pose proof (div2_S_lt (length l) Hlen) as Hh. pose proof (div2_S_pos (length l)) as Hh0.
  destruct (IH (firstn h l)) as [s1 E1]. { rewrite firstn_length. subst h. lia. }
  destruct (IH (skipn h l)) as [s2 E2]. { rewrite skipn_length. subst h. lia. }
  rewrite E1, E2. cbn [bind]. eexists; reflexivity.
Qed.

Lemma sort_members_total cs l : exists l', mp_sort_members cs l = Ok l'.
Proof. apply sort_list_total. lia. Qed.
Lemma sort_members_perm cs l l' : mp_sort_members cs l = Ok l' -> Permutation l l'.
Proof. apply sort_list_perm. Qed.

(** * sortedness (case-sensitive, named members) *)
Lemma key_le_intro x y kx ky : n_key x = Some kx -> n_key y = Some ky -> (key_le x y <-> strcmp kx ky <= 0).
Proof. intros Hx Hy. unfold key_le, mp_compare_strings. rewrite Hx, Hy. tauto. Qed.
Lemma key_lt_intro x y kx ky : n_key x = Some kx -> n_key y = Some ky -> (key_lt x y <-> strcmp kx ky < 0).
Proof. intros Hx Hy. unfold key_lt, mp_compare_strings. rewrite Hx, Hy. tauto. Qed.

Lemma key_le_trans x y z : has_key x -> has_key y -> has_key z -> key_le x y -> key_le y z -> key_le x z.
Proof.
  intros [kx [Hx Zx]] [ky [Hy Zy]] [kz [Hz Zz]] H1 H2.
  rewrite (key_le_intro _ _ _ _ Hx Hy) in H1. rewrite (key_le_intro _ _ _ _ Hy Hz) in H2. rewrite (key_le_intro _ _ _ _ Hx Hz).
  apply (strcmp_trans kx ky kz); assumption.
Qed.
Lemma key_le_total x y : has_key x -> has_key y -> ~ key_le x y -> key_le y x.
Proof.
  intros [kx [Hx Zx]] [ky [Hy Zy]] H. rewrite (key_le_intro _ _ _ _ Hx Hy) in H. rewrite (key_le_intro _ _ _ _ Hy Hx).
  destruct (strcmp_antisym ky kx Zy Zx) as [A _]. lia.
Qed.

Lemma merge_runs_sorted : forall a b, Forall has_key a -> Forall has_key b ->
  StronglySorted key_le a -> StronglySorted key_le b -> StronglySorted key_le (mp_merge_runs true a b).
Proof.
  induction a as [|x a IHa]; intros b Ka Kb Sa Sb; [exact Sb|].
  induction b as [|y b IHb]; [rewrite merge_runs_nil_r; exact Sa|].
  rewrite merge_runs_cons.
  inversion Ka as [|? ? Kx Ka']; subst. inversion Kb as [|? ? Ky Kb']; subst.
  inversion Sa as [|? ? Sa' Hxa]; subst. inversion Sb as [|? ? Sb' Hyb]; subst.
  destruct (Z.leb_spec (mp_compare_strings (n_key x) (n_key y) true) 0) as [L|L].
  - constructor; [apply IHa; assumption|].
    apply Forall_forall. intros c Hc. apply (Permutation_in _ (Permutation_sym (merge_runs_perm true a (y :: b)))) in Hc.
    apply in_app_iff in Hc. destruct Hc as [Hc|[<-|Hc]].
    + rewrite Forall_forall in Hxa. auto.
    + exact L.
    + rewrite Forall_forall in Hyb, Kb'. apply (key_le_trans x y c); auto.
  - assert (Lyx : key_le y x) by (apply key_le_total; [assumption|assumption|unfold key_le; lia]).
    constructor; [apply IHb; assumption|].
    apply Forall_forall. intros c Hc. apply (Permutation_in _ (Permutation_sym (merge_runs_perm true (x :: a) b))) in Hc.
    apply in_app_iff in Hc. destruct Hc as [[<-|Hc]|Hc].
    + exact Lyx.
    + rewrite Forall_forall in Hxa, Ka'. apply (key_le_trans y x c); auto.
    + rewrite Forall_forall in Hyb. auto.
Qed.

Lemma strictly_sorted_sorted : forall l, Forall has_key l -> mp_strictly_sorted true l = true -> StronglySorted key_le l.
Proof.
  induction l as [|x l IH]; intros K H; [constructor|].
  inversion K as [|? ? Kx K']; subst. destruct l as [|y r]; [constructor; constructor|].
  cbn [mp_strictly_sorted] in H. destruct (Z.ltb_spec (mp_compare_strings (n_key x) (n_key y) true) 0) as [L|L]; [|discriminate].
  specialize (IH K' H). constructor; [exact IH|].
  inversion IH as [|? ? _ Hy]; subst. inversion K' as [|? ? Ky K'']; subst. constructor.
  - unfold key_le. lia.
  - apply Forall_forall. intros c Hc. rewrite Forall_forall in Hy, K''. apply (key_le_trans x y c); auto. unfold key_le. lia.
Qed.

Lemma Forall_perm {A} (P : A -> Prop) l l' : Permutation l l' -> Forall P l -> Forall P l'.
Proof. intros Hp H. rewrite Forall_forall in *. intros x Hx. apply H. apply (Permutation_in _ (Permutation_sym Hp)). exact Hx. Qed.

Lemma in_firstn {A} n (l : list A) x : In x (firstn n l) -> In x l.
Proof. intro H. rewrite <- (firstn_skipn n l). apply in_or_app. left. exact H. Qed.
Lemma in_skipn {A} n (l : list A) x : In x (skipn n l) -> In x l.
Proof. intro H. rewrite <- (firstn_skipn n l). apply in_or_app. right. exact H. Qed.

Lemma sort_list_sorted : forall fuel l l', Forall has_key l -> mp_sort_list fuel true l = Ok l' -> StronglySorted key_le l'.
Proof.
  induction fuel as [|f IH]; intros l l' K H; [discriminate|].
  cbn [mp_sort_list] in H. destruct l as [|x [|y r]].
  - injection H as <-. constructor.
  - injection H as <-. constructor; constructor.
  - destruct (mp_strictly_sorted true (x :: y :: r)) eqn:ES; [injection H as <-; apply strictly_sorted_sorted; assumption|].
    set (h := Nat.div2 (S (length (x :: y :: r)))) in *.
    destruct (mp_sort_list f true (firstn h (x :: y :: r))) as [s1| |] eqn:E1; cbn [bind] in H; try discriminate.
    destruct (mp_sort_list f true (skipn h (x :: y :: r))) as [s2| |] eqn:E2; cbn [bind] in H; try discriminate.
    injection H as <-.
    assert (K1 : Forall has_key (firstn h (x :: y :: r))) by (apply Forall_forall; intros c Hc; apply in_firstn in Hc; rewrite Forall_forall in K; auto).
    assert (K2 : Forall has_key (skipn h (x :: y :: r))) by (apply Forall_forall; intros c Hc; apply in_skipn in Hc; rewrite Forall_forall in K; auto).
    apply merge_runs_sorted.
    + apply (Forall_perm _ _ _ (sort_list_perm _ _ _ _ E1)). exact K1.
    + apply (Forall_perm _ _ _ (sort_list_perm _ _ _ _ E2)). exact K2.
    + apply (IH _ _ K1 E1).
    + apply (IH _ _ K2 E2).
Qed.

(* with pairwise distinct names the order is strict *)
Lemma sorted_strict : forall l, Forall has_key l -> NoDup (map n_key l) -> StronglySorted key_le l -> StronglySorted key_lt l.
Proof.
  induction l as [|x l IH]; intros K Hnd S; [constructor|].
  inversion K as [|? ? Kx K']; subst. inversion Hnd as [|? ? Hx Hnd']; subst. inversion S as [|? ? S' Hle]; subst.
  constructor; [apply IH; assumption|].
  apply Forall_forall. intros c Hc. rewrite Forall_forall in Hle, K'. specialize (Hle c Hc). specialize (K' c Hc).
  destruct Kx as [kx [Ekx Zx]]. destruct K' as [kc [Ekc Zc]].
  rewrite (key_le_intro _ _ _ _ Ekx Ekc) in Hle. rewrite (key_lt_intro _ _ _ _ Ekx Ekc).
  destruct (Z.eq_dec (strcmp kx kc) 0) as [E|N]; [|lia].
  apply strcmp_zero_iff in E; [|assumption|assumption]. subst kc. exfalso. apply Hx. rewrite Ekx, <- Ekc. apply in_map. exact Hc.
Qed.

Lemma keys_ok_perm l l' : Permutation l l' -> keys_ok l -> keys_ok l'.
Proof.
  intros Hp [K Hnd]. split; [apply (Forall_perm _ _ _ Hp K)|].
  apply (Permutation_NoDup (Permutation_map n_key Hp)). exact Hnd.
Qed.

Lemma sort_members_strict l l' : keys_ok l -> mp_sort_members true l = Ok l' -> StronglySorted key_lt l' /\ keys_ok l' /\ Permutation l l'.
Proof.
  intros Hok H. pose proof (sort_members_perm _ _ _ H) as Hp. pose proof (keys_ok_perm _ _ Hp Hok) as Hok'.
  split; [|split; assumption]. destruct Hok' as [K' Hnd']. apply sorted_strict; try assumption.
  destruct Hok as [K _]. apply (sort_list_sorted _ _ _ K H).
Qed.
