(** CoreRefineMore.v — the remaining cases of the calls simulated in CoreRefine.v /
    CoreRefineReplace.v: refused calls (NULL arguments, self-insertion, index out of range, item
    that is not a child) return the failure value and leave the heap UNCHANGED; the by-index
    wrappers [cJSON_DetachItemFromArray], [cJSON_DeleteItemFromArray], [cJSON_ReplaceItemInArray]. *)
From CJ Require Import Base Dbl Heap Forest ForestLemmas CoreSpec CoreDefs CoreRefineBase CoreRefine
  CoreRefineDelete CoreRefineReplace.
From stdpp Require Import gmap.
Implicit Types (h : heap) (F : forest) (p x y r : positive) (d : rdata).
Local Open Scope Z_scope.

(** * refused calls leave the state unchanged; by-index wrappers *)

Lemma WF_live_dat h F p d cs :
  WF h F -> find_tree p F = Some (T p d cs) -> p ∈ h_live h /\ h_dat h !! p = Some (mk_dat d (tid <$> cs)).
Proof.
  intros W Hp. pose proof (find_tree_flat _ _ _ _ Hp) as Hn. split.
  - apply (WF_ids_live _ _ _ W). rewrite ids_flat. apply elem_of_list_fmap. by exists (p, d, tid <$> cs).
  - by eapply WF_lookup_dat.
Qed.

(** ** add_item_to_array / cJSON_AddItemToArray *)
Lemma add_item_to_array_refused F array item h :
  array = None \/ item = None \/ array = item ->
  spec_add_to_array F array item = (F, false) /\ add_item_to_array array item h = Ret (false, h).
Proof.
  intros H. unfold spec_add_to_array, add_item_to_array.
  destruct array as [p|], item as [x|]; cbn; try done.
  destruct H as [H|[H|H]]; try done. injection H as ->. rewrite decide_True by done. by rewrite Pos.eqb_refl.
Qed.

Lemma cJSON_AddItemToArray_sim h F p x tx d cs :
  WF h F -> p <> x -> find_root x F = Some tx ->
  find_tree p (remove_root x F) = Some (T p d cs) -> is_ref d = false ->
  let F' := set_children p (cs ++ [tx]) (remove_root x F) in
  spec_add_to_array F (Some p) (Some x) = (F', true) /\
  cJSON_AddItemToArray (Some p) (Some x) h = Ret (true, upd_maps h (heap_lnk_of F') (heap_dat_of F')) /\
  WF (upd_maps h (heap_lnk_of F') (heap_dat_of F')) F'.
Proof. apply add_item_to_array_sim. Qed.

(** ** cJSON_DetachItemViaPointer *)
Lemma cJSON_DetachItemViaPointer_null F parent item h :
  parent = None \/ item = None ->
  spec_detach F parent item = (F, None) /\ cJSON_DetachItemViaPointer parent item h = Ret (None, h).
Proof.
  intros H. unfold spec_detach, cJSON_DetachItemViaPointer.
  destruct parent as [p|], item as [x|]; cbn; try done. by destruct H.
Qed.

Lemma index_of_None (l : list positive) x : x ∉ l -> index_of x l = None.
Proof.
  induction l as [|a l IH]; intros H; [done|]. apply not_elem_of_cons in H as [H1 H2]. cbn.
  rewrite decide_False by done. by rewrite IH.
Qed.

(** a detached item is not a child of anything: refused *)
Lemma cJSON_DetachItemViaPointer_refused h F p x d cs :
  WF h F -> find_tree p F = Some (T p d cs) -> is_ref d = false -> x ∈ roots F ->
  spec_detach F (Some p) (Some x) = (F, None) /\
  cJSON_DetachItemViaPointer (Some p) (Some x) h = Ret (None, h).
Proof.
  intros W Hp Href Hx. pose proof (wf_nodup _ _ W) as ND.
  pose proof (find_tree_flat _ _ _ _ Hp) as Hn. destruct (WF_live_dat _ _ _ _ _ W Hp) as [Hlp Hdp].
  assert (Hxks : x ∉ tid <$> cs).
  { apply elem_of_Permutation in Hn as [FL HFL].
    destruct (heap_lnk_of_focus _ _ _ _ _ _ ND (reflexivity _) HFL) as [_ HN]. apply NoDup_app in HN as (_ & HN & _).
    intros Hin. apply (HN _ Hin). unfold lnk_keys. apply elem_of_app. by left. }
  split.
  - unfold spec_detach, children_of. rewrite Hp. cbn. by rewrite index_of_None.
  - unfold cJSON_DetachItemViaPointer. cbn [is_null orb].
    rewrite (bindM_Ret _ _ _ _ _ (run_get_child_plain _ _ _ Hlp Hdp)).
    change (nd_child (mk_dat d (tid <$> cs))) with (child_of d (tid <$> cs)).
    rewrite (ref_ok_child_of _ _ _ _ (wf_ref _ _ W) Hn Href).
    assert (ptr_eqb (Some x) ((tid <$> cs) !! 0%nat) = false) as ->.
    { destruct ((tid <$> cs) !! 0%nat) as [c0|] eqn:E; [|done]. apply ptr_eqb_Some_ne. intros ->.
      apply Hxks. by eapply elem_of_list_lookup_2. }
    cbn [negb]. rewrite bindM_assoc.
    rewrite (bindM_Ret _ _ _ _ _ (run_get_prev_plain _ _ (None, None) (WF_ids_live _ _ _ W (roots_subseteq_ids _ _ Hx))
                                    (WF_lookup_lnk_root _ _ _ W Hx))).
    reflexivity.
Qed.

(** ** cJSON_InsertItemInArray *)
Lemma cJSON_InsertItemInArray_refused F array which newitem h :
  which < 0 \/ newitem = None \/ array = newitem ->
  spec_insert F array which newitem = (F, false) /\
  cJSON_InsertItemInArray array which newitem h = Ret (false, h).
Proof.
  intros H. unfold spec_insert, cJSON_InsertItemInArray.
  destruct newitem as [x|]; [|by destruct (which <? 0)].
  destruct (Z.ltb_spec which 0); [done|]. destruct H as [H|[H|H]]; [lia|done|]. subst array. cbn.
  rewrite bool_decide_eq_true_2 by done. by rewrite Pos.eqb_refl.
Qed.

(** ** cJSON_ReplaceItemViaPointer *)
Lemma cJSON_ReplaceItemViaPointer_null F item replacement h :
  spec_replace F None item replacement = (F, false) /\
  cJSON_ReplaceItemViaPointer None item replacement h = Ret (false, h).
Proof. done. Qed.

Lemma cJSON_ReplaceItemViaPointer_refused h F p d cs item replacement :
  WF h F -> find_tree p F = Some (T p d cs) -> is_ref d = false ->
  cs = [] \/ item = None \/ replacement = None ->
  spec_replace F (Some p) item replacement = (F, false) /\
  cJSON_ReplaceItemViaPointer (Some p) item replacement h = Ret (false, h).
Proof.
  intros W Hp Href H. pose proof (find_tree_flat _ _ _ _ Hp) as Hn. destruct (WF_live_dat _ _ _ _ _ W Hp) as [Hlp Hdp].
  split.
  - unfold spec_replace, children_of. destruct item as [y|], replacement as [r|]; try done.
    rewrite Hp. cbn. destruct H as [->|[H|H]]; done.
  - unfold cJSON_ReplaceItemViaPointer. cbn [is_null].
    rewrite (bindM_Ret _ _ _ _ _ (run_get_child_plain _ _ _ Hlp Hdp)).
    change (nd_child (mk_dat d (tid <$> cs))) with (child_of d (tid <$> cs)).
    rewrite (ref_ok_child_of _ _ _ _ (wf_ref _ _ W) Hn Href).
    destruct H as [H|[H|H]]; subst; [done| |].
    + by rewrite !orb_true_r.
    + by rewrite orb_true_r.
Qed.

Lemma cJSON_ReplaceItemViaPointer_same h F p d cs y :
  WF h F -> find_tree p F = Some (T p d cs) -> is_ref d = false -> cs <> [] ->
  spec_replace F (Some p) (Some y) (Some y) = (F, true) /\
  cJSON_ReplaceItemViaPointer (Some p) (Some y) (Some y) h = Ret (true, h).
Proof.
  intros W Hp Href Hcs. pose proof (find_tree_flat _ _ _ _ Hp) as Hn. destruct (WF_live_dat _ _ _ _ _ W Hp) as [Hlp Hdp].
  split.
  - unfold spec_replace, children_of. rewrite Hp. cbn. destruct cs; [done|]. by rewrite decide_True.
  - unfold cJSON_ReplaceItemViaPointer. cbn [is_null].
    rewrite (bindM_Ret _ _ _ _ _ (run_get_child_plain _ _ _ Hlp Hdp)).
    change (nd_child (mk_dat d (tid <$> cs))) with (child_of d (tid <$> cs)).
    rewrite (ref_ok_child_of _ _ _ _ (wf_ref _ _ W) Hn Href).
    destruct cs as [|c cs']; [done|]. cbn. by rewrite Pos.eqb_refl.
Qed.

(** ** by-index wrappers *)
Lemma cJSON_DetachItemFromArray_sim h F p d cs which tx :
  WF h F -> find_tree p F = Some (T p d cs) -> is_ref d = false ->
  0 <= which -> cs !! Z.to_nat which = Some tx ->
  let F' := set_children p (delete (Z.to_nat which) cs) F ++ [tx] in
  spec_detach_index F (Some p) which = (F', Some (tid tx)) /\
  cJSON_DetachItemFromArray (Some p) which h = Ret (Some (tid tx), upd_maps h (heap_lnk_of F') (heap_dat_of F')) /\
  WF (upd_maps h (heap_lnk_of F') (heap_dat_of F')) F'.
Proof.
  intros W Hp Href Hw Hk F'.
  destruct (cJSON_DetachItemViaPointer_sim h F p (tid tx) d cs (Z.to_nat which) tx W Hp Hk eq_refl) as (S1 & S2 & S3).
  assert (Hidx : spec_get_index F (Some p) which = Some (tid tx)).
  { unfold spec_get_index, children_of. rewrite Hp. cbn. by rewrite list_lookup_fmap, Hk. }
  split; [|split; [|exact S3]].
  - unfold spec_detach_index. destruct (Z.ltb_spec which 0); [lia|]. by rewrite Hidx.
  - unfold cJSON_DetachItemFromArray. destruct (Z.ltb_spec which 0); [lia|].
    rewrite (bindM_Ret _ _ _ _ _ (get_array_item_sim h F p d cs which W Hp Href Hw)). by rewrite Hidx.
Qed.

Lemma cJSON_DetachItemFromArray_refused h F p d cs which :
  WF h F -> find_tree p F = Some (T p d cs) -> is_ref d = false ->
  which < 0 \/ (length cs <= Z.to_nat which)%nat ->
  spec_detach_index F (Some p) which = (F, None) /\
  cJSON_DetachItemFromArray (Some p) which h = Ret (None, h).
Proof.
  intros W Hp Href H. unfold spec_detach_index, cJSON_DetachItemFromArray.
  destruct (Z.ltb_spec which 0); [done|]. destruct H as [H|H]; [lia|].
  assert (Hidx : spec_get_index F (Some p) which = None).
  { unfold spec_get_index, children_of. rewrite Hp. cbn. apply lookup_ge_None. by rewrite fmap_length. }
  rewrite (bindM_Ret _ _ _ _ _ (get_array_item_sim h F p d cs which W Hp Href ltac:(lia))). by rewrite Hidx.
Qed.

Lemma owned_detach F p d cs (k : nat) tx :
  NoDup (ids F) -> find_tree p F = Some (T p d cs) -> cs !! k = Some tx ->
  owned (set_children p (delete k cs) F ++ [tx]) ≡ₚ owned F.
Proof.
  intros ND Hp Hk. destruct (focus_container _ _ _ _ ND Hp) as (FL0 & E1 & E2).
  unfold owned. rewrite flat_app, flat_singleton, E2, E1.
  rewrite !owned_fl_app, !owned_fl_cons, !owned_fl_app.
  change (owned_fn (p, d, tid <$> delete k cs)) with (owned_fn (p, d, tid <$> cs)).
  assert (Hcs : owned_fl (flat cs) ≡ₚ owned_fl (flat_t tx) ++ owned_fl (flat (delete k cs))).
  { rewrite <- owned_fl_app, <- flat_cons. apply owned_fl_proper, flat_proper. by apply delete_Permutation. }
  rewrite Hcs.
  rewrite <- !app_assoc. apply Permutation_app_head.
  rewrite (Permutation_app_comm (owned_fl (flat_t tx))). by rewrite <- !app_assoc.
Qed.

Lemma cJSON_DeleteItemFromArray_sim h F p d cs which tx :
  WF h F -> find_tree p F = Some (T p d cs) -> is_ref d = false ->
  0 <= which -> cs !! Z.to_nat which = Some tx ->
  let F1 := set_children p (delete (Z.to_nat which) cs) F ++ [tx] in
  let F' := set_children p (delete (Z.to_nat which) cs) F in
  let h' := free_all (free_order [tx]) (upd_maps h (heap_lnk_of F1) (heap_dat_of F1)) in
  spec_delete_index F (Some p) which = F' /\
  cJSON_DeleteItemFromArray (Some p) which h = Ret (tt, h') /\
  WF h' F' /\ (NoLeak h F -> NoLeak h' F').
Proof.
  intros W Hp Href Hw Hk F1 F' h'.
  destruct (cJSON_DetachItemFromArray_sim h F p d cs which tx W Hp Href Hw Hk) as (S1 & S2 & S3).
  fold F1 in S1, S2, S3.
  assert (Hynot : tid tx ∉ roots F').
  { pose proof (wf_nodup _ _ S3) as ND1. apply NoDup_roots in ND1. unfold F1 in ND1. fold F' in ND1.
    rewrite roots_app in ND1. apply NoDup_app in ND1 as (_ & H & _). intros Hin. apply (H _ Hin). cbn. by left. }
  assert (Hyr : find_root (tid tx) F1 = Some tx).
  { unfold F1. fold F'. rewrite find_root_app_r by done. unfold find_root. cbn. by rewrite bool_decide_eq_true_2. }
  assert (HyF' : remove_root (tid tx) F1 = F') by (by apply remove_root_snoc).
  destruct (cJSON_Delete_sim _ _ _ _ S3 Hyr) as (_ & Hdel & Wdel & NLdel). rewrite HyF' in Wdel, NLdel.
  split; [|split; [|split; [exact Wdel|]]].
  - unfold spec_delete_index. rewrite S1. cbn. exact HyF'.
  - unfold cJSON_DeleteItemFromArray. rewrite (bindM_Ret _ _ _ _ _ S2). exact Hdel.
  - intros NL. apply NLdel. intros b Hb. unfold F1.
    rewrite (owned_detach F p d cs _ tx (wf_nodup _ _ W) Hp Hk). by apply NL.
Qed.

Lemma cJSON_ReplaceItemInArray_sim h F p r tr ty d cs which :
  WF h F -> find_root r F = Some tr ->
  find_tree p (remove_root r F) = Some (T p d cs) -> 0 <= which -> cs !! Z.to_nat which = Some ty ->
  let k := Z.to_nat which in
  let F0 := remove_root r F in
  let F1 := set_children p (<[k := tr]> cs) F0 ++ [ty] in
  let F' := set_children p (<[k := tr]> cs) F0 in
  let h' := free_all (free_order [ty]) (upd_maps h (heap_lnk_of F1) (heap_dat_of F1)) in
  spec_replace_index F (Some p) which (Some r) = (F', true) /\
  cJSON_ReplaceItemInArray (Some p) which (Some r) h = Ret (true, h') /\
  WF h' F' /\ (NoLeak h F -> NoLeak h' F').
Proof.
  intros W Hr Hp Hw Hk k F0 F1 F' h'.
  pose proof (find_tree_remove_root _ _ _ _ _ (wf_nodup _ _ W) Hr Hp) as HpF.
  destruct (cJSON_ReplaceItemViaPointer_sim h F p (tid ty) r tr ty d cs k W Hr Hp Hk eq_refl) as (S1 & S2 & S3 & S4).
  assert (Href : is_ref d = false).
  { pose proof (wf_ref _ _ W) as Hrf. rewrite Forall_forall in Hrf.
    destruct (Hrf _ (find_tree_flat _ _ _ _ HpF)) as [H1 _]. cbn in H1. destruct (is_ref d); [|done].
    apply fmap_nil_inv in H1; [|done]. by subst cs. }
  assert (Hidx : spec_get_index F (Some p) which = Some (tid ty)).
  { unfold spec_get_index, children_of. rewrite HpF. cbn. by rewrite list_lookup_fmap, Hk. }
  split; [|split; [|split; [exact S3|exact S4]]].
  - unfold spec_replace_index. destruct (Z.ltb_spec which 0); [lia|]. by rewrite Hidx.
  - unfold cJSON_ReplaceItemInArray. destruct (Z.ltb_spec which 0); [lia|].
    rewrite (bindM_Ret _ _ _ _ _ (get_array_item_sim h F p d cs which W HpF Href Hw)). by rewrite Hidx.
Qed.
