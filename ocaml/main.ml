let () =
  let i = ref 0 in
  (try
    while true do
      let line = input_line stdin in
      let toks = Array.of_list (List.filter (fun s -> s <> "") (String.split_on_char ' ' line)) in
      let out =
        if Array.length toks = 0 then "EMPTY" else
        (match List.assoc_opt toks.(0) Handlers.handlers with
         | Some f -> (try f toks with e -> "MODEL_EXN " ^ Printexc.to_string e)
         | None -> "UNKNOWNKIND") in
      Printf.printf "%d %s\n" !i out;
      incr i
    done
  with End_of_file -> ());
  flush stdout
