(** PatchEq.v — the executable document equality [doc_eqb] of Rfc6902.v decides its declarative
    reading [doc_eq] on well-formed documents. *)
From Coq Require Import Lia ZArith List Bool Permutation.
From CJ Require Import Base Dbl Tree PointerDefs PointerProofs CompareDefs PatchDefs PatchProofs PatchRobust Rfc6902
  PatchConform PatchOps PatchApply PatchSort PatchTest PatchMove PatchSeq PatchGen.
Import ListNotations.
Local Open Scope Z_scope.

Ltac clash :=
  exfalso; repeat match goal with H : _ \/ _ |- _ => destruct H end;
  first [ congruence
        | match goal with
          | H1 : tymask ?t = ?c1, H2 : tymask ?t = ?c2 |- _ =>
              lazymatch c1 with tymask _ => fail | _ => idtac end;
              lazymatch c2 with tymask _ => fail | _ => idtac end;
              rewrite H1 in H2; discriminate H2
          end ].

Lemma arr_eqb_iff (P : node -> node -> Prop) : forall la lb,
  (forall x y, In x la -> In y lb -> (doc_eqb x y = true <-> P x y)) ->
  (arr_eqb la lb = true <-> Forall2 P la lb).
Proof.
  induction la as [|x la IH]; intros [|y lb] H; cbn [arr_eqb]; split; intro E; try discriminate; try (inversion E; fail); try constructor.
  - apply andb_true_iff in E. apply (H x y); [left; reflexivity | left; reflexivity | apply E].
  - apply andb_true_iff in E. apply IH; [intros; apply H; right; assumption | apply E].
  - inversion E as [|? ? ? ? Hxy Hr]; subst. apply andb_true_iff. split.
    + apply (H x y); [left; reflexivity | left; reflexivity | exact Hxy].
    + apply IH; [intros; apply H; right; assumption | exact Hr].
Qed.

Lemma keys_incl_of_partner ca cb : Forall (partner cb) ca -> incl (map n_key ca) (map n_key cb).
Proof.
  rewrite Forall_forall. intros Hp k Hk. apply in_map_iff in Hk. destruct Hk as (x & Ex & Hx).
  destruct (Hp x Hx) as (k' & j & y & Ek & Fk & _). destruct (find_key_in _ _ _ _ Fk) as [Hy Ey].
  rewrite <- Ex, Ek, <- Ey. apply in_map. exact Hy.
Qed.

Theorem doc_eqb_iff : forall a b, dwf a -> dwf b -> (doc_eqb a b = true <-> doc_eq a b).
Proof.
  induction a as [ty vs vi vd k ca IH] using node_ind'. intros b Ha Hb.
  rewrite doc_eqb_unfold.
  pose proof (dwf_local _ Ha) as (L & J & Sv & Nv & Ov). cbn [n_ty n_vstr n_vdbl n_children] in *.
  rewrite J. cbn [andb].
  pose proof (dwf_children _ Ha) as Hca. cbn [n_children] in Hca. pose proof (dwf_children _ Hb) as Hcb.
  rewrite Forall_forall in IH, Hca, Hcb.
  destruct (Z.eqb_spec (tymask ty) (tymask (n_ty b))) as [Et|Et]; cbn [andb].
  2:{ split; [discriminate|]. intro E. exfalso. apply Et. inversion E; subst; cbn [n_ty] in *; congruence. }
  destruct (Z.eqb_spec (tymask ty) c_cJSON_Number) as [En|En].
  { split.
    - intro E. apply andb_true_iff in E. destruct E as [E1 E2]. apply Z.eqb_eq in E1. apply de_num; cbn [n_ty n_vint n_vdbl]; congruence.
    - intro E. inversion E; subst; cbn [n_ty n_vint n_vdbl n_vstr] in *; try clash.
      apply andb_true_iff. split; [apply Z.eqb_eq; assumption | assumption]. }
  destruct (Z.eqb_spec (tymask ty) c_cJSON_String) as [Es|Es].
  { destruct (Sv Es) as (x & Ex & Nx). subst vs. split.
    - intro E. destruct (n_vstr b) as [y|] eqn:Ey; [|discriminate]. apply bytes_eqb_eq in E. subst y.
      eapply de_str; cbn [n_ty n_vstr]; try eassumption; congruence.
    - intro E. inversion E; subst; cbn [n_ty n_vint n_vdbl n_vstr] in *; try clash.
      match goal with H1 : Some x = Some ?s, H2 : n_vstr b = Some ?s |- _ => rewrite H2; inversion H1; subst; apply bytes_eqb_refl end. }
  destruct (Z.eqb_spec (tymask ty) c_cJSON_Array) as [Ea|Ea].
  { rewrite (arr_eqb_iff doc_eq ca (n_children b)).
    2:{ intros x y Hx Hy. apply IH; [exact Hx | apply Hca; exact Hx | apply Hcb; exact Hy]. }
    split.
    - intro F. apply de_arr; cbn [n_ty n_children]; congruence.
    - intro E. inversion E; subst; cbn [n_ty n_children] in *; try clash. assumption. }
  destruct (Z.eqb_spec (tymask ty) c_cJSON_Object) as [Eo|Eo].
  2:{ split; [|reflexivity]. intros _. destruct (json_type_cases _ J) as [T|[T|[T|[T|[T|[T|T]]]]]]; try contradiction; apply de_lit; cbn [n_ty]; tauto. }
  destruct (Ov Eo) as [Na Ka]. destruct (dwf_obj_local b Hb ltac:(congruence)) as [Nb Kb].
  rewrite andb_true_iff, Nat.eqb_eq, obj_eqb_iff. split.
  - intros [Len Hp]. pose proof (keys_incl_of_partner _ _ Hp) as I1.
    assert (I2 : incl (map n_key (n_children b)) (map n_key ca)).
    { apply NoDup_length_incl; [exact Na | rewrite !map_length; lia | exact I1]. }
    rewrite Forall_forall in Hp.
    apply de_obj; cbn [n_ty n_children]; try congruence.
    + rewrite Forall_forall. intros x Hx. destruct (Hp x Hx) as (kx & j & y & Ek & Fk & D).
      destruct (find_key_in _ _ _ _ Fk) as [Hy Ey]. apply Exists_exists. exists y. split; [exact Hy|].
      split; [rewrite Ek; discriminate|]. split; [congruence|].
      apply (IH x Hx y); [apply Hca; exact Hx | apply Hcb; exact Hy | exact D].
    + rewrite Forall_forall. intros y Hy.
      assert (Hk : In (n_key y) (map n_key ca)) by (apply I2; apply in_map; exact Hy).
      apply in_map_iff in Hk. destruct Hk as (x & Ex & Hx).
      destruct (Hp x Hx) as (kx & j & y' & Ek & Fk & D). destruct (find_key_in _ _ _ _ Fk) as [Hy' Ey'].
      assert (y' = y) by (apply (nodup_key_inj (n_children b)); try assumption; congruence). subst y'.
      apply Exists_exists. exists x. split; [exact Hx|]. split; [rewrite Ek; discriminate|]. split; [exact Ex|].
      apply (IH x Hx y); [apply Hca; exact Hx | apply Hcb; exact Hy | exact D].
  - intro E. inversion E; subst; cbn [n_ty n_children] in *; try clash.
    match goal with F1 : Forall _ ca, F2 : Forall _ (n_children b) |- _ => rename F1 into FA; rename F2 into FB end.
    rewrite Forall_forall in FA, FB.
    assert (I1 : incl (map n_key ca) (map n_key (n_children b))).
    { intros kk Hk. apply in_map_iff in Hk. destruct Hk as (x & Ex & Hx). specialize (FA x Hx). apply Exists_exists in FA.
      destruct FA as (y & Hy & _ & Ek & _). rewrite <- Ex, Ek. apply in_map. exact Hy. }
    assert (I2 : incl (map n_key (n_children b)) (map n_key ca)).
    { intros kk Hk. apply in_map_iff in Hk. destruct Hk as (y & Ey & Hy). specialize (FB y Hy). apply Exists_exists in FB.
      destruct FB as (x & Hx & _ & Ek & _). rewrite <- Ey, <- Ek. apply in_map. exact Hx. }
    split.
    + pose proof (NoDup_incl_length Na I1) as L1. pose proof (NoDup_incl_length Nb I2) as L2. rewrite !map_length in L1, L2. lia.
    + rewrite Forall_forall. intros x Hx. specialize (FA x Hx). apply Exists_exists in FA. destruct FA as (y & Hy & Kn & Ek & D).
      destruct (keyed_in _ _ Ka Hx) as (kx & Ekx & _).
      destruct (find_key_of_in kx (n_children b) 0%nat y Hy ltac:(congruence)) as (j & y' & Fk).
      destruct (find_key_in _ _ _ _ Fk) as [Hy' Ey'].
      assert (y' = y) by (apply (nodup_key_inj (n_children b)); try assumption; congruence). subst y'.
      exists kx, j, y. split; [exact Ekx|]. split; [exact Fk|].
      apply (IH x Hx y); [apply Hca; exact Hx | apply Hcb; exact Hy | exact D].
Qed.

(** the generated patch is empty exactly when the documents are equal, declaratively *)
Corollary generate_empty_iff from to : dwf from -> dwf to ->
  exists ps f' t', cJSONUtils_GeneratePatchesCaseSensitive from to = Ok (set_children create_array ps, f', t') /\
                   (ps = [] <-> doc_eq from to).
Proof.
  intros Hf Ht. destruct (generate_patches_ok from to Hf Ht) as (ps & f' & t' & E & I & _).
  exists ps, f', t'. split; [exact E|]. rewrite I. apply doc_eqb_iff; assumption.
Qed.
