(** GenPatchHeapProofs.v — stages 3-5: the heap-level [create_patches] of GenPatchHeapDefs.v REFINES the value-level
    model [PatchDefs.create_patches].

    [create_rec] (induction on the recursion fuel; inner inductions along the element / member chains): the patches
    array is the LAST root [T x d pcs] of the forest [(G ++ X) ++ [T x d pcs]], [from] and [to] are nodes of [G] —
    roots or inner nodes — with disjoint subtrees that satisfy [gdoc] (object members have names, string nodes a
    valuestring), [to] nested at most CJSON_CIRCULAR_LIMIT deep, [from] with at most SIZE_MAX nodes, [path] a readable
    string literal or a block outside the forest, the never-failing allocator.  Then the run returns without memory
    error; the array has new elements [pnew]; the forest differs from the one before only inside the two subtrees
    ([Frame]), where [from] and [to] are reorderings of themselves ([treord]); the call is a [Step] without volatile
    blocks (every [new_path] / [full_path] released, the caller's path block and the strings of the forest untouched,
    the ledger grown by exactly the blocks of [pnew]); and the reified [pnew] and operands are what the value-level
    model computes, whatever list the patches are appended to. *)
From CJ Require Import Base Dbl Heap Forest ForestLemmas CoreSpec CoreDefs CoreRefineBase CoreRefine CoreRefineMore
  CoreRefineObject CoreRefineFrame CoreRefineHistory CoreRefineAddObject CoreRefineDupBase CoreRefineDupValue CoreRefineDupForest CoreRefineCreate CoreLedgerGen.
From CJ Require Import TierBridgeDefs TierBridgeForest TierBridgeLemmas TierBridgeE2E2.
From CJ Require Import MergeHeapDefs MergeHeapInv MergeHeapProofs GenMergeHeapDefs GenMergeHeapForest GenMergeHeapCompare GenMergeHeapProofs
  PatchHeapDefs PatchHeapPointer PatchHeapStr PatchHeapSteps PatchHeapOps PatchHeapTest
  GenPatchHeapDefs GenPatchHeapBytes GenPatchHeapSteps GenPatchHeapCompose.
From CJ Require Tree PointerDefs PatchDefs CompareDefs SortDefs SortSpec.
From CJ.gen Require Import Constants.
From stdpp Require Import gmap.
From Coq Require Import Lia.
Local Open Scope Z_scope.

Import PatchDefs (s_op, s_path, s_value, s_add, s_remove, s_replace, s_dash).

(** * the caller's path: a literal, or a block outside the forest that is not volatile *)
Definition path_ok (V : list positive) (F : forest) (c : cstring) : Prop :=
  forall b off, c = CAt b off -> b ∉ owned F /\ b ∉ V.

Lemma path_ok_lit V F l : path_ok V F (CLit l).
Proof. by intros b off E. Qed.

Lemma path_ok_stable V F F' c : path_ok V F c -> cs_stable V F F' c.
Proof. intros H b off E. left. by apply (H b off E). Qed.

Lemma path_ok_step V h F h' F' c nm :
  MInv h F -> Step V h F h' F' -> CsReads h c nm -> path_ok V F c -> path_ok V F' c.
Proof.
  intros I S Hc H b off E. destruct (H b off E) as [Hn Hv]. split; [|done]. intros Hin.
  destruct (sp_new _ _ _ _ _ S b Hin) as [?|Hge]; [done|]. subst c. destruct Hc as [Hl _].
  pose proof (MInv_live_below _ _ I b Hl). lia.
Qed.

Lemma path_ok_mono V V' F c : (forall b, b ∈ V -> b ∈ V') -> path_ok V' F c -> path_ok V F c.
Proof. intros HV H b off E. destruct (H b off E) as [H1 H2]. split; [done|]. intros Hin. by apply H2, HV. Qed.

Lemma path_ok_good A R c : path_ok [] (A ++ R) c -> cs_good A (A ++ R) c.
Proof. intros H b off E. right. by apply (H b off E). Qed.

Lemma path_reads V h F h' F' c nm :
  MInv h' F' -> Step V h F h' F' -> path_ok V F c -> CsReads h c nm -> CsReads h' c nm.
Proof. intros I' S H Hc. exact (CsReads_step V h F h' F' c nm I' S (path_ok_stable _ _ _ _ H) Hc). Qed.

(** * the value-level model, one equation per case *)
Lemma create_patches_S f ps path from to cs :
  PatchDefs.create_patches (S f) ps path from to cs =
  (let t := Tree.tymask (Tree.n_ty from) in
   if negb (t =? Tree.tymask (Tree.n_ty to)) then Ok (PatchDefs.compose_patch ps s_replace path None (Some to), from, to)
   else if t =? c_cJSON_Number then
     if negb (Tree.n_vint from =? Tree.n_vint to) || negb (compare_double (Tree.n_vdbl from) (Tree.n_vdbl to))
     then Ok (PatchDefs.compose_patch ps s_replace path None (Some to), from, to)
     else Ok (ps, from, to)
   else if t =? c_cJSON_String then
     match Tree.n_vstr from, Tree.n_vstr to with
     | Some x, Some y =>
         if negb (strcmp x y =? 0) then Ok (PatchDefs.compose_patch ps s_replace path None (Some to), from, to)
         else Ok (ps, from, to)
     | _, _ => OOB
     end
   else if t =? c_cJSON_Array then
     ' (ps', fc, tc) <- PatchDefs.cp_arr (fun ps p x y => PatchDefs.create_patches f ps p x y cs) path ps 0 (Tree.n_children from) (Tree.n_children to) ;;
     Ok (ps', PatchDefs.set_children from fc, PatchDefs.set_children to tc)
   else if t =? c_cJSON_Object then
     sf <- PatchDefs.sort_object from cs ;;
     st <- PatchDefs.sort_object to cs ;;
     ' (ps', fc, tc) <- PatchDefs.cp_walk (fun ps p x y => PatchDefs.create_patches f ps p x y cs) path cs
                         (S (length (Tree.n_children sf) + length (Tree.n_children st))) ps (Tree.n_children sf) (Tree.n_children st) ;;
     Ok (ps', PatchDefs.set_children sf fc, PatchDefs.set_children st tc)
   else Ok (ps, from, to)).
Proof. reflexivity. Qed.

Section VLoops.
  Variable rec : list Tree.node -> bytes -> Tree.node -> Tree.node -> Base.res (list Tree.node * Tree.node * Tree.node).
  Variable path : bytes.
  Variable cs : bool.
  Notation arr := (PatchDefs.cp_arr rec path).
  Notation walk := (PatchDefs.cp_walk rec path cs).

  Definition vremoves (ps : list Tree.node) (index : Z) (lf : list Tree.node) : list Tree.node :=
    fold_left (fun acc _ => PatchDefs.compose_patch acc s_remove path (Some (PointerDefs.print_lu index)) None) lf ps.
  Definition vadds (ps : list Tree.node) (lt : list Tree.node) : list Tree.node :=
    fold_left (fun acc y => PatchDefs.compose_patch acc s_add path (Some s_dash) (Some y)) lt ps.

  Lemma vremoves_cons ps i v l :
    vremoves ps i (v :: l) = vremoves (PatchDefs.compose_patch ps s_remove path (Some (PointerDefs.print_lu i)) None) i l.
  Proof. reflexivity. Qed.
  Lemma vadds_cons ps y l : vadds ps (y :: l) = vadds (PatchDefs.compose_patch ps s_add path (Some s_dash) (Some y)) l.
  Proof. reflexivity. Qed.

  Lemma cp_arr_cons_cons ps i x lf y lt :
    arr ps i (x :: lf) (y :: lt) =
    (' (ps1, x', y') <- rec ps (path ++ [47] ++ PointerDefs.print_lu i) x y ;;
     ' (ps2, lf2, lt2) <- arr ps1 (i + 1) lf lt ;;
     Ok (ps2, x' :: lf2, y' :: lt2)).
  Proof. reflexivity. Qed.
  Lemma cp_arr_tail ps i lf lt : lf = [] \/ lt = [] -> arr ps i lf lt = Ok (vadds (vremoves ps i lf) lt, lf, lt).
  Proof. intros [-> | ->]; [reflexivity|]. by destruct lf. Qed.

  Lemma cp_walk_nil_nil g ps : walk (S g) ps [] [] = Ok (ps, [], []).
  Proof. reflexivity. Qed.
  Lemma cp_walk_nil_cons g ps y lt :
    walk (S g) ps [] (y :: lt) =
    (' (ps2, lf2, lt2) <- walk g (PatchDefs.compose_patch ps s_add path (Tree.n_key y) (Some y)) [] lt ;; Ok (ps2, lf2, y :: lt2)).
  Proof. reflexivity. Qed.
  Lemma cp_walk_cons_nil g ps x lf :
    walk (S g) ps (x :: lf) [] =
    (' (ps2, lf2, lt2) <- walk g (PatchDefs.compose_patch ps s_remove path (Tree.n_key x) None) lf [] ;; Ok (ps2, x :: lf2, lt2)).
  Proof. reflexivity. Qed.
  Lemma cp_walk_cons_cons g ps x lf y lt :
    walk (S g) ps (x :: lf) (y :: lt) =
    (let diff := PatchDefs.compare_strings (Tree.n_key x) (Tree.n_key y) cs in
     if diff =? 0 then
       match Tree.n_key x with
       | None => OOB
       | Some kx =>
           ' (ps1, x', y') <- rec ps (path ++ [47] ++ PointerDefs.encode_string_as_pointer kx) x y ;;
           ' (ps2, lf2, lt2) <- walk g ps1 lf lt ;;
           Ok (ps2, x' :: lf2, y' :: lt2)
       end
     else if diff <? 0 then
       ' (ps2, lf2, lt2) <- walk g (PatchDefs.compose_patch ps s_remove path (Tree.n_key x) None) lf (y :: lt) ;; Ok (ps2, x :: lf2, lt2)
     else
       ' (ps2, lf2, lt2) <- walk g (PatchDefs.compose_patch ps s_add path (Tree.n_key y) (Some y)) (x :: lf) lt ;; Ok (ps2, lf2, y :: lt2)).
  Proof. reflexivity. Qed.
End VLoops.

(** * what is proved about one call *)
Definition cp_pre (h : heap) (G X : forest) (x : positive) (d : rdata) (pcs : list tree)
    (path : cstring) (pnm : bytes) (tf tu : tree) (lf : nat) : Prop :=
  MInv h ((G ++ X) ++ [T x d pcs]) /\ find_tree (tid tf) G = Some tf /\ find_tree (tid tu) G = Some tu /\ tdisj tf tu /\
  (tsize tf + tsize tu < lf)%nat /\ gdoc tf /\ gdoc tu /\ (height tu <= LIMIT)%nat /\
  Z.of_nat (tsize tf) <= PointerDefs.SIZE_MAX /\
  CsReads h path pnm /\ path_ok [] ((G ++ X) ++ [T x d pcs]) path.

Definition cp_post (flag : bool) (h : heap) (G X : forest) (x : positive) (d : rdata) (pcs : list tree)
    (pnm : bytes) (tf tu : tree) (o : out (unit * heap)) : Prop :=
  exists h' G' pnew tf' tu',
    o = Ret (tt, h') /\ MInv h' ((G' ++ X) ++ [T x d (pcs ++ pnew)]) /\
    Step [] h ((G ++ X) ++ [T x d pcs]) h' ((G' ++ X) ++ [T x d (pcs ++ pnew)]) /\
    Frame G G' (ids_t tf ++ ids_t tu) /\
    find_tree (tid tf) G' = Some tf' /\ find_tree (tid tu) G' = Some tu' /\ treord tf tf' /\ treord tu tu' /\
    forall fv ps, (height tf < fv)%nat ->
      PatchDefs.create_patches fv ps pnm (reify (h_str h) tf) (reify (h_str h) tu) flag =
      Ok (ps ++ map (reify (h_str h')) pnew, reify (h_str h) tf', reify (h_str h) tu').

Definition cp_spec (df lf : nat) (flag : bool) : Prop :=
  forall tf tu h G X x d pcs path pnm, (tsize tf <= df)%nat -> cp_pre h G X x d pcs path pnm tf tu lf ->
    cp_post flag h G X x d pcs pnm tf tu
      (create_patches_fuel nofail df lf (Some x) path (Some (tid tf)) (Some (tid tu)) flag h).

(** * bookkeeping *)
Lemma Step_KeepO_G V h G X R h' G' R' S :
  Step V h ((G ++ X) ++ R) h' ((G' ++ X) ++ R') -> Frame G G' S -> KeepO h h' G.
Proof.
  intros St Fr b Hb. apply (sp_keep _ _ _ _ _ St).
  - rewrite !owned_app. apply elem_of_app. left. apply elem_of_app. by left.
  - rewrite !owned_app. apply elem_of_app. left. apply elem_of_app. left. by rewrite (Frame_owned _ _ _ Fr).
Qed.

Lemma arr_member_nodes (A : forest) x d pcs c : c ∈ pcs -> c ∈ nodes (A ++ [T x d pcs]).
Proof. apply member_in_nodes. Qed.

Lemma reify_members_sub V h A x d pcs h' A' pnew l :
  MInv h (A ++ [T x d pcs]) -> MInv h' (A' ++ [T x d (pcs ++ pnew)]) ->
  Step V h (A ++ [T x d pcs]) h' (A' ++ [T x d (pcs ++ pnew)]) -> (forall c, c ∈ l -> c ∈ pcs) ->
  map (reify (h_str h')) l = map (reify (h_str h)) l.
Proof.
  intros I I' S Hl. apply (reify_step_list V h _ h' _ l I I' S). intros c Hc. split; [by apply arr_member_nodes, Hl|].
  apply arr_member_nodes. apply elem_of_app. left. by apply Hl.
Qed.
Lemma reify_members V h A x d pcs h' A' pnew :
  MInv h (A ++ [T x d pcs]) -> MInv h' (A' ++ [T x d (pcs ++ pnew)]) ->
  Step V h (A ++ [T x d pcs]) h' (A' ++ [T x d (pcs ++ pnew)]) ->
  map (reify (h_str h')) pcs = map (reify (h_str h)) pcs.
Proof. intros I I' S. by apply (reify_members_sub V h A x d pcs h' A' pnew pcs I I' S). Qed.

Lemma reify_last_member V h A x d pcs m h' A' pnew :
  MInv h (A ++ [T x d (pcs ++ [m])]) -> MInv h' (A' ++ [T x d ((pcs ++ [m]) ++ pnew)]) ->
  Step V h (A ++ [T x d (pcs ++ [m])]) h' (A' ++ [T x d ((pcs ++ [m]) ++ pnew)]) ->
  reify (h_str h') m = reify (h_str h) m.
Proof.
  intros I I' S. apply (reify_step V h _ h' _ m I I' S).
  - apply arr_member_nodes. apply elem_of_app. right. by left.
  - apply arr_member_nodes. apply elem_of_app. left. apply elem_of_app. right. by left.
Qed.

(** the operand subtrees are nodes of the whole forest *)
Lemma node_G_F (G X R : forest) p n : find_tree p G = Some n -> n ∈ nodes ((G ++ X) ++ R).
Proof. intros H. apply node_in_app_l, node_in_app_l. by apply find_tree_Some in H as [? _]. Qed.
Lemma find_G_F (G X R : forest) p n : find_tree p G = Some n -> find_tree p ((G ++ X) ++ R) = Some n.
Proof. intros H. by apply find_tree_app_l, find_tree_app_l. Qed.

(** * type mismatch, numbers, strings: compose_patch(patches, "replace", path, NULL, to) *)
Lemma replace_case (flag : bool) h G X x d pcs path pnm tf tu :
  MInv h ((G ++ X) ++ [T x d pcs]) -> find_tree (tid tf) G = Some tf -> find_tree (tid tu) G = Some tu ->
  (height tu <= LIMIT)%nat -> CsReads h path pnm -> path_ok [] ((G ++ X) ++ [T x d pcs]) path ->
  (forall fv ps, (height tf < fv)%nat ->
     PatchDefs.create_patches fv ps pnm (reify (h_str h) tf) (reify (h_str h) tu) flag =
     Ok (PatchDefs.compose_patch ps s_replace pnm None (Some (reify (h_str h) tu)), reify (h_str h) tf, reify (h_str h) tu)) ->
  cp_post flag h G X x d pcs pnm tf tu (compose_patch nofail (Some x) (CLit s_replace) path CNull (Some (tid tu)) h).
Proof.
  intros I Hf Ht Hh Hp Hok Hv. destruct zfree_lits as (_ & _ & _ & _ & _ & Zrep & _).
  destruct (compose_patch_sim h (G ++ X) x d pcs (CLit s_replace) path CNull s_replace pnm None (Some tu) I
              ltac:(by split) Hp eq_refl (cs_good_lit _ _ _) (path_ok_good _ _ _ Hok) (cs_good_null _ _))
    as (h' & m & Hrun & I' & S & V).
  { intros tv [= <-]. split; [by apply find_tree_app_l|done]. }
  exists h', G, [m], tf, tu. split; [exact Hrun|]. split; [exact I'|]. split; [exact S|]. split; [apply Frame_refl|].
  split; [done|]. split; [done|]. split; [apply treord_refl|]. split; [apply treord_refl|].
  intros fv ps Hfv. rewrite (Hv fv ps Hfv). cbn [fmap option_fmap option_map] in V. by rewrite V.
Qed.

Lemma stay_case (flag : bool) h G X x d pcs pnm tf tu :
  MInv h ((G ++ X) ++ [T x d pcs]) -> find_tree (tid tf) G = Some tf -> find_tree (tid tu) G = Some tu ->
  (forall fv ps, (height tf < fv)%nat ->
     PatchDefs.create_patches fv ps pnm (reify (h_str h) tf) (reify (h_str h) tu) flag =
     Ok (ps, reify (h_str h) tf, reify (h_str h) tu)) ->
  cp_post flag h G X x d pcs pnm tf tu (Ret (tt, h)).
Proof.
  intros I Hf Ht Hv. exists h, G, [], tf, tu. rewrite app_nil_r. split; [done|]. split; [done|]. split; [apply Step_refl|].
  split; [apply Frame_refl|]. split; [done|]. split; [done|]. split; [apply treord_refl|]. split; [apply treord_refl|].
  intros fv ps Hfv. rewrite (Hv fv ps Hfv). cbn [map]. by rewrite app_nil_r.
Qed.

(** * [case cJSON_Array]: the three loops, with the temporary [new_path] = block [B] of [|path| + 22] bytes alive *)
Lemma size_succ_small i : 0 <= i < PointerDefs.SIZE_MAX -> size_succ i = i + 1.
Proof. intros H. unfold size_succ. apply Z.mod_small. lia. Qed.

Lemma lookup_mid_tid' (l1 : list tree) c l2 : (tid <$> (l1 ++ c :: l2)) !! length l1 = Some (tid c).
Proof. apply lookup_mid_tid. Qed.

Section Arr.
  Context (flag : bool) (df lf : nat) (X : forest) (x : positive) (d : rdata).
  Hypothesis IH : cp_spec df lf flag.
  Context (f t : positive) (fd td : rdata).
  Context (path : cstring) (pnm : bytes) (B : positive).
  Notation n := (length pnm + 20 + 2)%nat.
  Notation rec := (fun p a b => create_patches_fuel nofail df lf (Some x) p a b flag).
  Notation FF G pcs := ((G ++ X) ++ [T x d pcs]).

  Definition AState (h : heap) (G : forest) (pcs : list tree) : Prop :=
    MInv h (FF G pcs) /\ CsReads h path pnm /\ path_ok [B] (FF G pcs) path /\ Tmp h (FF G pcs) B n.

  Lemma AState_step h G pcs h' G' pcs' :
    AState h G pcs -> MInv h' (FF G' pcs') -> Step [B] h (FF G pcs) h' (FF G' pcs') -> AState h' G' pcs'.
  Proof.
    intros (I & Hp & Hok & HT) I' S. split; [done|]. split; [exact (path_reads _ _ _ _ _ _ _ I' S Hok Hp)|].
    split; [exact (path_ok_step _ _ _ _ _ _ _ I S Hp Hok)|exact (Tmp_step _ _ _ _ _ _ _ I S HT)].
  Qed.

  Lemma Step_B h F h' F' : Step [] h F h' F' -> Step [B] h F h' F'.
  Proof. apply Step_mono. by intros b Hb%elem_of_nil. Qed.

  Lemma AState_path_good h G pcs : AState h G pcs -> cs_good (G ++ X) (FF G pcs) path.
  Proof. intros (_ & _ & Hok & _) b off E. right. by apply (Hok b off E). Qed.

  (** a store into [B]: the state survives, and [B] reads as what was stored *)
  Lemma AState_write h G pcs (text rest : bytes) :
    AState h G pcs -> SortSpec.zfree text -> length (text ++ 0 :: rest) = n ->
    let h1 := wrB h B (text ++ 0 :: rest) in
    AState h1 G pcs /\ Step [B] h (FF G pcs) h1 (FF G pcs) /\ CsReads h1 (CAt B 0) text /\
    (forall c, c ∈ nodes (FF G pcs) -> reify (h_str h1) c = reify (h_str h) c).
  Proof.
    intros (I & Hp & Hok & HT) Hz Hlen h1. destruct HT as (HBl & HBo & HBn & s & HBs & HBlen).
    assert (I1 : MInv h1 (FF G pcs)) by (apply MInv_wrB; [done|done|by exists s]).
    assert (S1 : Step [B] h (FF G pcs) h1 (FF G pcs)) by (apply (Step_write [B] h _ B _ s); [by left|done|done|lia]).
    split; [|split; [exact S1|split]].
    - split; [exact I1|]. split.
      + apply (CsReads_wrB h B path pnm _ Hp). intros off E. destruct (Hok B off E) as [_ Hv]. apply Hv. by left.
      + split; [done|]. split; [exact HBl|]. split; [exact HBo|]. split; [done|]. exists (text ++ 0 :: rest).
        split; [apply lookup_insert|done].
    - split; [exact HBl|]. exists (text ++ 0 :: rest). split; [apply lookup_insert|]. rewrite drop_0. split.
      + rewrite existsb_app. cbn. by rewrite orb_true_r.
      + symmetry. by apply cstr_app_zero.
    - intros c Hc. unfold h1. rewrite wrB_str. apply (reify_temp (h_str h) B _ (FF G pcs) c (mi_own _ _ I) HBn Hc).
  Qed.

  (** ** the loop that appends the surplus elements of [to] *)
  Lemma add_loop_sim : forall rest_t pre_t (nfuel : nat) index h G pcs,
    (length rest_t < nfuel)%nat -> AState h G pcs ->
    find_tree t G = Some (T t td (pre_t ++ rest_t)) ->
    (forall c, c ∈ rest_t -> (height c <= LIMIT)%nat) ->
    exists h' pnew,
      cp_add_loop nofail (Some x) path nfuel index ((tid <$> (pre_t ++ rest_t)) !! length pre_t) h = Ret (tt, h') /\
      AState h' G (pcs ++ pnew) /\ Step [] h (FF G pcs) h' (FF G (pcs ++ pnew)) /\
      forall ps, vadds pnm ps (map (reify (h_str h)) rest_t) = ps ++ map (reify (h_str h')) pnew.
  Proof.
    induction rest_t as [|c rt IHr]; intros pre_t nfuel index h G pcs Hn A Ht Hh.
    - destruct nfuel as [|n']; [cbn in Hn; lia|]. rewrite lookup_end_tid. cbn [cp_add_loop is_null negb].
      exists h, []. rewrite app_nil_r. split; [done|]. split; [done|]. split; [apply Step_refl|]. intros ps. cbn. by rewrite app_nil_r.
    - destruct nfuel as [|n']; [cbn in Hn; lia|]. cbn [length] in Hn. rewrite lookup_mid_tid. cbn [cp_add_loop is_null negb].
      destruct A as (I & Hp & Hok & HT). pose proof (mi_wf _ _ I) as W. pose proof (nodup_ids_ll _ _ _ _ W) as NDG.
      pose proof (find_tree_child G t td _ c NDG Ht (elem_mid pre_t c rt)) as Hc.
      destruct zfree_lits as (_ & _ & _ & Zadd & _ & _ & Zdash).
      destruct (compose_patch_sim h (G ++ X) x d pcs (CLit s_add) path (CLit s_dash) s_add pnm (Some s_dash) (Some c) I
                  ltac:(by split) Hp ltac:(by split) (cs_good_lit _ _ _)
                  (AState_path_good h G pcs (conj I (conj Hp (conj Hok HT)))) (cs_good_lit _ _ _))
        as (h2 & m & Hrun2 & I2 & S2 & V2).
      { intros tv [= <-]. split; [by apply find_tree_app_l|]. apply Hh. by left. }
      cbn [fmap option_fmap option_map] in Hrun2, V2. rewrite (bindM_Ret _ _ _ _ _ Hrun2).
      pose proof (AState_step h G pcs h2 G (pcs ++ [m]) (conj I (conj Hp (conj Hok HT))) I2 (Step_B _ _ _ _ S2)) as A2.
      pose proof (mi_wf _ _ I2) as W2.
      pose proof (find_tree_flat _ _ _ _ (find_G_F G X [T x d (pcs ++ [m])] t _ Ht)) as Hflat.
      rewrite (bindM_Ret _ _ _ _ _ (chain_get_next h2 _ t td _ (length pre_t) (tid c) W2 Hflat (lookup_mid_tid pre_t c rt))).
      assert (Et : pre_t ++ c :: rt = (pre_t ++ [c]) ++ rt) by (by rewrite <- app_assoc).
      assert (Elt : S (length pre_t) = length (pre_t ++ [c])) by (rewrite app_length; cbn; lia).
      rewrite Et, Elt. rewrite Et in Ht.
      destruct (IHr (pre_t ++ [c]) n' (size_succ index) h2 G (pcs ++ [m]) ltac:(lia) A2 Ht ltac:(intros c0 Hc0; apply Hh; by right))
        as (h' & pnew' & Hrun & A' & S' & V').
      exists h', (m :: pnew'). replace (pcs ++ m :: pnew') with ((pcs ++ [m]) ++ pnew') by (by rewrite <- app_assoc).
      split; [exact Hrun|]. split; [exact A'|]. split; [exact (Step_trans _ _ _ _ _ _ _ I S2 S')|].
      intros ps. cbn [map]. rewrite vadds_cons.
      rewrite (V2 ps).
      assert (E1 : map (reify (h_str h2)) rt = map (reify (h_str h)) rt).
      { apply (reify_step_list [] h _ h2 _ rt I I2 S2). intros c0 Hc0.
        assert (Hc0G : c0 ∈ nodes G) by (apply (children_nodes_G G t td _ c0 Ht); apply elem_of_app; by right).
        split; by apply node_in_app_l, node_in_app_l. }
      rewrite <- E1, (V' _). rewrite <- app_assoc. cbn [app map]. do 2 f_equal.
      destruct A' as (I' & _). symmetry.
      exact (reify_last_member [] h2 (G ++ X) x d pcs m h' (G ++ X) pnew' I2 I' S').
  Qed.

  (** ** the loop that removes the surplus elements of [from]: always at the same [index] *)
  Lemma remove_loop_sim : forall rest_f pre_f (nfuel : nat) index h G pcs,
    0 <= index <= PointerDefs.SIZE_MAX -> (length rest_f < nfuel)%nat -> AState h G pcs ->
    find_tree f G = Some (T f fd (pre_f ++ rest_f)) ->
    exists h' pnew,
      cp_remove_loop nofail (Some x) path (Some B) nfuel index ((tid <$> (pre_f ++ rest_f)) !! length pre_f) h = Ret (Some tt, h') /\
      AState h' G (pcs ++ pnew) /\ Step [B] h (FF G pcs) h' (FF G (pcs ++ pnew)) /\
      forall ps (l : list Tree.node), length l = length rest_f -> vremoves pnm ps index l = ps ++ map (reify (h_str h')) pnew.
  Proof.
    induction rest_f as [|c rf IHr]; intros pre_f nfuel index h G pcs Hidx Hn A Hf.
    - destruct nfuel as [|n']; [cbn in Hn; lia|]. rewrite lookup_end_tid. cbn [cp_remove_loop is_null negb].
      exists h, []. rewrite app_nil_r. split; [done|]. split; [done|]. split; [apply Step_refl|].
      intros ps l Hl. destruct l; [|done]. cbn. by rewrite app_nil_r.
    - destruct nfuel as [|n']; [cbn in Hn; lia|]. cbn [length] in Hn. rewrite lookup_mid_tid. cbn [cp_remove_loop is_null negb].
      destruct (Z.gtb_spec index PointerDefs.SIZE_MAX) as [|_]; [lia|].
      pose proof A as (I & Hp & Hok & HT). destruct HT as (HBl & HBo & HBn & s & HBs & HBlen).
      pose proof (print_lu_length index Hidx) as Hdl. pose proof (print_lu_zfree index Hidx) as Hdz.
      cbn [cs_of_ptr].
      rewrite (bindM_Ret _ _ _ _ _ (run_sprintf_lu h B s index HBl HBo HBs ltac:(lia))).
      set (digits := PointerDefs.print_lu index) in *.
      destruct (AState_write h G pcs digits (drop (length digits + 1) s) A Hdz) as (A1 & S1 & HcB & E1).
      { rewrite app_length. cbn [length]. rewrite drop_length. lia. }
      set (h1 := wrB h B (digits ++ 0 :: drop (length digits + 1) s)) in *.
      destruct A1 as (I1 & Hp1 & Hok1 & HT1).
      destruct zfree_lits as (_ & _ & _ & _ & Zrem & _ & _).
      destruct (compose_patch_sim h1 (G ++ X) x d pcs (CLit s_remove) path (CAt B 0) s_remove pnm (Some digits) None I1
                  ltac:(by split) Hp1 HcB (cs_good_lit _ _ _)
                  (AState_path_good h1 G pcs (conj I1 (conj Hp1 (conj Hok1 HT1))))
                  ltac:(intros b off [= <- _]; right; by destruct HT1 as (_ & _ & ? & _)))
        as (h2 & m & Hrun2 & I2 & S2 & V2).
      { by intros tv. }
      cbn [fmap option_fmap option_map] in Hrun2, V2. rewrite (bindM_Ret _ _ _ _ _ Hrun2).
      pose proof (AState_step h1 G pcs h2 G (pcs ++ [m]) (conj I1 (conj Hp1 (conj Hok1 HT1))) I2 (Step_B _ _ _ _ S2)) as A2.
      pose proof (mi_wf _ _ I2) as W2.
      pose proof (find_tree_flat _ _ _ _ (find_G_F G X [T x d (pcs ++ [m])] f _ Hf)) as Hflat.
      rewrite (bindM_Ret _ _ _ _ _ (chain_get_next h2 _ f fd _ (length pre_f) (tid c) W2 Hflat (lookup_mid_tid pre_f c rf))).
      assert (Ef : pre_f ++ c :: rf = (pre_f ++ [c]) ++ rf) by (by rewrite <- app_assoc).
      assert (Elf : S (length pre_f) = length (pre_f ++ [c])) by (rewrite app_length; cbn; lia).
      rewrite Ef, Elf. rewrite Ef in Hf.
      destruct (IHr (pre_f ++ [c]) n' index h2 G (pcs ++ [m]) Hidx ltac:(lia) A2 Hf) as (h' & pnew' & Hrun & A' & S' & V').
      exists h', (m :: pnew'). replace (pcs ++ m :: pnew') with ((pcs ++ [m]) ++ pnew') by (by rewrite <- app_assoc).
      split; [exact Hrun|]. split; [exact A'|].
      split; [exact (Step_trans _ _ _ _ _ _ _ I S1 (Step_trans _ _ _ _ _ _ _ I1 (Step_B _ _ _ _ S2) S'))|].
      intros ps l Hl. destruct l as [|v l]; [done|]. cbn [length] in Hl. rewrite vremoves_cons. fold digits.
      rewrite (V2 ps), (V' _ l ltac:(lia)). rewrite <- app_assoc. cbn [app map]. do 2 f_equal.
      destruct A' as (I' & _). symmetry.
      exact (reify_last_member [B] h2 (G ++ X) x d pcs m h' (G ++ X) pnew' I2 I' S').
  Qed.

  (** ** the loops together *)
  Definition arr_tail (index : Z) (fc tc : ptr) : M unit :=
    r2 <~ cp_remove_loop nofail (Some x) path (Some B) lf index fc ;;
    match r2 with
    | None => ret tt
    | Some _ => cp_add_loop nofail (Some x) path lf index tc ;;; cJSON_free (Some B)
    end.
  Definition arr_phase (nfuel : nat) (index : Z) (fc tc : ptr) : M unit :=
    r1 <~ cp_both_loop rec path (Some B) nfuel index fc tc ;;
    match r1 with
    | None => ret tt
    | Some (i, fc', tc') => arr_tail i fc' tc'
    end.

  Definition okf (c : tree) : Prop := (tsize c <= df)%nat /\ gdoc c /\ Z.of_nat (tsize c) <= PointerDefs.SIZE_MAX.
  Definition okt (c : tree) : Prop := gdoc c /\ (height c <= LIMIT)%nat.

  Lemma nodes_G_F G pcs p dd cs c : find_tree p G = Some (T p dd cs) -> c ∈ cs -> c ∈ nodes (FF G pcs).
  Proof. intros Hp Hc. apply node_in_app_l, node_in_app_l. by apply (children_nodes_G G p dd cs c Hp). Qed.

  Lemma arr_tail_sim rest_f rest_t pre_f pre_t h G pcs :
    (length rest_f < lf)%nat -> (length rest_t < lf)%nat -> AState h G pcs ->
    0 <= Z.of_nat (length pre_f) <= PointerDefs.SIZE_MAX ->
    find_tree f G = Some (T f fd (pre_f ++ rest_f)) -> find_tree t G = Some (T t td (pre_t ++ rest_t)) ->
    (forall c, c ∈ rest_t -> okt c) ->
    exists h2 pnew,
      arr_tail (Z.of_nat (length pre_f)) ((tid <$> (pre_f ++ rest_f)) !! length pre_f) ((tid <$> (pre_t ++ rest_t)) !! length pre_t) h =
        Ret (tt, free1 B h2) /\
      AState h2 G (pcs ++ pnew) /\ Step [B] h (FF G pcs) h2 (FF G (pcs ++ pnew)) /\
      forall ps, vadds pnm (vremoves pnm ps (Z.of_nat (length pre_f)) (map (reify (h_str h)) rest_f)) (map (reify (h_str h)) rest_t) =
                 ps ++ map (reify (h_str h2)) pnew.
  Proof.
    intros Hlf Hlt A Hidx Hf Ht Hrt. pose proof A as (I & _).
    destruct (remove_loop_sim rest_f pre_f lf _ h G pcs Hidx Hlf A Hf) as (h1 & pnew1 & Hrun1 & A1 & S1 & V1).
    pose proof A1 as (I1 & _).
    destruct (add_loop_sim rest_t pre_t lf (Z.of_nat (length pre_f)) h1 G (pcs ++ pnew1) Hlt A1 Ht ltac:(intros c Hc; by apply Hrt))
      as (h2 & pnew2 & Hrun2 & A2 & S2 & V2).
    pose proof A2 as (I2 & _ & _ & T2).
    destruct (Tmp_free h2 _ B n I2 T2) as [Hrun3 _].
    exists h2, (pnew1 ++ pnew2). rewrite app_assoc.
    split; [|split; [exact A2|split; [exact (Step_trans _ _ _ _ _ _ _ I S1 (Step_B _ _ _ _ S2))|]]].
    - unfold arr_tail. rewrite (bindM_Ret _ _ _ _ _ Hrun1). rewrite (bindM_Ret _ _ _ _ _ Hrun2). exact Hrun3.
    - intros ps. rewrite (V1 ps _ ltac:(by rewrite map_length)).
      assert (E1 : map (reify (h_str h1)) rest_t = map (reify (h_str h)) rest_t).
      { apply (reify_step_list [B] h _ h1 _ rest_t I I1 S1). intros c Hc.
        split; apply (nodes_G_F G _ t td _ c Ht); apply elem_of_app; by right. }
      rewrite <- E1, (V2 _). rewrite <- app_assoc, map_app. do 2 f_equal. symmetry.
      apply (reify_members_sub [] h1 (G ++ X) x d (pcs ++ pnew1) h2 (G ++ X) pnew2 pnew1 I1 I2 S2).
      intros c Hc. apply elem_of_app. by right.
  Qed.

  Lemma arr_phase_sim : forall rest_f rest_t pre_f pre_t (nfuel : nat) h G pcs,
    length pre_f = length pre_t -> (length rest_f < nfuel)%nat -> AState h G pcs ->
    find_tree f G = Some (T f fd (pre_f ++ rest_f)) -> find_tree t G = Some (T t td (pre_t ++ rest_t)) ->
    tdisj (T f fd (pre_f ++ rest_f)) (T t td (pre_t ++ rest_t)) ->
    (tsize (T f fd (pre_f ++ rest_f)) + tsize (T t td (pre_t ++ rest_t)) < lf)%nat ->
    Z.of_nat (length (pre_f ++ rest_f)) <= PointerDefs.SIZE_MAX ->
    (forall c, c ∈ rest_f -> okf c) -> (forall c, c ∈ rest_t -> okt c) ->
    exists h2 G' pnew rest_f' rest_t',
      arr_phase nfuel (Z.of_nat (length pre_f)) ((tid <$> (pre_f ++ rest_f)) !! length pre_f) ((tid <$> (pre_t ++ rest_t)) !! length pre_t) h =
        Ret (tt, free1 B h2) /\
      AState h2 G' (pcs ++ pnew) /\ Step [B] h (FF G pcs) h2 (FF G' (pcs ++ pnew)) /\
      Frame G G' (ids rest_f ++ ids rest_t) /\
      find_tree f G' = Some (T f fd (pre_f ++ rest_f')) /\ find_tree t G' = Some (T t td (pre_t ++ rest_t')) /\
      Forall2 treord rest_f rest_f' /\ Forall2 treord rest_t rest_t' /\
      forall fv ps, (forall c, c ∈ rest_f -> (height c < fv)%nat) ->
        PatchDefs.cp_arr (fun ps p a b => PatchDefs.create_patches fv ps p a b flag) pnm ps (Z.of_nat (length pre_f))
          (map (reify (h_str h)) rest_f) (map (reify (h_str h)) rest_t) =
        Ok (ps ++ map (reify (h_str h2)) pnew, map (reify (h_str h)) rest_f', map (reify (h_str h)) rest_t').
  Proof.
    induction rest_f as [|fc rf IHr]; intros rest_t pre_f pre_t nfuel h G pcs Elen Hn A Hf Ht Hdis Hsz Hmax Hrf Hrt.
    - (* 'from' ran out *)
      destruct nfuel as [|n']; [cbn in Hn; lia|]. unfold arr_phase. rewrite lookup_end_tid. cbn [cp_both_loop is_null negb andb].
      rewrite bindM_ret. rewrite <- (lookup_end_tid pre_f).
      rewrite tsize_unfold, (tsize_unfold t td) in Hsz. pose proof (nodes_length_ge (pre_t ++ rest_t)) as Hl2. rewrite app_length in Hl2.
      destruct (arr_tail_sim [] rest_t pre_f pre_t h G pcs ltac:(cbn; lia) ltac:(lia) A ltac:(rewrite app_length in Hmax; lia) Hf Ht Hrt)
        as (h2 & pnew & Hrun & A2 & S2 & V2).
      exists h2, G, pnew, [], rest_t. split; [exact Hrun|]. split; [exact A2|]. split; [exact S2|]. split; [apply Frame_refl|].
      split; [done|]. split; [done|]. split; [constructor|]. split; [apply Forall2_treord_refl|].
      intros fv ps _. rewrite cp_arr_tail by (by left). by rewrite (V2 ps).
    - destruct nfuel as [|n']; [cbn in Hn; lia|]. cbn [length] in Hn. rewrite lookup_mid_tid.
      destruct rest_t as [|tc rt].
      { (* 'to' ran out *)
        unfold arr_phase. rewrite lookup_end_tid. cbn [cp_both_loop is_null negb andb].
        rewrite bindM_ret. rewrite <- (lookup_end_tid pre_t), <- (lookup_mid_tid pre_f fc rf).
        rewrite tsize_unfold, (tsize_unfold t td) in Hsz. pose proof (nodes_length_ge (pre_f ++ fc :: rf)) as Hl1. rewrite app_length in Hl1.
        destruct (arr_tail_sim (fc :: rf) [] pre_f pre_t h G pcs ltac:(lia) ltac:(cbn; lia) A ltac:(rewrite app_length in Hmax; lia) Hf Ht Hrt)
          as (h2 & pnew & Hrun & A2 & S2 & V2).
        exists h2, G, pnew, (fc :: rf), []. split; [exact Hrun|]. split; [exact A2|]. split; [exact S2|]. split; [apply Frame_refl|].
        split; [done|]. split; [done|]. split; [apply Forall2_treord_refl|]. split; [constructor|].
        intros fv ps _. rewrite cp_arr_tail by (by right). by rewrite (V2 ps). }
      (* an element on both sides *)
      rewrite lookup_mid_tid. unfold arr_phase. cbn [cp_both_loop is_null negb andb].
      set (index := Z.of_nat (length pre_f)).
      assert (Hidx : 0 <= index < PointerDefs.SIZE_MAX) by (unfold index; rewrite app_length in Hmax; cbn [length] in Hmax; lia).
      destruct (Z.gtb_spec index PointerDefs.SIZE_MAX) as [|_]; [lia|].
      pose proof A as (I & Hp & Hok & HT). pose proof HT as (HBl & HBo & HBn & s & HBs & HBlen).
      pose proof (mi_wf _ _ I) as W. pose proof (nodup_ids_ll _ _ _ _ W) as NDG.
      pose proof (print_lu_length index ltac:(lia)) as Hdl. pose proof (print_lu_zfree index ltac:(lia)) as Hdz.
      cbn [cs_of_ptr].
      rewrite !bindM_assoc. rewrite (bindM_Ret _ _ _ _ _ (run_sprintf_s_slash_lu h B s path pnm index HBl HBo HBs Hp ltac:(lia))).
      set (pnm' := pnm ++ [47] ++ PointerDefs.print_lu index) in *.
      assert (Hz' : SortSpec.zfree pnm').
      { unfold pnm'. apply Forall_app. split; [by eapply CsReads_zfree|]. apply Forall_app. split; [repeat constructor; done|done]. }
      destruct (AState_write h G pcs pnm' (drop (length pnm + 1 + length (PointerDefs.print_lu index) + 1) s) A Hz') as (A1 & S1 & HcB & E1).
      { rewrite app_length. cbn [length]. rewrite drop_length. unfold pnm'. rewrite !app_length. cbn [length]. lia. }
      set (h1 := wrB h B (pnm' ++ 0 :: drop (length pnm + 1 + length (PointerDefs.print_lu index) + 1) s)) in *.
      pose proof A1 as (I1 & Hp1 & Hok1 & HT1).
      (* the recursive call on the pair *)
      pose proof (find_tree_child G f fd _ fc NDG Hf (elem_mid pre_f fc rf)) as Hfc.
      pose proof (find_tree_child G t td _ tc NDG Ht (elem_mid pre_t tc rt)) as Htc.
      destruct (Hrf fc ltac:(by left)) as (Sfc & Gfc & Mfc). destruct (Hrt tc ltac:(by left)) as (Gtc & Htch).
      assert (Hdxy : tdisj fc tc) by (eapply tdisj_children; [exact Hdis|apply elem_mid|apply elem_mid]).
      pose proof (tsize_child_lt f fd _ fc (elem_mid pre_f fc rf)) as Hx1.
      pose proof (tsize_child_lt t td _ tc (elem_mid pre_t tc rt)) as Hy1.
      destruct (IH fc tc h1 G X x d pcs (CAt B 0) pnm' Sfc) as (h2 & G2 & pnew1 & fc' & tc' & Hrun2 & I2 & S2 & Fr2 & Hfc2 & Htc2 & Rf2 & Rt2 & V2).
      { split; [exact I1|]. split; [exact Hfc|]. split; [exact Htc|]. split; [exact Hdxy|]. split; [lia|]. split; [exact Gfc|].
        split; [exact Gtc|]. split; [exact Htch|]. split; [exact Mfc|]. split; [exact HcB|].
        intros b off [= <- _]. split; [by destruct HT1 as (_ & _ & ? & _)|by intros ?%elem_of_nil]. }
      rewrite !bindM_assoc. rewrite (bindM_Ret _ _ _ _ _ Hrun2).
      pose proof (AState_step h1 G pcs h2 G2 (pcs ++ pnew1) A1 I2 (Step_B _ _ _ _ S2)) as A2.
      pose proof (mi_wf _ _ I2) as W2. pose proof (nodup_ids_ll _ _ _ _ W2) as NDG2.
      destruct (frame_parents G G2 f fd pre_f fc fc' rf t td pre_t tc tc' rt Fr2 NDG NDG2 Hf Ht Hdis Hfc2 Htc2
                  (treord_tid _ _ Rf2) (treord_tid _ _ Rt2)) as [Hf2 Ht2].
      pose proof (find_tree_flat _ _ _ _ (find_G_F G2 X [T x d (pcs ++ pnew1)] f _ Hf2)) as Hflf.
      pose proof (find_tree_flat _ _ _ _ (find_G_F G2 X [T x d (pcs ++ pnew1)] t _ Ht2)) as Hflt.
      rewrite !bindM_assoc. rewrite (bindM_Ret _ _ _ _ _ (chain_get_next h2 _ f fd _ (length pre_f) (tid fc) W2 Hflf
                 ltac:(rewrite <- (treord_tid _ _ Rf2); apply lookup_mid_tid))).
      rewrite !bindM_assoc. rewrite (bindM_Ret _ _ _ _ _ (chain_get_next h2 _ t td _ (length pre_t) (tid tc) W2 Hflt
                 ltac:(rewrite <- (treord_tid _ _ Rt2); apply lookup_mid_tid))).
      assert (Ef : pre_f ++ fc' :: rf = (pre_f ++ [fc']) ++ rf) by (by rewrite <- app_assoc).
      assert (Et : pre_t ++ tc' :: rt = (pre_t ++ [tc']) ++ rt) by (by rewrite <- app_assoc).
      assert (Elf : S (length pre_f) = length (pre_f ++ [fc'])) by (rewrite app_length; cbn; lia).
      assert (Elt : S (length pre_t) = length (pre_t ++ [tc'])) by (rewrite app_length; cbn; lia).
      assert (Eidx : size_succ index = Z.of_nat (length (pre_f ++ [fc']))).
      { rewrite (size_succ_small index Hidx). unfold index. rewrite app_length. cbn [length]. lia. }
      pose proof (treord_replace_child f fd pre_f fc fc' rf Rf2) as RF.
      pose proof (treord_replace_child t td pre_t tc tc' rt Rt2) as RT.
      rewrite Ef, Et, Elf, Elt, Eidx. rewrite Ef in Hf2, RF. rewrite Et in Ht2, RT.
      destruct (IHr rt (pre_f ++ [fc']) (pre_t ++ [tc']) n' h2 G2 (pcs ++ pnew1) ltac:(rewrite !app_length; cbn; lia) ltac:(lia) A2 Hf2 Ht2
                  (tdisj_treord _ _ _ _ Hdis RF RT)
                  ltac:(rewrite (treord_tsize _ _ RF), (treord_tsize _ _ RT); exact Hsz)
                  ltac:(rewrite !app_length in *; cbn [length] in *; lia)
                  ltac:(intros c Hc; apply Hrf; by right) ltac:(intros c Hc; apply Hrt; by right))
        as (h3 & G3 & pnew2 & rf' & rt' & Hrun3 & A3 & S3 & Fr3 & Hf3 & Ht3 & Rf3 & Rt3 & V3).
      pose proof A3 as (I3 & _).
      exists h3, G3, (pnew1 ++ pnew2), (fc' :: rf'), (tc' :: rt'). rewrite app_assoc.
      rewrite <- !app_assoc in Hf3, Ht3. cbn [app] in Hf3, Ht3.
      split; [exact Hrun3|]. split; [exact A3|].
      split; [exact (Step_trans _ _ _ _ _ _ _ I S1 (Step_trans _ _ _ _ _ _ _ I1 (Step_B _ _ _ _ S2) S3))|].
      split.
      { apply (Frame_trans G G2 G3).
        - apply (Frame_mono _ _ _ _ Fr2). intros z Hz. rewrite !ids_cons.
          apply elem_of_app in Hz as [Hz|Hz]; apply elem_of_app; [left|right]; apply elem_of_app; by left.
        - apply (Frame_mono _ _ _ _ Fr3). intros z Hz. rewrite !ids_cons.
          apply elem_of_app in Hz as [Hz|Hz]; apply elem_of_app; [left|right]; apply elem_of_app; by right. }
      split; [exact Hf3|]. split; [exact Ht3|]. split; [by constructor|]. split; [by constructor|].
      intros fv ps Hfv. cbn [map]. rewrite cp_arr_cons_cons. fold index. fold pnm'.
      (* the pair, read in the heap before the store *)
      assert (Efc : reify (h_str h1) fc = reify (h_str h) fc) by (apply E1; by apply (nodes_G_F G pcs f fd _ fc Hf), elem_mid).
      assert (Etc : reify (h_str h1) tc = reify (h_str h) tc) by (apply E1; by apply (nodes_G_F G pcs t td _ tc Ht), elem_mid).
      pose proof (V2 fv ps (Hfv fc ltac:(by left))) as V2'. rewrite Efc, Etc in V2'. rewrite V2'. cbn [bind].
      assert (Efc' : reify (h_str h1) fc' = reify (h_str h) fc').
      { apply reify_frame. intros b Hb. unfold h1. rewrite wrB_str, lookup_insert_ne; [done|]. intros <-.
        destruct A2 as (_ & _ & _ & (_ & _ & Hno & _)). apply Hno.
        apply (str_blocks_in_owned _ fc' B (mi_own _ _ I2)); [|done]. by apply (node_G_F G2 X _ _ _ Hfc2). }
      assert (Etc' : reify (h_str h1) tc' = reify (h_str h) tc').
      { apply reify_frame. intros b Hb. unfold h1. rewrite wrB_str, lookup_insert_ne; [done|]. intros <-.
        destruct A2 as (_ & _ & _ & (_ & _ & Hno & _)). apply Hno.
        apply (str_blocks_in_owned _ tc' B (mi_own _ _ I2)); [|done]. by apply (node_G_F G2 X _ _ _ Htc2). }
      rewrite Efc', Etc'.
      (* the rest of the chains, read in the heap before the call *)
      pose proof (Step_trans _ _ _ _ _ _ _ I S1 (Step_B _ _ _ _ S2)) as S02.
      assert (FrA : Frame G G3 (ids (fc :: rf) ++ ids (tc :: rt))).
      { apply (Frame_trans G G2 G3).
        - apply (Frame_mono _ _ _ _ Fr2). intros z Hz. rewrite !ids_cons.
          apply elem_of_app in Hz as [Hz|Hz]; apply elem_of_app; [left|right]; apply elem_of_app; by left.
        - apply (Frame_mono _ _ _ _ Fr3). intros z Hz. rewrite !ids_cons.
          apply elem_of_app in Hz as [Hz|Hz]; apply elem_of_app; [left|right]; apply elem_of_app; by right. }
      pose proof (Step_KeepO_G _ _ _ _ _ _ _ _ _ S02 Fr2) as K02.
      pose proof (MInv_own_G _ _ _ _ I) as OwnG. pose proof (MInv_own_G _ _ _ _ I3) as OwnG3.
      pose proof (reify_keep_frame_list h h2 G G [] rf (Frame_refl _ _) OwnG
                    ltac:(intros c Hc; apply (children_nodes_G G f fd _ c Hf); apply elem_of_app; right; by right) K02) as R1.
      pose proof (reify_keep_frame_list h h2 G G [] rt (Frame_refl _ _) OwnG
                    ltac:(intros c Hc; apply (children_nodes_G G t td _ c Ht); apply elem_of_app; right; by right) K02) as R2.
      pose proof (reify_keep_frame_list h h2 G G3 _ rf' FrA OwnG3
                    ltac:(intros c Hc; apply (children_nodes_G G3 f fd _ c Hf3); apply elem_of_app; right; by right) K02) as R3.
      pose proof (reify_keep_frame_list h h2 G G3 _ rt' FrA OwnG3
                    ltac:(intros c Hc; apply (children_nodes_G G3 t td _ c Ht3); apply elem_of_app; right; by right) K02) as R4.
      specialize (V3 fv (ps ++ map (reify (h_str h2)) pnew1) ltac:(intros c Hc; apply Hfv; by right)).
      rewrite R1, R2, R3, R4 in V3. replace (index + 1) with (Z.of_nat (length (pre_f ++ [fc']))) by (rewrite <- Eidx; by rewrite size_succ_small).
      rewrite V3. cbn [bind]. rewrite <- app_assoc, map_app.
      rewrite (reify_members_sub [B] h2 (G2 ++ X) x d (pcs ++ pnew1) h3 (G3 ++ X) pnew2 pnew1 I2 I3 S3); [reflexivity|].
      intros c Hc. apply elem_of_app. by right.
  Qed.
End Arr.

(** * the [new_path] of a member: cJSON_malloc, sprintf("%s/"), encode_string_as_pointer *)
Lemma build_path h F path pnm key knm :
  MInv h F -> CsReads h path pnm -> CsReads h key knm ->
  let enc := PointerDefs.encode_string_as_pointer knm in
  let full := pnm ++ [47] ++ enc in
  let B := h_next h in
  let nb := (length pnm + PointerDefs.pointer_encoded_length knm + 2)%nat in
  let buf := repeat junk nb in
  let h1 := alloc_str h buf in
  exists buf1,
    let h2 := wrB h1 B buf1 in
    let h3 := wrB h1 B (full ++ [0]) in
    sprintf_s_slash (CAt B 0) path h1 = Ret (tt, h2) /\
    encode_string_as_pointer (CAt B (length pnm + 1)) key h2 = Ret (tt, h3) /\
    MInv h1 F /\ MInv h2 F /\ MInv h3 F /\ Tmp h3 F B nb /\ Step [B] h1 F h3 F /\
    CsReads h3 (CAt B 0) full /\
    (forall b, b <> B -> h_str h2 !! b = h_str h !! b) /\ (forall b, b <> B -> h_str h3 !! b = h_str h !! b) /\
    (forall b, b ∈ h_live h -> b ∈ h_live h2) /\ B ∉ owned F.
Proof.
  intros I Hp Hs enc full B nb buf h1.
  destruct (Tmp_alloc h F buf I) as [I1 T1]. fold h1 B in I1, T1.
  destruct T1 as (HBl & HBo & HBn & _).
  assert (HBs : h_str h1 !! B = Some buf) by (cbn; by rewrite lookup_insert).
  assert (Hblk : forall c nm0 b off, CsReads h c nm0 -> c = CAt b off -> b <> B).
  { intros c nm0 b off Hc -> ->. destruct Hc as [Hl _]. pose proof (MInv_live_below _ _ I _ Hl). unfold B in *. lia. }
  assert (Htr : forall c nm0, CsReads h c nm0 -> CsReads h1 c nm0).
  { intros c nm0 Hc. apply (CsReads_transfer h h1 c nm0 Hc). intros b off E. split.
    - cbn. rewrite lookup_insert_ne; [done|]. intros <-. by apply (Hblk c nm0 B off Hc E).
    - destruct c as [| |]; try done. injection E as -> ->. destruct Hc as [Hl _]. cbn. set_solver. }
  pose proof (Htr _ _ Hp) as Hp1. pose proof (Htr _ _ Hs) as Hs1.
  assert (Hlen_enc : PointerDefs.pointer_encoded_length knm = length enc) by reflexivity.
  assert (Hbuf : length buf = nb) by (unfold buf; by rewrite repeat_length).
  set (buf1 := pnm ++ [47; 0] ++ drop (length pnm + 2) buf).
  exists buf1. intros h2 h3.
  assert (Hrun_sp : sprintf_s_slash (CAt B 0) path h1 = Ret (tt, h2)).
  { apply (run_sprintf_s_slash h1 B buf path pnm HBl HBo HBs Hp1). rewrite Hbuf. unfold nb. lia. }
  assert (Hlen1 : length buf1 = nb).
  { unfold buf1. rewrite !app_length, drop_length, Hbuf. cbn [length]. unfold nb. lia. }
  assert (Hs2 : CsReads h2 key knm).
  { apply (CsReads_wrB h1 B key knm buf1 Hs1). intros off E. by apply (Hblk key knm B off Hs E). }
  set (off := (length pnm + 1)%nat).
  set (buf2 := take off buf1 ++ enc ++ 0 :: drop (off + length enc + 1) buf1).
  assert (Hrun_enc : encode_string_as_pointer (CAt B off) key h2 = Ret (tt, wrB h2 B buf2)).
  { apply (encode_string_as_pointer_refines h2 B buf1 off key knm); [exact HBl|exact HBo|apply lookup_insert|exact Hs2| |].
    - intros o E. by apply (Hblk key knm B o Hs E).
    - fold enc. rewrite Hlen1. unfold off, nb. rewrite Hlen_enc. lia. }
  assert (E2 : buf2 = full ++ [0]).
  { unfold buf2, buf1, off, full. replace (pnm ++ [47; 0] ++ drop (length pnm + 2) buf) with ((pnm ++ [47]) ++ 0 :: drop (length pnm + 2) buf) by (by rewrite <- app_assoc).
    rewrite (take_app_exact (pnm ++ [47])) by (rewrite app_length; cbn; lia).
    rewrite drop_ge; [by rewrite <- !app_assoc|].
    rewrite app_length, app_length. cbn [length]. rewrite drop_length, Hbuf. unfold nb. rewrite Hlen_enc. lia. }
  assert (Eh3 : wrB h2 B buf2 = h3) by (unfold h3, h2; rewrite wrB_wrB; by rewrite E2).
  assert (Hlen2 : length (full ++ [0]) = length buf).
  { rewrite Hbuf. unfold full, nb. rewrite !app_length. cbn [length]. fold enc. rewrite Hlen_enc. lia. }
  assert (I2 : MInv h2 F) by (apply MInv_wrB; [done|done|by exists buf]).
  assert (I3 : MInv h3 F) by (apply MInv_wrB; [done|done|by exists buf]).
  assert (Hzfull : SortSpec.zfree full).
  { unfold full. apply Forall_app. split; [by eapply CsReads_zfree|]. apply Forall_app. split; [repeat constructor; done|].
    apply zfree_encode. by eapply CsReads_zfree. }
  split; [exact Hrun_sp|]. split; [by rewrite <- Eh3|]. split; [exact I1|]. split; [exact I2|]. split; [exact I3|].
  split.
  { split; [exact HBl|]. split; [exact HBo|]. split; [exact HBn|]. exists (full ++ [0]). split; [apply lookup_insert|]. by rewrite Hlen2, Hbuf. }
  split; [apply (Step_write [B] h1 F B (full ++ [0]) buf); [by left|done|done|done]|].
  split.
  { split; [exact HBl|]. exists (full ++ [0]). split; [apply lookup_insert|]. rewrite drop_0. split.
    - rewrite existsb_app. cbn. by rewrite orb_true_r.
    - symmetry. by apply (cstr_app_zero full []). }
  split; [intros b Hb; unfold h2; rewrite wrB_str, lookup_insert_ne by done; cbn; by rewrite lookup_insert_ne|].
  split; [intros b Hb; unfold h3; rewrite wrB_str, lookup_insert_ne by done; cbn; by rewrite lookup_insert_ne|].
  split; [intros b Hb; cbn; set_solver|exact HBn].
Qed.

(** * [case cJSON_Object]: the merge walk over the two sorted member chains *)
Section Obj.
  Context (flag : bool) (df lf : nat) (X : forest) (x : positive) (d : rdata).
  Hypothesis IH : cp_spec df lf flag.
  Context (f t : positive) (fd td : rdata).
  Context (path : cstring) (pnm : bytes).
  Notation rec := (fun p a b => create_patches_fuel nofail df lf (Some x) p a b flag).
  Notation FF G pcs := ((G ++ X) ++ [T x d pcs]).
  Notation vrec fv := (fun ps p a b => PatchDefs.create_patches fv ps p a b flag).

  Definition OState (h : heap) (G : forest) (pcs : list tree) : Prop :=
    MInv h (FF G pcs) /\ CsReads h path pnm /\ path_ok [] (FF G pcs) path.

  Lemma OState_step h G pcs h' G' pcs' :
    OState h G pcs -> MInv h' (FF G' pcs') -> Step [] h (FF G pcs) h' (FF G' pcs') -> OState h' G' pcs'.
  Proof.
    intros (I & Hp & Hok) I' S. split; [done|]. split; [exact (path_reads _ _ _ _ _ _ _ I' S Hok Hp)|].
    exact (path_ok_step _ _ _ _ _ _ _ I S Hp Hok).
  Qed.

  Definition okfo (c : tree) : Prop :=
    (tsize c <= df)%nat /\ gdoc c /\ rd_key (tdata c) <> None /\ Z.of_nat (tsize c) <= PointerDefs.SIZE_MAX.
  Definition okto (c : tree) : Prop := gdoc c /\ rd_key (tdata c) <> None /\ (height c <= LIMIT)%nat.

  Definition walk_stmt (n : nat) : Prop := forall rest_f rest_t pre_f pre_t h G pcs,
    (length rest_f + length rest_t < n)%nat -> OState h G pcs ->
    find_tree f G = Some (T f fd (pre_f ++ rest_f)) -> find_tree t G = Some (T t td (pre_t ++ rest_t)) ->
    tdisj (T f fd (pre_f ++ rest_f)) (T t td (pre_t ++ rest_t)) ->
    (tsize (T f fd (pre_f ++ rest_f)) + tsize (T t td (pre_t ++ rest_t)) < lf)%nat ->
    (forall c, c ∈ rest_f -> okfo c) -> (forall c, c ∈ rest_t -> okto c) ->
    exists h' G' pnew rest_f' rest_t',
      cp_walk_loop nofail rec (Some x) path flag n ((tid <$> (pre_f ++ rest_f)) !! length pre_f) ((tid <$> (pre_t ++ rest_t)) !! length pre_t) h = Ret (tt, h') /\
      OState h' G' (pcs ++ pnew) /\ Step [] h (FF G pcs) h' (FF G' (pcs ++ pnew)) /\
      Frame G G' (ids rest_f ++ ids rest_t) /\
      find_tree f G' = Some (T f fd (pre_f ++ rest_f')) /\ find_tree t G' = Some (T t td (pre_t ++ rest_t')) /\
      Forall2 treord rest_f rest_f' /\ Forall2 treord rest_t rest_t' /\
      forall fv ps (g : nat), (forall c, c ∈ rest_f -> (height c < fv)%nat) -> (length rest_f + length rest_t < g)%nat ->
        PatchDefs.cp_walk (vrec fv) pnm flag g ps (map (reify (h_str h)) rest_f) (map (reify (h_str h)) rest_t) =
        Ok (ps ++ map (reify (h_str h')) pnew, map (reify (h_str h)) rest_f', map (reify (h_str h)) rest_t').

  (** the name of a member as a string argument *)
  Lemma key_arg h G pcs p dd cs c :
    MInv h (FF G pcs) -> find_tree p G = Some (T p dd cs) -> c ∈ cs -> rd_key (tdata c) <> None ->
    exists kb knm,
      get_key (Some (tid c)) h = Ret (Some kb, h) /\ CsReads h (CAt kb 0) knm /\
      Tree.n_key (reify (h_str h) c) = Some knm /\ cs_good (G ++ X) (FF G pcs) (CAt kb 0) /\ rd_key (tdata c) = Some kb.
  Proof.
    intros I Hp Hc Hk. pose proof (mi_wf _ _ I) as W. pose proof (nodup_ids_ll _ _ _ _ W) as NDG.
    pose proof (find_tree_child G p dd cs c NDG Hp Hc) as Hfc. destruct c as [ci dc ccs]. cbn [tid tdata] in *.
    destruct (node_key_facts h _ ci dc ccs I (find_G_F G X _ ci _ Hfc) Hk) as (kb & sn & Ek & Hkl & Hks & Hkz & Rk & Vk).
    exists kb, (cstr sn). split; [exact Rk|]. split; [by apply CsReads_block|]. split; [exact Vk|]. split; [|exact Ek].
    intros b off [= <- _]. left.
    assert (Hn : T ci dc ccs ∈ nodes (G ++ X)) by (apply node_in_app_l; by apply find_tree_Some in Hfc as [? _]).
    apply (str_owned (G ++ X) (ci, dc) kb (datas_of_node _ _ Hn)); [|by right].
    apply (mi_own _ _ I). apply datas_elem_app. left. exact (datas_of_node _ _ Hn).
  Qed.

  Section Step.
    Context (n' : nat).
    Hypothesis IHn : walk_stmt n'.
    Context (h : heap) (G : forest) (pcs : list tree).
    Hypothesis A : OState h G pcs.
    Let I : MInv h (FF G pcs) := proj1 A.

    (** object element doesn't exist in 'to' --> remove it *)
    Lemma walk_remove fc rf rest_t pre_f pre_t :
      (length rf + length rest_t < n')%nat ->
      find_tree f G = Some (T f fd (pre_f ++ fc :: rf)) -> find_tree t G = Some (T t td (pre_t ++ rest_t)) ->
      tdisj (T f fd (pre_f ++ fc :: rf)) (T t td (pre_t ++ rest_t)) ->
      (tsize (T f fd (pre_f ++ fc :: rf)) + tsize (T t td (pre_t ++ rest_t)) < lf)%nat ->
      (forall c, c ∈ fc :: rf -> okfo c) -> (forall c, c ∈ rest_t -> okto c) ->
      exists h' G' pnew rf' rest_t',
        (k <~ get_key (Some (tid fc)) ;;
         compose_patch nofail (Some x) (CLit s_remove) path (cs_of_ptr k) None ;;;
         nf <~ get_next (Some (tid fc)) ;;
         cp_walk_loop nofail rec (Some x) path flag n' nf ((tid <$> (pre_t ++ rest_t)) !! length pre_t)) h = Ret (tt, h') /\
        OState h' G' (pcs ++ pnew) /\ Step [] h (FF G pcs) h' (FF G' (pcs ++ pnew)) /\
        Frame G G' (ids (fc :: rf) ++ ids rest_t) /\
        find_tree f G' = Some (T f fd (pre_f ++ fc :: rf')) /\ find_tree t G' = Some (T t td (pre_t ++ rest_t')) /\
        Forall2 treord rf rf' /\ Forall2 treord rest_t rest_t' /\
        forall fv ps (g : nat), (forall c, c ∈ rf -> (height c < fv)%nat) -> (length rf + length rest_t < g)%nat ->
          (' (ps2, lf2, lt2) <- PatchDefs.cp_walk (vrec fv) pnm flag g
                                 (PatchDefs.compose_patch ps s_remove pnm (Tree.n_key (reify (h_str h) fc)) None)
                                 (map (reify (h_str h)) rf) (map (reify (h_str h)) rest_t) ;;
           Ok (ps2, reify (h_str h) fc :: lf2, lt2)) =
          Ok (ps ++ map (reify (h_str h')) pnew, reify (h_str h) fc :: map (reify (h_str h)) rf', map (reify (h_str h)) rest_t').
    Proof.
      intros Hn Hf Ht Hdis Hsz Hrf Hrt. pose proof A as (_ & Hp & Hok).
      destruct (Hrf fc ltac:(by left)) as (_ & _ & Kfc & _).
      destruct (key_arg h G pcs f fd _ fc I Hf (elem_mid pre_f fc rf) Kfc) as (kb & knm & Rk & Hck & Vk & Gk & _).
      rewrite (bindM_Ret _ _ _ _ _ Rk). cbn [cs_of_ptr].
      destruct (compose_patch_sim h (G ++ X) x d pcs (CLit s_remove) path (CAt kb 0) s_remove pnm (Some knm) None I
                  ltac:(split; [done|apply zfree_lits]) Hp Hck (cs_good_lit _ _ _) (path_ok_good _ _ _ Hok) Gk ltac:(by intros tv))
        as (h2 & m & Hrun2 & I2 & S2 & V2).
      cbn [fmap option_fmap option_map] in Hrun2, V2. rewrite (bindM_Ret _ _ _ _ _ Hrun2).
      pose proof (OState_step h G pcs h2 G (pcs ++ [m]) A I2 S2) as A2.
      pose proof (mi_wf _ _ I2) as W2.
      pose proof (find_tree_flat _ _ _ _ (find_G_F G X [T x d (pcs ++ [m])] f _ Hf)) as Hflat.
      rewrite (bindM_Ret _ _ _ _ _ (chain_get_next h2 _ f fd _ (length pre_f) (tid fc) W2 Hflat (lookup_mid_tid pre_f fc rf))).
      assert (Ef : pre_f ++ fc :: rf = (pre_f ++ [fc]) ++ rf) by (by rewrite <- app_assoc).
      assert (Elf : S (length pre_f) = length (pre_f ++ [fc])) by (rewrite app_length; cbn; lia).
      rewrite Ef, Elf. rewrite Ef in Hf, Hdis, Hsz.
      destruct (IHn rf rest_t (pre_f ++ [fc]) pre_t h2 G (pcs ++ [m]) Hn A2 Hf Ht Hdis Hsz
                  ltac:(intros c Hc; apply Hrf; by right) Hrt)
        as (h' & G' & pnew' & rf' & rt' & Hrun & A' & S' & Fr' & Hf' & Ht' & Rf' & Rt' & V').
      exists h', G', (m :: pnew'), rf', rt'.
      assert (Ep : (pcs ++ [m]) ++ pnew' = pcs ++ m :: pnew') by (by rewrite <- app_assoc).
      assert (Ef' : (pre_f ++ [fc]) ++ rf' = pre_f ++ fc :: rf') by (by rewrite <- app_assoc).
      rewrite Ep in A', S'. rewrite Ef' in Hf'. pose proof A' as (I' & _).
      split; [exact Hrun|]. split; [exact A'|]. split; [exact (Step_trans _ _ _ _ _ _ _ I S2 S')|].
      split; [apply (Frame_mono _ _ _ _ Fr'); intros z Hz; rewrite ids_cons; apply elem_of_app in Hz as [Hz|Hz]; apply elem_of_app; [left; apply elem_of_app; by right|by right]|].
      split; [exact Hf'|]. split; [exact Ht'|]. split; [exact Rf'|]. split; [exact Rt'|].
      intros fv ps g Hfv Hg. rewrite Vk, (V2 ps).
      pose proof (Step_KeepO_G _ _ _ _ _ _ _ _ _ S2 (Frame_refl G [])) as K2G.
      pose proof (MInv_own_G _ _ _ _ I) as OwnG. pose proof (MInv_own_G _ _ _ _ I') as OwnG'.
      pose proof (reify_keep_frame_list h h2 G G [] rf (Frame_refl _ _) OwnG
                    ltac:(intros c Hc; apply (children_nodes_G G f fd _ c Hf); apply elem_of_app; by right) K2G) as E1.
      pose proof (reify_keep_frame_list h h2 G G [] rest_t (Frame_refl _ _) OwnG
                    ltac:(intros c Hc; apply (children_nodes_G G t td _ c Ht); apply elem_of_app; by right) K2G) as E2.
      pose proof (reify_keep_frame_list h h2 G G' _ rf' Fr' OwnG'
                    ltac:(intros c Hc; apply (children_nodes_G G' f fd _ c Hf'); apply elem_of_app; right; by right) K2G) as E3.
      pose proof (reify_keep_frame_list h h2 G G' _ rt' Fr' OwnG'
                    ltac:(intros c Hc; apply (children_nodes_G G' t td _ c Ht'); apply elem_of_app; by right) K2G) as E4.
      specialize (V' fv (ps ++ [reify (h_str h2) m]) g Hfv Hg). rewrite E1, E2, E3, E4 in V'. rewrite V'. cbn [bind].
      rewrite <- app_assoc. cbn [app map]. rewrite <- Ep in I', S'.
      by rewrite (reify_last_member [] h2 (G ++ X) x d pcs m h' (G' ++ X) pnew' I2 I' S').
    Qed.

    (** object element doesn't exist in 'from' --> add it *)
    Lemma walk_add tc rt rest_f pre_f pre_t :
      (length rest_f + length rt < n')%nat ->
      find_tree f G = Some (T f fd (pre_f ++ rest_f)) -> find_tree t G = Some (T t td (pre_t ++ tc :: rt)) ->
      tdisj (T f fd (pre_f ++ rest_f)) (T t td (pre_t ++ tc :: rt)) ->
      (tsize (T f fd (pre_f ++ rest_f)) + tsize (T t td (pre_t ++ tc :: rt)) < lf)%nat ->
      (forall c, c ∈ rest_f -> okfo c) -> (forall c, c ∈ tc :: rt -> okto c) ->
      exists h' G' pnew rest_f' rt',
        (k <~ get_key (Some (tid tc)) ;;
         compose_patch nofail (Some x) (CLit s_add) path (cs_of_ptr k) (Some (tid tc)) ;;;
         nt <~ get_next (Some (tid tc)) ;;
         cp_walk_loop nofail rec (Some x) path flag n' ((tid <$> (pre_f ++ rest_f)) !! length pre_f) nt) h = Ret (tt, h') /\
        OState h' G' (pcs ++ pnew) /\ Step [] h (FF G pcs) h' (FF G' (pcs ++ pnew)) /\
        Frame G G' (ids rest_f ++ ids (tc :: rt)) /\
        find_tree f G' = Some (T f fd (pre_f ++ rest_f')) /\ find_tree t G' = Some (T t td (pre_t ++ tc :: rt')) /\
        Forall2 treord rest_f rest_f' /\ Forall2 treord rt rt' /\
        forall fv ps (g : nat), (forall c, c ∈ rest_f -> (height c < fv)%nat) -> (length rest_f + length rt < g)%nat ->
          (' (ps2, lf2, lt2) <- PatchDefs.cp_walk (vrec fv) pnm flag g
                                 (PatchDefs.compose_patch ps s_add pnm (Tree.n_key (reify (h_str h) tc)) (Some (reify (h_str h) tc)))
                                 (map (reify (h_str h)) rest_f) (map (reify (h_str h)) rt) ;;
           Ok (ps2, lf2, reify (h_str h) tc :: lt2)) =
          Ok (ps ++ map (reify (h_str h')) pnew, map (reify (h_str h)) rest_f', reify (h_str h) tc :: map (reify (h_str h)) rt').
    Proof.
      intros Hn Hf Ht Hdis Hsz Hrf Hrt. pose proof A as (_ & Hp & Hok).
      destruct (Hrt tc ltac:(by left)) as (_ & Ktc & Htch).
      destruct (key_arg h G pcs t td _ tc I Ht (elem_mid pre_t tc rt) Ktc) as (kb & knm & Rk & Hck & Vk & Gk & _).
      rewrite (bindM_Ret _ _ _ _ _ Rk). cbn [cs_of_ptr].
      pose proof (mi_wf _ _ I) as W. pose proof (nodup_ids_ll _ _ _ _ W) as NDG.
      pose proof (find_tree_child G t td _ tc NDG Ht (elem_mid pre_t tc rt)) as Htc.
      destruct (compose_patch_sim h (G ++ X) x d pcs (CLit s_add) path (CAt kb 0) s_add pnm (Some knm) (Some tc) I
                  ltac:(split; [done|apply zfree_lits]) Hp Hck (cs_good_lit _ _ _) (path_ok_good _ _ _ Hok) Gk)
        as (h2 & m & Hrun2 & I2 & S2 & V2).
      { intros tv [= <-]. split; [by apply find_tree_app_l|done]. }
      cbn [fmap option_fmap option_map] in Hrun2, V2. rewrite (bindM_Ret _ _ _ _ _ Hrun2).
      pose proof (OState_step h G pcs h2 G (pcs ++ [m]) A I2 S2) as A2.
      pose proof (mi_wf _ _ I2) as W2.
      pose proof (find_tree_flat _ _ _ _ (find_G_F G X [T x d (pcs ++ [m])] t _ Ht)) as Hflat.
      rewrite (bindM_Ret _ _ _ _ _ (chain_get_next h2 _ t td _ (length pre_t) (tid tc) W2 Hflat (lookup_mid_tid pre_t tc rt))).
      assert (Et : pre_t ++ tc :: rt = (pre_t ++ [tc]) ++ rt) by (by rewrite <- app_assoc).
      assert (Elt : S (length pre_t) = length (pre_t ++ [tc])) by (rewrite app_length; cbn; lia).
      rewrite Et, Elt. rewrite Et in Ht, Hdis, Hsz.
      destruct (IHn rest_f rt pre_f (pre_t ++ [tc]) h2 G (pcs ++ [m]) Hn A2 Hf Ht Hdis Hsz Hrf
                  ltac:(intros c Hc; apply Hrt; by right))
        as (h' & G' & pnew' & rf' & rt' & Hrun & A' & S' & Fr' & Hf' & Ht' & Rf' & Rt' & V').
      exists h', G', (m :: pnew'), rf', rt'.
      assert (Ep : (pcs ++ [m]) ++ pnew' = pcs ++ m :: pnew') by (by rewrite <- app_assoc).
      assert (Et' : (pre_t ++ [tc]) ++ rt' = pre_t ++ tc :: rt') by (by rewrite <- app_assoc).
      rewrite Ep in A', S'. rewrite Et' in Ht'. pose proof A' as (I' & _).
      split; [exact Hrun|]. split; [exact A'|]. split; [exact (Step_trans _ _ _ _ _ _ _ I S2 S')|].
      split; [apply (Frame_mono _ _ _ _ Fr'); intros z Hz; rewrite ids_cons; apply elem_of_app in Hz as [Hz|Hz]; apply elem_of_app; [by left|right; apply elem_of_app; by right]|].
      split; [exact Hf'|]. split; [exact Ht'|]. split; [exact Rf'|]. split; [exact Rt'|].
      intros fv ps g Hfv Hg. rewrite Vk, (V2 ps).
      pose proof (Step_KeepO_G _ _ _ _ _ _ _ _ _ S2 (Frame_refl G [])) as K2G.
      pose proof (MInv_own_G _ _ _ _ I) as OwnG. pose proof (MInv_own_G _ _ _ _ I') as OwnG'.
      pose proof (reify_keep_frame_list h h2 G G [] rest_f (Frame_refl _ _) OwnG
                    ltac:(intros c Hc; apply (children_nodes_G G f fd _ c Hf); apply elem_of_app; by right) K2G) as E1.
      pose proof (reify_keep_frame_list h h2 G G [] rt (Frame_refl _ _) OwnG
                    ltac:(intros c Hc; apply (children_nodes_G G t td _ c Ht); apply elem_of_app; by right) K2G) as E2.
      pose proof (reify_keep_frame_list h h2 G G' _ rf' Fr' OwnG'
                    ltac:(intros c Hc; apply (children_nodes_G G' f fd _ c Hf'); apply elem_of_app; by right) K2G) as E3.
      pose proof (reify_keep_frame_list h h2 G G' _ rt' Fr' OwnG'
                    ltac:(intros c Hc; apply (children_nodes_G G' t td _ c Ht'); apply elem_of_app; right; by right) K2G) as E4.
      specialize (V' fv (ps ++ [reify (h_str h2) m]) g Hfv Hg). rewrite E1, E2, E3, E4 in V'. rewrite V'. cbn [bind].
      rewrite <- app_assoc. cbn [app map]. rewrite <- Ep in I', S'.
      by rewrite (reify_last_member [] h2 (G ++ X) x d pcs m h' (G' ++ X) pnew' I2 I' S').
    Qed.

    (** both object keys are the same: new_path, the recursive call, cJSON_free(new_path) *)
    Lemma walk_both fc rf tc rt pre_f pre_t :
      (length rf + length rt < n')%nat ->
      find_tree f G = Some (T f fd (pre_f ++ fc :: rf)) -> find_tree t G = Some (T t td (pre_t ++ tc :: rt)) ->
      tdisj (T f fd (pre_f ++ fc :: rf)) (T t td (pre_t ++ tc :: rt)) ->
      (tsize (T f fd (pre_f ++ fc :: rf)) + tsize (T t td (pre_t ++ tc :: rt)) < lf)%nat ->
      (forall c, c ∈ fc :: rf -> okfo c) -> (forall c, c ∈ tc :: rt -> okto c) ->
      exists h' G' pnew fcK tcK rf' rt',
        (path_length <~ c_strlen path ;;
         k <~ get_key (Some (tid fc)) ;;
         from_child_name_length <~ pointer_encoded_length (cs_of_ptr k) ;;
         new_path <~ cJSON_malloc nofail (repeat junk (path_length + from_child_name_length + 2)) ;;
         sprintf_s_slash (cs_of_ptr new_path) path ;;;
         k' <~ get_key (Some (tid fc)) ;;
         encode_string_as_pointer (cs_plus (cs_of_ptr new_path) (path_length + 1)) (cs_of_ptr k') ;;;
         rec (cs_of_ptr new_path) (Some (tid fc)) (Some (tid tc)) ;;;
         cJSON_free new_path ;;;
         nf <~ get_next (Some (tid fc)) ;;
         nt <~ get_next (Some (tid tc)) ;;
         cp_walk_loop nofail rec (Some x) path flag n' nf nt) h = Ret (tt, h') /\
        OState h' G' (pcs ++ pnew) /\ Step [] h (FF G pcs) h' (FF G' (pcs ++ pnew)) /\
        Frame G G' (ids (fc :: rf) ++ ids (tc :: rt)) /\
        find_tree f G' = Some (T f fd (pre_f ++ fcK :: rf')) /\ find_tree t G' = Some (T t td (pre_t ++ tcK :: rt')) /\
        treord fc fcK /\ treord tc tcK /\ Forall2 treord rf rf' /\ Forall2 treord rt rt' /\
        forall fv ps (g : nat) knm, Tree.n_key (reify (h_str h) fc) = Some knm ->
          (forall c, c ∈ fc :: rf -> (height c < fv)%nat) -> (length rf + length rt < g)%nat ->
          (' (ps1, x', y') <- vrec fv ps (pnm ++ [47] ++ PointerDefs.encode_string_as_pointer knm) (reify (h_str h) fc) (reify (h_str h) tc) ;;
           ' (ps2, lf2, lt2) <- PatchDefs.cp_walk (vrec fv) pnm flag g ps1 (map (reify (h_str h)) rf) (map (reify (h_str h)) rt) ;;
           Ok (ps2, x' :: lf2, y' :: lt2)) =
          Ok (ps ++ map (reify (h_str h')) pnew, reify (h_str h) fcK :: map (reify (h_str h)) rf', reify (h_str h) tcK :: map (reify (h_str h)) rt').
    Proof.
      intros Hn Hf Ht Hdis Hsz Hrf Hrt. pose proof A as (_ & Hp & Hok).
      pose proof (mi_wf _ _ I) as W. pose proof (nodup_ids_ll _ _ _ _ W) as NDG.
      pose proof (find_tree_child G f fd _ fc NDG Hf (elem_mid pre_f fc rf)) as Hfc.
      pose proof (find_tree_child G t td _ tc NDG Ht (elem_mid pre_t tc rt)) as Htc.
      destruct (Hrf fc ltac:(by left)) as (Sfc & Gfc & Kfc & Mfc). destruct (Hrt tc ltac:(by left)) as (Gtc & Ktc & Htch).
      assert (Hdxy : tdisj fc tc) by (eapply tdisj_children; [exact Hdis|apply elem_mid|apply elem_mid]).
      pose proof (tsize_child_lt f fd _ fc (elem_mid pre_f fc rf)) as Hx1.
      pose proof (tsize_child_lt t td _ tc (elem_mid pre_t tc rt)) as Hy1.
      destruct (key_arg h G pcs f fd _ fc I Hf (elem_mid pre_f fc rf) Kfc) as (kb & knm0 & Rk & Hck & Vk & Gk & Ekb).
      rewrite (bindM_Ret _ _ _ _ _ (run_c_strlen h path pnm Hp)). rewrite (bindM_Ret _ _ _ _ _ Rk). cbn [cs_of_ptr].
      rewrite (bindM_Ret _ _ _ _ _ (pointer_encoded_length_refines h (CAt kb 0) knm0 Hck)).
      rewrite (bindM_Ret _ _ _ _ _ (run_malloc_nofail _ h)). cbn [cs_of_ptr cs_plus Nat.add].
      destruct (build_path h (FF G pcs) path pnm (CAt kb 0) knm0 I Hp Hck)
        as (buf1 & Hrun_sp & Hrun_enc & I1 & I2 & I3 & T3 & Sw & HcB & Hsame2 & Hsame3 & Hlive2 & HBn).
      set (B := h_next h) in *. set (full := pnm ++ [47] ++ PointerDefs.encode_string_as_pointer knm0) in *.
      set (nb := (length pnm + PointerDefs.pointer_encoded_length knm0 + 2)%nat) in *.
      set (buf := repeat junk nb) in *. set (h1 := alloc_str h buf) in *.
      set (h2 := wrB h1 B buf1) in *. set (h3 := wrB h1 B (full ++ [0])) in *.
      rewrite (bindM_Ret _ _ _ _ _ Hrun_sp).
      assert (Rk2 : get_key (Some (tid fc)) h2 = Ret (Some kb, h2)).
      { destruct fc as [ci dc ccs]. cbn [tid tdata] in *.
        rewrite (run_get_key_node h2 _ ci dc ccs (mi_wf _ _ I2) (find_G_F G X _ ci _ Hfc)). by rewrite Ekb. }
      rewrite (bindM_Ret _ _ _ _ _ Rk2). cbn [cs_of_ptr]. rewrite (bindM_Ret _ _ _ _ _ Hrun_enc).
      (* the recursive call, with [new_path] as the path *)
      destruct (IH fc tc h3 G X x d pcs (CAt B 0) full Sfc) as (h4 & G4 & pnew1 & fc' & tc' & Hrun4 & I4 & S4 & Fr4 & Hfc4 & Htc4 & Rf4 & Rt4 & V4).
      { split; [exact I3|]. split; [exact Hfc|]. split; [exact Htc|]. split; [exact Hdxy|]. split; [lia|]. split; [exact Gfc|].
        split; [exact Gtc|]. split; [exact Htch|]. split; [exact Mfc|]. split; [exact HcB|].
        intros b off [= <- _]. split; [exact HBn|by intros ?%elem_of_nil]. }
      rewrite (bindM_Ret _ _ _ _ _ Hrun4).
      pose proof (Tmp_step [] h3 _ h4 _ B nb I3 S4 T3) as T4.
      destruct (Tmp_free h4 _ B nb I4 T4) as [Hrun5 I5]. rewrite (bindM_Ret _ _ _ _ _ Hrun5).
      set (h5 := free1 B h4) in *.
      assert (S05 : Step [] h (FF G pcs) h5 (FF G4 (pcs ++ pnew1))).
      { apply (Step_bracket [] h _ buf h4 _ I). apply (Step_trans [B] h1 _ h3 _ h4 _ I1 Sw).
        apply (Step_mono [] [B]); [by intros b Hb%elem_of_nil|exact S4]. }
      pose proof (OState_step h G pcs h5 G4 (pcs ++ pnew1) A I5 S05) as A5.
      pose proof (mi_wf _ _ I5) as W5. pose proof (nodup_ids_ll _ _ _ _ W5) as NDG4.
      destruct (frame_parents G G4 f fd pre_f fc fc' rf t td pre_t tc tc' rt Fr4 NDG NDG4 Hf Ht Hdis Hfc4 Htc4
                  (treord_tid _ _ Rf4) (treord_tid _ _ Rt4)) as [Hf4 Ht4].
      pose proof (find_tree_flat _ _ _ _ (find_G_F G4 X [T x d (pcs ++ pnew1)] f _ Hf4)) as Hflf.
      pose proof (find_tree_flat _ _ _ _ (find_G_F G4 X [T x d (pcs ++ pnew1)] t _ Ht4)) as Hflt.
      rewrite (bindM_Ret _ _ _ _ _ (chain_get_next h5 _ f fd _ (length pre_f) (tid fc) W5 Hflf
                 ltac:(rewrite <- (treord_tid _ _ Rf4); apply lookup_mid_tid))).
      rewrite (bindM_Ret _ _ _ _ _ (chain_get_next h5 _ t td _ (length pre_t) (tid tc) W5 Hflt
                 ltac:(rewrite <- (treord_tid _ _ Rt4); apply lookup_mid_tid))).
      assert (Ef : pre_f ++ fc' :: rf = (pre_f ++ [fc']) ++ rf) by (by rewrite <- app_assoc).
      assert (Et : pre_t ++ tc' :: rt = (pre_t ++ [tc']) ++ rt) by (by rewrite <- app_assoc).
      assert (Elf : S (length pre_f) = length (pre_f ++ [fc'])) by (rewrite app_length; cbn; lia).
      assert (Elt : S (length pre_t) = length (pre_t ++ [tc'])) by (rewrite app_length; cbn; lia).
      pose proof (treord_replace_child f fd pre_f fc fc' rf Rf4) as RF.
      pose proof (treord_replace_child t td pre_t tc tc' rt Rt4) as RT.
      rewrite Ef, Et, Elf, Elt. rewrite Ef in Hf4, RF. rewrite Et in Ht4, RT.
      destruct (IHn rf rt (pre_f ++ [fc']) (pre_t ++ [tc']) h5 G4 (pcs ++ pnew1) Hn A5 Hf4 Ht4
                  (tdisj_treord _ _ _ _ Hdis RF RT)
                  ltac:(rewrite (treord_tsize _ _ RF), (treord_tsize _ _ RT); exact Hsz)
                  ltac:(intros c Hc; apply Hrf; by right) ltac:(intros c Hc; apply Hrt; by right))
        as (h' & G' & pnew2 & rf' & rt' & Hrun & A' & S' & Fr' & Hf' & Ht' & Rf' & Rt' & V').
      pose proof A' as (I' & _).
      assert (Ef' : (pre_f ++ [fc']) ++ rf' = pre_f ++ fc' :: rf') by (by rewrite <- app_assoc).
      assert (Et' : (pre_t ++ [tc']) ++ rt' = pre_t ++ tc' :: rt') by (by rewrite <- app_assoc).
      rewrite Ef' in Hf'. rewrite Et' in Ht'.
      assert (FrA : Frame G G' (ids (fc :: rf) ++ ids (tc :: rt))).
      { apply (Frame_trans G G4 G').
        - apply (Frame_mono _ _ _ _ Fr4). intros z Hz. rewrite !ids_cons.
          apply elem_of_app in Hz as [Hz|Hz]; apply elem_of_app; [left|right]; apply elem_of_app; by left.
        - apply (Frame_mono _ _ _ _ Fr'). intros z Hz. rewrite !ids_cons.
          apply elem_of_app in Hz as [Hz|Hz]; apply elem_of_app; [left|right]; apply elem_of_app; by right. }
      exists h', G', (pnew1 ++ pnew2), fc', tc', rf', rt'. rewrite app_assoc.
      split; [exact Hrun|]. split; [exact A'|]. split; [exact (Step_trans _ _ _ _ _ _ _ I S05 S')|]. split; [exact FrA|].
      split; [exact Hf'|]. split; [exact Ht'|]. split; [exact Rf4|]. split; [exact Rt4|]. split; [exact Rf'|]. split; [exact Rt'|].
      intros fv ps g knm Eknm Hfv Hg. rewrite Vk in Eknm. injection Eknm as <-. fold full.
      (* reading through the heaps that differ at [B] only *)
      assert (Hr3 : forall c F0, MInv h3 F0 \/ MInv h4 F0 -> B ∉ owned F0 -> c ∈ nodes F0 -> reify (h_str h3) c = reify (h_str h) c).
      { intros c F0 HI HnB Hc. apply reify_frame. intros b Hb. apply Hsame3. intros ->. apply HnB.
        destruct HI as [HI|HI]; by apply (str_blocks_in_owned F0 c B (mi_own _ _ HI)). }
      destruct T4 as (_ & _ & HBn4 & _).
      pose proof (V4 fv ps (Hfv fc ltac:(by left))) as V4'.
      rewrite (Hr3 fc _ (or_introl I3) HBn (node_G_F G X _ _ _ Hfc)), (Hr3 tc _ (or_introl I3) HBn (node_G_F G X _ _ _ Htc)) in V4'.
      rewrite (Hr3 fc' _ (or_intror I4) HBn4 (node_G_F G4 X _ _ _ Hfc4)), (Hr3 tc' _ (or_intror I4) HBn4 (node_G_F G4 X _ _ _ Htc4)) in V4'.
      rewrite V4'. cbn [bind].
      pose proof (Step_KeepO_G _ _ _ _ _ _ _ _ _ S05 Fr4) as K05.
      pose proof (MInv_own_G _ _ _ _ I) as OwnG. pose proof (MInv_own_G _ _ _ _ I') as OwnG'.
      pose proof (reify_keep_frame_list h h5 G G [] rf (Frame_refl _ _) OwnG
                    ltac:(intros c Hc; apply (children_nodes_G G f fd _ c Hf); apply elem_of_app; right; by right) K05) as E1.
      pose proof (reify_keep_frame_list h h5 G G [] rt (Frame_refl _ _) OwnG
                    ltac:(intros c Hc; apply (children_nodes_G G t td _ c Ht); apply elem_of_app; right; by right) K05) as E2.
      pose proof (reify_keep_frame_list h h5 G G' _ rf' FrA OwnG'
                    ltac:(intros c Hc; apply (children_nodes_G G' f fd _ c Hf'); apply elem_of_app; right; by right) K05) as E3.
      pose proof (reify_keep_frame_list h h5 G G' _ rt' FrA OwnG'
                    ltac:(intros c Hc; apply (children_nodes_G G' t td _ c Ht'); apply elem_of_app; right; by right) K05) as E4.
      specialize (V' fv (ps ++ map (reify (h_str h4)) pnew1) g ltac:(intros c Hc; apply Hfv; by right) Hg).
      rewrite E1, E2, E3, E4 in V'. rewrite V'. cbn [bind]. rewrite <- app_assoc, map_app.
      assert (E45 : map (reify (h_str h5)) pnew1 = map (reify (h_str h4)) pnew1).
      { apply map_ext_in. intros c Hc. apply elem_of_list_In in Hc. apply reify_frame. intros b Hb. unfold h5. cbn.
        rewrite lookup_delete_ne; [done|]. intros <-. apply HBn4.
        apply (str_blocks_in_owned _ c B (mi_own _ _ I4)); [|done]. apply arr_member_nodes. apply elem_of_app. by right. }
      rewrite (reify_members_sub [] h5 (G4 ++ X) x d (pcs ++ pnew1) h' (G' ++ X) pnew2 pnew1 I5 I' S'), E45; [reflexivity|].
      intros c Hc. apply elem_of_app. by right.
    Qed.
  End Step.

  Lemma walk_sim : forall n, walk_stmt n.
  Proof.
    induction n as [|n' IHn]; intros rest_f rest_t pre_f pre_t h G pcs Hn A Hf Ht Hdis Hsz Hrf Hrt; [lia|].
    pose proof A as (I & Hp & Hok).
    destruct rest_f as [|fc rf], rest_t as [|tc rt].
    - (* both chains ran out *)
      rewrite !lookup_end_tid. cbn [cp_walk_loop is_null negb orb].
      exists h, G, [], [], []. rewrite app_nil_r. split; [done|]. split; [done|]. split; [apply Step_refl|].
      split; [apply Frame_refl|]. split; [done|]. split; [done|]. split; [constructor|]. split; [constructor|].
      intros fv ps [|g] _ Hg; [cbn in Hg; lia|]. cbn [map]. rewrite cp_walk_nil_nil. by rewrite app_nil_r.
    - (* from ran out: diff = 1 *)
      cbn [length] in Hn. rewrite lookup_end_tid, lookup_mid_tid. cbn [cp_walk_loop is_null negb orb]. rewrite bindM_ret.
      change (1 =? 0) with false. change (1 <? 0) with false. cbv iota.
      destruct (walk_add n' IHn h G pcs A tc rt [] pre_f pre_t ltac:(cbn [length]; lia) Hf Ht Hdis Hsz Hrf Hrt)
        as (h' & G' & pnew & rf' & rt' & Hrun & A' & S' & Fr' & Hf' & Ht' & Rf' & Rt' & V').
      rewrite lookup_end_tid in Hrun. apply Forall2_nil_l_inv in Rf' as ->.
      exists h', G', pnew, [], (tc :: rt'). split; [exact Hrun|]. split; [done|]. split; [done|]. split; [done|].
      split; [done|]. split; [done|]. split; [constructor|]. split; [constructor; [apply treord_refl|done]|].
      intros fv ps [|g] Hfv Hg; [cbn in Hg; lia|]. cbn [map]. rewrite cp_walk_nil_cons. cbn [length] in Hg. exact (V' fv ps g Hfv ltac:(cbn [length]; lia)).
    - (* to ran out: diff = -1 *)
      cbn [length] in Hn. rewrite lookup_end_tid, lookup_mid_tid. cbn [cp_walk_loop is_null negb orb]. rewrite bindM_ret.
      change (-1 =? 0) with false. change (-1 <? 0) with true. cbv iota.
      destruct (walk_remove n' IHn h G pcs A fc rf [] pre_f pre_t ltac:(cbn [length]; lia) Hf Ht Hdis Hsz Hrf Hrt)
        as (h' & G' & pnew & rf' & rt' & Hrun & A' & S' & Fr' & Hf' & Ht' & Rf' & Rt' & V').
      rewrite lookup_end_tid in Hrun. apply Forall2_nil_l_inv in Rt' as ->.
      exists h', G', pnew, (fc :: rf'), []. split; [exact Hrun|]. split; [done|]. split; [done|]. split; [done|].
      split; [done|]. split; [done|]. split; [constructor; [apply treord_refl|done]|]. split; [constructor|].
      intros fv ps [|g] Hfv Hg; [cbn in Hg; lia|]. cbn [map]. rewrite cp_walk_cons_nil. cbn [length] in Hg.
      exact (V' fv ps g ltac:(intros c Hc; apply Hfv; by right) ltac:(cbn [length]; lia)).
    - (* a member on both sides: diff = compare_strings of the two names *)
      cbn [length] in Hn. rewrite !lookup_mid_tid. cbn [cp_walk_loop is_null negb orb].
      pose proof (mi_wf _ _ I) as W. pose proof (nodup_ids_ll _ _ _ _ W) as NDG.
      pose proof (find_tree_child G f fd _ fc NDG Hf (elem_mid pre_f fc rf)) as Hfc.
      pose proof (find_tree_child G t td _ tc NDG Ht (elem_mid pre_t tc rt)) as Htc.
      destruct (Hrf fc ltac:(by left)) as (_ & _ & Kfc & _). destruct (Hrt tc ltac:(by left)) as (_ & Ktc & _).
      destruct (key_arg h G pcs f fd _ fc I Hf (elem_mid pre_f fc rf) Kfc) as (kf & knf & Rkf & _ & Vkf & _ & Ekf).
      destruct (key_arg h G pcs t td _ tc I Ht (elem_mid pre_t tc rt) Ktc) as (kt & knt & Rkt & _ & Vkt & _ & Ekt).
      rewrite !bindM_assoc. rewrite (bindM_Ret _ _ _ _ _ Rkf). rewrite !bindM_assoc. rewrite (bindM_Ret _ _ _ _ _ Rkt).
      pose proof (run_compare_keys h _ I fc tc flag (node_G_F G X _ _ _ Hfc) (node_G_F G X _ _ _ Htc)) as Rcmp.
      rewrite Ekf, Ekt in Rcmp. rewrite (bindM_Ret _ _ _ _ _ Rcmp). rewrite <- !reify_key.
      set (diff := PatchDefs.compare_strings (Tree.n_key (reify (h_str h) fc)) (Tree.n_key (reify (h_str h) tc)) flag).
      destruct (diff =? 0) eqn:Ez.
      + (* the same name on both sides *)
        destruct (walk_both n' IHn h G pcs A fc rf tc rt pre_f pre_t ltac:(lia) Hf Ht Hdis Hsz Hrf Hrt)
          as (h' & G' & pnew & fcK & tcK & rf' & rt' & Hrun & A' & S' & Fr' & Hf' & Ht' & RfK & RtK & Rf' & Rt' & V').
        exists h', G', pnew, (fcK :: rf'), (tcK :: rt'). split; [exact Hrun|]. split; [done|]. split; [done|]. split; [done|].
        split; [done|]. split; [done|]. split; [by constructor|]. split; [by constructor|].
        intros fv ps [|g] Hfv Hg; [cbn in Hg; lia|]. cbn [map]. rewrite cp_walk_cons_cons. cbv zeta. fold diff. rewrite Ez.
        rewrite Vkf. cbn [length] in Hg. exact (V' fv ps g knf Vkf Hfv ltac:(lia)).
      + destruct (diff <? 0) eqn:Elt.
        * (* from-only member *)
          destruct (walk_remove n' IHn h G pcs A fc rf (tc :: rt) pre_f pre_t ltac:(cbn [length]; lia) Hf Ht Hdis Hsz Hrf Hrt)
            as (h' & G' & pnew & rf' & rt' & Hrun & A' & S' & Fr' & Hf' & Ht' & Rf' & Rt' & V').
          rewrite lookup_mid_tid in Hrun.
          exists h', G', pnew, (fc :: rf'), rt'. split; [exact Hrun|]. split; [done|]. split; [done|]. split; [done|].
          split; [done|]. split; [done|]. split; [constructor; [apply treord_refl|done]|]. split; [done|].
          intros fv ps [|g] Hfv Hg; [cbn in Hg; lia|]. cbn [map]. rewrite cp_walk_cons_cons. cbv zeta. fold diff. rewrite Ez, Elt.
          cbn [length] in Hg. exact (V' fv ps g ltac:(intros c Hc; apply Hfv; by right) ltac:(cbn [length]; lia)).
        * (* to-only member *)
          destruct (walk_add n' IHn h G pcs A tc rt (fc :: rf) pre_f pre_t ltac:(cbn [length]; lia) Hf Ht Hdis Hsz Hrf Hrt)
            as (h' & G' & pnew & rf' & rt' & Hrun & A' & S' & Fr' & Hf' & Ht' & Rf' & Rt' & V').
          rewrite lookup_mid_tid in Hrun.
          exists h', G', pnew, rf', (tc :: rt'). split; [exact Hrun|]. split; [done|]. split; [done|]. split; [done|].
          split; [done|]. split; [done|]. split; [done|]. split; [constructor; [apply treord_refl|done]|].
          intros fv ps [|g] Hfv Hg; [cbn in Hg; lia|]. cbn [map]. rewrite cp_walk_cons_cons. cbv zeta. fold diff. rewrite Ez, Elt.
          cbn [length] in Hg. exact (V' fv ps g Hfv ltac:(cbn [length]; lia)).
  Qed.
End Obj.

(** * the recursion *)
Lemma create_patches_fuel_S df lf patches path from to flag :
  create_patches_fuel nofail (S df) lf patches path from to flag =
  (if is_null from || is_null to then ret tt else
   tf <~ get_type from ;;
   tt' <~ get_type to ;;
   if negb (Z.land tf 255 =? Z.land tt' 255) then compose_patch nofail patches (CLit s_replace) path CNull to else
   sw <~ get_type from ;;
   let k := Z.land sw 255 in
   if k =? c_cJSON_Number then
     fi <~ get_vint from ;;
     ti <~ get_vint to ;;
     differ <~ (if negb (fi =? ti) then ret true
                else fd <~ get_vdbl from ;; td <~ get_vdbl to ;; ret (negb (compare_double fd td))) ;;
     if (differ : bool) then compose_patch nofail patches (CLit s_replace) path CNull to else ret tt
   else if k =? c_cJSON_String then
     fs <~ get_vstr from ;;
     ts <~ get_vstr to ;;
     c <~ c_strcmp fs ts ;;
     if negb (c =? 0) then compose_patch nofail patches (CLit s_replace) path CNull to else ret tt
   else if k =? c_cJSON_Array then
     from_child <~ get_child from ;;
     to_child <~ get_child to ;;
     path_length <~ c_strlen path ;;
     new_path <~ cJSON_malloc nofail (repeat junk (path_length + 20 + 2)) ;;
     let rec := fun p f t => create_patches_fuel nofail df lf patches p f t flag in
     r1 <~ cp_both_loop rec path new_path lf 0 from_child to_child ;;
     match r1 with
     | None => ret tt
     | Some (index, from_child, to_child) =>
         r2 <~ cp_remove_loop nofail patches path new_path lf index from_child ;;
         match r2 with
         | None => ret tt
         | Some _ => cp_add_loop nofail patches path lf index to_child ;;; cJSON_free new_path
         end
     end
   else if k =? c_cJSON_Object then
     SortDefs.sort_object lf from flag ;;;
     SortDefs.sort_object lf to flag ;;;
     from_child <~ get_child from ;;
     to_child <~ get_child to ;;
     cp_walk_loop nofail (fun p f t => create_patches_fuel nofail df lf patches p f t flag) patches path flag lf from_child to_child
   else ret tt).
Proof. reflexivity. Qed.

(** the heap-level sort of one operand: [step_sort] (frame) and [sort_step] (PatchDefs, liveness, tags) together *)
Lemma step_sort_p h G X o dd cs (flag : bool) (fuel : nat) :
  MInv h (G ++ X) -> find_tree o G = Some (T o dd cs) ->
  (forall c, c ∈ cs -> rd_key (tdata c) <> None) -> (length cs + 2 <= fuel)%nat ->
  let cs' := sort_children (h_str h) flag cs in
  let G' := set_children o cs' G in
  exists h', SortDefs.sort_object fuel (Some o) flag h = Ret (tt, h') /\
    MInv h' (G' ++ X) /\ Step [] h (G ++ X) h' (G' ++ X) /\ h_str h' = h_str h /\
    find_tree o G' = Some (T o dd cs') /\ Frame G G' [o] /\ cs' ≡ₚ cs /\
    PatchDefs.sort_object (reify (h_str h) (T o dd cs)) flag = Ok (reify (h_str h) (T o dd cs')).
Proof.
  intros I Ho Hk Hf cs' G'.
  destruct (step_sort h G X o dd cs flag fuel I Ho Hk ltac:(unfold SortDefs.sort_fuel; lia))
    as (h' & Hrun & I' & _ & Es & En & Ho' & Fr & HP & _).
  assert (Hkeys : Forall (has_key (h_str h)) cs).
  { apply Forall_forall. intros c Hc. apply (has_key_of_MInv h _ c I); [|by apply Hk].
    apply node_in_app_l. by apply (children_nodes_G G o dd cs c Ho). }
  destruct (sort_step h (G ++ X) o dd cs flag fuel I (find_tree_app_l o G X _ Ho) Hkeys Hf)
    as (h2 & Hrun2 & _ & _ & El & Eo & _ & Hv & _ & _).
  rewrite Hrun in Hrun2. injection Hrun2 as <-.
  exists h'. split; [exact Hrun|]. split; [exact I'|]. split; [|split; [exact Es|split; [exact Ho'|split; [exact Fr|split; [exact HP|exact Hv]]]]].
  apply Step_relink; try done. rewrite !owned_app. apply Permutation_app_tail. exact (Frame_owned _ _ _ Fr).
Qed.

Lemma reify_alloc_str h F c t : MInv h F -> t ∈ nodes F -> reify (h_str (alloc_str h c)) t = reify (h_str h) t.
Proof.
  intros I Ht. destruct (MInv_fresh_block _ _ I) as (Hno & _ & _). cbn [alloc_str h_str].
  exact (reify_temp (h_str h) (h_next h) c F t (mi_own _ _ I) Hno Ht).
Qed.

Theorem create_rec : forall df lf flag, cp_spec df lf flag.
Proof.
  induction df as [|df IHdf]; intros lf flag tf tu h G X x d pcs path pnm Hdf (I & Hf & Ht & Hdis & Hlf & Gf & Gt & Hh & Hmax & Hp & Hok).
  { pose proof (tsize_pos tf). lia. }
  destruct tf as [f fd fcs], tu as [t td tcs]. cbn [tid] in *.
  rewrite create_patches_fuel_S. cbn [is_null orb].
  pose proof (mi_wf _ _ I) as W. pose proof (nodup_ids_ll _ _ _ _ W) as NDG.
  pose proof (find_G_F G X [T x d pcs] f _ Hf) as HfF. pose proof (find_G_F G X [T x d pcs] t _ Ht) as HtF.
  destruct (MInv_node_facts h _ f fd fcs I HfF) as ([Hla Hda] & Hrefa & Rva & _).
  destruct (MInv_node_facts h _ t td tcs I HtF) as ([Hlb Hdb] & Hrefb & Rvb & _).
  pose proof (run_get_type_plain _ _ _ Hla Hda) as Rta. pose proof (run_get_type_plain _ _ _ Hlb Hdb) as Rtb.
  cbn [nd_type mk_dat] in Rta, Rtb.
  rewrite (bindM_Ret _ _ _ _ _ Rta), (bindM_Ret _ _ _ _ _ Rtb).
  (* the two ways out of a scalar comparison *)
  assert (Hreplace : (forall fv ps, (height (T f fd fcs) < fv)%nat ->
             PatchDefs.create_patches fv ps pnm (reify (h_str h) (T f fd fcs)) (reify (h_str h) (T t td tcs)) flag =
             Ok (PatchDefs.compose_patch ps s_replace pnm None (Some (reify (h_str h) (T t td tcs))),
                 reify (h_str h) (T f fd fcs), reify (h_str h) (T t td tcs))) ->
           cp_post flag h G X x d pcs pnm (T f fd fcs) (T t td tcs)
             (compose_patch nofail (Some x) (CLit s_replace) path CNull (Some t) h)).
  { intros Hv. exact (replace_case flag h G X x d pcs path pnm (T f fd fcs) (T t td tcs) I Hf Ht Hh Hp Hok Hv). }
  assert (Hstay : (forall fv ps, (height (T f fd fcs) < fv)%nat ->
             PatchDefs.create_patches fv ps pnm (reify (h_str h) (T f fd fcs)) (reify (h_str h) (T t td tcs)) flag =
             Ok (ps, reify (h_str h) (T f fd fcs), reify (h_str h) (T t td tcs))) ->
           cp_post flag h G X x d pcs pnm (T f fd fcs) (T t td tcs) (Ret (tt, h))).
  { intros Hv. exact (stay_case flag h G X x d pcs pnm (T f fd fcs) (T t td tcs) I Hf Ht Hv). }
  destruct (negb (Z.land (rd_type fd) 255 =? Z.land (rd_type td) 255)) eqn:Emis.
  { (* mismatched type *)
    apply Hreplace. intros [|fv] ps Hfv; [lia|]. rewrite create_patches_S. cbv zeta. rewrite !tymask_reify. by rewrite Emis. }
  rewrite (bindM_Ret _ _ _ _ _ Rta). cbv zeta.
  destruct (Z.land (rd_type fd) 255 =? c_cJSON_Number) eqn:Enum.
  { (* numbers *)
    rewrite (bindM_Ret _ _ _ _ _ (run_get_vint_plain h f _ (conj Hla Hda))).
    rewrite (bindM_Ret _ _ _ _ _ (run_get_vint_plain h t _ (conj Hlb Hdb))). cbn [nd_vint mk_dat].
    assert (Hv : forall fv ps, (height (T f fd fcs) < fv)%nat ->
               PatchDefs.create_patches fv ps pnm (reify (h_str h) (T f fd fcs)) (reify (h_str h) (T t td tcs)) flag =
               if negb (rd_vint fd =? rd_vint td) || negb (compare_double (rd_vdbl fd) (rd_vdbl td))
               then Ok (PatchDefs.compose_patch ps s_replace pnm None (Some (reify (h_str h) (T t td tcs))),
                        reify (h_str h) (T f fd fcs), reify (h_str h) (T t td tcs))
               else Ok (ps, reify (h_str h) (T f fd fcs), reify (h_str h) (T t td tcs))).
    { intros [|fv] ps Hfv; [lia|]. rewrite create_patches_S. cbv zeta. rewrite !tymask_reify. by rewrite Emis, Enum. }
    destruct (rd_vint fd =? rd_vint td); cbn [negb orb] in *.
    2:{ rewrite bindM_ret. by apply Hreplace. }
    rewrite !bindM_assoc. rewrite (bindM_Ret _ _ _ _ _ (run_get_vdbl_plain h f _ (conj Hla Hda))).
    rewrite !bindM_assoc. rewrite (bindM_Ret _ _ _ _ _ (run_get_vdbl_plain h t _ (conj Hlb Hdb))). cbn [nd_vdbl mk_dat].
    rewrite !bindM_ret.
    destruct (compare_double (rd_vdbl fd) (rd_vdbl td)); cbn [negb] in *; [by apply Hstay|by apply Hreplace]. }
  destruct (Z.land (rd_type fd) 255 =? c_cJSON_String) eqn:Estr.
  { (* strings *)
    assert (Etb : Z.land (rd_type td) 255 = c_cJSON_String).
    { apply negb_false_iff in Emis. apply Z.eqb_eq in Emis, Estr. congruence. }
    destruct (rd_vstr fd) as [va|] eqn:Eva; [|exfalso; apply Z.eqb_eq in Estr; by apply (proj2 (gdoc_self _ Gf) Estr)].
    destruct (rd_vstr td) as [vb|] eqn:Evb; [|exfalso; by apply (proj2 (gdoc_self _ Gt) Etb)].
    destruct (Rva va eq_refl) as (Hlva & sa & Hsa & Hza). destruct (Rvb vb eq_refl) as (Hlvb & sb & Hsb & Hzb).
    rewrite (bindM_Ret _ _ _ _ _ (run_get_vstr_plain _ _ _ Hla Hda)).
    rewrite (bindM_Ret _ _ _ _ _ (run_get_vstr_plain _ _ _ Hlb Hdb)). cbn [nd_vstr mk_dat]. rewrite Eva, Evb.
    unfold c_strcmp. rewrite !bindM_assoc. rewrite (bindM_Ret _ _ _ _ _ (run_ld_cstr h va sa Hlva Hsa Hza)).
    rewrite !bindM_assoc. rewrite (bindM_Ret _ _ _ _ _ (run_ld_cstr h vb sb Hlvb Hsb Hzb)). rewrite !bindM_ret.
    assert (Hv : forall fv ps, (height (T f fd fcs) < fv)%nat ->
               PatchDefs.create_patches fv ps pnm (reify (h_str h) (T f fd fcs)) (reify (h_str h) (T t td tcs)) flag =
               if negb (strcmp (cstr sa) (cstr sb) =? 0)
               then Ok (PatchDefs.compose_patch ps s_replace pnm None (Some (reify (h_str h) (T t td tcs))),
                        reify (h_str h) (T f fd fcs), reify (h_str h) (T t td tcs))
               else Ok (ps, reify (h_str h) (T f fd fcs), reify (h_str h) (T t td tcs))).
    { intros [|fv] ps Hfv; [lia|]. rewrite create_patches_S. cbv zeta. rewrite !tymask_reify. rewrite Emis, Enum, Estr.
      rewrite !reify_unfold. cbn [Tree.n_vstr]. rewrite Eva, Evb. cbn [cstr_of]. unfold bytes in *. by rewrite Hsa, Hsb. }
    destruct (negb (strcmp (cstr sa) (cstr sb) =? 0)); [by apply Hreplace|by apply Hstay]. }
  rewrite tsize_unfold in Hlf, Hdf, Hmax. rewrite (tsize_unfold t td tcs) in Hlf.
  pose proof (nodes_length_ge fcs) as Hlf'. pose proof (nodes_length_ge tcs) as Hlt'.
  destruct (Z.land (rd_type fd) 255 =? c_cJSON_Array) eqn:Earr.
  { (* arrays *)
    rewrite (bindM_Ret _ _ _ _ _ (run_child_node h _ f fd fcs I HfF)).
    rewrite (bindM_Ret _ _ _ _ _ (run_child_node h _ t td tcs I HtF)).
    rewrite (bindM_Ret _ _ _ _ _ (run_c_strlen h path pnm Hp)).
    rewrite (bindM_Ret _ _ _ _ _ (run_malloc_nofail _ h)). cbv zeta.
    set (B := h_next h). set (buf := repeat junk (length pnm + 20 + 2)). set (h1 := alloc_str h buf).
    destruct (Tmp_alloc h _ buf I) as [I1 T1]. fold h1 B in I1, T1. unfold buf in T1. rewrite repeat_length in T1. fold buf in T1.
    assert (HnB : forall b off, path = CAt b off -> b <> B).
    { intros b off -> ->. destruct Hp as [Hl _]. pose proof (MInv_live_below _ _ I _ Hl). unfold B in *. lia. }
    assert (A1 : AState X x d path pnm B h1 G pcs).
    { split; [exact I1|]. split; [|split; [|exact T1]].
      - apply (CsReads_transfer h h1 path pnm Hp). intros b off E. split.
        + cbn. rewrite lookup_insert_ne; [done|]. intros <-. by apply (HnB B off E).
        + subst path. destruct Hp as [Hl _]. cbn. set_solver.
      - intros b off E. destruct (Hok b off E) as [Hn _]. split; [done|]. intros Hin%elem_of_list_singleton. by apply (HnB b off E). }
    assert (Hokf : forall c, c ∈ fcs -> okf df c).
    { intros c Hc. pose proof (tsize_child_lt f fd fcs c Hc) as Hlt. rewrite tsize_unfold in Hlt.
      split; [lia|]. split; [exact (gdoc_child _ _ _ _ Gf Hc)|lia]. }
    assert (Hokt : forall c, c ∈ tcs -> okt c).
    { intros c Hc. split; [exact (gdoc_child _ _ _ _ Gt Hc)|]. pose proof (height_child_lt t td tcs c Hc). lia. }
    destruct (arr_phase_sim flag df lf X x d (IHdf lf flag) f t fd td path pnm B fcs tcs [] [] lf h1 G pcs
                eq_refl ltac:(lia) A1 Hf Ht Hdis ltac:(cbn [app]; rewrite !tsize_unfold; lia) ltac:(cbn [app]; lia) Hokf Hokt)
      as (h2 & G' & pnew & fcs' & tcs' & Hrun & A2 & S2 & Fr & Hf' & Ht' & RF & RT & V).
    cbn [app length] in Hrun, Hf', Ht'. unfold arr_phase, arr_tail in Hrun. change (Z.of_nat 0) with 0 in Hrun.
    rewrite Hrun.
    pose proof A2 as (I2 & _ & _ & T2). destruct (Tmp_free h2 _ B _ I2 T2) as [_ I3].
    pose proof (Step_bracket [] h _ buf h2 _ I S2) as S03. fold B in S03.
    destruct T2 as (_ & _ & HBn2 & _). destruct T1 as (_ & _ & HBn1 & _).
    exists (free1 B h2), G', pnew, (T f fd fcs'), (T t td tcs'). split; [done|]. split; [exact I3|]. split; [exact S03|].
    split.
    { apply (Frame_mono _ _ _ _ Fr). intros z Hz. rewrite !ids_t_unfold.
      apply elem_of_app in Hz as [Hz|Hz]; apply elem_of_app; [left|right]; by right. }
    split; [done|]. split; [done|].
    split; [by apply (treord_intro f fd fcs fcs' fcs')|]. split; [by apply (treord_intro t td tcs tcs' tcs')|].
    intros [|fv] ps Hfv; [lia|]. rewrite create_patches_S. cbv zeta. rewrite !tymask_reify. rewrite Emis, Enum, Estr, Earr.
    rewrite !reify_children. cbn [tchildren].
    assert (E1 : forall l (F0 : forest) hx, MInv hx F0 -> B ∉ owned F0 -> (forall c, c ∈ l -> c ∈ nodes F0) ->
                 map (reify (h_str h1)) l = map (reify (h_str h)) l).
    { intros l F0 hx Ix HnB0 Hl. apply map_ext_in. intros c Hc. apply elem_of_list_In in Hc. unfold h1, alloc_str. cbn [h_str]. fold B.
      apply reify_insert_fresh. intros Hin. apply HnB0. by apply (str_blocks_in_owned F0 c B (mi_own _ _ Ix) (Hl c Hc)). }
    specialize (V fv ps ltac:(intros c Hc; pose proof (height_child_lt f fd fcs c Hc); lia)). cbn [length] in V. change (Z.of_nat 0) with 0 in V.
    rewrite (E1 fcs _ h1 I1 HBn1 ltac:(intros c Hc; by apply node_in_app_l, node_in_app_l, (children_nodes_G G f fd fcs c Hf))) in V.
    rewrite (E1 tcs _ h1 I1 HBn1 ltac:(intros c Hc; by apply node_in_app_l, node_in_app_l, (children_nodes_G G t td tcs c Ht))) in V.
    rewrite (E1 fcs' _ h2 I2 HBn2 ltac:(intros c Hc; by apply node_in_app_l, node_in_app_l, (children_nodes_G G' f fd fcs' c Hf'))) in V.
    rewrite (E1 tcs' _ h2 I2 HBn2 ltac:(intros c Hc; by apply node_in_app_l, node_in_app_l, (children_nodes_G G' t td tcs' c Ht'))) in V.
    rewrite V. cbn [bind].
    assert (Ep : map (reify (h_str (free1 B h2))) pnew = map (reify (h_str h2)) pnew).
    { apply map_ext_in. intros c Hc. apply elem_of_list_In in Hc. apply reify_frame. intros b Hb. cbn.
      rewrite lookup_delete_ne; [done|]. intros <-. apply HBn2.
      apply (str_blocks_in_owned _ c B (mi_own _ _ I2)); [|done]. apply arr_member_nodes. apply elem_of_app. by right. }
    rewrite Ep. reflexivity. }
  destruct (Z.land (rd_type fd) 255 =? c_cJSON_Object) eqn:Eobj.
  2:{ (* null, true, false (raw, invalid) *)
    apply Hstay. intros [|fv] ps Hfv; [lia|]. rewrite create_patches_S. cbv zeta. rewrite !tymask_reify. by rewrite Emis, Enum, Estr, Earr, Eobj. }
  (* objects: sort both, then walk *)
  assert (Eof : Tree.tymask (rd_type fd) = c_cJSON_Object) by (by apply Z.eqb_eq in Eobj).
  assert (Eot : Tree.tymask (rd_type td) = c_cJSON_Object).
  { apply negb_false_iff in Emis. apply Z.eqb_eq in Emis. unfold Tree.tymask in *. congruence. }
  assert (EA : (G ++ X) ++ [T x d pcs] = G ++ (X ++ [T x d pcs])) by (by rewrite <- app_assoc).
  pose proof I as IA. rewrite EA in IA.
  destruct (step_sort_p h G (X ++ [T x d pcs]) f fd fcs flag lf IA Hf (proj1 (gdoc_self _ Gf) Eof) ltac:(lia))
    as (h1 & Hrun1 & I1 & S1 & Es1 & Hf1 & Fr1 & Pf & Vf).
  set (fcs1 := sort_children (h_str h) flag fcs) in *. set (G1 := set_children f fcs1 G) in *.
  rewrite (bindM_Ret _ _ _ _ _ Hrun1).
  pose proof (mi_wf _ _ I1) as W1. pose proof (nodup_ids_l _ _ _ W1) as NDG1.
  assert (Ht1 : find_tree t G1 = Some (T t td tcs)).
  { apply (frame_find G G1 [f] (T t td tcs) Fr1 NDG1 Ht). intros z Hz Hin. apply elem_of_list_singleton in Hin as ->.
    apply (Hdis f); [|done]. rewrite ids_t_unfold. by left. }
  destruct (step_sort_p h1 G1 (X ++ [T x d pcs]) t td tcs flag lf I1 Ht1 (proj1 (gdoc_self _ Gt) Eot) ltac:(lia))
    as (h2 & Hrun2 & I2 & S2 & Es2 & Ht2 & Fr2 & Pt & Vt).
  rewrite Es1 in Vt, Ht2, Fr2, Pt, I2, S2. set (tcs1 := sort_children (h_str h) flag tcs) in *. set (G2 := set_children t tcs1 G1) in *.
  rewrite (bindM_Ret _ _ _ _ _ Hrun2).
  assert (EA1 : G1 ++ (X ++ [T x d pcs]) = (G1 ++ X) ++ [T x d pcs]) by (by rewrite <- app_assoc).
  assert (EA2 : G2 ++ (X ++ [T x d pcs]) = (G2 ++ X) ++ [T x d pcs]) by (by rewrite <- app_assoc).
  rewrite <- EA in S1. rewrite EA1 in S1, S2, I1. rewrite EA2 in S2, I2.
  pose proof (mi_wf _ _ I2) as W2. pose proof (nodup_ids_ll _ _ _ _ W2) as NDG2.
  assert (RF1 : treord (T f fd fcs) (T f fd fcs1)) by (apply treord_children with (sorted := fcs1); [by symmetry|apply Forall2_treord_refl]).
  assert (RT1 : treord (T t td tcs) (T t td tcs1)) by (apply treord_children with (sorted := tcs1); [by symmetry|apply Forall2_treord_refl]).
  pose proof (tdisj_treord _ _ _ _ Hdis RF1 RT1) as Hdis1.
  assert (Hf2 : find_tree f G2 = Some (T f fd fcs1)).
  { apply (frame_find G1 G2 [t] (T f fd fcs1) Fr2 NDG2 Hf1). intros z Hz Hin. apply elem_of_list_singleton in Hin as ->.
    apply (Hdis1 t Hz). rewrite ids_t_unfold. by left. }
  rewrite (bindM_Ret _ _ _ _ _ (run_child_node h2 _ f fd fcs1 I2 (find_G_F G2 X _ f _ Hf2))).
  rewrite (bindM_Ret _ _ _ _ _ (run_child_node h2 _ t td tcs1 I2 (find_G_F G2 X _ t _ Ht2))).
  pose proof (treord_gdoc _ _ RF1 Gf) as Gf1. pose proof (treord_gdoc _ _ RT1 Gt) as Gt1.
  pose proof (Step_trans _ _ _ _ _ _ _ I S1 S2) as S02.
  assert (A2 : OState X x d path pnm h2 G2 pcs) by (exact (OState_step X x d path pnm h G pcs h2 G2 pcs (conj I (conj Hp Hok)) I2 S02)).
  assert (Hokf : forall c, c ∈ fcs1 -> okfo df c).
  { intros c Hc. pose proof (tsize_child_lt f fd fcs1 c Hc) as Hlt. rewrite (treord_tsize _ _ RF1), tsize_unfold in Hlt.
    split; [lia|]. split; [exact (gdoc_child _ _ _ _ Gf1 Hc)|]. split; [exact (proj1 (gdoc_self _ Gf1) Eof c Hc)|lia]. }
  assert (Hokt : forall c, c ∈ tcs1 -> okto c).
  { intros c Hc. split; [exact (gdoc_child _ _ _ _ Gt1 Hc)|]. split; [exact (proj1 (gdoc_self _ Gt1) Eot c Hc)|].
    pose proof (height_child_lt t td tcs1 c Hc) as Hlt. rewrite (treord_height _ _ RT1) in Hlt. lia. }
  destruct (walk_sim flag df lf X x d (IHdf lf flag) f t fd td path pnm lf fcs1 tcs1 [] [] h2 G2 pcs
              ltac:(rewrite (Permutation_length Pf), (Permutation_length Pt); lia) A2 Hf2 Ht2 Hdis1
              ltac:(cbn [app]; rewrite (treord_tsize _ _ RF1), (treord_tsize _ _ RT1), !tsize_unfold; lia) Hokf Hokt)
    as (h4 & G4 & pnew & fcs' & tcs' & Hrun4 & A4 & S4 & Fr4 & Hf4 & Ht4 & RF4 & RT4 & V4).
  cbn [app length] in Hrun4, Hf4, Ht4. rewrite Hrun4. pose proof A4 as (I4 & _).
  exists h4, G4, pnew, (T f fd fcs'), (T t td tcs'). split; [done|]. split; [exact I4|].
  split; [exact (Step_trans _ _ _ _ _ _ _ I S02 S4)|].
  split.
  { apply (Frame_trans G G1 G4); [|apply (Frame_trans G1 G2 G4)].
    - apply (Frame_mono _ _ _ _ Fr1). intros z Hz. apply elem_of_list_singleton in Hz as ->. apply elem_of_app. left. rewrite ids_t_unfold. by left.
    - apply (Frame_mono _ _ _ _ Fr2). intros z Hz. apply elem_of_list_singleton in Hz as ->. apply elem_of_app. right. rewrite ids_t_unfold. by left.
    - apply (Frame_mono _ _ _ _ Fr4). intros z Hz.
      pose proof (treord_ids _ _ RF1) as PA. pose proof (treord_ids _ _ RT1) as PB. rewrite !ids_t_unfold in PA, PB.
      apply elem_of_app in Hz as [Hz|Hz]; apply elem_of_app; [left|right]; rewrite ids_t_unfold.
      + rewrite <- PA. by right.
      + rewrite <- PB. by right. }
  split; [done|]. split; [done|].
  split; [apply treord_children with (sorted := fcs1); [by symmetry|done]|].
  split; [apply treord_children with (sorted := tcs1); [by symmetry|done]|].
  intros [|fv] ps Hfv; [lia|]. rewrite create_patches_S. cbv zeta. rewrite !tymask_reify. rewrite Emis, Enum, Estr, Earr, Eobj.
  rewrite Vf. cbn [bind]. rewrite Vt. cbn [bind]. rewrite !reify_children. cbn [tchildren].
  rewrite Es2, Es1 in V4. rewrite (V4 fv ps).
  - cbn [bind]. by rewrite !reify_set_children.
  - intros c Hc. pose proof (height_child_lt f fd fcs1 c Hc) as Hlt. rewrite (treord_height _ _ RF1) in Hlt. lia.
  - rewrite !map_length. lia.
Qed.
