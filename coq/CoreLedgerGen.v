(** CoreLedgerGen.v — what EVERY computation built from the primitives of Heap.v leaves alone,
    whatever its arguments (no well-formedness hypothesis, no ownership rule): the generic half
    of the C07 ledger.

    * [HeapOK h]: structural sanity of a heap that every primitive preserves — live identities
      are below [h_next] ([CoreRefineCreate.live_below]), a byte block is live and is not a node,
      node data sits below [h_next].  Holds in [empty_heap].
    * [Cons m] ("conservative"): whenever [m] RETURNS from a sane heap — i.e. whenever it does
      not stop with one of the error outcomes — the result heap is sane, identities are only
      handed out upwards, ownership tags of existing identities are unchanged, and every block
      the library only BORROWS (tag [Foreign]: constant keys, referenced strings, caller
      strings) that was live is still live with bit-identical contents.
      This is so by construction of the primitives: [st_str] on a foreign block is the error
      [ForeignWrite], [free_block] of one is [ForeignFree].  Hence "borrowed memory is never
      released or modified" follows for a history from "no error outcome occurs".
    * [Cons] is compositional ([Cons_bind], [Cons_ret], conditionals) and is proved here for every
      function of CoreDefs.v used by the history alphabet (loops: induction on the fuel). *)
From CJ Require Import Base Dbl Heap Forest CoreDefs CoreRefineBase CoreRefineCreate.
From CJ.gen Require Import Constants.
From stdpp Require Import gmap.
Local Open Scope Z_scope.

Record HeapOK (h : heap) : Prop := mkHeapOK {
  hk_live : live_below h;
  hk_str : forall b, is_Some (h_str h !! b) -> b ∈ h_live h /\ h_dat h !! b = None;
  hk_dat : forall b, is_Some (h_dat h !! b) -> (b < h_next h)%positive
}.

Lemma HeapOK_empty : HeapOK empty_heap.
Proof.
  constructor.
  - apply live_below_empty.
  - intros b [s Hs]. cbn in Hs. by rewrite lookup_empty in Hs.
  - intros b [s Hs]. cbn in Hs. by rewrite lookup_empty in Hs.
Qed.

Record Cons_post (h h' : heap) : Prop := mkConsPost {
  cp_ok : HeapOK h';
  cp_next : (h_next h <= h_next h')%positive;
  cp_own : forall b, (b < h_next h)%positive -> h_own h' !! b = h_own h !! b;
  cp_foreign : forall b, h_own h !! b = Some Foreign -> b ∈ h_live h ->
                 b ∈ h_live h' /\ h_str h' !! b = h_str h !! b
}.

Definition Cons {A} (m : M A) : Prop :=
  forall h a h', m h = Ret (a, h') -> HeapOK h -> Cons_post h h'.

Lemma Cons_post_refl h : HeapOK h -> Cons_post h h.
Proof. intros K. constructor; try done; lia. Qed.

Lemma Cons_post_trans h1 h2 h3 : HeapOK h1 -> Cons_post h1 h2 -> Cons_post h2 h3 -> Cons_post h1 h3.
Proof.
  intros K [A1 A2 A3 A4] [B1 B2 B3 B4]. constructor.
  - done.
  - lia.
  - intros b Hb. rewrite B3 by lia. by apply A3.
  - intros b Ho Hl. destruct (A4 b Ho Hl) as [Hl2 Hs2].
    assert (Hlt : (b < h_next h1)%positive) by (by apply (hk_live _ K)).
    destruct (B4 b) as [Hl3 Hs3]; [by rewrite A3|done|]. split; [done|congruence].
Qed.

Lemma Cons_ret {A} (a : A) : Cons (ret a).
Proof. intros h a' h' E K. injection E as <- <-. by apply Cons_post_refl. Qed.
Lemma Cons_fail {A} e : Cons (@fail A e).
Proof. intros h a h' E. discriminate. Qed.
Lemma Cons_bind {A B} (m : M A) (f : A -> M B) : Cons m -> (forall a, Cons (f a)) -> Cons (bindM m f).
Proof.
  intros Hm Hf h b h' E K. unfold bindM in E. destruct (m h) as [[a h1]|e] eqn:E1; [|done].
  pose proof (Hm _ _ _ E1 K) as P1. eapply Cons_post_trans; [done|exact P1|].
  eapply Hf; [exact E|apply P1].
Qed.
Lemma Cons_when b m : Cons m -> Cons (when b m).
Proof. intros H. destruct b; [done|apply Cons_ret]. Qed.

(** computations that never change the heap *)
Lemma Cons_read {A} (m : M A) : (forall h a h', m h = Ret (a, h') -> h' = h) -> Cons m.
Proof. intros H h a h' E K. rewrite (H _ _ _ E). by apply Cons_post_refl. Qed.

Lemma Cons_get_heap : Cons get_heap.
Proof. apply Cons_read. intros h a h' E. by injection E as _ <-. Qed.
Lemma Cons_heap_fuel : Cons heap_fuel.
Proof. apply Cons_read. intros h a h' E. by injection E as _ <-. Qed.
Lemma Cons_chk p : Cons (chk p).
Proof.
  apply Cons_read. intros h a h' E. unfold chk in E. destruct p as [i|]; [|done].
  destruct (decide _); [|done]. by injection E as _ <-.
Qed.
Lemma Cons_ld_lnk p : Cons (ld_lnk p).
Proof.
  apply Cons_bind; [apply Cons_chk|]. intros i. apply Cons_read. intros h a h' E.
  destruct (h_lnk h !! i); [|done]. by injection E as _ <-.
Qed.
Lemma Cons_ld_dat p : Cons (ld_dat p).
Proof.
  apply Cons_bind; [apply Cons_chk|]. intros i. apply Cons_read. intros h a h' E.
  destruct (h_dat h !! i); [|done]. by injection E as _ <-.
Qed.
Lemma Cons_ld_str p : Cons (ld_str p).
Proof.
  apply Cons_bind; [apply Cons_chk|]. intros i. apply Cons_read. intros h a h' E.
  destruct (h_str h !! i); [|done]. by injection E as _ <-.
Qed.

Lemma Cons_st_lnk p l : Cons (st_lnk p l).
Proof.
  apply Cons_bind; [apply Cons_chk|]. intros i h a h' E K.
  destruct (h_lnk h !! i); [|done]. injection E as _ <-. destruct K as [K1 K2 K3].
  constructor; cbn; try done; try lia; try (by constructor).
Qed.
Lemma Cons_st_dat p d : Cons (st_dat p d).
Proof.
  apply Cons_bind; [apply Cons_chk|]. intros i h a h' E K.
  destruct (h_dat h !! i) as [d0|] eqn:Hd; [|done]. injection E as _ <-. destruct K as [K1 K2 K3].
  constructor; cbn; try done; try lia. constructor; cbn; try done.
  - intros b Hb. destruct (K2 b Hb) as [H1 H2]. split; [done|].
    rewrite lookup_insert_ne; [done|]. intros <-. congruence.
  - intros b Hb. destruct (decide (b = i)) as [->|Hne]; [apply K3; eauto|].
    rewrite lookup_insert_ne in Hb by done. by apply K3.
Qed.
Lemma Cons_st_str p s : Cons (st_str p s).
Proof.
  apply Cons_bind; [apply Cons_chk|]. intros i h a h' E K.
  destruct (h_str h !! i) as [old|] eqn:Hs; [|done].
  destruct (h_own h !! i) as [[|]|] eqn:Ho; try done.
  destruct (length s =? length old)%nat; [|done]. injection E as _ <-. destruct K as [K1 K2 K3].
  constructor; cbn; try done; try lia.
  - constructor; cbn; try done. intros b Hb. apply K2.
    destruct (decide (b = i)) as [->|Hne]; [eauto|]. by rewrite lookup_insert_ne in Hb.
  - intros b Hob Hl. split; [done|]. rewrite lookup_insert_ne; [done|]. intros <-. congruence.
Qed.

Lemma Cons_alloc_node oracle : Cons (alloc_node oracle).
Proof.
  intros h a h' E K. unfold alloc_node in E. destruct K as [K1 K2 K3].
  destruct (oracle (h_req h)); injection E as _ <-.
  - constructor; cbn; try done; try lia; try (by constructor).
  - constructor; cbn; try lia.
    + constructor; unfold live_below; cbn.
      * intros b Hb. apply elem_of_union in Hb as [Hb|Hb]; [apply elem_of_singleton in Hb as ->; lia|].
        pose proof (K1 b Hb). lia.
      * intros b Hb. destruct (K2 b Hb) as [H1 H2]. split; [set_solver|].
        rewrite lookup_insert_ne; [done|]. intros <-. pose proof (K1 _ H1). lia.
      * intros b Hb. destruct (decide (b = h_next h)) as [->|Hne]; [lia|].
        rewrite lookup_insert_ne in Hb by done. pose proof (K3 b Hb). lia.
    + intros b Hb. rewrite lookup_insert_ne; [done|lia].
    + intros b Ho Hl. split; [set_solver|done].
Qed.
Lemma Cons_alloc_bytes oracle init : Cons (alloc_bytes oracle init).
Proof.
  intros h a h' E K. unfold alloc_bytes in E. destruct K as [K1 K2 K3].
  destruct (oracle (h_req h)); injection E as _ <-.
  - constructor; cbn; try done; try lia; try (by constructor).
  - constructor; cbn; try lia.
    + constructor; unfold live_below; cbn.
      * intros b Hb. apply elem_of_union in Hb as [Hb|Hb]; [apply elem_of_singleton in Hb as ->; lia|].
        pose proof (K1 b Hb). lia.
      * intros b Hb. destruct (decide (b = h_next h)) as [->|Hne].
        -- split; [set_solver|]. destruct (h_dat h !! h_next h) eqn:E; [|done].
           pose proof (K3 (h_next h) ltac:(eauto)). lia.
        -- rewrite lookup_insert_ne in Hb by done. destruct (K2 b Hb). split; [set_solver|done].
      * intros b Hb. pose proof (K3 b Hb). lia.
    + intros b Hb. rewrite lookup_insert_ne; [done|lia].
    + intros b Ho Hl. split; [set_solver|]. rewrite lookup_insert_ne; [done|]. intros <-. pose proof (K1 _ Hl). lia.
Qed.
Lemma Cons_foreign_bytes c : Cons (foreign_bytes c).
Proof.
  intros h a h' E K. unfold foreign_bytes in E. destruct K as [K1 K2 K3]. injection E as _ <-.
  constructor; cbn; try lia.
  - constructor; unfold live_below; cbn.
    + intros b Hb. apply elem_of_union in Hb as [Hb|Hb]; [apply elem_of_singleton in Hb as ->; lia|].
      pose proof (K1 b Hb). lia.
    + intros b Hb. destruct (decide (b = h_next h)) as [->|Hne].
      * split; [set_solver|]. destruct (h_dat h !! h_next h) eqn:E; [|done].
        pose proof (K3 (h_next h) ltac:(eauto)). lia.
      * rewrite lookup_insert_ne in Hb by done. destruct (K2 b Hb). split; [set_solver|done].
    + intros b Hb. pose proof (K3 b Hb). lia.
  - intros b Hb. rewrite lookup_insert_ne; [done|lia].
  - intros b Ho Hl. split; [set_solver|]. rewrite lookup_insert_ne; [done|]. intros <-. pose proof (K1 _ Hl). lia.
Qed.
Lemma Cons_free_block p : Cons (free_block p).
Proof.
  intros h a h' E K. unfold free_block in E. destruct K as [K1 K2 K3]. destruct p as [i|].
  - destruct (h_own h !! i) as [[|]|] eqn:Ho; try done. destruct (decide _) as [Hl|]; [|done].
    injection E as _ <-. constructor; cbn; try done; try lia.
    + constructor; unfold live_below; cbn.
      * intros b Hb. apply K1. set_solver.
      * intros b Hb. destruct (decide (b = i)) as [->|Hne]; [by rewrite lookup_delete in Hb; destruct Hb|].
        rewrite lookup_delete_ne in Hb by done. destruct (K2 b Hb) as [H1 H2]. split; [set_solver|].
        by rewrite lookup_delete_ne.
      * intros b Hb. destruct (decide (b = i)) as [->|Hne]; [by rewrite lookup_delete in Hb; destruct Hb|].
        rewrite lookup_delete_ne in Hb by done. by apply K3.
    + intros b Hob Hlb. assert (b <> i) by (intros ->; congruence).
      split; [set_solver|]. by rewrite lookup_delete_ne.
  - injection E as _ <-. constructor; cbn; try done; try lia; try (by constructor).
Qed.
Lemma Cons_set_hooks hk : Cons (set_hooks hk).
Proof.
  intros h a h' E K. injection E as _ <-. destruct K as [K1 K2 K3].
  constructor; cbn; try done; try lia; try (by constructor).
Qed.

Create HintDb cons.
Global Hint Resolve Cons_ret Cons_fail Cons_get_heap Cons_heap_fuel Cons_chk Cons_ld_lnk Cons_ld_dat Cons_ld_str
  Cons_st_lnk Cons_st_dat Cons_st_str Cons_alloc_node Cons_alloc_bytes Cons_foreign_bytes Cons_free_block
  Cons_set_hooks : cons.

(** the syntax-directed proof: binds, conditionals, matches; leaves from the hint database *)
Ltac cons_step :=
  lazymatch goal with
  | |- Cons (bindM _ _) => apply Cons_bind; [|intros ?]
  | |- Cons (when _ _) => apply Cons_when
  | |- Cons (if ?b then _ else _) => destruct b
  | |- Cons (match ?x with _ => _ end) => destruct x
  | |- Cons (let '(_, _) := ?x in _) => destruct x
  | |- _ => solve [auto with cons]
  end.
Ltac cons := repeat cons_step.

(** * single fields *)
Lemma Cons_get_next p : Cons (get_next p). Proof. unfold get_next. cons. Qed.
Lemma Cons_get_prev p : Cons (get_prev p). Proof. unfold get_prev. cons. Qed.
Lemma Cons_set_next p v : Cons (set_next p v). Proof. unfold set_next. cons. Qed.
Lemma Cons_set_prev p v : Cons (set_prev p v). Proof. unfold set_prev. cons. Qed.
Lemma Cons_get_child p : Cons (get_child p). Proof. unfold get_child. cons. Qed.
Lemma Cons_get_type p : Cons (get_type p). Proof. unfold get_type. cons. Qed.
Lemma Cons_get_vstr p : Cons (get_vstr p). Proof. unfold get_vstr. cons. Qed.
Lemma Cons_get_key p : Cons (get_key p). Proof. unfold get_key. cons. Qed.
Lemma Cons_get_vint p : Cons (get_vint p). Proof. unfold get_vint. cons. Qed.
Lemma Cons_get_vdbl p : Cons (get_vdbl p). Proof. unfold get_vdbl. cons. Qed.
Lemma Cons_set_child p v : Cons (set_child p v). Proof. unfold set_child. cons. Qed.
Lemma Cons_set_type p v : Cons (set_type p v). Proof. unfold set_type. cons. Qed.
Lemma Cons_set_vstr p v : Cons (set_vstr p v). Proof. unfold set_vstr. cons. Qed.
Lemma Cons_set_key p v : Cons (set_key p v). Proof. unfold set_key. cons. Qed.
Lemma Cons_set_vint p v : Cons (set_vint p v). Proof. unfold set_vint. cons. Qed.
Lemma Cons_set_vdbl p v : Cons (set_vdbl p v). Proof. unfold set_vdbl. cons. Qed.
Lemma Cons_ld_cstr p : Cons (ld_cstr p). Proof. unfold ld_cstr. cons. Qed.
Lemma Cons_type_is p k : Cons (type_is p k). Proof. unfold type_is. cons; try apply Cons_get_type. Qed.
Global Hint Resolve Cons_get_next Cons_get_prev Cons_set_next Cons_set_prev Cons_get_child Cons_get_type
  Cons_get_vstr Cons_get_key Cons_get_vint Cons_get_vdbl Cons_set_child Cons_set_type Cons_set_vstr Cons_set_key
  Cons_set_vint Cons_set_vdbl Cons_ld_cstr Cons_type_is : cons.

(** * CoreDefs.v *)
Section CoreCons.
  Variable oracle : nat -> bool.

  Lemma Cons_cJSON_strdup s : Cons (cJSON_strdup oracle s).
  Proof. unfold cJSON_strdup. cons. Qed.
  Lemma Cons_cJSON_New_Item : Cons (cJSON_New_Item oracle).
  Proof. unfold cJSON_New_Item. cons. Qed.
  Hint Resolve Cons_cJSON_strdup Cons_cJSON_New_Item : cons.

  Lemma Cons_cJSON_Delete_fuel fuel : forall item, Cons (cJSON_Delete_fuel fuel item).
  Proof.
    induction fuel as [|f IH]; intros item; cbn [cJSON_Delete_fuel]; [cons|].
    cons; try apply IH.
  Qed.
  Lemma Cons_cJSON_Delete item : Cons (cJSON_Delete item).
  Proof. unfold cJSON_Delete. cons; try apply Cons_cJSON_Delete_fuel. Qed.
  Hint Resolve Cons_cJSON_Delete : cons.

  Lemma Cons_cJSON_IsString i : Cons (cJSON_IsString i). Proof. unfold cJSON_IsString. cons. Qed.
  Lemma Cons_cJSON_IsNumber i : Cons (cJSON_IsNumber i). Proof. unfold cJSON_IsNumber. cons. Qed.
  Hint Resolve Cons_cJSON_IsString Cons_cJSON_IsNumber : cons.
  Lemma Cons_cJSON_GetStringValue i : Cons (cJSON_GetStringValue i). Proof. unfold cJSON_GetStringValue. cons. Qed.
  Lemma Cons_cJSON_GetNumberValue i : Cons (cJSON_GetNumberValue i). Proof. unfold cJSON_GetNumberValue. cons. Qed.
  Lemma Cons_cJSON_SetNumberHelper o n : Cons (cJSON_SetNumberHelper o n). Proof. unfold cJSON_SetNumberHelper. cons. Qed.
  Hint Resolve Cons_cJSON_SetNumberHelper : cons.
  Lemma Cons_cJSON_SetNumberValue o n : Cons (cJSON_SetNumberValue o n). Proof. unfold cJSON_SetNumberValue. cons. Qed.
  Lemma Cons_cJSON_SetIntValue o n : Cons (cJSON_SetIntValue o n). Proof. unfold cJSON_SetIntValue. cons. Qed.
  Lemma Cons_cJSON_SetBoolValue o b : Cons (cJSON_SetBoolValue o b). Proof. unfold cJSON_SetBoolValue. cons. Qed.
  Lemma Cons_cJSON_SetValuestring o v : Cons (cJSON_SetValuestring oracle o v).
  Proof. unfold cJSON_SetValuestring, cJSON_free. cons. Qed.

  Lemma Cons_cJSON_GetArraySize_loop fuel : forall c z, Cons (cJSON_GetArraySize_loop fuel c z).
  Proof. induction fuel as [|f IH]; intros c z; cbn [cJSON_GetArraySize_loop]; [cons|]. cons; try apply IH. Qed.
  Lemma Cons_cJSON_GetArraySize a : Cons (cJSON_GetArraySize a).
  Proof. unfold cJSON_GetArraySize. cons; try apply Cons_cJSON_GetArraySize_loop. Qed.
  Lemma Cons_get_array_item_loop fuel : forall c z, Cons (get_array_item_loop fuel c z).
  Proof. induction fuel as [|f IH]; intros c z; cbn [get_array_item_loop]; [cons|]. cons; try apply IH. Qed.
  Lemma Cons_get_array_item a i : Cons (get_array_item a i).
  Proof. unfold get_array_item. cons; try apply Cons_get_array_item_loop. Qed.
  Hint Resolve Cons_get_array_item : cons.
  Lemma Cons_cJSON_GetArrayItem a i : Cons (cJSON_GetArrayItem a i).
  Proof. unfold cJSON_GetArrayItem. cons. Qed.

  Lemma Cons_case_insensitive_strcmp a b : Cons (case_insensitive_strcmp a b).
  Proof. unfold case_insensitive_strcmp. cons. Qed.
  Hint Resolve Cons_case_insensitive_strcmp : cons.
  Lemma Cons_get_object_item_loop_cs fuel : forall c n, Cons (get_object_item_loop_cs fuel c n).
  Proof. induction fuel as [|f IH]; intros c n; cbn [get_object_item_loop_cs]; [cons|]. cons; try apply IH. Qed.
  Lemma Cons_get_object_item_loop_ci fuel : forall c n, Cons (get_object_item_loop_ci fuel c n).
  Proof. induction fuel as [|f IH]; intros c n; cbn [get_object_item_loop_ci]; [cons|]. cons; try apply IH. Qed.
  Lemma Cons_get_object_item o n cs : Cons (get_object_item o n cs).
  Proof.
    unfold get_object_item. cons; try first [apply Cons_get_object_item_loop_cs|apply Cons_get_object_item_loop_ci].
  Qed.
  Hint Resolve Cons_get_object_item : cons.
  Lemma Cons_cJSON_HasObjectItem o n : Cons (cJSON_HasObjectItem o n).
  Proof. unfold cJSON_HasObjectItem, cJSON_GetObjectItem. cons. Qed.

  Lemma Cons_suffix_object a b : Cons (suffix_object a b). Proof. unfold suffix_object. cons. Qed.
  Hint Resolve Cons_suffix_object : cons.
  Lemma Cons_create_reference i : Cons (create_reference oracle i). Proof. unfold create_reference. cons. Qed.
  Lemma Cons_add_item_to_array a i : Cons (add_item_to_array a i). Proof. unfold add_item_to_array. cons. Qed.
  Hint Resolve Cons_create_reference Cons_add_item_to_array : cons.
  Lemma Cons_add_item_to_object o s i ck : Cons (add_item_to_object oracle o s i ck).
  Proof. unfold add_item_to_object. cons. Qed.
  Hint Resolve Cons_add_item_to_object : cons.
  Lemma Cons_cJSON_AddItemReferenceToArray a i : Cons (cJSON_AddItemReferenceToArray oracle a i).
  Proof. unfold cJSON_AddItemReferenceToArray. cons. Qed.
  Lemma Cons_cJSON_AddItemReferenceToObject o s i : Cons (cJSON_AddItemReferenceToObject oracle o s i).
  Proof. unfold cJSON_AddItemReferenceToObject. cons. Qed.

  Lemma Cons_create_with_type ty : Cons (create_with_type oracle ty). Proof. unfold create_with_type. cons. Qed.
  Hint Resolve Cons_create_with_type : cons.
  Lemma Cons_cJSON_CreateNumber n : Cons (cJSON_CreateNumber oracle n). Proof. unfold cJSON_CreateNumber. cons. Qed.
  Lemma Cons_create_string_like ty s : Cons (create_string_like oracle ty s). Proof. unfold create_string_like. cons. Qed.
  Lemma Cons_cJSON_CreateStringReference s : Cons (cJSON_CreateStringReference oracle s).
  Proof. unfold cJSON_CreateStringReference. cons. Qed.
  Lemma Cons_cJSON_CreateObjectReference s : Cons (cJSON_CreateObjectReference oracle s).
  Proof. unfold cJSON_CreateObjectReference. cons. Qed.
  Lemma Cons_cJSON_CreateArrayReference s : Cons (cJSON_CreateArrayReference oracle s).
  Proof. unfold cJSON_CreateArrayReference. cons. Qed.
  Hint Resolve Cons_cJSON_CreateNumber Cons_create_string_like : cons.

  Lemma Cons_create_array_loop mk : (forall i, Cons (mk i)) -> forall rem i a n p, Cons (create_array_loop mk rem i a n p).
  Proof.
    intros Hmk. induction rem as [|rem IH]; intros i a n p; cbn [create_array_loop]; [cons|].
    cons; try first [apply Hmk|apply IH].
  Qed.
  Lemma Cons_create_array_of mk b count : (forall i, Cons (mk i)) -> Cons (create_array_of oracle mk b count).
  Proof.
    intros Hmk. unfold create_array_of, cJSON_CreateArray. cons; try (by apply Cons_create_array_loop).
  Qed.
  Lemma Cons_rd_arr {A} (l : list A) i : Cons (rd_arr l i).
  Proof. unfold rd_arr. cons. Qed.
  Hint Resolve Cons_rd_arr : cons.
  Lemma Cons_cJSON_CreateIntArray l c : Cons (cJSON_CreateIntArray oracle l c).
  Proof. apply Cons_create_array_of. intros i. cons. Qed.
  Lemma Cons_cJSON_CreateFloatArray l c : Cons (cJSON_CreateFloatArray oracle l c).
  Proof. apply Cons_create_array_of. intros i. cons. Qed.
  Lemma Cons_cJSON_CreateDoubleArray l c : Cons (cJSON_CreateDoubleArray oracle l c).
  Proof. apply Cons_create_array_of. intros i. cons. Qed.
  Lemma Cons_cJSON_CreateStringArray l c : Cons (cJSON_CreateStringArray oracle l c).
  Proof. apply Cons_create_array_of. intros i. unfold cJSON_CreateString. cons. Qed.

  Lemma Cons_add_created_to_object o n i : Cons (add_created_to_object oracle o n i).
  Proof. unfold add_created_to_object. cons. Qed.

  Lemma Cons_cJSON_DetachItemViaPointer p i : Cons (cJSON_DetachItemViaPointer p i).
  Proof. unfold cJSON_DetachItemViaPointer. cons. Qed.
  Hint Resolve Cons_cJSON_DetachItemViaPointer : cons.
  Lemma Cons_cJSON_DetachItemFromArray a w : Cons (cJSON_DetachItemFromArray a w).
  Proof. unfold cJSON_DetachItemFromArray. cons. Qed.
  Hint Resolve Cons_cJSON_DetachItemFromArray : cons.
  Lemma Cons_cJSON_DeleteItemFromArray a w : Cons (cJSON_DeleteItemFromArray a w).
  Proof. unfold cJSON_DeleteItemFromArray. cons. Qed.
  Lemma Cons_cJSON_InsertItemInArray a w n : Cons (cJSON_InsertItemInArray a w n).
  Proof. unfold cJSON_InsertItemInArray. cons. Qed.
  Lemma Cons_cJSON_ReplaceItemViaPointer p i r : Cons (cJSON_ReplaceItemViaPointer p i r).
  Proof. unfold cJSON_ReplaceItemViaPointer. cons. Qed.
  Hint Resolve Cons_cJSON_ReplaceItemViaPointer : cons.
  Lemma Cons_cJSON_ReplaceItemInArray a w n : Cons (cJSON_ReplaceItemInArray a w n).
  Proof. unfold cJSON_ReplaceItemInArray. cons. Qed.
  Lemma Cons_replace_item_in_object o s r cs : Cons (replace_item_in_object oracle o s r cs).
  Proof. unfold replace_item_in_object, cJSON_free. cons. Qed.
End CoreCons.

Global Hint Resolve Cons_cJSON_strdup Cons_cJSON_New_Item Cons_cJSON_Delete Cons_cJSON_GetStringValue
  Cons_cJSON_GetNumberValue Cons_cJSON_SetNumberValue Cons_cJSON_SetIntValue Cons_cJSON_SetBoolValue
  Cons_cJSON_SetValuestring Cons_cJSON_GetArraySize Cons_cJSON_GetArrayItem Cons_get_array_item Cons_get_object_item
  Cons_cJSON_HasObjectItem Cons_create_reference Cons_add_item_to_array Cons_add_item_to_object
  Cons_cJSON_AddItemReferenceToArray Cons_cJSON_AddItemReferenceToObject Cons_create_with_type
  Cons_cJSON_CreateNumber Cons_create_string_like Cons_cJSON_CreateStringReference Cons_cJSON_CreateObjectReference
  Cons_cJSON_CreateArrayReference Cons_cJSON_CreateIntArray Cons_cJSON_CreateFloatArray Cons_cJSON_CreateDoubleArray
  Cons_cJSON_CreateStringArray Cons_add_created_to_object Cons_cJSON_DetachItemViaPointer
  Cons_cJSON_DetachItemFromArray Cons_cJSON_DeleteItemFromArray Cons_cJSON_InsertItemInArray
  Cons_cJSON_ReplaceItemViaPointer Cons_cJSON_ReplaceItemInArray Cons_replace_item_in_object
  Cons_rd_arr Cons_suffix_object Cons_cJSON_IsString Cons_cJSON_IsNumber Cons_cJSON_SetNumberHelper
  Cons_case_insensitive_strcmp Cons_create_array_of Cons_create_array_loop : cons.
