(** CoreOpsBridgeEx.v — NON-VACUITY of the bridge (CoreOpsBridge.v, CoreOpsBridgeHist.v).

    * [exB]: a 31-call history written in the syntax of the EXTRACTED interpreter (handles, string
      literals, pool strings): arrays (append, insert at 0, a refused self-insertion), objects with
      owned and constant keys, an Add…ToObject helper, both lookup variants, replace by key, the
      setters, a returned string that is read, a call through a dead handle (= NULL), the caller's
      iteration, detach by
      index and by key, delete by index and by key, deletion of the two documents.  It is accepted (by the rule checker alone: [accepted_rules]),
      the list model's results are [exB_results], and BOTH interpreters, run by [vm_compute] from the
      empty heap, return these results / end in the same heap (compared field by field).
    * every case line of corpus/C06 and every case line of corpus/C07 without allocation failure
      and without printer calls, transcribed op by op (tools: ocaml/h_core.ml [parse_op]), is accepted. *)
From CJ Require Import Base Dbl Heap Forest CoreSpec CoreDefs CoreRefineHistory CoreRefineHistoryObj
  CoreRefineCreate CoreHistoryAllSteps CoreHistoryAll CoreLedgerAll CoreOpsBridge CoreOpsBridgeHist CoreOpsBridgeOwned.
From CJ Require CoreOps.
From Coq Require Import Floats.SpecFloat.
From stdpp Require Import gmap.
Local Open Scope Z_scope.
Import CoreOps.

Definition exB : list CoreOps.op :=
  [OString [107; 49];                                           (* s0: the caller's string "k1" *)
   OCreateObject;                                               (* h0 *)
   OCreateArray;                                                (* h1 *)
   CoreOps.OCreateNumber (dbl_of_int 7);                        (* h2 *)
   OAddItemToArray (IH 1) (IH 2);                               (* [7] *)
   CoreOps.OCreateString (SLit [115]);                          (* h3 = "s"; the literal is s1 *)
   OInsertItemInArray (IH 1) 0 (IH 3);                          (* ["s", 7] *)
   OInsertItemInArray (IH 1) 0 (IH 1);                          (* a container into itself: refused *)
   OAddItemToObject (IH 0) (SPool 0) (IH 1);                    (* {"k1": ["s", 7]}, owned key *)
   OAddNumberToObject (IH 0) (SLit [75; 49]) (dbl_of_int 1);    (* h4: "K1": 1; the literal is s2 *)
   OCreateTrue;                                                 (* h5 *)
   OAddItemToObjectCS (IH 0) (SPool 2) (IH 5);                  (* constant key: block s2 itself *)
   OGetObjectItem (IH 0) (SPool 2);                             (* h6: folded "K1" = the FIRST folded match, the array *)
   OGetObjectItemCaseSensitive (IH 0) (SPool 2);                (* h7: exact "K1" = the number h4 *)
   CoreOps.OCreateString (SPool 2);                             (* h8 = "K1" *)
   OReplaceItemInObjectCaseSensitive (IH 0) (SPool 2) (IH 8);   (* replaces the number: handles 4 and 7 die *)
   CoreOps.OSetNumberValue (IH 2) (dbl_of_int 9);
   CoreOps.OSetBoolValue (IH 5) false;
   CoreOps.OSetValuestring (IH 8) (SPool 0);                    (* "k1" fits into "K1": copied in place *)
   CoreOps.OGetStringValue (IH 8);                              (* the caller reads the returned string *)
   CoreOps.OSetIntValue (IH 4) 5;                               (* dead handle = NULL: nothing happens *)
   OGetArraySize (IH 1);
   ODetachItemFromArray (IH 1) 0;                               (* h9 = the string "s" *)
   OAddItemToArray (IH 1) (IH 9);                               (* [9, "s"] *)
   OArrayForEach (IH 1);                                        (* the caller's loop: types 8, 16 *)
   ODetachItemFromObject (IH 0) (SLit [75; 49]);                (* h10: folded "K1" = the array; the literal is s3 *)
   ODeleteItemFromArray (IH 10) 0;                              (* deletes the number: handle 2 dies *)
   OGetArrayItem (IH 10) 5;                                     (* h11: out of range: NULL *)
   ODeleteItemFromObjectCaseSensitive (IH 0) (SPool 3);         (* deletes the string h8 *)
   CoreOps.ODelete (IH 10);
   CoreOps.ODelete (IH 0)].

Lemma exB_accepted : accepted_rules exB = true.
Proof. vm_compute. reflexivity. Qed.

Definition P (n : positive) : ptr := Some n.
Definition exB_results : list CoreOps.result :=
  [RUnit; RPtr (P 2); RPtr (P 3); RPtr (P 4); RFlag true; RPtr (P 6); RFlag true; RFlag false; RFlag true;
   RPtr (P 10); RPtr (P 12); RFlag true; RPtr (P 3); RPtr (P 10); RPtr (P 13); RFlag true;
   RDbl (dbl_of_int 9); RInt 513; RStr (Some [107; 49]); RStr (Some [107; 49]); RInt 5; RInt 2; RPtr (P 6);
   RFlag true; RInts [8; 16]; RPtr (P 3); RUnit; RPtr None; RUnit; RUnit; RUnit].
Definition exB_pools : CoreOps.state :=
  mkState [None; None; None; None; None; None; None; None; None; None; None; None]
          [P 1; P 5; P 9; P 16].

(** the list model's results and final pools *)
Lemma exB_model :
  match runR empty_state S0 exB with Some (xs, st, S') => Some (xs, st, a_forest S') | None => None end =
  Some (exB_results, exB_pools, []).
Proof. vm_compute. reflexivity. Qed.

(** the extracted interpreter, RUN: the same results and pools, no live library block left *)
Lemma exB_run :
  match run_ops nv empty_state exB empty_heap with
  | Ret ((xs, st), h) => Some (xs, st, live_count h)
  | Err _ => None
  end = Some (exB_results, exB_pools, 0%nat).
Proof. vm_compute. reflexivity. Qed.

(** both interpreters, RUN on the history up to the first deletion of a document: the same heap *)
Definition heap_obs (h : heap) :=
  (map_to_list (h_lnk h), map_to_list (h_dat h), map_to_list (h_str h), map_to_list (h_own h),
   elements (h_live h), h_next h, h_req h, h_trace h).
Definition final_obs {X} (m : M X) : option _ :=
  match m empty_heap with Ret (_, h) => Some (heap_obs h) | Err _ => None end.
Lemma exB_same_heap :
  final_obs (run_ops nv empty_state (take 29 exB)) = final_obs (run_ops3 (tr_hist empty_state S0 (take 29 exB))) /\
  is_Some (final_obs (run_ops nv empty_state (take 29 exB))) /\
  length (tr_hist empty_state S0 (take 29 exB)) = 31%nat.
Proof. vm_compute. split; [reflexivity|]. split; [eexists; reflexivity|reflexivity]. Qed.

(** the theorem applies *)
Corollary exB_history :
  exists h', run_ops nv empty_state exB empty_heap = Ret ((exB_results, exB_pools), h') /\ lib_live h' = ∅.
Proof.
  pose proof exB_model as E. destruct (runR empty_state S0 exB) as [[[xs st] S']|] eqn:Er; [|done].
  injection E as -> -> HF. destruct (ledger_extracted_rules _ _ _ _ Er) as (h1 & h2 & H1 & HA & _).
  exists h1. split; [done|]. by apply (Abs3_no_roots _ _ HA).
Qed.

(** * the case lines of the corpus *)
(** corpus/C06/f4_insert_self.case: arr;num:3ff0000000000000;add:0:1;num:4000000000000000;add:0:2;ins:0:0:0;ins:0:1:0;ins:0:2:0;ins:0:5:0;size:0;each:0;get:0:0 *)
Definition case_C06_f4_insert_self_1 : list CoreOps.op :=
  [OCreateArray;
   (CoreOps.OCreateNumber (sf_of_bits 4607182418800017408));
   (OAddItemToArray (IH 0) (IH 1));
   (CoreOps.OCreateNumber (sf_of_bits 4611686018427387904));
   (OAddItemToArray (IH 0) (IH 2));
   (OInsertItemInArray (IH 0) (0) (IH 0));
   (OInsertItemInArray (IH 0) (1) (IH 0));
   (OInsertItemInArray (IH 0) (2) (IH 0));
   (OInsertItemInArray (IH 0) (5) (IH 0));
   (OGetArraySize (IH 0));
   (OArrayForEach (IH 0));
   (OGetArrayItem (IH 0) (0))].

(** corpus/C06/f4_insert_self.case: arr;ins:0:0:0;size:0 *)
Definition case_C06_f4_insert_self_2 : list CoreOps.op :=
  [OCreateArray;
   (OInsertItemInArray (IH 0) (0) (IH 0));
   (OGetArraySize (IH 0))].

(** corpus/C06/f4_insert_self.case: obj;null;addo:0:x6b:1;ins:0:0:0;addo:0:x6b:0;add:0:0;size:0 *)
Definition case_C06_f4_insert_self_3 : list CoreOps.op :=
  [OCreateObject;
   OCreateNull;
   (OAddItemToObject (IH 0) (SLit [107]) (IH 1));
   (OInsertItemInArray (IH 0) (0) (IH 0));
   (OAddItemToObject (IH 0) (SLit [107]) (IH 0));
   (OAddItemToArray (IH 0) (IH 0));
   (OGetArraySize (IH 0))].

(** corpus/C06/first_folded_match.case: obj;num:3ff0000000000000;addo:0:x4b6579:1;num:4000000000000000;addo:0:x6b6579:2;geto:0:x6b6579;getocs:0:x6b6579;has:0:x4b4559;deto:0:x6b6579;each:0 *)
Definition case_C06_first_folded_match_1 : list CoreOps.op :=
  [OCreateObject;
   (CoreOps.OCreateNumber (sf_of_bits 4607182418800017408));
   (OAddItemToObject (IH 0) (SLit [75; 101; 121]) (IH 1));
   (CoreOps.OCreateNumber (sf_of_bits 4611686018427387904));
   (OAddItemToObject (IH 0) (SLit [107; 101; 121]) (IH 2));
   (OGetObjectItem (IH 0) (SLit [107; 101; 121]));
   (OGetObjectItemCaseSensitive (IH 0) (SLit [107; 101; 121]));
   (CoreOps.OHasObjectItem (IH 0) (SLit [75; 69; 89]));
   (ODetachItemFromObject (IH 0) (SLit [107; 101; 121]));
   (OArrayForEach (IH 0))].

(** corpus/C06/first_folded_match.case: obj;num:3ff0000000000000;addo:0:x4b6579:1;num:4000000000000000;addo:0:x6b6579:2;str:x6e;repo:0:x6b6579:3;each:0;geto:0:x6b6579 *)
Definition case_C06_first_folded_match_2 : list CoreOps.op :=
  [OCreateObject;
   (CoreOps.OCreateNumber (sf_of_bits 4607182418800017408));
   (OAddItemToObject (IH 0) (SLit [75; 101; 121]) (IH 1));
   (CoreOps.OCreateNumber (sf_of_bits 4611686018427387904));
   (OAddItemToObject (IH 0) (SLit [107; 101; 121]) (IH 2));
   (CoreOps.OCreateString (SLit [110]));
   (CoreOps.OReplaceItemInObject (IH 0) (SLit [107; 101; 121]) (IH 3));
   (OArrayForEach (IH 0));
   (OGetObjectItem (IH 0) (SLit [107; 101; 121]))].

(** corpus/C06/single_child_replace_then_append.case: arr;num:3ff0000000000000;add:0:1;str:x7265706c;repa:0:0:2;null;add:0:3;size:0;each:0;get:0:1 *)
Definition case_C06_single_child_replace_then_append_1 : list CoreOps.op :=
  [OCreateArray;
   (CoreOps.OCreateNumber (sf_of_bits 4607182418800017408));
   (OAddItemToArray (IH 0) (IH 1));
   (CoreOps.OCreateString (SLit [114; 101; 112; 108]));
   (OReplaceItemInArray (IH 0) (0) (IH 2));
   OCreateNull;
   (OAddItemToArray (IH 0) (IH 3));
   (OGetArraySize (IH 0));
   (OArrayForEach (IH 0));
   (OGetArrayItem (IH 0) (1))].

(** corpus/C06/single_child_replace_then_append.case: obj;num:3ff0000000000000;addo:0:x61:1;str:x7265706c;repo:0:x41:2;null;addo:0:x62:3;size:0;each:0;geto:0:x62 *)
Definition case_C06_single_child_replace_then_append_2 : list CoreOps.op :=
  [OCreateObject;
   (CoreOps.OCreateNumber (sf_of_bits 4607182418800017408));
   (OAddItemToObject (IH 0) (SLit [97]) (IH 1));
   (CoreOps.OCreateString (SLit [114; 101; 112; 108]));
   (CoreOps.OReplaceItemInObject (IH 0) (SLit [65]) (IH 2));
   OCreateNull;
   (OAddItemToObject (IH 0) (SLit [98]) (IH 3));
   (OGetArraySize (IH 0));
   (OArrayForEach (IH 0));
   (OGetObjectItem (IH 0) (SLit [98]))].

(** corpus/C06/single_child_replace_then_append.case: arr;true;add:0:1;false;repp:0:1:2;null;ins:0:7:3;size:0;each:0 *)
Definition case_C06_single_child_replace_then_append_3 : list CoreOps.op :=
  [OCreateArray;
   OCreateTrue;
   (OAddItemToArray (IH 0) (IH 1));
   OCreateFalse;
   (OReplaceItemViaPointer (IH 0) (IH 1) (IH 2));
   OCreateNull;
   (OInsertItemInArray (IH 0) (7) (IH 3));
   (OGetArraySize (IH 0));
   (OArrayForEach (IH 0))].

(** corpus/C07/f5_replace_key_alias.case: obj;str:x6f6c64;addo:0:x6b6579:1;str:x6e6577;addo:0:x6b6579:2;detp:0:2;repo:0:k2:2;size:0;geto:0:x6b6579;del:0 *)
Definition case_C07_f5_replace_key_alias_1 : list CoreOps.op :=
  [OCreateObject;
   (CoreOps.OCreateString (SLit [111; 108; 100]));
   (OAddItemToObject (IH 0) (SLit [107; 101; 121]) (IH 1));
   (CoreOps.OCreateString (SLit [110; 101; 119]));
   (OAddItemToObject (IH 0) (SLit [107; 101; 121]) (IH 2));
   (ODetachItemViaPointer (IH 0) (IH 2));
   (CoreOps.OReplaceItemInObject (IH 0) (SKeyOf 2) (IH 2));
   (OGetArraySize (IH 0));
   (OGetObjectItem (IH 0) (SLit [107; 101; 121]));
   (CoreOps.ODelete (IH 0))].

(** corpus/C07/f5_replace_key_alias.case: obj;str:x6f6c64;addo:0:x6b6579:1;str:x6e6577;addo:0:x6b6579:2;detp:0:2;repocs:0:k2:2;size:0;geto:0:x6b6579;del:0 *)
Definition case_C07_f5_replace_key_alias_2 : list CoreOps.op :=
  [OCreateObject;
   (CoreOps.OCreateString (SLit [111; 108; 100]));
   (OAddItemToObject (IH 0) (SLit [107; 101; 121]) (IH 1));
   (CoreOps.OCreateString (SLit [110; 101; 119]));
   (OAddItemToObject (IH 0) (SLit [107; 101; 121]) (IH 2));
   (ODetachItemViaPointer (IH 0) (IH 2));
   (OReplaceItemInObjectCaseSensitive (IH 0) (SKeyOf 2) (IH 2));
   (OGetArraySize (IH 0));
   (OGetObjectItem (IH 0) (SLit [107; 101; 121]));
   (CoreOps.ODelete (IH 0))].

(** corpus/C07/f5_replace_key_alias.case: obj;str:x6f6c64;addo:0:x6b6579:1;str:x6e6577;repo:0:k1:2;size:0;each:0;del:0 *)
Definition case_C07_f5_replace_key_alias_3 : list CoreOps.op :=
  [OCreateObject;
   (CoreOps.OCreateString (SLit [111; 108; 100]));
   (OAddItemToObject (IH 0) (SLit [107; 101; 121]) (IH 1));
   (CoreOps.OCreateString (SLit [110; 101; 119]));
   (CoreOps.OReplaceItemInObject (IH 0) (SKeyOf 1) (IH 2));
   (OGetArraySize (IH 0));
   (OArrayForEach (IH 0));
   (CoreOps.ODelete (IH 0))].

(** corpus/C07/key_ownership_change.case: obj;null;addcs:0:x6b6579:1;deta:0:0;addo:0:x6f74686572:1;deta:0:0;addcs:0:x6b6579:1;del:0 *)
Definition case_C07_key_ownership_change_1 : list CoreOps.op :=
  [OCreateObject;
   OCreateNull;
   (OAddItemToObjectCS (IH 0) (SLit [107; 101; 121]) (IH 1));
   (ODetachItemFromArray (IH 0) (0));
   (OAddItemToObject (IH 0) (SLit [111; 116; 104; 101; 114]) (IH 1));
   (ODetachItemFromArray (IH 0) (0));
   (OAddItemToObjectCS (IH 0) (SLit [107; 101; 121]) (IH 1));
   (CoreOps.ODelete (IH 0))].

(** corpus/C07/key_ownership_change.case: obj;obj;str:x76;addcs:0:x6b6579:2;deto:0:x6b6579;addo:1:k2:2;size:1;del:0;del:1 *)
Definition case_C07_key_ownership_change_2 : list CoreOps.op :=
  [OCreateObject;
   OCreateObject;
   (CoreOps.OCreateString (SLit [118]));
   (OAddItemToObjectCS (IH 0) (SLit [107; 101; 121]) (IH 2));
   (ODetachItemFromObject (IH 0) (SLit [107; 101; 121]));
   (OAddItemToObject (IH 1) (SKeyOf 2) (IH 2));
   (OGetArraySize (IH 1));
   (CoreOps.ODelete (IH 0));
   (CoreOps.ODelete (IH 1))].

Lemma corpus_cases_accepted :
  accepted_rules case_C06_f4_insert_self_1 = true /\
  accepted_rules case_C06_f4_insert_self_2 = true /\
  accepted_rules case_C06_f4_insert_self_3 = true /\
  accepted_rules case_C06_first_folded_match_1 = true /\
  accepted_rules case_C06_first_folded_match_2 = true /\
  accepted_rules case_C06_single_child_replace_then_append_1 = true /\
  accepted_rules case_C06_single_child_replace_then_append_2 = true /\
  accepted_rules case_C06_single_child_replace_then_append_3 = true /\
  accepted_rules case_C07_f5_replace_key_alias_1 = true /\
  accepted_rules case_C07_f5_replace_key_alias_2 = true /\
  accepted_rules case_C07_f5_replace_key_alias_3 = true /\
  accepted_rules case_C07_key_ownership_change_1 = true /\
  accepted_rules case_C07_key_ownership_change_2 = true.
Proof. vm_compute. repeat split. Qed.
