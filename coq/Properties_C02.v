(** Properties_C02.v — property C02: valid JSON text is accepted and decoded to exactly the
    value it denotes.  Only statements closed by [exact]; proofs live in ParseComplete*.v.

    Reading guide.  [RFC_text txt v] (Grammar.v) is the declarative RFC 8259 grammar: optional
    BOM, RFC whitespace, one value nesting at most CJSON_NESTING_LIMIT containers, RFC
    whitespace; [v : jv] is the value the text denotes (member order and duplicates kept,
    strings as the UTF-8 bytes of the decoded escapes, numbers as their literal).
    [jv_ok v]: every number literal has at most 63 bytes, no decoded string contains a zero
    byte.  [tree_of strtod v] is the cJSON tree that represents v: numbers carry
    [valuedouble = strtod literal] and [valueint = sat_int valuedouble].
    The C library enters through two contracts (Definitions, hypotheses of the theorems):
    [strtod_ok] (ParseDefs.v: a conversion consumes a non-empty prefix of its argument) and
    [strtod_rfc] (ParseComplete.v: an RFC 8259 number literal of at most 63 bytes is converted
    completely); both are proved for the executable reference [strtod_ref]. *)
From CJ Require Import Base Dbl Tree LibcNum ParseDefs ParseSpec Grammar
  ParseCompleteUtf8 ParseComplete ParseCompleteExample ParseCompleteEntry.
Local Open Scope Z_scope.

(** * The four entry points of the buffer-level model (transliterated C code) *)

(** Every RFC 8259 text within the limits is accepted by cJSON_Parse, cJSON_ParseWithOpts,
    cJSON_ParseWithLength and cJSON_ParseWithLengthOpts, in an exact-length buffer and in a
    zero-terminated one, with and without required termination, whatever the memory holds
    [beyond] the declared bytes; all of them return the tree [tree_of strtod v]. *)
Theorem C02_complete : forall strtod txt v,
  strtod_ok strtod -> strtod_rfc strtod -> RFC_text txt v -> jv_ok v ->
  forall beyond rnt, exists r1 r2 r3 r4 r5,
    cJSON_Parse strtod never_fails (txt ++ 0 :: beyond) = Ok r1 /\
    cJSON_ParseWithOpts strtod never_fails (txt ++ 0 :: beyond) rnt = Ok r2 /\
    cJSON_ParseWithLength strtod never_fails (txt ++ beyond) (length txt) = Ok r3 /\
    cJSON_ParseWithLength strtod never_fails (txt ++ 0 :: beyond) (length txt + 1) = Ok r4 /\
    cJSON_ParseWithLengthOpts strtod never_fails (txt ++ 0 :: beyond) (length txt + 1) rnt = Ok r5 /\
    pr_tree r1 = Some (tree_of strtod v) /\ pr_tree r2 = Some (tree_of strtod v) /\
    pr_tree r3 = Some (tree_of strtod v) /\ pr_tree r4 = Some (tree_of strtod v) /\
    pr_tree r5 = Some (tree_of strtod v).
Proof. exact entry_points_complete. Qed.
Print Assumptions C02_complete.

(** instantiated with the executable reference strtod (both contracts proved for it) *)
Theorem C02_complete_ref : forall txt v, RFC_text txt v -> jv_ok v ->
  forall beyond rnt, exists r1 r2 r3 r4 r5,
    cJSON_Parse strtod_ref never_fails (txt ++ 0 :: beyond) = Ok r1 /\
    cJSON_ParseWithOpts strtod_ref never_fails (txt ++ 0 :: beyond) rnt = Ok r2 /\
    cJSON_ParseWithLength strtod_ref never_fails (txt ++ beyond) (length txt) = Ok r3 /\
    cJSON_ParseWithLength strtod_ref never_fails (txt ++ 0 :: beyond) (length txt + 1) = Ok r4 /\
    cJSON_ParseWithLengthOpts strtod_ref never_fails (txt ++ 0 :: beyond) (length txt + 1) rnt = Ok r5 /\
    pr_tree r1 = Some (tree_of strtod_ref v) /\ pr_tree r2 = Some (tree_of strtod_ref v) /\
    pr_tree r3 = Some (tree_of strtod_ref v) /\ pr_tree r4 = Some (tree_of strtod_ref v) /\
    pr_tree r5 = Some (tree_of strtod_ref v).
Proof. exact entry_points_complete_ref. Qed.
Print Assumptions C02_complete_ref.

(** with required termination the published parse end is the terminating zero *)
Theorem C02_complete_rnt_end : forall strtod, strtod_ok strtod -> strtod_rfc strtod ->
  forall txt v, RFC_text txt v -> jv_ok v -> forall beyond,
  exists r, cJSON_ParseWithLengthOpts strtod never_fails (txt ++ 0 :: beyond) (length txt + 1) true = Ok r /\
            pr_tree r = Some (tree_of strtod v) /\ pr_end r = Some (length txt).
Proof. exact entry_length_zero_rnt. Qed.
Print Assumptions C02_complete_rnt_end.

(** without it the parse end is the end of the value: only the text's trailing whitespace
    [w2] is left *)
Theorem C02_complete_length_end : forall strtod, strtod_ok strtod -> strtod_rfc strtod ->
  forall txt v, RFC_text txt v -> jv_ok v -> forall beyond,
  exists r, cJSON_ParseWithLengthOpts strtod never_fails (txt ++ beyond) (length txt) false = Ok r /\
            pr_tree r = Some (tree_of strtod v) /\
            exists pre w2, txt = pre ++ w2 /\ ws rfc_ws w2 /\ pr_end r = Some (length pre).
Proof. exact entry_length_exact. Qed.
Print Assumptions C02_complete_length_end.

(** * The list-level specification [text_l] (what ParseRefine.v proves the model computes) *)

(** exact-length buffer *)
Theorem C02_spec_exact : forall strtod txt v,
  strtod_rfc strtod -> RFC_text txt v -> jv_ok v ->
  exists pre w2, txt = pre ++ w2 /\ ws rfc_ws w2 /\
    text_l strtod txt false = Some (tree_of strtod v, w2).
Proof. exact complete_text_exact. Qed.
Print Assumptions C02_spec_exact.

(** zero-terminated buffer, termination required: the result points at the zero byte *)
Theorem C02_spec_zero_rnt : forall strtod txt v r,
  strtod_rfc strtod -> RFC_text txt v -> jv_ok v ->
  text_l strtod (txt ++ 0 :: r) true = Some (tree_of strtod v, 0 :: r).
Proof. exact complete_text_zero_rnt. Qed.
Print Assumptions C02_spec_zero_rnt.

(** termination not required: anything that cannot extend a final number token may follow *)
Theorem C02_spec_open : forall strtod txt v tail,
  strtod_rfc strtod -> RFC_text txt v -> jv_ok v -> nonnum_start tail ->
  exists pre w2, txt = pre ++ w2 /\ ws rfc_ws w2 /\
    text_l strtod (txt ++ tail) false = Some (tree_of strtod v, w2 ++ tail).
Proof. exact complete_text_open. Qed.
Print Assumptions C02_spec_open.

(** a value at any nesting depth that leaves room for its own nesting *)
Theorem C02_spec_value : forall strtod, strtod_rfc strtod ->
  forall d t v, RFC_value d t v -> jv_ok v ->
  forall f depth rest, (length t < f)%nat -> depth + Z.of_nat d <= c_CJSON_NESTING_LIMIT ->
    nonnum_start rest ->
    value_l strtod f depth (t ++ rest) = Some (tree_of strtod v, rest).
Proof. exact complete_value. Qed.
Print Assumptions C02_spec_value.

(** * Strings: the C code's arithmetic against the independently written one *)

(** utf16_literal_to_utf8's shifts and masks produce RFC 3629 UTF-8 for every code point
    0 .. 0x10FFFF (exhaustive kernel evaluation over the 0x110000 code points) *)
Theorem C02_utf8_spec : forall cp, 0 <= cp <= 1114111 ->
  utf8_encode_c cp = Some (utf8_of_codepoint cp).
Proof. exact utf8_encode_c_spec. Qed.
Print Assumptions C02_utf8_spec.

(** the surrogate-pair formula, for all 1024 x 1024 pairs *)
Theorem C02_surrogate_pair_spec : forall hi lo,
  55296 <= hi <= 56319 -> 56320 <= lo <= 57343 ->
  65536 + Z.lor (Z.shiftl (Z.land hi 1023) 10) (Z.land lo 1023) = pair_codepoint hi lo.
Proof. exact pair_formula_spec. Qed.
Print Assumptions C02_surrogate_pair_spec.

Theorem C02_hex_spec : forall c, hex_val c = hexv c.
Proof. exact hex_val_hexv. Qed.
Print Assumptions C02_hex_spec.

(** a string literal body denoting s, followed by the closing quote, decodes to the C string
    of s; with [jv_ok] nothing is cut off *)
Theorem C02_string_spec : forall body s rest, chars rfc_raw body s ->
  string_l (body ++ 34 :: rest) = Some (cstr s, rest).
Proof. exact chars_string_l. Qed.
Print Assumptions C02_string_spec.

Theorem C02_string_exact : forall strtod s, jv_ok (JStr s) ->
  tree_of strtod (JStr s) = Node c_cJSON_String (Some s) 0 dzero None [].
Proof. exact tree_of_str_exact. Qed.
Print Assumptions C02_string_exact.

(** * Numbers: the reference strtod satisfies the contract *)
Theorem C02_strtod_ref_rfc : strtod_rfc strtod_ref.
Proof. exact strtod_ref_rfc. Qed.
Print Assumptions C02_strtod_ref_rfc.

(** (for literals of any length) *)
Theorem C02_strtod_ref_complete : forall t, rfc_number t = true ->
  exists d, strtod_ref t = Some (d, length t).
Proof. exact strtod_ref_complete. Qed.
Print Assumptions C02_strtod_ref_complete.

(** * Non-vacuity *)

(** the example text: BOM, whitespace, an object with a duplicate key holding a five-element
    array (1, -0.5e+2, true, false, null), a string with every escape kind, é and the
    surrogate pair for U+1F600, an empty object and an empty array *)
Theorem C02_example_text : ex_txt =
  [239; 187; 191; 32; 10;
   123; 34; 97; 34; 58; 91; 49; 44; 45; 48; 46; 53; 101; 43; 50; 32; 44; 32; 116; 114; 117; 101; 44;
   102; 97; 108; 115; 101; 44; 110; 117; 108; 108; 93; 44;
   34; 97; 34; 32; 58; 32; 34; 92; 34; 92; 92; 92; 47; 92; 98; 92; 102; 92; 110; 92; 114; 92; 116;
   92; 117; 48; 48; 101; 57; 92; 117; 100; 56; 51; 100; 92; 117; 68; 69; 48; 48; 120; 34; 44;
   10; 34; 98; 34; 58; 123; 125; 44; 32; 34; 99; 34; 58; 91; 32; 93; 32; 125; 32; 10].
Proof. exact ex_txt_bytes. Qed.

Theorem C02_example_tree : tree_of strtod_ref ex_v =
  Node c_cJSON_Object None 0 dzero None
    [Node c_cJSON_Array None 0 dzero (Some [97])
       [Node c_cJSON_Number None 1 (S754_finite false 4503599627370496 (-52)) None [];
        Node c_cJSON_Number None (-50) (S754_finite true 7036874417766400 (-47)) None [];
        Node c_cJSON_True None 1 dzero None [];
        Node c_cJSON_False None 0 dzero None [];
        Node c_cJSON_NULL None 0 dzero None []];
     Node c_cJSON_String (Some [34; 92; 47; 8; 12; 10; 13; 9; 195; 169; 240; 159; 152; 128; 120]) 0 dzero (Some [97]) [];
     Node c_cJSON_Object None 0 dzero (Some [98]) [];
     Node c_cJSON_Array None 0 dzero (Some [99]) []].
Proof. exact ex_tree. Qed.

(** the hypotheses of the list-level theorems hold of it, and the specification evaluates to
    the claimed result *)
Theorem C02_nonvacuous :
  strtod_rfc strtod_ref /\ RFC_text ex_txt ex_v /\ jv_ok ex_v /\
  text_l strtod_ref ex_txt false = Some (tree_of strtod_ref ex_v, [32; 10]) /\
  text_l strtod_ref (ex_txt ++ [0]) true = Some (tree_of strtod_ref ex_v, [0]).
Proof. exact complete_nonvacuous. Qed.
Print Assumptions C02_nonvacuous.

(** ... and of the entry-point theorems, with the model's run on it *)
Theorem C02_nonvacuous_entry :
  strtod_ok strtod_ref /\ strtod_rfc strtod_ref /\ RFC_text ex_txt ex_v /\ jv_ok ex_v /\
  exists r, cJSON_Parse strtod_ref never_fails (ex_txt ++ [0]) = Ok r /\
            pr_tree r = Some (tree_of strtod_ref ex_v) /\ pr_end r = Some 102%nat.
Proof. exact entry_points_nonvacuous. Qed.
Print Assumptions C02_nonvacuous_entry.
