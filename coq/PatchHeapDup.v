(** PatchHeapDup.v — the exits of the heap-level [apply_patch] with status 8 ("value" could not be duplicated) and
    6 (copy: the source could not be duplicated) that arise WITHOUT any allocation failure: [cJSON_Duplicate]
    refuses a value nested deeper than CJSON_CIRCULAR_LIMIT.

    * [dup_value_iff]: the value-level [PatchDefs.cJSON_Duplicate] of a reified tree fails exactly when the tree is
      higher than the limit;
    * [step_dup_refused]: on such a node of the forest the heap-level call (never-failing allocator) returns NULL;
      what it built has been released: links, node data, STRINGS, liveness, ownership tags and the ledger are
      those of the heap before, only the allocator counter advanced; [MInv] and [NoLeak] hold for the SAME forest;
    * [phase_goal_all], [apply_post_all]: the goals of PatchHeapApply.v without the side condition "status neither
      6 nor 8"; [apply_patch_refines_all]: the refinement theorem for remove, add, replace, move, copy for EVERY
      status of the value-level model.  For replace the old value is already gone when the duplicate of the new
      one is refused (the model says so: the document returned with status 8 is the document without the member). *)
From CJ Require Import Base Dbl Heap Forest ForestLemmas CoreSpec CoreDefs CoreRefineBase CoreRefine CoreRefineMore
  CoreRefineDelete CoreRefineReplace CoreRefineObject CoreRefineByKey CoreRefineFrame CoreRefineHistory CoreRefineAddObject
  CoreRefineHistoryObj CoreRefineCreate CoreRefineDupValue CoreRefineDupForest CoreRefineDupUnroll CoreLedgerGen CoreLedgerDup.
From CJ Require Import TierBridgeDefs TierBridgeForest TierBridgeLemmas TierBridgeUtilsDefs TierBridgeUtils TierBridgeE2E2
  TierBridgeEndToEndStr TierBridgeOverwriteDefs TierBridgeOverwrite
  MergeHeapDefs MergeHeapInv MergeHeapProofs PatchHeapDefs PatchHeapPath PatchHeapPointer PatchHeapStr PatchHeapSteps
  PatchHeapDetach PatchHeapApplyDefs PatchHeapOps PatchHeapFinish PatchHeapApply.
From CJ Require Tree PointerDefs PatchDefs CompareDefs MergeDefs SortSpec PatchProofs.
From CJ.gen Require Import Constants.
From stdpp Require Import gmap.
From Coq Require Import Lia.
Local Open Scope Z_scope.

(** * the value-level duplicate fails exactly above the limit *)
Lemma dup_value_some St t :
  (height t <= Z.to_nat c_CJSON_CIRCULAR_LIMIT)%nat -> exists v, PatchDefs.cJSON_Duplicate (reify St t) = Some v.
Proof.
  intros Hh. exists (clear_refs (reify St t)). unfold PatchDefs.cJSON_Duplicate. apply dup_rec_succeeds.
  rewrite height_node_depth. pose proof CoreRefineDup.limit_nonneg. lia.
Qed.
Lemma dup_value_iff St t :
  PatchDefs.cJSON_Duplicate (reify St t) = None <-> (Z.to_nat c_CJSON_CIRCULAR_LIMIT < height t)%nat.
Proof.
  split.
  - intros E. destruct (decide (height t <= Z.to_nat c_CJSON_CIRCULAR_LIMIT)%nat) as [Hle|]; [|lia].
    destruct (dup_value_some St t Hle) as [v Hv]. congruence.
  - intros Hh. destruct (PatchDefs.cJSON_Duplicate (reify St t)) as [v|] eqn:E; [|done].
    pose proof (dup_height _ _ _ E). lia.
Qed.

(** * the heap-level duplicate of a node that is too high *)
Lemma MInv_refs_in h F : MInv h F -> refs_in F.
Proof.
  intros I i d ks c He Hr. exfalso.
  assert (Hd : (i, d) ∈ datas F) by (unfold datas; apply elem_of_list_fmap; by exists (i, d, ks)).
  destruct (mi_own _ _ I _ Hd) as [H1 _]. cbn in H1.
  pose proof (wf_ref _ _ (mi_wf _ _ I)) as R. rewrite Forall_forall in R. destruct (R _ He) as [_ R2]. cbn in R2.
  rewrite R2 in H1; [done|]. by rewrite Hr.
Qed.
Lemma MInv_all_readable h F : MInv h F -> all_readable h F.
Proof.
  intros I i d ks He.
  assert (Hd : (i, d) ∈ datas F) by (unfold datas; apply elem_of_list_fmap; by exists (i, d, ks)).
  destruct (mi_read _ _ I _ Hd) as [H1 H2]. cbn in H1, H2. split.
  - intros b Hb. destruct (H1 b Hb) as (Hl & s & Hs & Hz). by exists s.
  - intros b Hb _. destruct (H2 b Hb) as (Hl & s & Hs & Hz). by exists s.
Qed.

Lemma step_dup_refused h F pp tp :
  MInv h F -> find_tree pp F = Some tp -> (Z.to_nat c_CJSON_CIRCULAR_LIMIT < height tp)%nat ->
  exists h', cJSON_Duplicate nofail (Some pp) true h = Ret (None, h') /\
    MInv h' F /\ (NoLeak h F -> NoLeak h' F) /\
    h_lnk h' = h_lnk h /\ h_dat h' = h_dat h /\ h_str h' = h_str h /\ h_live h' = h_live h /\
    lib_live h' = lib_live h /\ (h_next h <= h_next h')%positive.
Proof.
  intros I Hp Hh. pose proof (mi_wf _ _ I) as W.
  destruct (dup_too_deep nofail h F pp tp W (MInv_Closed _ _ I) (MInv_refs_in _ _ I) (MInv_all_readable _ _ I) Hp Hh)
    as (h' & Hrun & W' & NL & E1 & E2 & E3 & E4 & _ & E6 & _).
  pose proof (Cons_cJSON_Duplicate nofail _ _ _ _ _ Hrun (mi_ok _ _ I)) as CP.
  exists h'. split; [exact Hrun|]. split; [|split_and!; try done; exact (cp_next _ _ CP)].
  apply (MInv_build h h' F F I W' (cp_ok _ _ CP)); [by left|]. intros b _ _. by rewrite E3.
Qed.

(** * what every exit has to deliver, now for every status *)
Definition phase_goal_all (h : heap) (G : forest) (doc : tree) (o : out (Z * heap)) (vres : Base.res (Z * Tree.node)%type) : Prop :=
  match vres with
  | Ok (st, doc') =>
      exists h' docT,
        o = Ret (st, h') /\ MInv h' (G ++ [docT]) /\ tid docT = tid doc /\ reify (h_str h') docT = doc' /\
        KeepO h h' G /\ (NoLeak h (G ++ [doc]) -> NoLeak h' (G ++ [docT])) /\ (h_next h <= h_next h')%positive
  | _ => True
  end.

Lemma phase_goal_all_weaken h G doc o vres : phase_goal_all h G doc o vres -> phase_goal h G doc o vres.
Proof. destruct vres as [[st doc']| |]; cbn; [|done|done]. by intros H _ _. Qed.

Lemma phase_goal_all_unchanged h G doc st :
  MInv h (G ++ [doc]) -> phase_goal_all h G doc (Ret (st, h)) (Ok (st, reify (h_str h) doc)).
Proof.
  intros I. exists h, doc. split; [done|]. split; [done|]. split; [done|]. split; [done|]. split; [apply KeepO_refl|]. split; [done|lia].
Qed.

Lemma phase_goal_all_step h h1 G doc doc1 o vres :
  tid doc1 = tid doc -> KeepO h h1 G -> (NoLeak h (G ++ [doc]) -> NoLeak h1 (G ++ [doc1])) -> (h_next h <= h_next h1)%positive ->
  phase_goal_all h1 G doc1 o vres -> phase_goal_all h G doc o vres.
Proof.
  intros Ht K NL Hn. destruct vres as [[st doc']| |]; cbn; [|done|done].
  intros (h' & docT & E & I' & Ht' & Hre & K' & NL' & Hn').
  exists h', docT. split; [done|]. split; [done|]. split; [congruence|]. split; [done|].
  split; [by eapply KeepO_trans|]. split; [auto|lia].
Qed.

(** the refused duplicate of a node [m] of the forest, followed by the exit with status [s8] *)
Lemma phase_dup_refused h G doc m (K : ptr -> M Z) s8 :
  MInv h (G ++ [doc]) -> m ∈ nodes (G ++ [doc]) -> PatchDefs.cJSON_Duplicate (reify (h_str h) m) = None ->
  phase_goal_all h G doc
    ((value' <~ cJSON_Duplicate nofail (Some (tid m)) true ;; if is_null value' then cleanup None None s8 else K value') h)
    (Ok (s8, reify (h_str h) doc)).
Proof.
  intros I Hm Hdup. apply dup_value_iff in Hdup.
  destruct (step_dup_refused h (G ++ [doc]) (tid m) m I (node_find h _ I m Hm) Hdup)
    as (h1 & Hrun & I1 & NL1 & _ & _ & Es & _ & _ & Hn).
  rewrite (bindM_Ret _ _ _ _ _ Hrun). cbn [is_null]. rewrite cleanup_none.
  exists h1, doc. split; [done|]. split; [done|]. split; [done|]. split; [by rewrite Es|].
  split; [intros b _; by rewrite Es|]. split; [done|done].
Qed.

Section PhasesAll.
  Context (h : heap) (G : forest) (doc : tree) (pid : positive) (dpt : rdata) (cpt : list tree)
          (pn : positive) (dpn : rdata) (cpn : list tree) (pb : positive) (sp : bytes) (flag : bool).
  Notation F := (G ++ [doc]).
  Notation St := (h_str h).
  Notation pt := (T pid dpt cpt).
  Hypothesis I : MInv h F.
  Hypothesis Hpt : pt ∈ nodes G.
  Hypothesis Hpn : T pn dpn cpn ∈ nodes G.
  Hypothesis Hvs : rd_vstr dpn = Some pb.
  Hypothesis Hps : St !! pb = Some sp.
  Let W : WF h F := mi_wf _ _ I.

  (** the value is a duplicate of a node [m] of the forest, then [finish]; whatever the status for the NULL exit *)
  Lemma phase_dup_finish_all m v s8 :
    m ∈ nodes F -> PatchDefs.cJSON_Duplicate (reify St m) = Some v ->
    phase_goal_all h G doc
      ((value' <~ cJSON_Duplicate nofail (Some (tid m)) true ;;
        if is_null value' then cleanup None None s8 else apply_patch_finish nofail (Some (tid doc)) (Some pn) value' flag) h)
      (PatchDefs.finish_add (reify St doc) v (cstr sp) flag).
  Proof.
    intros Hm Hdup. destruct (pb_facts h G doc pn dpn cpn pb sp I Hpn Hvs Hps) as (Hpl & Hpz & Hpo).
    destruct (step_dup h F (tid m) m I (node_find h F I m Hm) (dup_height _ _ _ Hdup)) as (tc & h1 & Hrun & I1 & NL1 & K1 & Hv).
    rewrite mp_dup_rec_eq in Hv. unfold PatchDefs.cJSON_Duplicate in Hdup. rewrite Hdup in Hv. injection Hv as ->.
    destruct tc as [x dx csx].
    assert (Hps1 : h_str h1 !! pb = Some sp) by (rewrite K1; [done|rewrite owned_app; apply elem_of_app; by left]).
    assert (Hpl1 : pb ∈ h_live h1).
    { apply (wf_owned_live _ _ (mi_wf _ _ I1)). rewrite !owned_app. apply elem_of_app. left. apply elem_of_app. by left. }
    pose proof (finish_refines h1 G doc x dx csx pn dpn cpn pb sp flag I1 Hpn Hvs Hpl1 Hps1 Hpz) as Hfin.
    rewrite (reify_keep h h1 F doc (mi_own _ _ I) (doc_in_F G doc) K1) in Hfin.
    apply finish_to_phase in Hfin.
    rewrite (bindM_Ret _ _ _ _ _ Hrun). cbn [is_null tid].
    destruct (PatchDefs.finish_add (reify St doc) (reify (h_str h1) (T x dx csx)) (cstr sp) flag) as [[st doc']| |]; [|done|done].
    destruct Hfin as (h' & docT & E & I' & Ht & Hre & K' & NL' & Hn').
    exists h', docT. split; [done|]. split; [done|]. split; [done|]. split; [done|].
    split; [eapply KeepO_trans; [exact (KeepO_app_l _ _ _ _ K1)|exact K']|]. split; [auto|].
    assert (h_next h <= h_next h1)%positive; [|lia].
    refine (cp_next _ _ (Cons_cJSON_Duplicate nofail _ _ _ _ _ Hrun (mi_ok _ _ I))).
  Qed.

  (** ** add / replace below the root: "value" member, duplicate, insert *)
  Lemma phase_value_all :
    phase_goal_all h G doc
      ((value <~ u_get_object_item (Some pid) (CLit PatchDefs.s_value) flag ;;
        if is_null value then cleanup None None 7 else
        value' <~ cJSON_Duplicate nofail value true ;;
        if is_null value' then cleanup None None 8 else
        apply_patch_finish nofail (Some (tid doc)) (Some pn) value' flag) h)
      (match CompareDefs.get_object_item (reify St pt) (Some PatchDefs.s_value) flag with
       | None => Ok (7, reify St doc)
       | Some (_, v0) =>
           match PatchDefs.cJSON_Duplicate v0 with
           | None => Ok (8, reify St doc)
           | Some v => ' (st, o) <- PatchDefs.finish_add (reify St doc) v (cstr sp) flag ;; Ok (st, o)
           end
       end).
  Proof.
    destruct (run_member h F I pid dpt cpt PatchDefs.s_value flag (nodes_G_F G doc _ Hpt) zf_value) as [Hrun Hval]. rewrite Hval.
    rewrite (bindM_Ret _ _ _ _ _ Hrun).
    destruct (found_member St flag PatchDefs.s_value cpt) as [[j m]|] eqn:Efm; cbn [fmap option_fmap option_map fst snd is_null].
    2:{ rewrite cleanup_none. by apply phase_goal_all_unchanged. }
    destruct (member_node h F pid dpt cpt _ _ _ _ (nodes_G_F G doc _ Hpt) Efm) as [Hm _].
    destruct (PatchDefs.cJSON_Duplicate (reify St m)) as [v|] eqn:Edup.
    - pose proof (phase_dup_finish_all m v 8 Hm Edup) as H.
      destruct (PatchDefs.finish_add (reify St doc) v (cstr sp) flag) as [[st o]| |]; cbn [bind]; done.
    - exact (phase_dup_refused h G doc m _ 8 I Hm Edup).
  Qed.

  (** ** copy: "from" member, resolve, duplicate, insert *)
  Lemma phase_copy_all fn dfn cfn (fb : positive) (sf : bytes) :
    T fn dfn cfn ∈ nodes F -> rd_vstr dfn = Some fb -> St !! fb = Some sf ->
    phase_goal_all h G doc
      ((value1 <~ (fv <~ get_vstr (Some fn) ;; get_item_from_pointer (Some (tid doc)) (cs_of_ptr fv) flag) ;;
        if is_null value1 then cleanup None None 5 else
        value2 <~ cJSON_Duplicate nofail value1 true ;;
        if is_null value2 then cleanup None None 6 else
        apply_patch_finish nofail (Some (tid doc)) (Some pn) value2 flag) h)
      (match (match PointerDefs.get_item_from_pointer (reify St doc) (cstr sf) flag with
              | Some fp => Tree.subtree (reify St doc) fp
              | None => None
              end) with
       | None => Ok (5, reify St doc)
       | Some v0 =>
           match PatchDefs.cJSON_Duplicate v0 with
           | None => Ok (6, reify St doc)
           | Some v => ' (st, o) <- PatchDefs.finish_add (reify St doc) v (cstr sp) flag ;; Ok (st, o)
           end
       end).
  Proof.
    intros Hfn Hfv Hfs. destruct (node_vstr h F I fn dfn cfn Hfn) as (Hgv & Hsome & _). rewrite Hfv in Hgv.
    destruct (Hsome fb Hfv) as (s' & Hfl & Hfs' & Hfz & _). assert (s' = sf) as -> by (unfold bytes in *; congruence).
    rewrite !bindM_assoc. rewrite (bindM_Ret _ _ _ _ _ Hgv). cbn [cs_of_ptr].
    rewrite (bindM_Ret _ _ _ _ _ (get_item_from_pointer_refines h F I doc (CAt fb 0) (cstr sf) flag (doc_in_F G doc) (CsReads_block h fb sf Hfl Hfs Hfz))).
    destruct (PointerDefs.get_item_from_pointer (reify St doc) (cstr sf) flag) as [fp|] eqn:Egip; cbn [mbind option_bind].
    2:{ cbn [fmap option_fmap option_map is_null]. rewrite cleanup_none. by apply phase_goal_all_unchanged. }
    destruct (get_item_loop_subtree h flag _ _ _ _ Egip) as [n Hn]. rewrite Hn, reify_subtree, Hn. cbn [fmap option_fmap option_map is_null].
    assert (Hnn : n ∈ nodes F).
    { rewrite nodes_app. apply elem_of_app. right. unfold nodes. cbn. rewrite app_nil_r. by eapply subtree_t_nodes. }
    destruct (PatchDefs.cJSON_Duplicate (reify St n)) as [v|] eqn:Edup.
    - pose proof (phase_dup_finish_all n v 6 Hnn Edup) as H.
      destruct (PatchDefs.finish_add (reify St doc) v (cstr sp) flag) as [[st o]| |]; cbn [bind]; done.
    - exact (phase_dup_refused h G doc n _ 6 I Hnn Edup).
  Qed.

  (** ** move: detach the source, insert it (no duplicate: the proof of PatchHeapApply.phase_move never used the side condition) *)
  Lemma phase_move_all (fb : positive) (sf : bytes) :
    fb ∈ h_live h -> St !! fb = Some sf -> existsb (Z.eqb 0) sf = true ->
    phase_goal_all h G doc
      ((v <~ detach_path nofail (Some (tid doc)) (Some fb) flag ;;
        if is_null v then cleanup None None 5 else
        if is_null v then cleanup None None 6 else
        apply_patch_finish nofail (Some (tid doc)) (Some pn) v flag) h)
      (dp <- PatchDefs.detach_path (reify St doc) (cstr sf) flag ;;
       match dp with
       | None => Ok (5, reify St doc)
       | Some (v, obj2) => ' (st, o) <- PatchDefs.finish_add obj2 v (cstr sp) flag ;; Ok (st, o)
       end).
  Proof.
    intros Hfl Hfs Hfz. destruct (pb_facts h G doc pn dpn cpn pb sp I Hpn Hvs Hps) as (Hpl & Hpz & Hpo).
    destruct (detach_path_refines h G doc fb sf flag I Hfl Hfs Hfz) as (h1 & r & F1 & Hrun & I1 & Es & NL1 & En & Hpost).
    rewrite (bindM_Ret _ _ _ _ _ Hrun).
    destruct (PatchDefs.detach_path (reify St doc) (cstr sf) flag) as [[[it doc2]|]| |]; cbn [bind detach_post] in *; [| |done|done].
    - destruct Hpost as (m & pp & p & d & cs & j & -> & Hsub & Hj & -> & Hit & Hdoc2). cbn [is_null].
      set (doc1 := put_t doc pp (T p d (delete j cs))) in *.
      assert (Ht1 : tid doc1 = tid doc) by (by eapply tid_put_t_sub).
      destruct m as [x dx csx]. cbn [tid].
      assert (Hps1 : h_str h1 !! pb = Some sp) by (by rewrite Es).
      assert (Hpl1 : pb ∈ h_live h1).
      { apply (wf_owned_live _ _ (mi_wf _ _ I1)). rewrite !owned_app. apply elem_of_app. left. apply elem_of_app. by left. }
      pose proof (finish_refines h1 G doc1 x dx csx pn dpn cpn pb sp flag I1 Hpn Hvs Hpl1 Hps1 Hpz) as Hfin.
      rewrite Es, Hit, Hdoc2, Ht1 in Hfin. apply finish_to_phase in Hfin.
      destruct (PatchDefs.finish_add doc2 it (cstr sp) flag) as [[st doc']| |]; [|done|done]. cbn [bind].
      destruct Hfin as (h' & docT & E & I' & Ht & Hre & K' & NL' & Hn').
      exists h', docT. split; [done|]. split; [done|]. split; [congruence|]. split; [done|].
      split; [|split; [auto|lia]]. intros b Hb. rewrite (K' b Hb). by rewrite Es.
    - destruct Hpost as [-> ->]. cbn [is_null]. rewrite cleanup_none.
      exists h1, doc. split; [done|]. split; [done|]. split; [done|]. split; [by rewrite Es|].
      split; [intros b Hb; by rewrite Es|]. split; [done|lia].
  Qed.
End PhasesAll.

(** * the operations remove, add, replace, copy, move: every status *)
Section ApplyAll.
  Context (h : heap) (G : forest) (doc : tree) (pid : positive) (dpt : rdata) (cpt : list tree) (flag : bool).
  Notation F := (G ++ [doc]).
  Notation St := (h_str h).
  Notation pt := (T pid dpt cpt).
  Hypothesis I : MInv h F.
  Hypothesis Hpt : pt ∈ nodes G.

  Definition apply_post_all (o : out (Z * heap)) (vres : Base.res (Z * Tree.node * Tree.node)%type) : Prop :=
    match vres with
    | Ok (st, doc', pt') =>
        exists h' docT,
          o = Ret (st, h') /\ MInv h' (G ++ [docT]) /\ tid docT = tid doc /\ reify (h_str h') docT = doc' /\
          pt' = reify St pt /\ KeepO h h' G /\ (NoLeak h F -> NoLeak h' (G ++ [docT])) /\ (h_next h <= h_next h')%positive
    | _ => True
    end.

  Lemma apply_post_all_of_phase o (vres : Base.res (Z * Tree.node)%type) :
    phase_goal_all h G doc o vres -> apply_post_all o (' (st, d) <- vres ;; Ok (st, d, reify St pt)).
  Proof.
    destruct vres as [[st doc']| |]; cbn; [|done|done]. intros (h' & docT & E & H').
    exists h', docT. split; [done|]. destruct H' as (A & B & C & D & E' & F'). done.
  Qed.

  Lemma apply_post_all_unchanged st : apply_post_all (Ret (st, h)) (Ok (st, reify St doc, reify St pt)).
  Proof. apply (apply_post_all_of_phase _ (Ok (st, reify St doc))). by apply phase_goal_all_unchanged. Qed.

  (** add / replace ONTO THE ROOT: "value" member, duplicate, overwrite the root *)
  Lemma root_value_all :
    apply_post_all
      ((value <~ u_get_object_item (Some pid) (CLit PatchDefs.s_value) flag ;;
        if is_null value then cleanup None None 7 else
        value' <~ cJSON_Duplicate nofail value true ;;
        if is_null value' then cleanup None None 8 else
        patch_root_overwrite (Some (tid doc)) value' ;;; cleanup None None 0) h)
      (match CompareDefs.get_object_item (reify St pt) (Some PatchDefs.s_value) flag with
       | None => Ok (7, reify St doc, reify St pt)
       | Some (_, v) =>
           match PatchDefs.cJSON_Duplicate v with
           | None => Ok (8, reify St doc, reify St pt)
           | Some d => Ok (0, PatchDefs.unnamed d, reify St pt)
           end
       end).
  Proof.
    pose proof (nodes_G_F G doc _ Hpt) as HptF.
    destruct (run_member h F I pid dpt cpt PatchDefs.s_value flag HptF zf_value) as [Hrunv Hvalv]. rewrite Hvalv.
    rewrite (bindM_Ret _ _ _ _ _ Hrunv).
    destruct (found_member St flag PatchDefs.s_value cpt) as [[jv m]|] eqn:Efv; cbn [fmap option_fmap option_map fst snd is_null];
      [|rewrite cleanup_none; apply apply_post_all_unchanged].
    destruct (member_node h F pid dpt cpt _ _ _ _ HptF Efv) as [Hm _].
    destruct (PatchDefs.cJSON_Duplicate (reify St m)) as [v|] eqn:Edup.
    - destruct (step_dup h F (tid m) m I (node_find h F I m Hm) (dup_height _ _ _ Edup)) as (tc & h1 & Hrund & I1 & NL1 & K1 & Hdv).
      rewrite mp_dup_rec_eq in Hdv. unfold PatchDefs.cJSON_Duplicate in Edup. rewrite Edup in Hdv. injection Hdv as ->.
      destruct tc as [x dx csx]. cbn [tid].
      rewrite (bindM_Ret _ _ _ _ _ Hrund). cbn [is_null].
      destruct (root_overwrite_step' h1 G doc x dx csx I1) as (h2 & Hrun2 & I2 & NL2 & K2 & En2 & Hre2).
      rewrite (bindM_Ret _ _ _ _ _ Hrun2). rewrite cleanup_none. exists h2, (T (tid doc) (rd_unnamed dx) csx).
      split; [done|]. split; [done|]. split; [done|]. split; [done|]. split; [done|].
      split; [eapply KeepO_trans; [exact (KeepO_app_l _ _ _ _ K1)|exact K2]|]. split; [auto|].
      pose proof (cp_next _ _ (Cons_cJSON_Duplicate nofail _ _ _ _ _ Hrund (mi_ok _ _ I))). lia.
    - apply (apply_post_all_of_phase _ (Ok (8, reify St doc))).
      exact (phase_dup_refused h G doc m _ 8 I Hm Edup).
  Qed.

  Theorem apply_patch_refines_all :
    PatchDefs.decode_patch_operation (reify St pt) flag <> Ok PatchDefs.TEST ->
    apply_post_all (apply_patch nofail (Some (tid doc)) (Some pid) flag h) (PatchDefs.apply_patch (reify St doc) (reify St pt) flag).
  Proof.
    intros Hnt. pose proof (nodes_G_F G doc _ Hpt) as HptF.
    unfold apply_patch, PatchDefs.apply_patch.
    destruct (run_member h F I pid dpt cpt PatchDefs.s_path flag HptF zf_path) as [Hrun Hval]. rewrite Hval. stp Hrun.
    destruct (found_member St flag PatchDefs.s_path cpt) as [[j pathn]|] eqn:Efm; cbn [fmap option_fmap option_map fst snd].
    2:{ unfold cJSON_IsString. cbn [is_null]. rewrite bindM_ret. cbn [negb]. rewrite cleanup_none. apply apply_post_all_unchanged. }
    destruct pathn as [pn dpn cpn]. cbn [tid].
    assert (HpnG : T pn dpn cpn ∈ nodes G).
    { eapply TierBridgeForest.child_in_nodes; [exact Hpt|]. eapply elem_of_list_lookup_2. exact (found_member_lookup _ _ _ _ _ _ Efm). }
    pose proof (nodes_G_F G doc _ HpnG) as HpnF.
    stp (run_is_string h F I pn dpn cpn HpnF).
    destruct (Tree.is_string (reify St (T pn dpn cpn))); cbn [negb]; [|rewrite cleanup_none; apply apply_post_all_unchanged].
    destruct (PatchDefs.decode_patch_operation (reify St pt) flag) as [opc| |] eqn:Edec; cbn [bind]; [|done|done].
    stp (run_decode h F I pid dpt cpt flag opc HptF Edec).
    destruct (node_vstr h F I pn dpn cpn HpnF) as (Hgv & Hsome & Hnone).
    assert (Hmain : opc <> PatchDefs.INVALID -> opc <> PatchDefs.TEST ->
      forall K vK,
      (forall pb (sp : bytes), rd_vstr dpn = Some pb -> St !! pb = Some sp -> pb ∈ h_live h -> existsb (Z.eqb 0) sp = true ->
         Tree.n_vstr (reify St (T pn dpn cpn)) = Some (cstr sp) -> apply_post_all (K h) (vK (cstr sp))) ->
      apply_post_all (K h) (match Tree.n_vstr (reify St (T pn dpn cpn)) with None => OOB | Some pstr => vK pstr end)).
    { intros _ _ K vK HK. destruct (rd_vstr dpn) as [pb|] eqn:Evs.
      - destruct (Hsome pb eq_refl) as (sp & Hl & Hs & Hz & Hv). rewrite Hv. by apply (HK pb sp).
      - by rewrite (Hnone eq_refl). }
    destruct opc; try (rewrite cleanup_none; apply apply_post_all_unchanged); try (by exfalso; apply Hnt);
      (apply Hmain; [done|done|]); intros pb sp Hvs Hps Hpl Hpz Hv;
      stp Hgv; rewrite Hvs; cbn [cs_of_ptr];
      stp (run_ld_byte0 _ _ _ (CsReads_block h pb sp Hpl Hps Hpz));
      rewrite (hd_is_nil _ (SortSpec.cstr_zfree sp)); cbn [andb orb].
    - (* ADD *)
      destruct (PatchDefs.is_nil (cstr sp)) eqn:Enil; cbn [andb orb].
      + (* the root *)
        pose proof root_value_all as Hrv.
        destruct (CompareDefs.get_object_item (reify St pt) (Some PatchDefs.s_value) flag) as [[jv v0]|]; [|exact Hrv].
        destruct (PatchDefs.cJSON_Duplicate v0) as [v|]; exact Hrv.
      + rewrite bindM_ret. cbn [bind].
        pose proof (phase_value_all h G doc pid dpt cpt pn dpn cpn pb sp flag I Hpt HpnG Hvs Hps) as Hph.
        apply apply_post_all_of_phase in Hph.
        destruct (CompareDefs.get_object_item (reify St pt) (Some PatchDefs.s_value) flag) as [[jv v0]|]; [|exact Hph].
        destruct (PatchDefs.cJSON_Duplicate v0) as [v|]; [|exact Hph].
        destruct (PatchDefs.finish_add (reify St doc) v (cstr sp) flag) as [[st o]| |]; exact Hph.
    - (* REMOVE *)
      destruct (PatchDefs.is_nil (cstr sp)) eqn:Enil; cbn [andb orb].
      + destruct (root_remove_step' h G doc I) as (h1 & Hrun1 & I1 & NL1 & K1 & En1).
        stp Hrun1. rewrite cleanup_none. exists h1, (T (tid doc) rd_invalid []).
        split; [done|]. split; [done|]. split; [done|]. split; [done|]. split; [done|]. split; [done|]. split; [done|lia].
      + rewrite bindM_assoc. rewrite (bindM_Ret _ _ _ _ _ Hgv). rewrite Hvs.
        pose proof (phase_rid h G doc pn dpn cpn pb sp flag I HpnG Hvs Hps (Some 0)) as Hrid.
        destruct (PatchDefs.detach_path (reify St doc) (cstr sp) flag) as [[[it doc2]|]| |]; cbn [bind]; [| |done|done].
        * destruct Hrid as (h1 & doc1 & Hrun1 & I1 & Ht1 & Hre1 & K1 & NL1 & En1). rewrite (bindM_Ret _ _ _ _ _ Hrun1). rewrite cleanup_none.
          exists h1, doc1. split; [done|]. split; [done|]. split; [done|]. split; [done|]. split; [done|]. split; [done|]. split; [done|lia].
        * destruct Hrid as (h1 & Hrun1 & I1 & Es1 & NL1 & En1). rewrite (bindM_Ret _ _ _ _ _ Hrun1). rewrite cleanup_none.
          exists h1, doc. split; [done|]. split; [done|]. split; [done|]. split; [by rewrite Es1|]. split; [done|].
          split; [intros b Hb; by rewrite Es1|]. split; [done|lia].
    - (* REPLACE *)
      destruct (PatchDefs.is_nil (cstr sp)) eqn:Enil; cbn [andb orb].
      + pose proof root_value_all as Hrv.
        destruct (CompareDefs.get_object_item (reify St pt) (Some PatchDefs.s_value) flag) as [[jv v0]|]; [|exact Hrv].
        destruct (PatchDefs.cJSON_Duplicate v0) as [v|]; exact Hrv.
      + rewrite bindM_assoc. rewrite (bindM_Ret _ _ _ _ _ Hgv). rewrite Hvs.
        pose proof (phase_rid h G doc pn dpn cpn pb sp flag I HpnG Hvs Hps None) as Hrid.
        destruct (PatchDefs.detach_path (reify St doc) (cstr sp) flag) as [[[it doc2]|]| |]; cbn [bind]; [| |done|done].
        * destruct Hrid as (h1 & doc1 & Hrun1 & I1 & Ht1 & Hre1 & K1 & NL1 & En1). rewrite (bindM_Ret _ _ _ _ _ Hrun1).
          assert (Hps1 : h_str h1 !! pb = Some sp).
          { rewrite (K1 pb); [done|]. exact (proj2 (proj2 (pb_facts h G doc pn dpn cpn pb sp I HpnG Hvs Hps))). }
          assert (HreP : reify (h_str h1) pt = reify St pt).
          { apply (reify_keep h h1 G pt); [|done|done]. intros e He. apply (mi_own _ _ I). apply datas_elem_app. by left. }
          pose proof (phase_value_all h1 G doc1 pid dpt cpt pn dpn cpn pb sp flag I1 Hpt HpnG Hvs Hps1) as Hph.
          rewrite HreP, Hre1, Ht1 in Hph.
          apply (phase_goal_all_step h h1 G doc doc1 _ _ Ht1 K1 NL1 En1) in Hph. apply apply_post_all_of_phase in Hph.
          destruct (CompareDefs.get_object_item (reify St pt) (Some PatchDefs.s_value) flag) as [[jv v0]|]; [|exact Hph].
          destruct (PatchDefs.cJSON_Duplicate v0) as [v|]; [|exact Hph].
          destruct (PatchDefs.finish_add doc2 v (cstr sp) flag) as [[st o]| |]; exact Hph.
        * destruct Hrid as (h1 & Hrun1 & I1 & Es1 & NL1 & En1). rewrite (bindM_Ret _ _ _ _ _ Hrun1). rewrite cleanup_none.
          exists h1, doc. split; [done|]. split; [done|]. split; [done|]. split; [by rewrite Es1|]. split; [done|].
          split; [intros b Hb; by rewrite Es1|]. split; [done|lia].
    - (* MOVE *)
      rewrite !andb_false_r. cbn [orb bind]. rewrite bindM_ret.
      destruct (run_member h F I pid dpt cpt PatchDefs.s_from flag HptF zf_from) as [Hrunf Hvalf]. rewrite Hvalf. stp Hrunf.
      destruct (found_member St flag PatchDefs.s_from cpt) as [[jf fromn]|] eqn:Eff; cbn [fmap option_fmap option_map fst snd].
      2:{ unfold cJSON_IsString. cbn [is_null]. rewrite bindM_ret. cbn [negb]. rewrite cleanup_none. apply apply_post_all_unchanged. }
      destruct fromn as [fn dfn cfn]. cbn [tid].
      destruct (member_node h F pid dpt cpt _ _ _ _ HptF Eff) as [HfnF _].
      stp (run_is_string h F I fn dfn cfn HfnF).
      destruct (Tree.is_string (reify St (T fn dfn cfn))); cbn [negb]; [|rewrite cleanup_none; apply apply_post_all_unchanged].
      destruct (node_vstr h F I fn dfn cfn HfnF) as (Hgf & Hsomef & Hnonef).
      destruct (rd_vstr dfn) as [fb|] eqn:Efv; [|by rewrite (Hnonef eq_refl)].
      destruct (Hsomef fb eq_refl) as (sf & Hfl & Hfs & Hfz & Hfv). rewrite Hfv.
      rewrite !bindM_assoc. stp Hgf. stp (run_ld_cstr _ _ _ Hfl Hfs Hfz). stp Hgf. stp Hgv. rewrite Hvs.
      stp (run_ld_cstr _ _ _ Hfl Hfs Hfz). stp (run_ld_cstr _ _ _ Hpl Hps Hpz).
      assert (Eshape : forall g,
        (a <~ detach_path nofail (Some (tid doc)) (Some fb) flag ;;
         r1 <~ ret (Some a) ;;
         match r1 with
         | Some value0 =>
             value1 <~ (if false then fv <~ get_vstr (Some fn) ;; get_item_from_pointer (Some (tid doc)) (cs_of_ptr fv) flag else ret value0) ;;
             (if is_null value1 then cleanup None None 5
              else value2 <~ (if false then cJSON_Duplicate nofail value1 true else ret value1) ;;
                   (if is_null value2 then cleanup None None 6 else apply_patch_finish nofail (Some (tid doc)) (Some pn) value2 flag))
         | None => cleanup None None 9
         end) g =
        (v <~ detach_path nofail (Some (tid doc)) (Some fb) flag ;;
         if is_null v then cleanup None None 5 else if is_null v then cleanup None None 6
         else apply_patch_finish nofail (Some (tid doc)) (Some pn) v flag) g).
      { intros g. apply bindM_ext; [done|]. intros a g'. rewrite !bindM_ret. destruct a; cbn [is_null]; rewrite ?bindM_ret; reflexivity. }
      destruct (bytes_eqb (firstn (length (cstr sf)) (cstr sp)) (cstr sf)) eqn:Epre; cbn [andb].
      + stp Hgv. rewrite Hvs. cbn [cs_of_ptr].
        stp (run_ld_byte_k h pb sp (length (cstr sf)) Hpl Hps Hpz (bytes_eqb_firstn_length _ _ Epre)). rewrite bindM_ret.
        change (skipn (length (cstr sf)) (cstr sp)) with (drop (length (cstr sf)) (cstr sp)).
        destruct (hd 0 (drop (length (cstr sf)) (cstr sp)) =? 47).
        * rewrite bindM_ret. rewrite cleanup_none. apply apply_post_all_unchanged.
        * rewrite !bindM_assoc. stp Hgf. rewrite !bindM_assoc.
          pose proof (phase_move_all h G doc pn dpn cpn pb sp flag I HpnG Hvs Hps fb sf Hfl Hfs Hfz) as Hph.
          apply apply_post_all_of_phase in Hph.
          rewrite Eshape.
          destruct (PatchDefs.detach_path (reify St doc) (cstr sf) flag) as [[[v obj2]|]| |]; cbn [bind] in *; [|exact Hph|done|done].
          destruct (PatchDefs.finish_add obj2 v (cstr sp) flag) as [[st o]| |]; exact Hph.
      + rewrite !bindM_assoc, bindM_ret. cbv beta iota. rewrite !bindM_assoc. stp Hgf. rewrite !bindM_assoc.
        pose proof (phase_move_all h G doc pn dpn cpn pb sp flag I HpnG Hvs Hps fb sf Hfl Hfs Hfz) as Hph.
        apply apply_post_all_of_phase in Hph.
        rewrite Eshape.
        destruct (PatchDefs.detach_path (reify St doc) (cstr sf) flag) as [[[v obj2]|]| |]; cbn [bind] in *; [|exact Hph|done|done].
        destruct (PatchDefs.finish_add obj2 v (cstr sp) flag) as [[st o]| |]; exact Hph.
    - (* COPY *)
      rewrite !andb_false_r. cbn [orb bind]. rewrite bindM_ret.
      destruct (run_member h F I pid dpt cpt PatchDefs.s_from flag HptF zf_from) as [Hrunf Hvalf]. rewrite Hvalf. stp Hrunf.
      destruct (found_member St flag PatchDefs.s_from cpt) as [[jf fromn]|] eqn:Eff; cbn [fmap option_fmap option_map fst snd].
      2:{ unfold cJSON_IsString. cbn [is_null]. rewrite bindM_ret. cbn [negb]. rewrite cleanup_none. apply apply_post_all_unchanged. }
      destruct fromn as [fn dfn cfn]. cbn [tid].
      destruct (member_node h F pid dpt cpt _ _ _ _ HptF Eff) as [HfnF _].
      stp (run_is_string h F I fn dfn cfn HfnF).
      destruct (Tree.is_string (reify St (T fn dfn cfn))); cbn [negb]; [|rewrite cleanup_none; apply apply_post_all_unchanged].
      rewrite bindM_ret.
      destruct (node_vstr h F I fn dfn cfn HfnF) as (Hgf & Hsomef & Hnonef).
      destruct (rd_vstr dfn) as [fb|] eqn:Efv.
      + destruct (Hsomef fb eq_refl) as (sf & Hfl & Hfs & Hfz & Hfv). rewrite Hfv.
        pose proof (phase_copy_all h G doc pn dpn cpn pb sp flag I HpnG Hvs Hps fn dfn cfn fb sf HfnF Efv Hfs) as Hph.
        apply apply_post_all_of_phase in Hph.
        destruct (PointerDefs.get_item_from_pointer (reify St doc) (cstr sf) flag) as [fp|]; [|exact Hph].
        destruct (Tree.subtree (reify St doc) fp) as [v0|]; [|exact Hph].
        destruct (PatchDefs.cJSON_Duplicate v0) as [v|]; [|exact Hph].
        destruct (PatchDefs.finish_add (reify St doc) v (cstr sp) flag) as [[st o]| |]; exact Hph.
      + rewrite (Hnonef eq_refl). rewrite !bindM_assoc. stp Hgf. cbn [cs_of_ptr].
        unfold get_item_from_pointer at 1. cbn [cs_is_null]. rewrite bindM_ret. cbn [is_null]. rewrite cleanup_none.
        apply apply_post_all_unchanged.
  Qed.
End ApplyAll.
