(** MinifyProofs.v — the buffer-level transliteration of cJSON_Minify refines the
    list-level function [minify_l]; safety (no access outside the buffer, termination,
    in-place shrinking) follows. *)
From CJ Require Import Base MinifyDefs.
Local Open Scope Z_scope.

Definition nz (s : bytes) : Prop := Forall (fun c => c <> 0) s.

Ltac tup := f_equal; repeat match goal with |- (_, _) = (_, _) => f_equal end; try reflexivity; rewrite ?app_length; simpl; rewrite ?app_length; simpl; try lia.
Ltac lnorm := repeat (rewrite <- ?app_assoc; simpl); reflexivity.
Ltac len := rewrite ?app_length; simpl; rewrite ?app_length; simpl; try lia.

Lemma tl_snoc_length (G : bytes) c : length (tl (G ++ [c])) = length G.
Proof. destruct G; simpl; [reflexivity|]. rewrite app_length; simpl; lia. Qed.

Lemma rd_st W G c T : rd (W ++ G ++ c :: T) (length W + length G) = Ok c.
Proof.
  unfold rd. rewrite nth_error_app2 by lia. rewrite nth_error_app2 by lia.
  replace (length W + length G - length W - length G)%nat with 0%nat by lia. reflexivity.
Qed.

Lemma upd_app W x Y v : upd (W ++ x :: Y) (length W) v = W ++ v :: Y.
Proof.
  unfold upd. induction W as [|w W IH]; simpl; [reflexivity|]. f_equal. exact IH.
Qed.

Lemma wr_st W G c T v :
  wr (W ++ G ++ c :: T) (length W) v = Ok ((W ++ [v]) ++ tl (G ++ [c]) ++ T).
Proof.
  unfold wr.
  assert (H : (length W <? length (W ++ G ++ c :: T))%nat = true)
    by (apply Nat.ltb_lt; rewrite !app_length; simpl; lia).
  rewrite H. f_equal. destruct G as [|g G1]; simpl.
  - rewrite upd_app. rewrite <- app_assoc. reflexivity.
  - rewrite upd_app. rewrite <- !app_assoc. reflexivity.
Qed.

Lemma rd_st' b i W G c T :
  b = W ++ G ++ c :: T -> i = (length W + length G)%nat -> rd b i = Ok c.
Proof. intros -> ->. apply rd_st. Qed.

Lemma wr_st' b o W G c T v :
  b = W ++ G ++ c :: T -> o = length W ->
  wr b o v = Ok ((W ++ [v]) ++ tl (G ++ [c]) ++ T).
Proof. intros -> ->. apply wr_st. Qed.

Lemma rd_after_wr W G c T :
  rd ((W ++ [c]) ++ tl (G ++ [c]) ++ T) (length W + length G) = Ok c.
Proof.
  destruct G as [|g G1]; simpl.
  - apply (rd_st' _ _ W [] c T); [rewrite <- app_assoc; reflexivity | simpl; lia].
  - apply (rd_st' _ _ (W ++ [c]) G1 c T); [rewrite <- !app_assoc; reflexivity | len].
Qed.

Lemma wr_length b i v b' : wr b i v = Ok b' -> length b' = length b.
Proof.
  unfold wr. destruct (i <? length b)%nat eqn:E; [|discriminate].
  intro H; inversion H; subst. apply Nat.ltb_lt in E. unfold upd.
  rewrite app_length. cbn [length]. rewrite firstn_length, skipn_length. lia.
Qed.

(** suffix facts of the list-level skippers *)
Lemma skip1_l_suffix r : exists P, r = P ++ skip1_l r.
Proof.
  induction r as [|c r [P IH]]; simpl; [exists []; reflexivity|].
  destruct (c =? 10); [exists [c]; reflexivity|].
  exists (c :: P). simpl. f_equal. exact IH.
Qed.

Lemma skipm_l_suffix r : exists P, r = P ++ skipm_l r.
Proof.
  induction r as [|c r [P IH]]; simpl; [exists []; reflexivity|].
  destruct ((c =? 42) && (hd 0 r =? 47)).
  - destruct r as [|d r']; simpl; [exists [c]; reflexivity|]. exists [c; d]. reflexivity.
  - exists (c :: P). simpl. f_equal. exact IH.
Qed.

Lemma nz_app a b : nz (a ++ b) <-> nz a /\ nz b.
Proof. unfold nz. apply Forall_app. Qed.

Lemma hd_app_zero (r : bytes) : hd 0 (r ++ [0]) = hd 0 r.
Proof. destruct r; reflexivity. Qed.

(** one-line comment loop: reads only *)
Lemma skip_oneline_loop_ok fuel : forall r W G,
  nz r -> (length r < fuel)%nat ->
  exists P, r = P ++ skip1_l r /\
    skip_oneline_loop fuel (W ++ G ++ r ++ [0]) (length W + length G)
    = Ok (length W + length G + length P)%nat.
Proof.
  induction fuel as [|f IH]; intros r W G Hnz Hf; [lia|].
  destruct r as [|c r]; simpl.
  - exists []. split; [reflexivity|]. rewrite rd_st. simpl. f_equal; lia.
  - rewrite rd_st. simpl. inversion Hnz as [|? ? Hc Hr]; subst.
    apply Z.eqb_neq in Hc. rewrite Hc.
    destruct (c =? 10) eqn:E10.
    + exists [c]. split; [reflexivity|]. simpl. f_equal; lia.
    + simpl in Hf. destruct (IH r W (G ++ [c]) Hr ltac:(lia)) as [P [HP Hrun]].
      exists (c :: P). split; [simpl; f_equal; exact HP|].
      rewrite <- app_assoc in Hrun. simpl in Hrun. rewrite app_length in Hrun. simpl in Hrun.
      replace (length W + length G + 1)%nat with (length W + (length G + 1))%nat by lia.
      rewrite Hrun. f_equal; simpl; lia.
Qed.

Lemma skip_multiline_loop_ok fuel : forall r W G,
  nz r -> (length r < fuel)%nat ->
  exists P, r = P ++ skipm_l r /\
    skip_multiline_loop fuel (W ++ G ++ r ++ [0]) (length W + length G)
    = Ok (length W + length G + length P)%nat.
Proof.
  induction fuel as [|f IH]; intros r W G Hnz Hf; [lia|].
  destruct r as [|c r]; simpl.
  - exists []. split; [reflexivity|]. rewrite rd_st. simpl. f_equal; lia.
  - rewrite rd_st. simpl. inversion Hnz as [|? ? Hc Hr]; subst.
    apply Z.eqb_neq in Hc. rewrite Hc. simpl in Hf.
    assert (Hnext : rd (W ++ G ++ c :: r ++ [0]) (length W + length G + 1) = Ok (hd 0 r)).
    { replace (W ++ G ++ c :: r ++ [0]) with (W ++ (G ++ [c]) ++ (hd 0 r) :: tl (r ++ [0])).
      - replace (length W + length G + 1)%nat with (length W + length (G ++ [c]))%nat by len.
        apply rd_st.
      - rewrite <- app_assoc. simpl. do 3 f_equal. destruct r; reflexivity. }
    destruct (IH r W (G ++ [c]) Hr ltac:(lia)) as [P [HP Hrun]].
    rewrite <- app_assoc in Hrun. simpl in Hrun. rewrite app_length in Hrun. simpl in Hrun.
    replace (length W + (length G + 1))%nat with (length W + length G + 1)%nat in Hrun by lia.
    destruct (c =? 42) eqn:E42; simpl.
    + rewrite Hnext. simpl. destruct (hd 0 r =? 47) eqn:E47.
      * destruct r as [|d r']; simpl in *; [discriminate|].
        exists [c; d]. split; [reflexivity|]. f_equal; simpl; lia.
      * exists (c :: P). split; [simpl; f_equal; exact HP|]. rewrite Hrun. f_equal; simpl; lia.
    + exists (c :: P). split; [simpl; f_equal; exact HP|]. rewrite Hrun. f_equal; simpl; lia.
Qed.

(** string loop *)
Lemma mstr_l_length r : (length (snd (mstr_l r)) <= length r)%nat.
Proof.
  remember (length r) as n eqn:Hn. revert r Hn.
  induction n as [n IH] using lt_wf_ind. intros r Hn.
  destruct r as [|c r]; simpl; [lia|].
  destruct (c =? 34); simpl; [simpl in Hn; lia|].
  destruct (c =? 92).
  - destruct r as [|d r']; simpl; [lia|].
    specialize (IH (length r') ltac:(simpl in Hn; lia) r' eq_refl).
    destruct (mstr_l r') as [a rest]; simpl in *. lia.
  - specialize (IH (length r) ltac:(simpl in Hn; lia) r eq_refl).
    destruct (mstr_l r) as [a rest]; simpl in *. lia.
Qed.

Lemma minify_string_loop_ok fuel : forall r W G,
  nz r -> (length r < fuel)%nat ->
  exists G',
    minify_string_loop fuel (W ++ G ++ r ++ [0]) (length W + length G) (length W)
    = Ok ((W ++ fst (mstr_l r)) ++ G' ++ snd (mstr_l r) ++ [0],
          (length (W ++ fst (mstr_l r)) + length G')%nat,
          length (W ++ fst (mstr_l r))) /\ nz (snd (mstr_l r)).
Proof.
  induction fuel as [|f IH]; intros r W G Hnz Hf; [lia|].
  destruct r as [|c r]; cbn [minify_string_loop mstr_l fst snd].
  - exists G. simpl app. rewrite rd_st. simpl. rewrite app_nil_r. split; [reflexivity|constructor].
  - simpl app. rewrite rd_st. inversion Hnz as [|? ? Hc Hr]; subst.
    cbn [bind]. apply Z.eqb_neq in Hc. rewrite Hc.
    rewrite wr_st. cbn [bind]. rewrite rd_after_wr. cbn [bind].
    simpl in Hf.
    destruct (c =? 34) eqn:E34.
    + (* closing quote *)
      apply Z.eqb_eq in E34. subst c. cbn [fst snd].
      (* second write of the quote at o *)
      destruct G as [|g G1].
      * simpl tl.
        rewrite (wr_st' _ _ W [] 34 (r ++ [0]) 34)
          by (try reflexivity; rewrite <- app_assoc; reflexivity).
        cbn [bind]. exists []. simpl. split; [|exact Hr].
        tup.
      * simpl tl.
        rewrite (wr_st' _ _ W [] 34 ((G1 ++ [34]) ++ r ++ [0]) 34)
          by (try reflexivity; rewrite <- !app_assoc; reflexivity).
        cbn [bind]. exists (G1 ++ [34]). simpl. split; [|exact Hr].
        tup.
    + destruct (c =? 92) eqn:E92.
      * (* backslash: look at the next byte *)
        assert (Hnext : rd ((W ++ [c]) ++ tl (G ++ [c]) ++ r ++ [0]) (length W + length G + 1)
                        = Ok (hd 0 r)).
        { replace (r ++ [0]) with (hd 0 r :: tl (r ++ [0])) by (destruct r; reflexivity).
          replace (length W + length G + 1)%nat
            with (length (W ++ [c]) + length (tl (G ++ [c])))%nat
            by (rewrite tl_snoc_length; len).
          apply rd_st. }
        rewrite Hnext. cbn [bind].
        destruct r as [|d r'].
        -- (* backslash is the last byte before the terminator *)
           simpl hd. simpl negb. cbn [mstr_l fst snd].
           destruct f as [|f']; [lia|]. cbn [minify_string_loop].
           replace ((W ++ [c]) ++ tl (G ++ [c]) ++ [] ++ [0])
             with ((W ++ [c]) ++ tl (G ++ [c]) ++ 0 :: []) by reflexivity.
           replace (length W + length G + 1)%nat
             with (length (W ++ [c]) + length (tl (G ++ [c])))%nat
             by (rewrite tl_snoc_length; len).
           rewrite rd_st. simpl. exists (tl (G ++ [c])).
           apply Z.eqb_eq in E92. subst c. split; [|constructor].
           tup.
        -- simpl hd. inversion Hr as [|? ? Hd Hr']; subst.
           apply Z.eqb_neq in Hd. rewrite Hd. simpl negb. cbn iota.
           simpl app at 3.
           replace (length W + 1)%nat with (length (W ++ [c])) by len.
           rewrite wr_st. cbn [bind].
           destruct (IH r' ((W ++ [c]) ++ [d]) (tl (tl (G ++ [c]) ++ [d])) Hr' ltac:(simpl in Hf; lia))
             as [G' [Hrun Hnz']].
           replace (length W + length G + 2)%nat
             with (length ((W ++ [c]) ++ [d]) + length (tl (tl (G ++ [c]) ++ [d])))%nat
             by (rewrite !tl_snoc_length; len).
           replace (length W + 2)%nat with (length ((W ++ [c]) ++ [d])) by len.
           rewrite Hrun. cbn [mstr_l]. destruct (mstr_l r') as [a rest]. cbn [fst snd] in *.
           exists G'. split; [|exact Hnz'].
           apply Z.eqb_eq in E92. subst c.
           replace (((W ++ [92]) ++ [d]) ++ a) with (W ++ 92 :: d :: a)
             by (rewrite <- !app_assoc; reflexivity).
           reflexivity.
      * (* ordinary byte *)
        destruct (IH r (W ++ [c]) (tl (G ++ [c])) Hr ltac:(lia)) as [G' [Hrun Hnz']].
        replace (length W + length G + 1)%nat
          with (length (W ++ [c]) + length (tl (G ++ [c])))%nat
          by (rewrite tl_snoc_length; len).
        replace (length W + 1)%nat with (length (W ++ [c])) by len.
        rewrite Hrun. destruct (mstr_l r) as [a rest]. cbn [fst snd] in *.
        exists G'. split; [|exact Hnz'].
        replace ((W ++ [c]) ++ a) with (W ++ c :: a) by (rewrite <- app_assoc; reflexivity).
        reflexivity.
Qed.

Lemma minify_string_ok r W G : nz r ->
  exists G',
    minify_string (W ++ G ++ (34 :: r) ++ [0]) (length W + length G) (length W)
    = Ok ((W ++ 34 :: fst (mstr_l r)) ++ G' ++ snd (mstr_l r) ++ [0],
          (length (W ++ 34%Z :: fst (mstr_l r)) + length G')%nat,
          length (W ++ 34 :: fst (mstr_l r))) /\ nz (snd (mstr_l r)).
Proof.
  intro Hnz. unfold minify_string. simpl app. rewrite rd_st. cbn [bind].
  rewrite wr_st. cbn [bind].
  destruct (minify_string_loop_ok (length (W ++ G ++ 34 :: r ++ [0])) r (W ++ [34]) (tl (G ++ [34])) Hnz)
    as [G' [Hrun Hnz']]; [len|].
  replace (length W + length G + 1)%nat
    with (length (W ++ [34%Z]) + length (tl (G ++ [34%Z])))%nat by (rewrite tl_snoc_length; len).
  replace (length W + 1)%nat with (length (W ++ [34])) by len.
  rewrite Hrun. exists G'. split; [|exact Hnz'].
  replace ((W ++ [34]) ++ fst (mstr_l r)) with (W ++ 34 :: fst (mstr_l r))
    by (rewrite <- app_assoc; reflexivity).
  reflexivity.
Qed.

Lemma rd_next W G c r :
  rd (W ++ G ++ (c :: r) ++ [0]) (length W + length G + 1) = Ok (hd 0 r).
Proof.
  apply (rd_st' _ _ W (G ++ [c]) (hd 0 r) (tl (r ++ [0]))); [|len].
  rewrite <- app_assoc. simpl. do 3 f_equal. destruct r; reflexivity.
Qed.

Lemma skip1_l_length r : (length (skip1_l r) <= length r)%nat.
Proof. destruct (skip1_l_suffix r) as [P HP]. rewrite HP at 2. rewrite app_length. lia. Qed.
Lemma skipm_l_length r : (length (skipm_l r) <= length r)%nat.
Proof. destruct (skipm_l_suffix r) as [P HP]. rewrite HP at 2. rewrite app_length. lia. Qed.
Lemma skip1_l_nz r : nz r -> nz (skip1_l r).
Proof. intro H. destruct (skip1_l_suffix r) as [P HP]. rewrite HP in H. apply nz_app in H. tauto. Qed.
Lemma skipm_l_nz r : nz r -> nz (skipm_l r).
Proof. intro H. destruct (skipm_l_suffix r) as [P HP]. rewrite HP in H. apply nz_app in H. tauto. Qed.

(** main loop: the buffer-level code computes [minify_l] of the remaining input into the
    already written prefix, never leaving the buffer *)
Lemma minify_loop_ok fuel : forall r W G,
  nz r -> (length r < fuel)%nat ->
  exists G',
    minify_loop fuel (W ++ G ++ r ++ [0]) (length W + length G) (length W)
    = Ok ((W ++ minify_l fuel r) ++ G' ++ [0], length (W ++ minify_l fuel r)).
Proof.
  induction fuel as [|f IH]; intros r W G Hnz Hf; [lia|].
  destruct r as [|c r].
  - exists G. cbn [minify_loop minify_l]. simpl app. rewrite rd_st. simpl.
    rewrite app_nil_r. reflexivity.
  - cbn [minify_loop minify_l].
    assert (Hrd : rd (W ++ G ++ (c :: r) ++ [0]) (length W + length G) = Ok c)
      by (simpl app; apply rd_st).
    rewrite Hrd. cbn [bind].
    inversion Hnz as [|? ? Hc Hr]; subst. apply Z.eqb_neq in Hc. rewrite Hc.
    simpl in Hf.
    (* the state after skipping c *)
    assert (Hskip : exists G', minify_loop f (W ++ G ++ (c :: r) ++ [0]) (length W + length G + 1) (length W)
               = Ok ((W ++ minify_l f r) ++ G' ++ [0], length (W ++ minify_l f r))).
    { destruct (IH r W (G ++ [c]) Hr ltac:(lia)) as [G' HG'].
      exists G'. rewrite <- HG'. f_equal; [|len].
      rewrite <- !app_assoc. reflexivity. }
    destruct ((c =? 32) || (c =? 9) || (c =? 13) || (c =? 10)) eqn:Ews; [exact Hskip|].
    destruct (c =? 47) eqn:E47.
    + rewrite rd_next. cbn [bind].
      destruct (hd 0 r =? 47) eqn:Eh47.
      * destruct r as [|d r2]; [discriminate|]. simpl in Eh47. apply Z.eqb_eq in Eh47. subst d.
        apply Z.eqb_eq in E47. subst c.
        unfold skip_oneline_comment.
        inversion Hr as [|? ? _ Hr2]; subst.
        replace (W ++ G ++ (47 :: 47 :: r2) ++ [0]) with (W ++ (G ++ [47; 47]) ++ r2 ++ [0])
          by (rewrite <- !app_assoc; reflexivity).
        replace (length W + length G + 2)%nat with (length W + length (G ++ [47%Z; 47%Z]))%nat by len.
        destruct (skip_oneline_loop_ok (length (W ++ (G ++ [47; 47]) ++ r2 ++ [0])) r2 W (G ++ [47; 47]) Hr2)
          as [P [HP Hrun]]; [len|].
        rewrite Hrun. cbn [bind]. simpl tl.
        pose proof (skip1_l_nz r2 Hr2) as HnzR. pose proof (skip1_l_length r2) as HlenR.
        remember (skip1_l r2) as R' eqn:HR'. clear HR'. subst r2.
        destruct (IH R' W ((G ++ [47; 47]) ++ P) HnzR ltac:(simpl in Hf; lia)) as [G' HG'].
        exists G'. rewrite <- HG'. f_equal; [|len].
        rewrite <- !app_assoc. reflexivity.
      * destruct (hd 0 r =? 42) eqn:Eh42; [|exact Hskip].
        destruct r as [|d r2]; [discriminate|]. simpl in Eh42. apply Z.eqb_eq in Eh42. subst d.
        apply Z.eqb_eq in E47. subst c.
        unfold skip_multiline_comment.
        inversion Hr as [|? ? _ Hr2]; subst.
        replace (W ++ G ++ (47 :: 42 :: r2) ++ [0]) with (W ++ (G ++ [47; 42]) ++ r2 ++ [0])
          by (rewrite <- !app_assoc; reflexivity).
        replace (length W + length G + 2)%nat with (length W + length (G ++ [47%Z; 42%Z]))%nat by len.
        destruct (skip_multiline_loop_ok (length (W ++ (G ++ [47; 42]) ++ r2 ++ [0])) r2 W (G ++ [47; 42]) Hr2)
          as [P [HP Hrun]]; [len|].
        rewrite Hrun. cbn [bind]. simpl tl.
        pose proof (skipm_l_nz r2 Hr2) as HnzR. pose proof (skipm_l_length r2) as HlenR.
        remember (skipm_l r2) as R' eqn:HR'. clear HR'. subst r2.
        destruct (IH R' W ((G ++ [47; 42]) ++ P) HnzR ltac:(simpl in Hf; lia)) as [G' HG'].
        exists G'. rewrite <- HG'. f_equal; [|len].
        rewrite <- !app_assoc. reflexivity.
    + destruct (c =? 34) eqn:E34.
      * apply Z.eqb_eq in E34. subst c.
        destruct (minify_string_ok r W G Hr) as [G1 [Hrun HnzR]].
        rewrite Hrun. cbn [bind].
        pose proof (mstr_l_length r) as HlenR.
        destruct (mstr_l r) as [a rest]. cbn [fst snd] in *.
        destruct (IH rest (W ++ 34 :: a) G1 HnzR ltac:(lia)) as [G' HG'].
        exists G'. rewrite HG'. f_equal. f_equal.
        -- lnorm.
        -- lnorm.
      * (* ordinary byte: copied *)
        simpl app. rewrite wr_st. cbn [bind].
        destruct (IH r (W ++ [c]) (tl (G ++ [c])) Hr ltac:(lia)) as [G' HG'].
        replace (length W + length G + 1)%nat
          with (length (W ++ [c]) + length (tl (G ++ [c])))%nat by (rewrite tl_snoc_length; len).
        replace (length W + 1)%nat with (length (W ++ [c])) by len.
        exists G'. rewrite HG'. f_equal. f_equal.
        -- lnorm.
        -- lnorm.
Qed.

(** ---- properties of the list-level function ---- *)

Lemma mstr_l_nz r : nz r -> nz (fst (mstr_l r)) /\ nz (snd (mstr_l r)).
Proof.
  remember (length r) as n eqn:Hn. revert r Hn.
  induction n as [n IH] using lt_wf_ind. intros r Hn Hnz.
  destruct r as [|c r]; simpl; [split; constructor|].
  inversion Hnz as [|? ? Hc Hr]; subst.
  destruct (c =? 34); simpl; [split; [repeat constructor; lia|exact Hr]|].
  destruct (c =? 92).
  - destruct r as [|d r']; simpl; [split; repeat constructor; lia|].
    inversion Hr as [|? ? Hd Hr']; subst.
    destruct (IH (length r') ltac:(simpl; lia) r' eq_refl Hr') as [H1 H2].
    destruct (mstr_l r') as [a rest]; simpl in *. split; [repeat constructor; try lia; assumption|assumption].
  - destruct (IH (length r) ltac:(simpl; lia) r eq_refl Hr) as [H1 H2].
    destruct (mstr_l r) as [a rest]; simpl in *. split; [constructor; try lia; assumption|assumption].
Qed.

Lemma minify_l_nz fuel : forall s, nz s -> nz (minify_l fuel s).
Proof.
  induction fuel as [|f IH]; intros s Hnz; simpl; [constructor|].
  destruct s as [|c r]; [constructor|].
  inversion Hnz as [|? ? Hc Hr]; subst.
  destruct ((c =? 32) || (c =? 9) || (c =? 13) || (c =? 10)); [apply IH; exact Hr|].
  destruct (c =? 47).
  - destruct (hd 0 r =? 47).
    + apply IH. apply skip1_l_nz. destruct r; simpl; [constructor|]. inversion Hr; assumption.
    + destruct (hd 0 r =? 42); [|apply IH; exact Hr].
      apply IH. apply skipm_l_nz. destruct r; simpl; [constructor|]. inversion Hr; assumption.
  - destruct (c =? 34) eqn:E34.
    + destruct (mstr_l_nz r Hr) as [H1 H2]. destruct (mstr_l r) as [a rest]; simpl in *.
      apply Z.eqb_eq in E34; subst c.
      constructor; [lia|]. apply nz_app. split; [exact H1|apply IH; exact H2].
    + constructor; [exact Hc|apply IH; exact Hr].
Qed.

(** enough fuel: the result does not depend on it *)
Lemma minify_l_fuel f1 : forall f2 s, (length s < f1)%nat -> (length s < f2)%nat ->
  minify_l f1 s = minify_l f2 s.
Proof.
  induction f1 as [|f1 IH]; intros f2 s H1 H2; [lia|].
  destruct f2 as [|f2]; [lia|]. simpl.
  destruct s as [|c r]; [reflexivity|]. simpl in H1, H2.
  destruct ((c =? 32) || (c =? 9) || (c =? 13) || (c =? 10)); [apply IH; lia|].
  destruct (c =? 47).
  - destruct (hd 0 r =? 47).
    + pose proof (skip1_l_length (tl r)). assert (length (tl r) <= length r)%nat by (destruct r; simpl; lia).
      apply IH; lia.
    + destruct (hd 0 r =? 42); [|apply IH; lia].
      pose proof (skipm_l_length (tl r)). assert (length (tl r) <= length r)%nat by (destruct r; simpl; lia).
      apply IH; lia.
  - destruct (c =? 34).
    + pose proof (mstr_l_length r). destruct (mstr_l r) as [a rest]; simpl in *.
      f_equal. f_equal. apply IH; lia.
    + f_equal. apply IH; lia.
Qed.

Lemma cstr_app_zero (M X : bytes) : nz M -> cstr (M ++ 0 :: X) = M.
Proof.
  induction M as [|c M IH]; intro H; simpl; [reflexivity|].
  inversion H as [|? ? Hc HM]; subst. apply Z.eqb_neq in Hc. rewrite Hc. f_equal. apply IH. exact HM.
Qed.

(** The main theorem about the buffer-level code.  [Ok] means: every read and write
    index was inside the buffer [s ++ [0]] and the fuel (a function of the buffer size)
    was sufficient, i.e. the loops terminate. *)
Theorem cJSON_Minify_correct s : nz s ->
  exists b', cJSON_Minify (s ++ [0]) = Ok b'
          /\ length b' = length (s ++ [0])
          /\ cstr b' = minify_spec s
          /\ (length (minify_spec s) <= length s)%nat.
Proof.
  intro Hnz. unfold cJSON_Minify, minify_spec.
  destruct (minify_loop_ok (length (s ++ [0]) + 1) s [] [] Hnz) as [G' HG']; [len|].
  simpl in HG'. rewrite HG'. cbn [bind].
  set (M := minify_l (length (s ++ [0]) + 1) s) in *.
  assert (HM : M = minify_l (length s + 1) s) by (apply minify_l_fuel; len).
  assert (HnzM : nz M) by (apply minify_l_nz; exact Hnz).
  assert (Hw : exists X, wr (M ++ G' ++ [0]) (length M) 0 = Ok (M ++ 0 :: X)).
  { destruct G' as [|g G1].
    - exists []. rewrite (wr_st' _ _ M [] 0 [] 0); try reflexivity. simpl. lnorm.
    - exists (G1 ++ [0]). rewrite (wr_st' _ _ M [] g (G1 ++ [0]) 0); try reflexivity. simpl. lnorm. }
  destruct Hw as [X HX]. rewrite HX. exists (M ++ 0 :: X).
  assert (Hlen : length (M ++ 0 :: X) = length (s ++ [0])).
  { apply wr_length in HX. rewrite HX.
    (* the loop preserves the buffer length: read it off the shape *)
    clear HX. 
    assert (Hl : forall fuel b i o b' o', minify_loop fuel b i o = Ok (b', o') -> length b' = length b).
    { clear. induction fuel as [|f IH]; intros b i o b' o' H; [discriminate|].
      cbn [minify_loop] in H.
      destruct (rd b i) as [c| |]; cbn [bind] in H; try discriminate.
      destruct (c =? 0); [inversion H; reflexivity|].
      destruct ((c =? 32) || (c =? 9) || (c =? 13) || (c =? 10)); [eapply IH; exact H|].
      destruct (c =? 47).
      - destruct (rd b (i + 1)) as [d| |]; cbn [bind] in H; try discriminate.
        destruct (d =? 47).
        + destruct (skip_oneline_comment b i); cbn [bind] in H; try discriminate. eapply IH; exact H.
        + destruct (d =? 42); [|eapply IH; exact H].
          destruct (skip_multiline_comment b i); cbn [bind] in H; try discriminate. eapply IH; exact H.
      - destruct (c =? 34).
        + destruct (minify_string b i o) as [[[b1 i1] o1]| |] eqn:Es; cbn [bind] in H; try discriminate.
          apply IH in H. rewrite H.
          (* minify_string preserves the length *)
          unfold minify_string in Es.
          destruct (rd b i) as [c1| |]; cbn [bind] in Es; try discriminate.
          destruct (wr b o c1) as [b2| |] eqn:Ew; cbn [bind] in Es; try discriminate.
          apply wr_length in Ew. rewrite <- Ew.
          assert (Hs : forall fuel b i o b' i' o', minify_string_loop fuel b i o = Ok (b', i', o') -> length b' = length b).
          { clear. induction fuel as [|f IH]; intros b i o b' i' o' H; [discriminate|].
            cbn [minify_string_loop] in H.
            destruct (rd b i) as [c| |]; cbn [bind] in H; try discriminate.
            destruct (c =? 0); [inversion H; reflexivity|].
            destruct (wr b o c) as [b1| |] eqn:E1; cbn [bind] in H; try discriminate.
            apply wr_length in E1.
            destruct (rd b1 i) as [c'| |]; cbn [bind] in H; try discriminate.
            destruct (c' =? 34).
            - destruct (wr b1 o 34) as [b2| |] eqn:E2; cbn [bind] in H; try discriminate.
              apply wr_length in E2. inversion H; subst. lia.
            - destruct (c' =? 92).
              + destruct (rd b1 (i + 1)) as [d| |]; cbn [bind] in H; try discriminate.
                destruct (negb (d =? 0)).
                * destruct (wr b1 (o + 1) d) as [b2| |] eqn:E2; cbn [bind] in H; try discriminate.
                  apply wr_length in E2. apply IH in H. lia.
                * apply IH in H. lia.
              + apply IH in H. lia. }
          eapply Hs. exact Es.
        + destruct (wr b o c) as [b1| |] eqn:E1; cbn [bind] in H; try discriminate.
          apply wr_length in E1. apply IH in H. lia. }
    apply Hl in HG'. exact HG'. }
  split; [reflexivity|]. split; [exact Hlen|]. split.
  - rewrite cstr_app_zero by exact HnzM. exact HM.
  - rewrite <- HM. rewrite !app_length in Hlen. simpl in Hlen. lia.
Qed.
