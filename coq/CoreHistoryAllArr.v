(** CoreHistoryAllArr.v — the bulk array constructors (cJSON_CreateIntArray / FloatArray /
    DoubleArray / StringArray) with EXPLICIT results, for the allocator that never refuses:
    the identities of the array node and of every element, the allocator counters and the
    new string blocks — what the history theorem needs on top of CoreRefineArray.v (whose
    statements quantify the result forest existentially).  The loop invariant [Inv], the
    canonical/actual heap pair [act] and the one-iteration lemma [step_ok] are CoreRefineArray's;
    this file re-runs the induction with the identities and counters carried along. *)
From CJ Require Import Base Dbl Heap Forest ForestLemmas CoreSpec CoreDefs CoreRefineBase CoreRefine
  CoreRefineDelete CoreRefineReplace CoreRefineMore CoreRefineCreate CoreRefineArray.
From CJ.gen Require Import Constants.
From stdpp Require Import gmap.
Implicit Types (h : heap) (F : forest) (d : rdata).

Notation nv := CoreRefineCreate.never.

(** link code only touches the node maps *)
Lemma set_child_keeps p v H H2 : set_child p v H = Ret (tt, H2) -> h_next H2 = h_next H /\ h_req H2 = h_req H.
Proof.
  unfold set_child, ld_dat, st_dat, chk, bindM, ret. intros E. repeat case_match; try done; simplify_eq; done.
Qed.
Lemma set_next_keeps p v H H2 : set_next p v H = Ret (tt, H2) -> h_next H2 = h_next H /\ h_req H2 = h_req H.
Proof.
  unfold set_next, ld_lnk, st_lnk, chk, bindM, ret. intros E. repeat case_match; try done; simplify_eq; done.
Qed.
Lemma set_prev_keeps p v H H2 : set_prev p v H = Ret (tt, H2) -> h_next H2 = h_next H /\ h_req H2 = h_req H.
Proof.
  unfold set_prev, ld_lnk, st_lnk, chk, bindM, ret. intros E. repeat case_match; try done; simplify_eq; done.
Qed.
Lemma suffix_object_keeps p v H H2 : suffix_object p v H = Ret (tt, H2) -> h_next H2 = h_next H /\ h_req H2 = h_req H.
Proof.
  unfold suffix_object. intros E. unfold bindM at 1 in E. destruct (set_next p v H) as [[[] H1]|] eqn:E1; [|done].
  destruct (set_next_keeps _ _ _ _ E1) as [A1 A2]. destruct (set_prev_keeps _ _ _ _ E) as [B1 B2]. split; congruence.
Qed.

(** the leaf makers on ANY heap *)
Lemma run_CreateNumber num H :
  cJSON_CreateNumber nv num H = Ret (Some (h_next H), new_node H (rd_number num)).
Proof.
  unfold cJSON_CreateNumber, cJSON_New_Item.
  rewrite (bindM_Ret _ _ _ _ _ (run_alloc_node_ok nv H eq_refl)).
  cbn [is_null negb when]. rewrite !bindM_assoc.
  rewrite (bindM_Ret _ _ _ _ _ (run_set_type_plain _ _ _ c_cJSON_Number (new_node_live _ _) (new_node_dat _ _))).
  rewrite (new_node_set H _ _ (rd_of_type c_cJSON_Number)) by reflexivity. rewrite !bindM_assoc.
  rewrite (bindM_Ret _ _ _ _ _ (run_set_vdbl_plain _ _ _ num (new_node_live _ _) (new_node_dat _ _))).
  rewrite (new_node_set H _ _ (mkRD c_cJSON_Number None 0 num None None)) by reflexivity.
  rewrite (bindM_Ret _ _ _ _ _ (run_set_vint_plain _ _ _ (sat_int num) (new_node_live _ _) (new_node_dat _ _))).
  rewrite (new_node_set H _ _ (rd_number num)) by reflexivity. reflexivity.
Qed.
Lemma grows_number num H : grows_leaf H (new_node H (rd_number num)) (h_next H) (rd_number num).
Proof. constructor; try done; [apply Ext_new_node|apply NoDup_singleton]. Qed.

Lemma run_CreateString H sb :
  Readable H sb ->
  cJSON_CreateString nv (Some sb) H = Ret (Some (h_next H), new_string H c_cJSON_String (str_at H sb ++ [0%Z])).
Proof.
  intros HR. unfold cJSON_CreateString, create_string_like, cJSON_New_Item. set (ty := c_cJSON_String).
  rewrite (bindM_Ret _ _ _ _ _ (run_alloc_node_ok nv H eq_refl)). cbn [is_null].
  rewrite (bindM_Ret _ _ _ _ _ (run_set_type_plain _ _ _ ty (new_node_live _ _) (new_node_dat _ _))).
  rewrite (new_node_set H _ _ (rd_of_type ty)) by reflexivity.
  set (h1 := new_node H (rd_of_type ty)).
  assert (HR1 : Readable h1 sb) by (by apply Readable_new_node).
  rewrite (bindM_Ret _ _ _ _ _ (cJSON_strdup_ok nv _ _ HR1 eq_refl)).
  set (s := str_at h1 sb ++ [0%Z]). set (sid := h_next h1).
  assert (Hl : h_next H ∈ h_live (new_str h1 s)) by (cbn; set_solver).
  assert (Hd : h_dat (new_str h1 s) !! h_next H = Some (mk_dat (rd_of_type ty) [])) by (cbn; by rewrite lookup_insert).
  rewrite (bindM_Ret _ _ _ _ _ (run_set_vstr_plain _ _ _ (Some sid) Hl Hd)).
  assert (Heq : set_dat (new_str h1 s) (<[h_next H := nd_set_vstr (mk_dat (rd_of_type ty) []) (Some sid)]> (h_dat (new_str h1 s)))
                = new_string H ty (str_at H sb ++ [0%Z])).
  { unfold set_dat, upd_maps, new_string, new_str, h1, new_node. cbn. f_equal. by rewrite insert_insert. }
  rewrite Heq.
  assert (Hl' : h_next H ∈ h_live (new_string H ty (str_at H sb ++ [0%Z]))) by (cbn; set_solver).
  assert (Hd' : h_dat (new_string H ty (str_at H sb ++ [0%Z])) !! h_next H = Some (mk_dat (rd_string ty (Pos.succ (h_next H))) []))
    by (cbn; by rewrite lookup_insert).
  rewrite (bindM_Ret _ _ _ _ _ (run_get_vstr_plain _ _ _ Hl' Hd')). reflexivity.
Qed.
Lemma grows_string H s :
  grows_leaf H (new_string H c_cJSON_String s) (h_next H) (rd_string c_cJSON_String (Pos.succ (h_next H))).
Proof.
  assert (Hs : owned_strs (rd_string c_cJSON_String (Pos.succ (h_next H))) = [Pos.succ (h_next H)]) by reflexivity.
  constructor; try done.
  - rewrite Hs. apply Ext_new_string.
  - rewrite Hs. apply NoDup_cons. split; [|apply NoDup_singleton]. intros Hin%elem_of_list_singleton. lia.
Qed.

Section Bulk.
  Context (h : heap) (F : forest).
  Hypothesis W : WF h F.
  Hypothesis LB : live_below h.
  Local Notation a := (h_next h).
  Variable Q : nat -> heap -> rdata -> Prop.
  Hypothesis Q_upd : forall k H d L D, Q k H d -> Q k (upd_maps H L D) d.
  Hypothesis Q_ext : forall k H H' N d, Q k H d -> Ext H H' N -> Q k H' d.
  Variable mk : Z -> M ptr.
  Variable n : nat.
  Variable c : positive.                       (* blocks per element *)
  Variable dk : nat -> positive -> rdata.      (* data of element k whose node block is x *)
  Hypothesis Hmk : forall k Hc leaves, k < n -> length leaves = k -> Inv h F Q Hc leaves ->
    Zpos (h_next Hc) = (Zpos a + 1 + Zpos c * Z.of_nat k)%Z ->
    exists H', mk (Z.of_nat k) (act Hc leaves) = Ret (Some (h_next Hc), H') /\
      grows_leaf (act Hc leaves) H' (h_next Hc) (dk k (h_next Hc)) /\ Q k H' (dk k (h_next Hc)) /\
      h_next H' = (h_next Hc + c)%positive /\ h_req H' = h_req Hc + Pos.to_nat c.

  Fixpoint leaves_from (x : positive) (k rem : nat) : list tree :=
    match rem with
    | O => []
    | S rem' => T x (dk k x) [] :: leaves_from (x + c)%positive (S k) rem'
    end.

  Lemma bulk_loop rem : forall k leaves Hc,
    Inv h F Q Hc leaves -> length leaves = k -> k + rem = n ->
    Zpos (h_next Hc) = (Zpos a + 1 + Zpos c * Z.of_nat k)%Z ->
    let all := leaves ++ leaves_from (h_next Hc) k rem in
    exists Hc',
      create_array_loop mk rem (Z.of_nat k) (Some a) (last (tid <$> leaves)) (last (tid <$> leaves)) (act Hc leaves)
        = Ret (Some (last (tid <$> all)), act Hc' all) /\
      Inv h F Q Hc' all /\
      Zpos (h_next Hc') = (Zpos (h_next Hc) + Zpos c * Z.of_nat rem)%Z /\
      h_req Hc' = h_req Hc + Pos.to_nat c * rem.
  Proof.
    induction rem as [|rem IH]; intros k leaves Hc I Hlen Hn Hpos; subst k; cbn zeta.
    { exists Hc. cbn [leaves_from]. rewrite app_nil_r. split; [reflexivity|]. split; [done|]. split; lia. }
    cbn [create_array_loop leaves_from].
    destruct (Hmk (length leaves) Hc leaves ltac:(lia) eq_refl I Hpos) as (H' & Hrun & G & HQ & Hnx & Hrq).
    rewrite (bindM_Ret _ _ _ _ _ Hrun). cbn [is_null].
    destruct (step_ok h F W LB Q Q_upd Q_ext Hc leaves H' _ _ I G HQ) as (Hc1 & I1 & Hlink).
    rewrite (bindM_Ret _ _ _ _ _ Hlink).
    set (leaf := T (h_next Hc) (dk (length leaves) (h_next Hc)) []) in *.
    assert (Hkeep : h_next Hc1 = h_next H' /\ h_req Hc1 = h_req H').
    { destruct (Z.of_nat (length leaves) =? 0)%Z.
      - by destruct (set_child_keeps _ _ _ _ Hlink).
      - by destruct (suffix_object_keeps _ _ _ _ Hlink). }
    destruct Hkeep as [Hk1 Hk2].
    assert (Hlast : Some (h_next Hc) = last (tid <$> (leaves ++ [leaf]))).
    { rewrite fmap_app. cbn. by rewrite last_snoc. }
    rewrite Hlast. replace (Z.of_nat (length leaves) + 1)%Z with (Z.of_nat (S (length leaves))) by lia.
    destruct (IH (S (length leaves)) (leaves ++ [leaf]) Hc1 I1) as (Hc2 & Hr & I2 & Hn2 & Hq2).
    { rewrite app_length. cbn. lia. }
    { lia. }
    { lia. }
    cbn zeta in Hr, I2. rewrite Hk1, Hnx in Hr, I2. rewrite <- app_assoc in Hr, I2. cbn [app] in Hr, I2.
    exists Hc2. split; [exact Hr|]. split; [exact I2|]. split; lia.
  Qed.

  Lemma bulk_array_of count :
    (0 <= count)%Z -> n = Z.to_nat count ->
    let leaves := leaves_from (Pos.succ a) 0 n in
    exists Hc,
      create_array_of nv mk false count h = Ret (Some a, Hc) /\
      Inv h F Q Hc leaves /\ live_below Hc /\ (NoLeak h F -> NoLeak Hc (F ++ [T a arr leaves])) /\
      Zpos (h_next Hc) = (Zpos a + 1 + Zpos c * Z.of_nat n)%Z /\
      h_req Hc = S (h_req h) + Pos.to_nat c * n.
  Proof.
    intros Hcount Hn leaves. unfold create_array_of. destruct (Z.ltb_spec count 0) as [Hlt|_]; [lia|]. cbn [orb].
    unfold cJSON_CreateArray.
    destruct (create_with_type_sim nv c_cJSON_Array h F W LB) as [(Ho & Hrun & W0 & LB0 & _)|(Ho & _)]; [|done].
    rewrite (bindM_Ret _ _ _ _ _ Hrun). cbn [is_null]. fold arr in Hrun, W0, LB0. set (Hc0 := new_node h arr) in *.
    assert (I0 : Inv h F Q Hc0 []).
    { constructor; [exact W0| |intros j t Hj; done].
      apply (Ext_mem _ _ [a]); [|apply Ext_new_node].
      intros b. rewrite flat_singleton, flat_t_unfold. unfold arr. cbn. rewrite owned_strs_of_type. cbn. done. }
    change (new_node h (rd_of_type c_cJSON_Array)) with (act Hc0 []).
    destruct (bulk_loop n 0 [] Hc0 I0 eq_refl eq_refl ltac:(unfold Hc0; cbn; lia)) as (Hc & Hr & I & Hnx & Hrq).
    cbn zeta in Hr, I. cbn [app fmap list_fmap last Z.of_nat] in Hr. rewrite <- Hn. rewrite (bindM_Ret _ _ _ _ _ Hr).
    cbn [app] in I. change (h_next Hc0) with (Pos.succ a) in *. fold leaves in I |- *.
    exists Hc.
    pose proof I as [Wn En Qn]. destruct (Inv_facts h F LB Q _ _ I) as (Hin & Hla & Hda & NDk & Hks & Hlk & Hanext & LBc & Hlnka).
    set (ks := tid <$> leaves) in *.
    split; [|split; [exact I|split; [exact LBc|split; [intros NL; by apply (NoLeak_Ext' h F LB)|]]]].
    2:{ change (h_req Hc0) with (S (h_req h)) in Hrq. split; lia. }
    unfold act. fold ks.
    rewrite !bindM_assoc. rewrite (run_get_child_bind _ Hc _ _ a _ Hla Hda). change (nd_child (mk_dat arr ks)) with (child_of arr ks).
    destruct (head ks) as [c0|] eqn:Hh.
    - rewrite (child_of_head _ _ _ Hh). cbn [is_null negb when].
      rewrite !bindM_assoc. rewrite (run_get_child_bind _ Hc _ _ a _ Hla Hda). change (nd_child (mk_dat arr ks)) with (child_of arr ks).
      rewrite (child_of_head _ _ _ Hh).
      assert (Hc0in : c0 ∈ ks) by (by apply head_Some_elem_of).
      rewrite head_lookup in Hh. pose proof (Hlk _ _ Hh) as Hl0.
      rewrite run_set_prev_bind by (by apply Hks || (rewrite is_Some_upd_prev, Hl0; eauto)).
      rewrite upd_prev_upd_prev. rewrite (upd_prev_id _ _ _ _ Hl0) by (by rewrite link_at_0).
      by rewrite upd_maps_id.
    - apply head_None in Hh. rewrite Hh. cbn [child_of rd_ref arr rd_of_type is_null negb when].
      by rewrite upd_maps_id.
  Qed.
End Bulk.
