(** LibcG17Arith.v — the arithmetic of "%1.17g" ([LibcPrint.fmt_g] at P = 17) on a positive finite
    double v = m * 2^e: the 17-digit decimal significand [g_D 17 m e] and the decimal exponent
    [g_X 17 m e] satisfy  10^16 <= D < 10^17,  -340 <= X' <= 320  and
    |D * 10^(X' - 16) - v| < v * 2^-54   ([g17_arith]).

    The only "computed" ingredient is [g_est_check]: for every L in [-1074, 1023] (the possible
    values of floor(log2 v) for a binary64 number) the estimate x0 = (L * 30103) / 100000 satisfies
    10^(x0 - 8) <= 2^L and 2^(L+1) <= 10^(x0 + 9); it is a finite check over 2098 integers, done in Z.
    Everything else is by induction / real arithmetic (Flocq's [bpow]). *)
From Coq Require Import ZArith Reals List Bool Lia Lra Floats.SpecFloat.
From Flocq Require Import Core.Core.
From CJ Require Import Base Dbl LibcNum LibcPrint RoundTripNum RoundTripModel LibcG17Defs LibcG17R.
Import ListNotations.
Local Open Scope Z_scope.

(** * 1. The estimate of the decimal exponent: a finite check *)

Fixpoint zrange (lo : Z) (n : nat) : list Z :=
  match n with O => [] | S k => lo :: zrange (lo + 1) k end.

Lemma zrange_In n : forall lo z, lo <= z < lo + Z.of_nat n -> In z (zrange lo n).
Proof.
  induction n as [|k IH]; intros lo z H.
  - cbn [Z.of_nat] in H. lia.
  - cbn [zrange]. destruct (Z.eq_dec lo z) as [E|NE].
    + left. exact E.
    + right. apply IH. lia.
Qed.

Definition g_est (L : Z) : Z := (L * 30103) / 100000.

Definition g_est_ok (L : Z) : bool :=
  let x := g_est L in
  (2 ^ Z.max (- L) 0 * 10 ^ Z.max (x - 8) 0 <=? 2 ^ Z.max L 0 * 10 ^ Z.max (- (x - 8)) 0) &&
  (2 ^ Z.max (L + 1) 0 * 10 ^ Z.max (- (x + 9)) 0 <=? 2 ^ Z.max (- (L + 1)) 0 * 10 ^ Z.max (x + 9) 0) &&
  (-324 <=? x) && (x <=? 307).

Lemma g_est_check : forallb g_est_ok (zrange (-1074) (Z.to_nat 2098)) = true.
Proof. vm_compute. reflexivity. Qed.

Lemma g_est_ok_all L : -1074 <= L <= 1023 -> g_est_ok L = true.
Proof.
  intro H. pose proof g_est_check as C. rewrite forallb_forall in C. apply C.
  apply zrange_In. rewrite Z2Nat.id by lia. lia.
Qed.

(** ** from cross-multiplied integer inequalities to real ones *)

Lemma bpow_split (r : radix) a : bpow r a = (bpow r (Z.max a 0) / bpow r (Z.max (- a) 0))%R.
Proof.
  unfold Rdiv. rewrite <- bpow_opp, <- bpow_plus. f_equal. lia.
Qed.

Lemma Rdiv_cross_le A A' B B' : (0 < A')%R -> (0 < B')%R -> (B' * A <= B * A')%R -> (A / A' <= B / B')%R.
Proof.
  intros HA HB H. apply (Rmult_le_reg_r (A' * B')%R).
  - apply Rmult_lt_0_compat; assumption.
  - replace (A / A' * (A' * B'))%R with (B' * A)%R by (field; lra).
    replace (B / B' * (A' * B'))%R with (B * A')%R by (field; lra).
    exact H.
Qed.

Lemma cross_10_2 a b :
  2 ^ Z.max (- b) 0 * 10 ^ Z.max a 0 <= 2 ^ Z.max b 0 * 10 ^ Z.max (- a) 0 ->
  (bpow r10 a <= bpow radix2 b)%R.
Proof.
  intro H. apply IZR_le in H. rewrite !mult_IZR in H.
  rewrite !IZR_pow2, !IZR_pow10 in H by lia.
  rewrite (bpow_split r10 a), (bpow_split radix2 b).
  apply Rdiv_cross_le; try apply bpow_gt_0. exact H.
Qed.

Lemma cross_2_10 a b :
  2 ^ Z.max b 0 * 10 ^ Z.max (- a) 0 <= 2 ^ Z.max (- b) 0 * 10 ^ Z.max a 0 ->
  (bpow radix2 b <= bpow r10 a)%R.
Proof.
  intro H. apply IZR_le in H. rewrite !mult_IZR in H.
  rewrite !IZR_pow2, !IZR_pow10 in H by lia.
  rewrite (bpow_split r10 a), (bpow_split radix2 b).
  apply Rdiv_cross_le; try apply bpow_gt_0.
  rewrite (Rmult_comm (bpow r10 (Z.max (- a) 0))), (Rmult_comm (bpow r10 (Z.max a 0))). exact H.
Qed.

Lemma g_est_spec L : -1074 <= L <= 1023 ->
  (bpow r10 (g_est L - 8) <= bpow radix2 L)%R /\
  (bpow radix2 (L + 1) <= bpow r10 (g_est L + 9))%R /\
  -324 <= g_est L <= 307.
Proof.
  intro H. pose proof (g_est_ok_all L H) as C. unfold g_est_ok in C. cbv zeta in C.
  apply andb_true_iff in C as [C C4]. apply andb_true_iff in C as [C C3].
  apply andb_true_iff in C as [C1 C2].
  apply Z.leb_le in C1, C2, C3, C4.
  split; [|split].
  - apply cross_10_2. exact C1.
  - apply cross_2_10. exact C2.
  - lia.
Qed.

(** * 2. The value of the double as a fraction, and its binary logarithm *)

Lemma g_num_pos m e : 0 < g_num m e.
Proof.
  unfold g_num. destruct (Z.leb_spec 0 e) as [H|H]; [|lia].
  apply Z.mul_pos_pos; [lia|]. apply Z.pow_pos_nonneg; lia.
Qed.

Lemma g_den_pos e : 0 < g_den e.
Proof.
  unfold g_den. destruct (Z.leb_spec 0 e) as [H|H]; [lia|]. apply Z.pow_pos_nonneg; lia.
Qed.

Lemma g_value m e :
  F2R (Float radix2 (Zpos m) e) = (IZR (g_num m e) / IZR (g_den e))%R.
Proof.
  unfold F2R. cbn [Fnum Fexp]. unfold g_num, g_den. destruct (Z.leb_spec 0 e) as [H|H].
  - rewrite mult_IZR, IZR_pow2 by lia. field.
  - rewrite IZR_pow2 by lia. rewrite bpow_opp. field.
    apply Rgt_not_eq, bpow_gt_0.
Qed.

Lemma g_L m e : Z.log2 (g_num m e) - Z.log2 (g_den e) = Z.log2 (Zpos m) + e.
Proof.
  unfold g_num, g_den. destruct (Z.leb_spec 0 e) as [H|H].
  - rewrite Z.log2_mul_pow2 by lia. change (Z.log2 1) with 0. lia.
  - rewrite Z.log2_pow2 by lia. lia.
Qed.

Lemma g_L_bounds m e : SpecFloat.bounded Dbl.prec Dbl.emax m e = true ->
  -1074 <= Z.log2 (Zpos m) + e <= 1023.
Proof.
  intro Hb. pose proof (bounded_mantissa m e Hb) as Hm. pose proof (bounded_exponent m e Hb) as He.
  pose proof (Z.log2_nonneg (Zpos m)) as H0.
  assert (H1 : Z.log2 (Zpos m) < 53) by (apply Z.log2_lt_pow2; [lia|exact Hm]).
  lia.
Qed.

Lemma g_v_bounds m e :
  (bpow radix2 (Z.log2 (Zpos m) + e) <= F2R (Float radix2 (Zpos m) e)
   < bpow radix2 (Z.log2 (Zpos m) + e + 1))%R.
Proof.
  destruct (Z.log2_spec (Zpos m) ltac:(lia)) as [Hlo Hhi].
  pose proof (Z.log2_nonneg (Zpos m)) as H0.
  apply IZR_le in Hlo. apply IZR_lt in Hhi. rewrite IZR_pow2 in Hlo, Hhi by lia.
  unfold F2R. cbn [Fnum Fexp].
  replace (Z.log2 (Zpos m) + e + 1) with (Z.succ (Z.log2 (Zpos m)) + e) by lia.
  rewrite !bpow_plus. split.
  - apply Rmult_le_compat_r; [apply bpow_ge_0|exact Hlo].
  - apply Rmult_lt_compat_r; [apply bpow_gt_0|exact Hhi].
Qed.

(** * 3. The two scaling loops *)

Lemma scale_down_spec fuel : forall n d x, 0 < n -> 0 < d -> d <= n * 10 ^ Z.of_nat fuel ->
  exists n' x', scale_down fuel n d x = (n', d, x') /\ 0 < n' /\ d <= n' /\
    (IZR n' * bpow r10 x' = IZR n * bpow r10 x)%R /\ x - Z.of_nat fuel <= x' <= x /\
    (n < d * 10 ^ 9 -> n' < d * 10 ^ 9).
Proof.
  induction fuel as [|f IH]; intros n d x Hn Hd Hle.
  - exists n, x. cbn [scale_down]. change (10 ^ Z.of_nat 0) with 1 in Hle.
    split; [reflexivity|]. split; [lia|]. split; [lia|]. split; [reflexivity|]. split; [lia|].
    intro H; exact H.
  - cbn [scale_down]. destruct (Z.ltb_spec n d) as [Hlt|Hge].
    + rewrite Nat2Z.inj_succ, Z.pow_succ_r in Hle by lia.
      destruct (IH (n * 10) d (x - 1)) as (n' & x' & E & Hn' & Hdn & Hv & Hx & H9); try lia.
      exists n', x'. rewrite E.
      split; [reflexivity|]. split; [lia|]. split; [lia|]. split; [|split].
      * rewrite Hv, mult_IZR. replace x with (x - 1 + 1) at 2 by lia. rewrite bpow10_succ. ring.
      * lia.
      * intros _. apply H9. change (10 ^ 9) with 1000000000. lia.
    + exists n, x.
      split; [reflexivity|]. split; [lia|]. split; [lia|]. split; [reflexivity|]. split; [lia|].
      intro H; exact H.
Qed.

Lemma scale_up_spec fuel : forall n d x, 0 < d -> d <= n -> n < d * 10 ^ (Z.of_nat fuel + 1) ->
  exists d' x', scale_up fuel n d x = (n, d', x') /\ 0 < d' /\ d' <= n < 10 * d' /\
    (IZR d' * bpow r10 x = IZR d * bpow r10 x')%R /\ x <= x' <= x + Z.of_nat fuel.
Proof.
  induction fuel as [|f IH]; intros n d x Hd Hle Hlt.
  - exists d, x. cbn [scale_up]. change (10 ^ (Z.of_nat 0 + 1)) with 10 in Hlt.
    split; [reflexivity|]. split; [lia|]. split; [lia|]. split; [reflexivity|]. lia.
  - cbn [scale_up]. destruct (Z.leb_spec (d * 10) n) as [Hge|Hsm].
    + rewrite Nat2Z.inj_succ in Hlt.
      replace (Z.succ (Z.of_nat f) + 1) with (Z.succ (Z.of_nat f + 1)) in Hlt by lia.
      rewrite Z.pow_succ_r in Hlt by lia.
      destruct (IH n (d * 10) (x + 1)) as (d' & x' & E & Hd' & Hdn & Hv & Hx); try lia.
      exists d', x'. rewrite E.
      split; [reflexivity|]. split; [lia|]. split; [lia|]. split; [|lia].
      rewrite bpow10_succ, mult_IZR in Hv. lra.
    + exists d, x.
      split; [reflexivity|]. split; [lia|]. split; [lia|]. split; [reflexivity|]. lia.
Qed.

(** * 4. The scaled fraction *)

Lemma g_x0_est m e : g_x0 m e = g_est (Z.log2 (Zpos m) + e).
Proof. unfold g_x0, g_est. rewrite g_L. reflexivity. Qed.

Lemma g_scaled_spec m e : SpecFloat.bounded Dbl.prec Dbl.emax m e = true ->
  exists nS dS X, g_scaled m e = (nS, dS, X) /\ 0 < dS /\ dS <= nS < 10 * dS /\
    (IZR nS * bpow r10 X = F2R (Float radix2 (Zpos m) e) * IZR dS)%R /\ -332 <= X <= 315.
Proof.
  intro Hb.
  pose proof (g_L_bounds m e Hb) as HL.
  pose proof (g_est_spec _ HL) as (Elo & Ehi & Ex).
  pose proof (g_v_bounds m e) as [Vlo Vhi].
  pose proof (g_value m e) as Hval.
  pose proof (g_num_pos m e) as Hnum. pose proof (g_den_pos e) as Hden.
  unfold g_scaled. cbv zeta. rewrite (g_x0_est m e).
  set (x0 := g_est (Z.log2 (Zpos m) + e)) in *.
  set (v := F2R (Float radix2 (Zpos m) e)) in *.
  set (num := g_num m e) in *. set (den := g_den e) in *.
  assert (Vlo' : (bpow r10 (x0 - 8) <= v)%R) by (eapply Rle_trans; eassumption).
  assert (Vhi' : (v < bpow r10 (x0 + 9))%R) by (eapply Rlt_le_trans; eassumption).
  assert (Hden' : (0 < IZR den)%R) by (apply IZR_lt; exact Hden).
  set (n0 := if 0 <=? x0 then num else num * 10 ^ Z.abs x0).
  set (d0 := if 0 <=? x0 then den * 10 ^ Z.abs x0 else den).
  assert (H0 : 0 < n0 /\ 0 < d0 /\ (IZR n0 * bpow r10 x0 = v * IZR d0)%R).
  { unfold n0, d0. destruct (Z.leb_spec 0 x0) as [Hx|Hx].
    - rewrite Z.abs_eq by lia.
      assert (Hp : 0 < 10 ^ x0) by (apply Z.pow_pos_nonneg; lia).
      split; [exact Hnum|]. split; [apply Z.mul_pos_pos; assumption|].
      rewrite Hval, mult_IZR, IZR_pow10 by lia. field. lra.
    - rewrite Z.abs_neq by lia.
      assert (Hp : 0 < 10 ^ (- x0)) by (apply Z.pow_pos_nonneg; lia).
      split; [apply Z.mul_pos_pos; assumption|]. split; [exact Hden|].
      rewrite Hval, mult_IZR, IZR_pow10 by lia. rewrite bpow_opp. field.
      split; [lra|]. apply Rgt_not_eq, bpow_gt_0. }
  destruct H0 as (Hn0 & Hd0 & Hv0).
  assert (Hd0' : (0 < IZR d0)%R) by (apply IZR_lt; exact Hd0).
  assert (P1 : d0 <= n0 * 10 ^ Z.of_nat 8).
  { change (Z.of_nat 8) with 8. apply le_IZR. rewrite mult_IZR, IZR_pow10 by lia.
    apply (Rmult_le_reg_r (bpow r10 (x0 - 8))); [apply bpow_gt_0|].
    rewrite Rmult_assoc, <- bpow_plus. replace (8 + (x0 - 8)) with x0 by lia.
    rewrite Hv0. rewrite (Rmult_comm v). apply Rmult_le_compat_l; [lra|exact Vlo']. }
  assert (P2 : n0 < d0 * 10 ^ 9).
  { apply lt_IZR. rewrite mult_IZR, IZR_pow10 by lia.
    apply (Rmult_lt_reg_r (bpow r10 x0)); [apply bpow_gt_0|].
    rewrite Hv0, Rmult_assoc, <- bpow_plus. replace (9 + x0) with (x0 + 9) by lia.
    rewrite (Rmult_comm v). apply Rmult_lt_compat_l; [exact Hd0'|exact Vhi']. }
  destruct (scale_down_spec 8 n0 d0 x0 Hn0 Hd0 P1) as (n1 & x1 & E1 & Hn1 & Hdn1 & Hv1 & Hx1 & H9).
  specialize (H9 P2). rewrite E1.
  destruct (scale_up_spec 8 n1 d0 x1 Hd0 Hdn1) as (dS & X & E2 & HdS & HdnS & Hv2 & HX).
  { change (Z.of_nat 8 + 1) with 9. exact H9. }
  change (Z.of_nat 8) with 8 in Hx1, HX.
  exists n1, dS, X. split; [exact E2|]. split; [exact HdS|]. split; [exact HdnS|]. split; [|lia].
  (* n1 * 10^x1 = v * d0  and  dS * 10^x1 = d0 * 10^X *)
  rewrite Hv0 in Hv1.
  apply (Rmult_eq_reg_r (bpow r10 x1)); [|apply Rgt_not_eq, bpow_gt_0].
  transitivity (IZR n1 * bpow r10 x1 * bpow r10 X)%R; [ring|].
  rewrite Hv1.
  transitivity (v * (IZR dS * bpow r10 x1))%R; [rewrite Hv2; ring|ring].
Qed.

(** * 5. Rounding to nearest *)

Lemma g_round_spec N Dn : 0 < Dn ->
  - Dn <= 2 * (N - g_round N Dn * Dn) <= Dn.
Proof.
  intro HD. unfold g_round. cbv zeta.
  pose proof (Z.div_mod N Dn ltac:(lia)) as Hdm.
  pose proof (Z.mod_pos_bound N Dn HD) as Hr.
  set (q := N / Dn) in *. set (r := N mod Dn) in *.
  destruct (Z.ltb_spec (2 * r) Dn) as [H1|H1].
  - lia.
  - destruct (Z.ltb_spec Dn (2 * r)) as [H2|H2].
    + lia.
    + destruct (Z.even q); lia.
Qed.

Lemma g_round_range nS dS : 0 < dS -> dS <= nS < 10 * dS ->
  10000000000000000 <= g_round (nS * 10000000000000000) dS <= 100000000000000000.
Proof.
  intros HdS Hn. pose proof (g_round_spec (nS * 10000000000000000) dS HdS) as Hr.
  set (q := g_round (nS * 10000000000000000) dS) in *.
  split.
  - destruct (Z_lt_le_dec q 10000000000000000) as [Hlt|Hge]; [|exact Hge]. exfalso.
    assert (H : q * dS <= (10000000000000000 - 1) * dS)
      by (apply Z.mul_le_mono_nonneg_r; lia).
    lia.
  - destruct (Z_lt_le_dec 100000000000000000 q) as [Hlt|Hge]; [|exact Hge]. exfalso.
    assert (H : (100000000000000000 + 1) * dS <= q * dS)
      by (apply Z.mul_le_mono_nonneg_r; lia).
    lia.
Qed.

(** * 6. The theorem *)

Lemma bpow2_m54 : (bpow radix2 (-54) * (2 * bpow radix2 53) = 1)%R.
Proof.
  change (-54) with (- (53 + 1)). rewrite bpow_opp, bpow_plus_1.
  change (IZR radix2) with 2%R. field.
  apply Rgt_not_eq, bpow_gt_0.
Qed.

Theorem g17_arith m e : SpecFloat.bounded Dbl.prec Dbl.emax m e = true ->
  let v := F2R (Float radix2 (Zpos m) e) in
  (10 ^ 16 <= g_D 17 m e < 10 ^ 17)%Z /\ (-340 <= g_X 17 m e <= 320)%Z /\
  (Rabs (IZR (g_D 17 m e) * bpow r10 (g_X 17 m e - 16) - v) < v * bpow radix2 (-54))%R.
Proof.
  intros Hb v.
  destruct (g_scaled_spec m e Hb) as (nS & dS & X & E & HdS & Hn & Hv & HX).
  fold v in Hv.
  unfold g_D, g_X, g_q. rewrite E. cbv beta iota zeta.
  change (17 - 1) with 16.
  change (10 ^ 16) with 10000000000000000. change (10 ^ 17) with 100000000000000000.
  pose proof (g_round_range nS dS HdS Hn) as Hq.
  pose proof (g_round_spec (nS * 10000000000000000) dS HdS) as Hr.
  set (q := g_round (nS * 10000000000000000) dS) in *.
  set (c := bpow r10 (X - 16)).
  assert (Hc : (0 < c)%R) by apply bpow_gt_0.
  assert (HdS' : (0 < IZR dS)%R) by (apply IZR_lt; exact HdS).
  (* both branches denote q * 10^(X-16) *)
  assert (HDX : (10000000000000000 <= (if q =? 100000000000000000 then 10000000000000000 else q)
                 < 100000000000000000) /\
                (-340 <= (if q =? 100000000000000000 then X + 1 else X) <= 320) /\
                (IZR (if q =? 100000000000000000 then 10000000000000000 else q) *
                 bpow r10 ((if q =? 100000000000000000 then X + 1 else X) - 16) = IZR q * c)%R).
  { destruct (Z.eqb_spec q 100000000000000000) as [Eq|Nq].
    - split; [lia|]. split; [lia|]. rewrite Eq. unfold c.
      change 10000000000000000 with (10 ^ 16). change 100000000000000000 with (10 ^ 17).
      rewrite !IZR_pow10 by lia. rewrite <- !bpow_plus. f_equal. lia.
    - split; [lia|]. split; [lia|]. reflexivity. }
  destruct HDX as (HD1 & HD2 & HD3).
  split; [exact HD1|]. split; [exact HD2|]. rewrite HD3.
  (* N * c = v * dS *)
  assert (HN : (IZR (nS * 10000000000000000) * c = v * IZR dS)%R).
  { rewrite <- Hv. rewrite mult_IZR. change 10000000000000000 with (10 ^ 16).
    rewrite IZR_pow10 by lia. unfold c. rewrite Rmult_assoc, <- bpow_plus. f_equal. f_equal. lia. }
  (* 10^X <= v *)
  assert (HvX : (IZR 10000000000000000 * c <= v)%R).
  { apply (Rmult_le_reg_r (IZR dS)); [exact HdS'|]. rewrite <- HN. rewrite mult_IZR.
    assert (Hle : (IZR dS <= IZR nS)%R) by (apply IZR_le; lia).
    assert (H16 : (0 < IZR 10000000000000000)%R) by (apply IZR_lt; lia).
    replace (IZR 10000000000000000 * c * IZR dS)%R with (IZR dS * (IZR 10000000000000000 * c))%R by ring.
    rewrite Rmult_assoc. apply Rmult_le_compat_r; [|exact Hle].
    apply Rlt_le, Rmult_lt_0_compat; assumption. }
  (* |q c - v| <= c / 2 *)
  assert (Herr : (Rabs (IZR q * c - v) <= c / 2)%R).
  { set (N := nS * 10000000000000000) in *.
    destruct Hr as [Hr1 Hr2]. apply IZR_le in Hr1, Hr2.
    rewrite opp_IZR in Hr1. rewrite mult_IZR, minus_IZR, mult_IZR in Hr1, Hr2.
    set (RN := IZR N) in *.
    apply Rabs_le.
    assert (Hmul : ((IZR q * c - v) * IZR dS = - ((RN - IZR q * IZR dS) * c))%R).
    { transitivity (IZR q * IZR dS * c - v * IZR dS)%R; [ring|]. rewrite <- HN. ring. }
    assert (B1 : (- IZR dS * c <= 2 * (RN - IZR q * IZR dS) * c)%R)
      by (apply Rmult_le_compat_r; lra).
    assert (B2 : (2 * (RN - IZR q * IZR dS) * c <= IZR dS * c)%R)
      by (apply Rmult_le_compat_r; lra).
    split.
    - apply (Rmult_le_reg_r (IZR dS)); [exact HdS'|]. rewrite Hmul. lra.
    - apply (Rmult_le_reg_r (IZR dS)); [exact HdS'|]. rewrite Hmul. lra. }
  eapply Rle_lt_trans; [exact Herr|].
  (* c / 2 < v * 2^-54 *)
  pose proof bpow2_m54 as Ht. pose proof pow2_53_lt_pow10_16 as H53.
  rewrite <- IZR_pow10 in H53 by lia. change (10 ^ 16) with 10000000000000000 in H53.
  set (t := bpow radix2 (-54)) in *. set (P53 := bpow radix2 53) in *.
  set (B16 := IZR 10000000000000000) in *.
  assert (HP : (0 < P53)%R) by apply bpow_gt_0.
  assert (Htp : (0 < t)%R) by apply bpow_gt_0.
  assert (Hct : (0 < c * t)%R) by (apply Rmult_lt_0_compat; assumption).
  replace (c / 2)%R with (c * t * P53)%R.
  2:{ transitivity (c * (t * (2 * P53)) / 2)%R; [field|]. rewrite Ht. field. }
  apply Rlt_le_trans with (c * t * B16)%R.
  - apply Rmult_lt_compat_l; assumption.
  - replace (c * t * B16)%R with (B16 * c * t)%R by ring.
    apply Rmult_le_compat_r; [lra|exact HvX].
Qed.

Print Assumptions g17_arith.
