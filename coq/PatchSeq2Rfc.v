(** PatchSeq2Rfc.v — facts about the RFC 6902 evaluator of Rfc6902.v alone (no model):
    (1) [eval1] respects the exact relation [doc_same] in its document argument (and in the value
        operands): related documents give related results, and fail together;
    (2) [eval1] keeps documents well-formed ([dwf]) when the operands are well-formed, the reference
        tokens are C strings, and the result has no container above SIZE_MAX elements. *)
From Coq Require Import Lia ZArith List Bool Permutation.
From CJ Require Import Base Dbl Tree PointerDefs PointerProofs CompareDefs PatchDefs PatchProofs PatchRobust Rfc6902
  PatchConform PatchOps PatchApply PatchSort PatchTest PatchMove PatchSeq PatchGen PatchEq PatchRound PatchObj PatchExact.
Import ListNotations.
Local Open Scope Z_scope.

(** ---------- list surgery and pointwise relations ---------- *)
Lemma F2_firstn {A B} (R : A -> B -> Prop) l1 l2 : Forall2 R l1 l2 -> forall n, Forall2 R (firstn n l1) (firstn n l2).
Proof. induction 1; intros [|n]; cbn [firstn]; constructor; auto. Qed.
Lemma F2_skipn {A B} (R : A -> B -> Prop) l1 l2 : Forall2 R l1 l2 -> forall n, Forall2 R (skipn n l1) (skipn n l2).
Proof. induction 1 as [|x y l1 l2 H F IH]; intros [|n]; cbn [skipn]; try constructor; auto. Qed.
Lemma F2_upd_nth {A B} (R : A -> B -> Prop) l1 l2 i x y : Forall2 R l1 l2 -> R x y -> Forall2 R (upd_nth i x l1) (upd_nth i y l2).
Proof. intros F H. unfold upd_nth. apply Forall2_app; [apply F2_firstn; exact F | constructor; [exact H | apply F2_skipn; exact F]]. Qed.
Lemma F2_ins_nth {A B} (R : A -> B -> Prop) l1 l2 i x y : Forall2 R l1 l2 -> R x y -> Forall2 R (ins_nth i x l1) (ins_nth i y l2).
Proof. intros F H. unfold ins_nth. apply Forall2_app; [apply F2_firstn; exact F | constructor; [exact H | apply F2_skipn; exact F]]. Qed.
Lemma F2_del_nth {A B} (R : A -> B -> Prop) l1 l2 i : Forall2 R l1 l2 -> Forall2 R (del_nth i l1) (del_nth i l2).
Proof. intros F. unfold del_nth. apply Forall2_app; [apply F2_firstn; exact F | apply F2_skipn; exact F]. Qed.
Lemma F2_snoc {A B} (R : A -> B -> Prop) l1 l2 x y : Forall2 R l1 l2 -> R x y -> Forall2 R (l1 ++ [x]) (l2 ++ [y]).
Proof. intros F H. apply Forall2_app; [exact F | constructor; [exact H | constructor]]. Qed.

Lemma nth_z_F2 (R : node -> node -> Prop) l1 l2 i : Forall2 R l1 l2 ->
  match nth_z l1 i, nth_z l2 i with Some x, Some y => R x y | None, None => True | _, _ => False end.
Proof.
  intro F. unfold nth_z. rewrite <- (Forall2_len _ _ _ F).
  destruct ((0 <=? i) && (i <? Z.of_nat (length l1))) eqn:E.
  - apply andb_true_iff in E. destruct E as [E1 E2]. apply Z.leb_le in E1. apply Z.ltb_lt in E2.
    destruct (nth_error l1 (Z.to_nat i)) as [x|] eqn:N.
    + destruct (F2_nth_l _ _ _ F _ _ N) as (y & Ny & Hr). rewrite Ny. exact Hr.
    + apply nth_error_None in N. lia.
  - exact I.
Qed.

Lemma nth_z_in (l : list node) i x : nth_z l i = Some x -> In x l.
Proof. intro H. eapply nth_error_In. apply nth_z_nth. exact H. Qed.

(** ---------- containers ---------- *)
Lemma same_is_array a b : doc_same a b -> is_array a = is_array b.
Proof. intro H. apply doc_same_inv in H. destruct H as (T & _). unfold is_array, is_type. rewrite T. reflexivity. Qed.
Lemma same_is_object a b : doc_same a b -> is_object a = is_object b.
Proof. intro H. apply doc_same_inv in H. destruct H as (T & _). unfold is_object, is_type. rewrite T. reflexivity. Qed.

Lemma not_both c : is_array c = true -> is_object c = true -> False.
Proof. unfold is_array, is_object, is_type. intros Ha Ho. apply Z.eqb_eq in Ha. apply Z.eqb_eq in Ho. rewrite Ha in Ho. discriminate. Qed.

Lemma same_array_children a b : doc_same a b -> is_array a = true -> Forall2 doc_same (n_children a) (n_children b).
Proof.
  intros H Ha. apply doc_same_inv in H. destruct H as (_ & _ & _ & _ & A & _). apply A.
  unfold is_array, is_type in Ha. apply Z.eqb_eq in Ha. rewrite Ha. discriminate.
Qed.
Lemma same_object_children a b : doc_same a b -> is_object a = true -> osame (n_children a) (n_children b).
Proof.
  intros H Ho. apply doc_same_inv in H. destruct H as (_ & _ & _ & _ & _ & O). apply O.
  unfold is_object, is_type in Ho. apply Z.eqb_eq in Ho. exact Ho.
Qed.

Lemma dwf_okm par : dwf par -> is_object par = true -> okm (n_children par).
Proof. intros Hd Ho. destruct (is_object_local par Hd Ho) as [N K]. split; assumption. Qed.

Lemma dwf_child d x : dwf d -> In x (n_children d) -> dwf x.
Proof. intros Hd Hx. pose proof (dwf_children d Hd) as Hc. rewrite Forall_forall in Hc. apply Hc. exact Hx. Qed.

Lemma same_with_children a b l1 l2 : doc_same a b ->
  (is_object a = false -> Forall2 doc_same l1 l2) -> (is_object a = true -> osame l1 l2) ->
  doc_same (with_children a l1) (with_children b l2).
Proof.
  intros H A O. apply doc_same_inv in H. destruct H as (T & I & D & S & _ & _).
  destruct a as [ta sa ia da ka ca], b as [tb sb ib db kb cb]. cbn [with_children n_ty n_vint n_vdbl n_vstr n_children] in *.
  apply doc_same_mk; cbn [n_ty n_vint n_vdbl n_vstr n_children]; try assumption.
  - intro Hn. apply A. unfold is_object, is_type. cbn [n_ty]. apply Z.eqb_neq. exact Hn.
  - intro Ho. apply O. unfold is_object, is_type. cbn [n_ty]. apply Z.eqb_eq. exact Ho.
Qed.

(* lookups in related member lists *)
Lemma same_find_key a b t : dwf a -> dwf b -> doc_same a b -> is_object a = true ->
  match find_key (n_children a) t 0%nat, find_key (n_children b) t 0%nat with
  | Some (_, x), Some (_, y) => doc_same x y
  | None, None => True
  | _, _ => False
  end.
Proof.
  intros Ha Hb H Ho. pose proof (same_object_children _ _ H Ho) as Os.
  assert (Hob : is_object b = true) by (rewrite <- (same_is_object _ _ H); exact Ho).
  pose proof (proj1 (osame_lk _ _ (dwf_okm _ Ha Ho) (dwf_okm _ Hb Hob)) Os t) as R. unfold lk, orel in R.
  destruct (find_key (n_children a) t 0%nat) as [[j x]|]; destruct (find_key (n_children b) t 0%nat) as [[j' y]|]; exact R.
Qed.

(** ---------- (1) navigation respects the relation ---------- *)
Lemma get_same : forall toks d1 d2, dwf d1 -> dwf d2 -> doc_same d1 d2 -> orel (get d1 toks) (get d2 toks).
Proof.
  induction toks as [|t ts IH]; intros d1 d2 H1 H2 S; cbn [get]; [exact S|].
  rewrite <- (same_is_array _ _ S), <- (same_is_object _ _ S).
  destruct (is_array d1) eqn:Ea.
  - destruct (rfc_array_index t) as [i|]; [|exact I].
    pose proof (nth_z_F2 doc_same _ _ i (same_array_children _ _ S Ea)) as N.
    destruct (nth_z (n_children d1) i) as [c1|] eqn:N1; destruct (nth_z (n_children d2) i) as [c2|] eqn:N2; try contradiction; [|exact I].
    apply IH; [eapply dwf_child; [exact H1 | eapply nth_z_in; exact N1] | eapply dwf_child; [exact H2 | eapply nth_z_in; exact N2] | exact N].
  - destruct (is_object d1) eqn:Eo; [|exact I].
    pose proof (same_find_key d1 d2 t H1 H2 S Eo) as F.
    destruct (find_key (n_children d1) t 0%nat) as [[j1 c1]|] eqn:F1; destruct (find_key (n_children d2) t 0%nat) as [[j2 c2]|] eqn:F2;
      try contradiction; [|exact I].
    apply IH; [eapply dwf_child; [exact H1 | eapply find_key_in; exact F1] | eapply dwf_child; [exact H2 | eapply find_key_in; exact F2] | exact F].
Qed.

(* functions applied at a location: they keep the member name *)
Definition keeps_key (f : node -> option node) : Prop := forall x x', f x = Some x' -> n_key x' = n_key x.

Lemma at_location_key' f : keeps_key f -> forall pp x x', at_location x pp f = Some x' -> n_key x' = n_key x.
Proof.
  intros Hf [|t pp] x x' E; [apply Hf; exact E|]. eapply at_location_key; [|exact E]. discriminate.
Qed.

(* replacing related members of the same name in related member lists *)
Lemma osame_upd cs1 cs2 t j1 c1 j2 c2 c1' c2' : okm cs1 -> okm cs2 -> osame cs1 cs2 ->
  find_key cs1 t 0%nat = Some (j1, c1) -> find_key cs2 t 0%nat = Some (j2, c2) ->
  n_key c1' = Some t -> n_key c2' = Some t -> doc_same c1' c2' ->
  osame (upd_nth j1 c1' cs1) (upd_nth j2 c2' cs2).
Proof.
  intros K1 K2 Os F1 F2 E1 E2 S.
  destruct (find_key_in _ _ _ _ F1) as [_ Ek1]. destruct (find_key_in _ _ _ _ F2) as [_ Ek2].
  pose proof (find_key_nth _ _ _ _ F1) as N1. pose proof (find_key_nth _ _ _ _ F2) as N2.
  assert (K1' : okm (upd_nth j1 c1' cs1)) by (eapply okm_upd; [exact K1 | exact N1 | congruence]).
  assert (K2' : okm (upd_nth j2 c2' cs2)) by (eapply okm_upd; [exact K2 | exact N2 | congruence]).
  apply (osame_lk _ _ K1' K2'). intro k.
  destruct (lk_upd cs1 t j1 c1 c1' K1 F1 E1) as (L1 & L1' & _). destruct (lk_upd cs2 t j2 c2 c2' K2 F2 E2) as (L2 & L2' & _).
  destruct (bytes_eqb k t) eqn:Eb.
  - apply bytes_eqb_eq in Eb. subst k. rewrite L1, L2. exact S.
  - assert (Hne : k <> t) by (intro; subst; rewrite bytes_eqb_refl in Eb; discriminate).
    rewrite (L1' k Hne), (L2' k Hne). apply (osame_lk _ _ K1 K2). exact Os.
Qed.

Lemma osame_del cs1 cs2 t j1 c1 j2 c2 : okm cs1 -> okm cs2 -> osame cs1 cs2 ->
  find_key cs1 t 0%nat = Some (j1, c1) -> find_key cs2 t 0%nat = Some (j2, c2) ->
  osame (del_nth j1 cs1) (del_nth j2 cs2).
Proof.
  intros K1 K2 Os F1 F2.
  apply (osame_lk _ _ (okm_del _ j1 K1) (okm_del _ j2 K2)). intro k.
  destruct (lk_del cs1 t j1 c1 K1 F1) as (L1 & L1'). destruct (lk_del cs2 t j2 c2 K2 F2) as (L2 & L2').
  destruct (bytes_eqb k t) eqn:Eb.
  - apply bytes_eqb_eq in Eb. subst k. rewrite L1, L2. exact I.
  - assert (Hne : k <> t) by (intro; subst; rewrite bytes_eqb_refl in Eb; discriminate).
    rewrite (L1' k Hne), (L2' k Hne). apply (osame_lk _ _ K1 K2). exact Os.
Qed.

Lemma osame_snoc cs1 cs2 x1 x2 : osame cs1 cs2 -> msame x1 x2 -> osame (cs1 ++ [x1]) (cs2 ++ [x2]).
Proof.
  intros (L & F & G) M. split; [rewrite !app_length; cbn [length]; lia|]. split; apply Forall_app; split.
  - eapply Forall_impl; [|exact F]. intros x Hx. apply Exists_app. left. exact Hx.
  - constructor; [|constructor]. apply Exists_app. right. left. exact M.
  - eapply Forall_impl; [|exact G]. intros x Hx. apply Exists_app. left. exact Hx.
  - constructor; [|constructor]. apply Exists_app. right. left. exact M.
Qed.

Lemma at_location_same f1 f2 : keeps_key f1 -> keeps_key f2 ->
  (forall x1 x2, dwf x1 -> dwf x2 -> doc_same x1 x2 -> orel (f1 x1) (f2 x2)) ->
  forall toks d1 d2, dwf d1 -> dwf d2 -> doc_same d1 d2 -> orel (at_location d1 toks f1) (at_location d2 toks f2).
Proof.
  intros Kf1 Kf2 Hf. induction toks as [|t ts IH]; intros d1 d2 H1 H2 S; cbn [at_location]; [apply Hf; assumption|].
  rewrite <- (same_is_array _ _ S), <- (same_is_object _ _ S).
  destruct (is_array d1) eqn:Ea.
  - destruct (rfc_array_index t) as [i|]; [|exact I].
    pose proof (same_array_children _ _ S Ea) as FA.
    pose proof (nth_z_F2 doc_same _ _ i FA) as N.
    destruct (nth_z (n_children d1) i) as [c1|] eqn:N1; destruct (nth_z (n_children d2) i) as [c2|] eqn:N2; try contradiction; [|exact I].
    assert (R : orel (at_location c1 ts f1) (at_location c2 ts f2)).
    { apply IH; [eapply dwf_child; [exact H1 | eapply nth_z_in; exact N1] | eapply dwf_child; [exact H2 | eapply nth_z_in; exact N2] | exact N]. }
    destruct (at_location c1 ts f1) as [c1'|]; destruct (at_location c2 ts f2) as [c2'|]; try contradiction; [|exact I].
    cbn [orel]. apply same_with_children; [exact S | |].
    + intros _. apply F2_upd_nth; assumption.
    + intro Ho. exfalso. eapply not_both; eassumption.
  - destruct (is_object d1) eqn:Eo; [|exact I].
    pose proof (same_find_key d1 d2 t H1 H2 S Eo) as F.
    destruct (find_key (n_children d1) t 0%nat) as [[j1 c1]|] eqn:F1; destruct (find_key (n_children d2) t 0%nat) as [[j2 c2]|] eqn:F2;
      try contradiction; [|exact I].
    assert (R : orel (at_location c1 ts f1) (at_location c2 ts f2)).
    { apply IH; [eapply dwf_child; [exact H1 | eapply find_key_in; exact F1] | eapply dwf_child; [exact H2 | eapply find_key_in; exact F2] | exact F]. }
    destruct (at_location c1 ts f1) as [c1'|] eqn:A1; destruct (at_location c2 ts f2) as [c2'|] eqn:A2; try contradiction; [|exact I].
    cbn [orel]. apply same_with_children; [exact S | intro; congruence |]. intros _.
    assert (Hob : is_object d2 = true) by (rewrite <- (same_is_object _ _ S); exact Eo).
    eapply osame_upd; try eassumption.
    + apply dwf_okm; assumption.
    + apply dwf_okm; assumption.
    + apply same_object_children; assumption.
    + rewrite (at_location_key' f1 Kf1 _ _ _ A1). eapply find_key_key; exact F1.
    + rewrite (at_location_key' f2 Kf2 _ _ _ A2). eapply find_key_key; exact F2.
Qed.

(** ---------- add / remove at the last token ---------- *)
Lemma with_children_key c l : n_key (with_children c l) = n_key c.
Proof. destruct c; reflexivity. Qed.
Lemma with_key_key v t : n_key (with_key v t) = Some t.
Proof. destruct v; reflexivity. Qed.

Lemma add_member_keeps t v : keeps_key (add_member t v).
Proof.
  intros c c' E. unfold add_member in E. destruct (is_array c).
  - destruct (bytes_eqb t [45]); [inversion E; apply with_children_key|].
    destruct (rfc_array_index t) as [i|]; [|discriminate]. destruct (i <=? Z.of_nat (length (n_children c))); [|discriminate].
    inversion E; apply with_children_key.
  - destruct (is_object c); [|discriminate]. destruct (find_key (n_children c) t 0%nat) as [[j x]|]; inversion E; apply with_children_key.
Qed.
Lemma remove_member_keeps t : keeps_key (remove_member t).
Proof.
  intros c c' E. unfold remove_member in E. destruct (is_array c).
  - destruct (rfc_array_index t) as [i|]; [|discriminate]. destruct (i <? Z.of_nat (length (n_children c))); [|discriminate].
    inversion E; apply with_children_key.
  - destruct (is_object c); [|discriminate]. destruct (find_key (n_children c) t 0%nat) as [[j x]|]; [|discriminate]. inversion E; apply with_children_key.
Qed.

Lemma msame_with_key v1 v2 t : doc_same v1 v2 -> msame (with_key v1 t) (with_key v2 t).
Proof.
  intro S. split; [rewrite !with_key_key; reflexivity|].
  eapply doc_same_trans; [apply doc_same_with_key|]. eapply doc_same_trans; [exact S|]. apply doc_same_sym. apply doc_same_with_key.
Qed.

Lemma add_member_same t v1 v2 c1 c2 : doc_same v1 v2 -> dwf c1 -> dwf c2 -> doc_same c1 c2 ->
  orel (add_member t v1 c1) (add_member t v2 c2).
Proof.
  intros Sv H1 H2 S. unfold add_member. rewrite <- (same_is_array _ _ S), <- (same_is_object _ _ S).
  destruct (is_array c1) eqn:Ea.
  - pose proof (same_array_children _ _ S Ea) as FA. rewrite <- (Forall2_len _ _ _ FA).
    destruct (bytes_eqb t [45]).
    { cbn [orel]. apply same_with_children; [exact S | intros _; apply F2_snoc; assumption | intro Ho; exfalso; eapply not_both; eassumption]. }
    destruct (rfc_array_index t) as [i|]; [|exact I]. destruct (i <=? Z.of_nat (length (n_children c1))); [|exact I].
    cbn [orel]. apply same_with_children; [exact S | intros _; apply F2_ins_nth; assumption | intro Ho; exfalso; eapply not_both; eassumption].
  - destruct (is_object c1) eqn:Eo; [|exact I].
    assert (Hob : is_object c2 = true) by (rewrite <- (same_is_object _ _ S); exact Eo).
    pose proof (same_find_key c1 c2 t H1 H2 S Eo) as F.
    destruct (find_key (n_children c1) t 0%nat) as [[j1 x1]|] eqn:F1; destruct (find_key (n_children c2) t 0%nat) as [[j2 x2]|] eqn:F2;
      try contradiction.
    + cbn [orel]. apply same_with_children; [exact S | intro; congruence|]. intros _.
      eapply osame_upd; try eassumption; try apply with_key_key.
      * apply dwf_okm; assumption.
      * apply dwf_okm; assumption.
      * apply same_object_children; assumption.
      * apply msame_with_key. exact Sv.
    + cbn [orel]. apply same_with_children; [exact S | intro; congruence|]. intros _.
      apply osame_snoc; [apply same_object_children; assumption | apply msame_with_key; exact Sv].
Qed.

Lemma remove_member_same t c1 c2 : dwf c1 -> dwf c2 -> doc_same c1 c2 -> orel (remove_member t c1) (remove_member t c2).
Proof.
  intros H1 H2 S. unfold remove_member. rewrite <- (same_is_array _ _ S), <- (same_is_object _ _ S).
  destruct (is_array c1) eqn:Ea.
  - pose proof (same_array_children _ _ S Ea) as FA. rewrite <- (Forall2_len _ _ _ FA).
    destruct (rfc_array_index t) as [i|]; [|exact I]. destruct (i <? Z.of_nat (length (n_children c1))); [|exact I].
    cbn [orel]. apply same_with_children; [exact S | intros _; apply F2_del_nth; assumption | intro Ho; exfalso; eapply not_both; eassumption].
  - destruct (is_object c1) eqn:Eo; [|exact I].
    assert (Hob : is_object c2 = true) by (rewrite <- (same_is_object _ _ S); exact Eo).
    pose proof (same_find_key c1 c2 t H1 H2 S Eo) as F.
    destruct (find_key (n_children c1) t 0%nat) as [[j1 x1]|] eqn:F1; destruct (find_key (n_children c2) t 0%nat) as [[j2 x2]|] eqn:F2;
      try contradiction; [|exact I].
    cbn [orel]. apply same_with_children; [exact S | intro; congruence|]. intros _.
    eapply osame_del; try eassumption; [apply dwf_okm; assumption | apply dwf_okm; assumption | apply same_object_children; assumption].
Qed.

Lemma add_same d1 d2 p v1 v2 : dwf d1 -> dwf d2 -> doc_same d1 d2 -> doc_same v1 v2 -> orel (add d1 p v1) (add d2 p v2).
Proof.
  intros H1 H2 S Sv. unfold add. destruct (split_last p) as [[pp t]|]; [|exact Sv].
  apply at_location_same; try assumption; try apply add_member_keeps.
  intros x1 x2 Hx1 Hx2 Sx. apply add_member_same; assumption.
Qed.
Lemma remove_same d1 d2 p : dwf d1 -> dwf d2 -> doc_same d1 d2 -> orel (remove d1 p) (remove d2 p).
Proof.
  intros H1 H2 S. unfold remove. destruct (split_last p) as [[pp t]|]; [|exact I].
  apply at_location_same; try assumption; try apply remove_member_keeps.
  intros x1 x2 Hx1 Hx2 Sx. apply remove_member_same; assumption.
Qed.

(** ---------- (1) the six operations ---------- *)
(* operands related too: the model works on a duplicate of the value member *)
Definition op_same (o1 o2 : op) : Prop :=
  match o1, o2 with
  | Add p v, Add p' v' | Replace p v, Replace p' v' => p = p' /\ doc_same v v'
  | Test p v, Test p' v' => p = p' /\ doc_same v v'
  | Remove p, Remove p' => p = p'
  | Move f p, Move f' p' | Copy f p, Copy f' p' => f = f' /\ p = p'
  | _, _ => False
  end.
Lemma op_same_refl o : op_same o o.
Proof. destruct o; cbn; try split; try reflexivity; apply doc_same_refl. Qed.

Theorem eval1_same d1 d2 o : dwf d1 -> dwf d2 -> doc_same d1 d2 -> op_values_ok o -> orel (eval1 d1 o) (eval1 d2 o).
Proof.
  intros H1 H2 S Hv. destruct o as [p v|p|p v|f p|f p|p v]; cbn [eval1 op_values_ok] in *.
  - apply add_same; try assumption. apply doc_same_refl.
  - apply remove_same; assumption.
  - unfold replace. destruct p as [|t ts]; [apply doc_same_refl|].
    pose proof (remove_same d1 d2 (t :: ts) H1 H2 S) as R.
    destruct (remove d1 (t :: ts)) as [e1|] eqn:R1; destruct (remove d2 (t :: ts)) as [e2|] eqn:R2; try contradiction; [|exact I].
    apply add_same; [exact (remove_dwf _ _ _ H1 R1) | exact (remove_dwf _ _ _ H2 R2) | exact R | apply doc_same_refl].
  - destruct (proper_prefix f p); [exact I|].
    pose proof (get_same f d1 d2 H1 H2 S) as G.
    destruct (get d1 f) as [v1|] eqn:G1; destruct (get d2 f) as [v2|] eqn:G2; try contradiction; [|exact I].
    pose proof (remove_same d1 d2 f H1 H2 S) as R.
    destruct (remove d1 f) as [e1|] eqn:R1; destruct (remove d2 f) as [e2|] eqn:R2; try contradiction; [|exact I].
    apply add_same; [exact (remove_dwf _ _ _ H1 R1) | exact (remove_dwf _ _ _ H2 R2) | exact R | exact G].
  - pose proof (get_same f d1 d2 H1 H2 S) as G.
    destruct (get d1 f) as [v1|] eqn:G1; destruct (get d2 f) as [v2|] eqn:G2; try contradiction; [|exact I].
    apply add_same; assumption.
  - pose proof (get_same p d1 d2 H1 H2 S) as G.
    destruct (get d1 p) as [x1|] eqn:G1; destruct (get d2 p) as [x2|] eqn:G2; try contradiction; [|exact I].
    destruct (get_dwf_depth _ _ _ H1 G1) as [Hx1 _].
    rewrite <- (doc_eqb_same x1 x2 v v Hx1 Hv G (doc_same_refl v)).
    destruct (doc_eqb x1 v); [exact S | exact I].
Qed.

(** ---------- (2) eval1 keeps documents well-formed ---------- *)
Lemma small_subtree : forall pp d x, small_arrays d -> subtree d pp = Some x -> small_arrays x.
Proof.
  induction pp as [|i p IH]; intros d x Hs E; cbn [subtree] in E; [inversion E; subst; exact Hs|].
  destruct (nth_error (n_children d) i) as [c|] eqn:N; [|discriminate].
  eapply IH; [|exact E]. destruct d as [ty vs vi vd k cs]. apply small_arrays_unfold in Hs. destruct Hs as [_ Hc].
  rewrite Forall_forall in Hc. apply Hc. eapply nth_error_In; exact N.
Qed.

Lemma nth_replace_nth {A} : forall i (x : A) l, (i < length l)%nat -> nth_error (replace_nth i x l) i = Some x.
Proof.
  intros i x l; revert i; induction l as [|y l IH]; intros i H; cbn [length] in H; [lia|].
  destruct i as [|i]; cbn [replace_nth nth_error]; [reflexivity | apply IH; lia].
Qed.

Lemma subtree_put : forall pp d old new, subtree d pp = Some old -> subtree (put_subtree d pp new) pp = Some new.
Proof.
  induction pp as [|i p IH]; intros d old new E; cbn [subtree put_subtree] in *; [reflexivity|].
  destruct (nth_error (n_children d) i) as [c|] eqn:N; [|discriminate].
  rewrite n_children_set. rewrite nth_replace_nth by (apply nth_error_Some; rewrite N; discriminate).
  eapply IH; exact E.
Qed.

Lemma dwf_with_children c l : dwf c -> Z.of_nat (length l) <= SIZE_MAX -> (is_object c = true -> okm l) -> Forall dwf l ->
  dwf (with_children c l).
Proof.
  intros Hc L O F. destruct c as [ty vs vi vd k cs]. cbn [with_children]. apply dwf_unfold in Hc. destruct Hc as [(_ & J & S & N & _) _].
  apply dwf_unfold. split; [|exact F]. repeat split; try assumption.
  - apply O. unfold is_object, is_type. cbn [n_ty]. apply Z.eqb_eq. exact H.
  - apply O. unfold is_object, is_type. cbn [n_ty]. apply Z.eqb_eq. exact H.
Qed.

Lemma dwf_with_key v t : dwf v -> dwf (with_key v t).
Proof. destruct v as [ty vs vi vd k cs]. cbn [with_key]. rewrite !dwf_unfold. tauto. Qed.

Lemma Forall_firstn {A} (P : A -> Prop) n l : Forall P l -> Forall P (firstn n l).
Proof. rewrite !Forall_forall. intros H x Hx. apply H. eapply In_firstn; exact Hx. Qed.
Lemma Forall_skipn {A} (P : A -> Prop) n l : Forall P l -> Forall P (skipn n l).
Proof. rewrite !Forall_forall. intros H x Hx. apply H. eapply In_skipn; exact Hx. Qed.

Lemma add_member_dwf t v c c' : dwf c -> dwf v -> key_bytes_ok t -> add_member t v c = Some c' ->
  Z.of_nat (length (n_children c')) <= SIZE_MAX -> dwf c'.
Proof.
  intros Hc Hv Ht E L. pose proof (dwf_children c Hc) as Fc. unfold add_member in E. destruct (is_array c) eqn:Ea.
  - destruct (bytes_eqb t [45]).
    { inversion E; subst c'. rewrite n_children_with in L. apply dwf_with_children; try assumption.
      - intro Ho. exfalso. eapply not_both; eassumption.
      - apply Forall_app. split; [exact Fc | constructor; [exact Hv | constructor]]. }
    destruct (rfc_array_index t) as [i|]; [|discriminate]. destruct (i <=? Z.of_nat (length (n_children c))); [|discriminate].
    inversion E; subst c'. rewrite n_children_with in L. apply dwf_with_children; try assumption.
    + intro Ho. exfalso. eapply not_both; eassumption.
    + unfold ins_nth. apply Forall_app. split; [apply Forall_firstn; exact Fc | constructor; [exact Hv | apply Forall_skipn; exact Fc]].
  - destruct (is_object c) eqn:Eo; [|discriminate]. pose proof (dwf_okm c Hc Eo) as K.
    destruct (find_key (n_children c) t 0%nat) as [[j x]|] eqn:F.
    + inversion E; subst c'. rewrite n_children_with in L. pose proof (find_key_nth _ _ _ _ F) as N.
      apply dwf_with_children; try assumption.
      * intros _. eapply okm_upd; [exact K | exact N|]. rewrite with_key_key. symmetry. eapply find_key_key; exact F.
      * unfold upd_nth. apply Forall_app. split; [apply Forall_firstn; exact Fc | constructor; [apply dwf_with_key; exact Hv | apply Forall_skipn; exact Fc]].
    + inversion E; subst c'. rewrite n_children_with in L. apply dwf_with_children; try assumption.
      * intros _. eapply okm_snoc; [exact K | apply with_key_key | exact Ht|]. unfold lk. rewrite F. reflexivity.
      * apply Forall_app. split; [exact Fc | constructor; [apply dwf_with_key; exact Hv | constructor]].
Qed.

Lemma add_dwf d p v e : dwf d -> dwf v -> Forall key_bytes_ok p -> add d p v = Some e -> small_arrays e -> dwf e.
Proof.
  intros Hd Hv Hp E Hs. unfold add in E. destruct (split_last p) as [[pp t]|] eqn:Sp; [|inversion E; subst; exact Hv].
  assert (Ht : key_bytes_ok t).
  { unfold split_last in Sp. destruct (rev p) as [|t' r] eqn:Er; [discriminate|]. inversion Sp; subst.
    rewrite Forall_forall in Hp. apply Hp. apply in_rev. rewrite Er. left. reflexivity. }
  rewrite at_location_resolve in E. destruct (rfc_resolve d pp) as [path|]; [|discriminate].
  destruct (subtree d path) as [par|] eqn:S; [|discriminate].
  destruct (add_member t v par) as [par'|] eqn:A; [|discriminate]. inversion E; subst e.
  assert (Hpar : dwf par) by exact (dwf_subtree _ _ _ Hd S).
  eapply dwf_put; [exact Hd | exact S | | eapply add_member_keeps; exact A].
  apply (add_member_dwf t v par par' Hpar Hv Ht A).
  pose proof (small_subtree _ _ _ Hs (subtree_put _ _ _ par' S)) as Hsp.
  destruct par' as [ty vs vi vd k cs]. apply small_arrays_unfold in Hsp. apply Hsp.
Qed.

(* reference tokens that are C strings of unsigned chars *)
Definition op_toks_ok (o : op) : Prop :=
  match o with
  | Add p _ | Remove p | Replace p _ | Test p _ => Forall key_bytes_ok p
  | Move f p | Copy f p => Forall key_bytes_ok f /\ Forall key_bytes_ok p
  end.

Theorem eval1_dwf d o e : dwf d -> op_values_ok o -> op_toks_ok o -> eval1 d o = Some e -> small_arrays e -> dwf e.
Proof.
  intros Hd Hv Ht E Hs. destruct o as [p v|p|p v|f p|f p|p v]; cbn [eval1 op_values_ok op_toks_ok] in *.
  - exact (add_dwf d p v e Hd (proj1 Hv) Ht E Hs).
  - exact (remove_dwf _ _ _ Hd E).
  - unfold replace in E. destruct p as [|t ts]; [inversion E; subst; apply Hv|].
    destruct (remove d (t :: ts)) as [d'|] eqn:R; [|discriminate].
    exact (add_dwf d' (t :: ts) v e (remove_dwf _ _ _ Hd R) (proj1 Hv) Ht E Hs).
  - destruct (proper_prefix f p); [discriminate|]. destruct (get d f) as [v|] eqn:G; [|discriminate].
    destruct (remove d f) as [d'|] eqn:R; [|discriminate]. destruct (get_dwf_depth _ _ _ Hd G) as [Hvd _].
    exact (add_dwf d' p v e (remove_dwf _ _ _ Hd R) Hvd (proj2 Ht) E Hs).
  - destruct (get d f) as [v|] eqn:G; [|discriminate]. destruct (get_dwf_depth _ _ _ Hd G) as [Hvd _].
    exact (add_dwf d p v e Hd Hvd (proj2 Ht) E Hs).
  - destruct (get d p) as [x|]; [|discriminate]. destruct (doc_eqb x v); [|discriminate]. inversion E; subst. exact Hd.
Qed.
