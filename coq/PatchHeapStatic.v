(** PatchHeapStatic.v — the run condition of the heap-level entry-point theorem ([PatchHeapDupLoop.run_keyed]: along the
    value-level run every document met is keyed, the "value" member of every [test] operation met is keyed, the model
    returns [Ok]) is DERIVED from the hypotheses of the value-level sequence theorem [PatchSeqAll.apply_patches_conform]
    (Properties_C16.C16_conform): well-formed document, patch array read by RFC 6902 as [ops], operation objects
    [op_wf2], operations [op_good], [fits].  Hence [c16_heap_conform_fits] (no run condition), and with the static
    bounds of PatchSeq2Fit.v, [c16_heap_conform_static]: hypotheses that look at the initial document and the patch only.

    The invariant is that of [PatchSeqAll.apply_loop_same]: the model's document stays well-formed ([dwf], which
    gives [vkeyed]) and [doc_same] to the RFC's document. *)
From Coq Require Import Lia ZArith List Bool.
From CJ Require Import Base Dbl Tree PointerDefs CompareDefs PatchDefs Rfc6902 PatchConform PatchApply PatchMove
  PatchExact PatchSeq2Rfc PatchSeq2Op PatchSeqAll PatchSeq2Fit.
From CJ Require Import Heap Forest CoreDefs CoreRefineDupValue CoreLedgerGen MergeHeapDefs MergeHeapInv
  PatchHeapDefs PatchHeapApplyDefs PatchHeapTest PatchHeapLoop PatchHeapDupLoop.
From CJ.gen Require Import Constants.
Import ListNotations.
Local Open Scope Z_scope.

(** * a well-formed document is keyed *)
Lemma dwf_vkeyed n : dwf n -> vkeyed n.
Proof.
  induction n as [ty vs vi vd k cs IH] using node_ind'. intros H. apply dwf_unfold in H. destruct H as [Hl Hc].
  apply vkeyed_unfold. split.
  - intros Ho. destruct Hl as (_ & _ & _ & _ & Hobj). destruct (Hobj Ho) as [_ Hk].
    unfold keyed_children in Hk. rewrite Forall_forall in Hk. apply Forall_forall. intros c Hc'.
    destruct (Hk c Hc') as (k' & Ek & _). exists k'. exact Ek.
  - rewrite Forall_forall in IH, Hc. apply Forall_forall. intros c Hc'. apply IH; [exact Hc'|apply Hc; exact Hc'].
Qed.

(** * the "value" member of a [test] operation with a well-formed operand is keyed *)
Lemma value_keyed_of_op p o : op_wf2 p -> op_of p = Some o -> op_values_ok o -> value_keyed p true.
Proof.
  intros Hw Ho Hv Hdec. destruct (op_of_inv p o Ho) as (opname & toks & Hop & _ & Hcase).
  rewrite (decode_op2 p opname Hw Hop) in Hdec. injection Hdec as Hdec.
  destruct o as [q v|q|q v|f q|f q|q v]; try (destruct Hcase as [Hc _]; congruence).
  destruct Hcase as (_ & _ & Hm). destruct (value_lookup2 p v Hw Hm) as [j Ej]. rewrite Ej. cbn [op_values_ok] in Hv.
  apply dwf_vkeyed. exact Hv.
Qed.

(** * the run condition along the loop *)
Theorem run_keyed_same : forall ps ops d1 d2, dwf d1 -> dwf d2 -> doc_same d1 d2 -> Forall2 op_ok ps ops -> fits d2 ops ->
  run_keyed d1 ps true.
Proof.
  induction ps as [|p r IH]; intros ops d1 d2 H1 H2 S F Hf; inversion F as [|? o ? ops' Hpo F']; subst; [exact I|].
  cbn [fits] in Hf. destruct Hf as [Hc Hf].
  destruct (step_same d1 d2 p o H1 H2 S Hpo Hc) as (st & d1' & p' & E & R).
  { intros e Ee. rewrite Ee in Hf. apply Hf. }
  cbn [run_keyed]. split; [apply dwf_vkeyed; exact H1|]. split.
  { destruct Hpo as (Hw & Ho & Hv & _). eapply value_keyed_of_op; eassumption. }
  rewrite E. intros ->. destruct (eval1 d2 o) as [e|] eqn:E2; [|contradiction].
  destruct R as (_ & S' & H1' & H2'). destruct Hf as [_ Hf]. exact (IH ops' d1' e H1' H2' S' F' Hf).
Qed.

Theorem run_keyed_conform doc patches ops :
  dwf doc -> ops_of patches = Some ops -> Forall op_wf2 (n_children patches) -> Forall op_good ops -> fits doc ops ->
  run_keyed doc (n_children patches) true.
Proof.
  intros Hd Ho Hw Hg Hf. destruct (ops_of_Forall2 _ _ Ho) as [_ F].
  exact (run_keyed_same _ ops doc doc Hd Hd (doc_same_refl doc) (op_ok_Forall2 _ _ F Hw Hg) Hf).
Qed.

(** with the static bounds of PatchSeq2Fit.v in place of [op_good] / [fits] *)
Theorem run_keyed_static doc patches ops :
  dwf doc -> ops_of patches = Some ops ->
  Forall op_wf2 (n_children patches) -> Forall op_cstr (n_children patches) ->
  Forall op_values_ok ops -> ~ In (Remove []) ops ->
  Z.of_nat (Nat.max (width doc) (opsw ops) + length ops) <= SIZE_MAX ->
  Z.of_nat (dbound (node_depth doc) ops) <= c_CJSON_CIRCULAR_LIMIT ->
  run_keyed doc (n_children patches) true.
Proof.
  intros Hd Ho Hw Hc Hv Hn Hwd Hdp. destruct (ops_of_Forall2 _ _ Ho) as [_ F].
  apply (run_keyed_conform doc patches ops); try assumption.
  - eapply op_good_of_static; eassumption.
  - apply fits_of_width; [apply copies_ok_of_depth; exact Hdp | exact Hwd].
Qed.

(** * C16 conformance for the heap-level code without a run condition *)
Theorem c16_heap_conform_fits h A B doc rb ppa aid da elems ops :
  MInv h (F2 A B [] doc rb) -> subtree_t rb ppa = Some (T aid da elems) ->
  let vdoc := reify (h_str h) doc in
  let vpatches := reify (h_str h) (T aid da elems) in
  dwf vdoc -> ops_of vpatches = Some ops -> Forall op_wf2 (n_children vpatches) ->
  Forall op_good ops -> fits vdoc ops ->
  exists st h' docT arrT,
    cJSONUtils_ApplyPatchesCaseSensitive nofail (Some (tid doc)) (Some aid) h = Ret (st, h') /\
    MInv h' (F2 A B [] docT (put_t rb ppa arrT)) /\ tid docT = tid doc /\ tid arrT = aid /\
    (NoLeak h (F2 A B [] doc rb) -> NoLeak h' (F2 A B [] docT (put_t rb ppa arrT))) /\
    match eval vdoc ops with
    | Some d' => st = 0 /\ doc_same (reify (h_str h') docT) d' /\ doc_eq (reify (h_str h') docT) d' /\
                 dwf (reify (h_str h') docT)
    | None => st <> 0
    end.
Proof.
  intros I Harr vdoc vpatches Hd Ho Hw Hg Hf.
  exact (c16_heap_conform_all h A B doc rb ppa aid da elems ops I Harr Hd Ho Hw Hg Hf
           (run_keyed_conform vdoc vpatches ops Hd Ho Hw Hg Hf)).
Qed.

Theorem c16_heap_conform_static h A B doc rb ppa aid da elems ops :
  MInv h (F2 A B [] doc rb) -> subtree_t rb ppa = Some (T aid da elems) ->
  let vdoc := reify (h_str h) doc in
  let vpatches := reify (h_str h) (T aid da elems) in
  dwf vdoc -> ops_of vpatches = Some ops ->
  Forall op_wf2 (n_children vpatches) -> Forall op_cstr (n_children vpatches) ->
  Forall op_values_ok ops -> ~ In (Remove []) ops ->
  Z.of_nat (Nat.max (width vdoc) (opsw ops) + length ops) <= SIZE_MAX ->
  Z.of_nat (dbound (node_depth vdoc) ops) <= c_CJSON_CIRCULAR_LIMIT ->
  exists st h' docT arrT,
    cJSONUtils_ApplyPatchesCaseSensitive nofail (Some (tid doc)) (Some aid) h = Ret (st, h') /\
    MInv h' (F2 A B [] docT (put_t rb ppa arrT)) /\ tid docT = tid doc /\ tid arrT = aid /\
    (NoLeak h (F2 A B [] doc rb) -> NoLeak h' (F2 A B [] docT (put_t rb ppa arrT))) /\
    match eval vdoc ops with
    | Some d' => st = 0 /\ doc_same (reify (h_str h') docT) d' /\ doc_eq (reify (h_str h') docT) d' /\
                 dwf (reify (h_str h') docT)
    | None => st <> 0
    end.
Proof.
  intros I Harr vdoc vpatches Hd Ho Hw Hc Hv Hn Hwd Hdp. destruct (ops_of_Forall2 _ _ Ho) as [_ F].
  apply (c16_heap_conform_fits h A B doc rb ppa aid da elems ops I Harr Hd Ho Hw).
  - eapply op_good_of_static; eassumption.
  - apply fits_of_width; [apply copies_ok_of_depth; exact Hdp | exact Hwd].
Qed.
