(** Properties_C17_Heap.v (companion of Properties_C17.v) — property C17 for the HEAP-LEVEL code of the JSON Patch
    GENERATION.  Only statements closed by [exact].

    Properties_C17.v is about PatchDefs.v, the VALUE-level transliteration of [create_patches], [compose_patch] and
    [cJSONUtils_GeneratePatches[CaseSensitive]] (DESIGN 5.6, Tier B), which presupposes that the cJSON.c primitives act
    on values like list functions and that the path texts built with sprintf / encode_string_as_pointer in
    cJSON_malloc'ed blocks are just byte lists.  Here neither is presupposed: GenPatchHeapDefs.v transliterates
    [pointer_encoded_length], [encode_string_as_pointer], [compose_patch], [create_patches] and the two entry points of
    cJSON_Utils.c statement by statement on the memory model of Heap.v — byte loops with checked loads and stores, the
    cJSON_malloc'ed [full_path] / [new_path] blocks (filled with non-zero junk) and their cJSON_free, the libc
    [sprintf] calls as one checked store of the bytes of the path, '/', the decimal digits ([PointerDefs.print_lu], the
    "%lu" of the value-level model) and the terminator — and the theorems below say that this code REFINES the
    value-level model.

    Reading guide.  [h] heap, [F] forest, [MInv h F] the invariant of Properties_C18_Heap.v (well-formed heap [WF],
    structural sanity [HeapOK], every node owns its strings, every string a live NUL-terminated block).
    [cstring] = a [const char *] argument: NULL, block + offset, or a literal; [CsReads h c nm]: [c] designates the
    readable C string [nm] in [h] (Properties_C16_Heap.v).  [reify St t] reads a forest tree as a [Tree.node].
    [wrB h B buf]: the heap [h] with the contents of the byte block [B] replaced by [buf], nothing else changed.
    [Step V h F h' F']: the frame rule of the generation, which runs with temporary path blocks alive
    ([C17_heap_step_is]).  [nofail] = the allocator that never fails (the C code does not test the result of the
    cJSON_malloc calls in compose_patch / create_patches: DESIGN 11.6). *)
From CJ Require Import Base Dbl Heap Forest ForestLemmas CoreDefs CoreRefineBase CoreRefineAddObject CoreRefineDupValue CoreRefineDupForest CoreLedgerGen.
From CJ Require Import TierBridgeDefs MergeHeapDefs MergeHeapInv MergeHeapEx GenMergeHeapDefs GenMergeHeapForest GenMergeHeapEx
  PatchHeapDefs PatchHeapPointer PatchHeapSteps.
From CJ Require Import GenPatchHeapDefs GenPatchHeapBytes GenPatchHeapSteps GenPatchHeapCompose GenPatchHeapEx.
From CJ Require Tree CoreOps PointerDefs PatchDefs SortSpec.
From CJ.gen Require Import Constants.
From stdpp Require Import gmap.
Local Open Scope Z_scope.

(** ------------------------------------------------------------------ 1. the byte loops and sprintf *)

Theorem C17_heap_wrB_is : forall h B buf,
  wrB h B buf = mkHeap (h_lnk h) (h_dat h) (<[B := buf]> (h_str h)) (h_own h) (h_live h) (h_next h) (h_req h) (h_hooks h) (h_trace h).
Proof. exact (fun h B buf => eq_refl). Qed.

(** STAGE 1a.  [pointer_encoded_length(string)] on a readable string argument: returns normally, leaves the heap
    untouched, and returns the length of the value-level encoding *)
Theorem C17_heap_pointer_encoded_length : forall h c nm, CsReads h c nm ->
  pointer_encoded_length c h = Ret (PointerDefs.pointer_encoded_length nm, h).
Proof. exact pointer_encoded_length_refines. Qed.
Print Assumptions C17_heap_pointer_encoded_length.

(** STAGE 1b.  [encode_string_as_pointer(B + off, source)]: [B] a live library block holding [buf], the source a
    readable string outside [B].  When the encoding and its terminator fit behind [off], the run returns normally and
    the block holds: the bytes before [off], the value-level encoding, the terminator, the old bytes behind it;
    nothing else in the heap changes. *)
Theorem C17_heap_encode_string_as_pointer : forall h B (buf : bytes) (off : nat) src nm,
  B ∈ h_live h -> h_own h !! B = Some Lib -> h_str h !! B = Some buf ->
  CsReads h src nm -> (forall o, src <> CAt B o) ->
  let enc := PointerDefs.encode_string_as_pointer nm in
  (off + length enc + 1 <= length buf)%nat ->
  encode_string_as_pointer (CAt B off) src h =
  Ret (tt, wrB h B (take off buf ++ enc ++ 0 :: drop (off + length enc + 1) buf)).
Proof. exact encode_string_as_pointer_refines. Qed.
Print Assumptions C17_heap_encode_string_as_pointer.

(** … and the bound is exact: one byte less and the run ends in [OutOfBounds] (the checked store of the last
    encoded byte or of the terminator) — the blocks compose_patch and create_patches allocate are exactly
    [strlen(path) + pointer_encoded_length(name) + sizeof("/")] bytes *)
Theorem C17_heap_encode_overflow : forall h B (buf : bytes) (off : nat) src nm,
  B ∈ h_live h -> h_own h !! B = Some Lib -> h_str h !! B = Some buf ->
  CsReads h src nm -> (forall o, src <> CAt B o) -> (off <= length buf)%nat ->
  (length buf < off + length (PointerDefs.encode_string_as_pointer nm) + 1)%nat ->
  encode_string_as_pointer (CAt B off) src h = Err OutOfBounds.
Proof. exact encode_string_as_pointer_overflow. Qed.
Print Assumptions C17_heap_encode_overflow.

(** the three [sprintf] forms (libc, modelled as one checked store; the texts are those of the value-level model) *)
Theorem C17_heap_sprintf_s_slash : forall h B (buf : bytes) path pnm,
  B ∈ h_live h -> h_own h !! B = Some Lib -> h_str h !! B = Some buf ->
  CsReads h path pnm -> (length pnm + 2 <= length buf)%nat ->
  sprintf_s_slash (CAt B 0) path h = Ret (tt, wrB h B (pnm ++ [47; 0] ++ drop (length pnm + 2) buf)).
Proof. exact run_sprintf_s_slash. Qed.
Theorem C17_heap_sprintf_s_slash_lu : forall h B (buf : bytes) path pnm index,
  B ∈ h_live h -> h_own h !! B = Some Lib -> h_str h !! B = Some buf ->
  CsReads h path pnm -> (length pnm + 1 + length (PointerDefs.print_lu index) + 1 <= length buf)%nat ->
  sprintf_s_slash_lu (CAt B 0) path index h =
  Ret (tt, wrB h B ((pnm ++ [47] ++ PointerDefs.print_lu index) ++ 0 :: drop (length pnm + 1 + length (PointerDefs.print_lu index) + 1) buf)).
Proof. exact run_sprintf_s_slash_lu. Qed.
Theorem C17_heap_sprintf_lu : forall h B (buf : bytes) index,
  B ∈ h_live h -> h_own h !! B = Some Lib -> h_str h !! B = Some buf ->
  (length (PointerDefs.print_lu index) + 1 <= length buf)%nat ->
  sprintf_lu (CAt B 0) index h =
  Ret (tt, wrB h B (PointerDefs.print_lu index ++ 0 :: drop (length (PointerDefs.print_lu index) + 1) buf)).
Proof. exact run_sprintf_lu. Qed.
(** "%lu" of a size_t has at most 20 digits — the "+ 20" of [strlen(path) + 20 + sizeof("/")] *)
Theorem C17_heap_print_lu_length : forall n, 0 <= n <= PointerDefs.SIZE_MAX -> (length (PointerDefs.print_lu n) <= 20)%nat.
Proof. exact print_lu_length. Qed.
Print Assumptions C17_heap_print_lu_length.

(** non-vacuity: the member name "k/~" (block 109 of [gx_heap]) — length, encoding into a fresh 6-byte block, and the
    two overflows (a 5-byte block; offset 1 of the 6-byte block), run by [vm_compute]; the hypotheses of
    [C17_heap_encode_string_as_pointer] hold on that heap *)
Theorem C17_heap_stage1_example_runs :
  out_val (pointer_encoded_length (CAt 109 0) gx_heap) = Some (PointerDefs.pointer_encoded_length gx_key) /\
  PointerDefs.pointer_encoded_length gx_key = 5%nat /\
  out_val ((encode_string_as_pointer (CAt 1000 0) (CAt 109 0) ;;; ld_str (Some 1000%positive)) gx_h1) =
    Some (PointerDefs.encode_string_as_pointer gx_key ++ [0]) /\
  PointerDefs.encode_string_as_pointer gx_key = [107; 126; 49; 126; 48] /\
  out_err (encode_string_as_pointer (CAt 1000 0) (CAt 109 0) (alloc_str gx_heap (repeat junk 5))) = Some OutOfBounds /\
  out_err (encode_string_as_pointer (CAt 1000 1) (CAt 109 0) gx_h1) = Some OutOfBounds.
Proof. exact gx_stage1_runs. Qed.
Theorem C17_heap_stage1_nonvacuous :
  1000%positive ∈ h_live gx_h1 /\ h_own gx_h1 !! 1000%positive = Some Lib /\ h_str gx_h1 !! 1000%positive = Some (repeat junk 6) /\
  CsReads gx_h1 (CAt 109 0) gx_key /\ (forall o, CAt 109 0 <> CAt 1000 o) /\
  (0 + length (PointerDefs.encode_string_as_pointer gx_key) + 1 <= length (repeat junk 6))%nat.
Proof. exact gx_stage1_hypotheses. Qed.
Print Assumptions C17_heap_stage1_nonvacuous.

(** ------------------------------------------------------------------ 2. the frame rule, compose_patch *)

(** [Step V h F h' F']: (leak) every live library block of [h'] is owned by [F'] or was live in [h] and outside [F];
    (out) every live block of [h] outside [F] — temporaries, borrowed memory — is still live with the same owner tag and
    size and, unless it is one of the volatile blocks [V], the same contents; (new) whatever [F'] owns was owned by [F] or
    is newer than [h]; (keep) a block owned before and after keeps its contents; identities only grow *)
Theorem C17_heap_step_is : forall V h F h' F',
  Step V h F h' F' <->
  (forall b, b ∈ lib_live h' -> b ∈ owned F' \/ (b ∈ lib_live h /\ b ∉ owned F)) /\
  (forall b, b ∈ h_live h -> b ∉ owned F ->
     b ∈ h_live h' /\ h_own h' !! b = h_own h !! b /\
     (forall s : bytes, h_str h !! b = Some s ->
        exists s' : bytes, h_str h' !! b = Some s' /\ length s' = length s /\ (b ∉ V -> s' = s))) /\
  (forall b, b ∈ owned F' -> b ∈ owned F \/ (h_next h <= b)%positive) /\
  (forall b, b ∈ owned F -> b ∈ owned F' -> h_str h' !! b = h_str h !! b) /\
  (h_next h <= h_next h')%positive.
Proof.
  exact (fun V h F h' F' =>
    conj (fun S => conj (sp_leak _ _ _ _ _ S) (conj (sp_out _ _ _ _ _ S) (conj (sp_new _ _ _ _ _ S) (conj (sp_keep _ _ _ _ _ S) (sp_next _ _ _ _ _ S)))))
         (fun H => mkStep _ _ _ _ _ (proj1 H) (proj1 (proj2 H)) (proj1 (proj2 (proj2 H))) (proj1 (proj2 (proj2 (proj2 H)))) (proj2 (proj2 (proj2 (proj2 H)))))).
Qed.
(** steps compose, and the ledger statement [NoLeak] of C07 transfers across a step *)
Theorem C17_heap_step_trans : forall V h F h1 F1 h2 F2,
  MInv h F -> Step V h F h1 F1 -> Step V h1 F1 h2 F2 -> Step V h F h2 F2.
Proof. exact Step_trans. Qed.
Theorem C17_heap_step_noleak : forall V h F h' F', Step V h F h' F' -> NoLeak h F -> NoLeak h' F'.
Proof. exact Step_NoLeak. Qed.
Print Assumptions C17_heap_step_noleak.

(** [cs_good A F c]: the string argument [c] is a literal, NULL, a block owned by the part [A] of the forest that
    the call does not touch (the name of a member of an operand), or a block outside the forest (a temporary) *)
Theorem C17_heap_cs_good_is : forall A F c,
  cs_good A F c <-> (forall b off, c = CAt b off -> b ∈ owned A \/ b ∉ owned F).
Proof. exact (fun A F c => conj (fun H => H) (fun H => H)). Qed.

(** STAGE 2.  [compose_patch(patches, operation, path, suffix, value)]: the patches array is the LAST root
    [T x d pcs]; [operation], [path] readable, [suffix] NULL ([sfx = None]) or readable; [value] NULL or a node of
    [A] nested at most CJSON_CIRCULAR_LIMIT deep; never-failing allocator.  The run returns normally; the array has
    one more element [m]; the invariant holds again; the call is a [Step] with no volatile block — in particular the
    cJSON_malloc'ed [full_path] has been released and the caller's path block is untouched —; and [m] reifies to the
    operation object of the value-level model, whatever list [ps] it is appended to. *)
Theorem C17_heap_compose_patch : forall h A x d pcs (operation path suffix : cstring) (opnm pnm : bytes) (sfx : option bytes) (value : option tree),
  MInv h (A ++ [T x d pcs]) ->
  CsReads h operation opnm -> CsReads h path pnm ->
  match sfx with None => suffix = CNull | Some s => CsReads h suffix s end ->
  cs_good A (A ++ [T x d pcs]) operation -> cs_good A (A ++ [T x d pcs]) path -> cs_good A (A ++ [T x d pcs]) suffix ->
  (forall tv, value = Some tv -> find_tree (tid tv) A = Some tv /\ (height tv <= Z.to_nat c_CJSON_CIRCULAR_LIMIT)%nat) ->
  exists h' m,
    compose_patch nofail (Some x) operation path suffix (tid <$> value) h = Ret (tt, h') /\
    MInv h' (A ++ [T x d (pcs ++ [m])]) /\
    Step [] h (A ++ [T x d pcs]) h' (A ++ [T x d (pcs ++ [m])]) /\
    forall ps, PatchDefs.compose_patch ps opnm pnm sfx (reify (h_str h) <$> value) = ps ++ [reify (h_str h') m].
Proof. exact compose_patch_sim. Qed.
Print Assumptions C17_heap_compose_patch.

(** cJSONUtils_AddPatchToArray is compose_patch without suffix *)
Theorem C17_heap_add_patch_to_array : forall oracle array operation path value,
  cJSONUtils_AddPatchToArray oracle array operation path value = compose_patch oracle array operation path CNull value.
Proof. exact (fun _ _ _ _ _ => eq_refl). Qed.

(** non-vacuity: compose_patch(arr, "add", "/a", "k/~", node 25) RUN on [gx_heap] (forest [from; to; arr], [arr] an
    empty array): the array, read back by the structural walk, holds exactly the value-level operation object
    {"op":"add","path":"/a/k~1~0","value":{"z":2,"w":[true]}}; 14 new blocks, none of the old ones released, the
    [full_path] block 1004 gone *)
Theorem C17_heap_compose_example_runs :
  out_val gx_compose_run = Some tt /\
  out_val (CoreOps.dump_node 50 (Some 50%positive) gx_compose_after) =
    Some (Some (PatchDefs.set_children PatchDefs.create_array
                  (PatchDefs.compose_patch [] PatchDefs.s_add [47; 97] (Some gx_key) (Some (reify gx_St gx_t25))), true)) /\
  length (elements (lib_live gx_compose_after ∖ lib_live gx_heap)) = 14%nat /\
  elements (lib_live gx_heap ∖ lib_live gx_compose_after) = [] /\
  forallb (fun b => bool_decide (b ∉ h_live gx_compose_after)) [1004]%positive = true.
Proof. exact gx_stage2_runs. Qed.
Theorem C17_heap_compose_example_is :
  gx_compose_run = compose_patch nofail (Some 50%positive) (CLit PatchDefs.s_add) (CLit [47; 97]) (CAt 109 0) (Some 25%positive) gx_heap /\
  gx_compose_after = out_heap gx_compose_run gx_heap /\ MInv gx_heap gx_F /\ NoLeak gx_heap gx_F /\ gx_F = gx_A ++ [gx_arr].
Proof. exact (conj eq_refl (conj eq_refl (conj gx_MInv (conj gx_NoLeak eq_refl)))). Qed.
Print Assumptions C17_heap_compose_example_is.
